(* C11 proofs *)
From Coq Require Import QArith Qround Qabs Lqa List Bool Arith Lia Setoid.
Import ListNotations.
From PV Require Import Lib.WLS BSpline.Eval BSpline.EvalProofs C11.Model.
Open Scope Q_scope.

Lemma grow_length v : length (grow v) = length v.
Proof.
  unfold grow.
  assert (H : forall (idx : list nat) (vals l : list Q), length (set_many idx vals l) = length l).
  { induction idx as [|i idx IH]; intros vals l; [reflexivity|]. destruct vals as [|a vals]; [reflexivity|].
    cbn [set_many]. rewrite IH. clear. revert i. induction l as [|b l IHl]; intros [|i]; cbn; auto. }
  rewrite !H. reflexivity.
Qed.

(* ------------------------------------------------------------------ preprocess_spectra: the de-redshifting shift
   (logshift = log10(1+z) is a parameter: the statements are algebraic identities on the grid) *)
Lemma shift_grid_length s l : length (shift_grid s l) = length l.
Proof. apply map_length. Qed.

(* a pixel at log-wavelength L is handed to the resampler at L - logshift *)
Theorem shift_grid_nth s l i : (i < length l)%nat -> nthQ (shift_grid s l) i = nthQ l i - s.
Proof.
  intro H. unfold nthQ, shift_grid.
  rewrite (nth_indep _ 0 (0 - s)) by (rewrite map_length; exact H).
  apply (map_nth (fun L => L - s)).
Qed.

Theorem preprocess_is_shifted_call shift c fits :
  preprocess_model shift c fits =
  combine1fiber_model (mkCin (shift_grid shift (c_inloglam c)) (c_flux c) (c_ivar c) (c_specnum c) (c_nspec c)
                             (c_newloglam c) (c_maxsep c) (c_k c) (c_method c) (c_isort c) (c_stacked c)) fits.
Proof. reflexivity. Qed.

Lemma Qltb_compat a a' b b' : a == a' -> b == b' -> Qltb a b = Qltb a' b'.
Proof.
  intros Ha Hb. destruct (Qltb a b) eqn:E; symmetry.
  - apply Qltb_lt. apply Qltb_lt in E. rewrite <- Ha, <- Hb. exact E.
  - apply Qltb_ge. apply Qltb_ge in E. rewrite <- Ha, <- Hb. exact E.
Qed.

Lemma Qle_bool_compat a a' b b' : a == a' -> b == b' -> Qle_bool a b = Qle_bool a' b'.
Proof.
  intros Ha Hb. destruct (Qle_bool a b) eqn:E; symmetry.
  - apply Qle_bool_iff. apply Qle_bool_iff in E. rewrite <- Ha, <- Hb. exact E.
  - destruct (Qle_bool a' b') eqn:E'; [|reflexivity]. apply Qle_bool_iff in E'.
    rewrite <- Ha, <- Hb in E'. apply Qle_bool_iff in E'. congruence.
Qed.

(* the grouping only looks at differences of wavelengths: it does not see the shift *)
Lemma gap_after_shift maxsep s w : gap_after maxsep (map (fun L => L - s) w) = gap_after maxsep w.
Proof.
  induction w as [|a w IH]; [reflexivity|].
  destruct w as [|b w]; [reflexivity|].
  cbn [map gap_after] in *. rewrite IH. f_equal. apply Qltb_compat; [reflexivity | ring].
Qed.

Theorem groups_shift_invariant maxsep s l isort :
  Forall (fun i => (i < length l)%nat) isort ->
  groups maxsep (shift_grid s l) isort = groups maxsep l isort.
Proof.
  intro H. unfold groups. f_equal.
  replace (map (nthQ (shift_grid s l)) isort) with (map (fun L => L - s) (map (nthQ l) isort)).
  - apply gap_after_shift.
  - rewrite map_map. apply map_ext_in. intros i Hi. symmetry. apply shift_grid_nth.
    rewrite Forall_forall in H. exact (H i Hi).
Qed.

Lemma Qltb_shift a b s : Qltb (a - s) (b - s) = Qltb a b.
Proof.
  destruct (Qltb a b) eqn:E.
  - apply Qltb_lt. apply Qltb_lt in E. lra.
  - apply Qltb_ge. apply Qltb_ge in E. lra.
Qed.
Lemma Qle_bool_shift a b s : Qle_bool (a - s) (b - s) = Qle_bool a b.
Proof.
  destruct (Qle_bool a b) eqn:E.
  - apply Qle_bool_iff. apply Qle_bool_iff in E. lra.
  - destruct (Qle_bool (a - s) (b - s)) eqn:E'; [|reflexivity].
    apply Qle_bool_iff in E'. assert (H : a <= b) by lra. apply Qle_bool_iff in H. congruence.
Qed.

(* np.interp is translation covariant: shifting the nodes and the evaluation point together changes nothing *)
Lemma interp_from_shift s rest : forall x0 y0 p,
  interp_from (x0 - s) y0 (map (fun q => (fst q - s, snd q)) rest) (p - s) == interp_from x0 y0 rest p.
Proof.
  induction rest as [|[x1 y1] rest IH]; intros x0 y0 p; cbn [map interp_from fst snd]; [reflexivity|].
  rewrite Qltb_shift. destruct (Qltb p x1); [|apply IH].
  assert (E1 : p - s - (x0 - s) == p - x0) by ring.
  assert (E2 : x1 - s - (x0 - s) == x1 - x0) by ring.
  rewrite E1, E2. reflexivity.
Qed.

Theorem interp_shift s pts p :
  interp (map (fun q => (fst q - s, snd q)) pts) (p - s) == interp pts p.
Proof.
  destruct pts as [|[x0 y0] rest]; cbn [map interp fst snd]; [reflexivity|].
  rewrite Qle_bool_shift. destruct (Qle_bool p x0); [reflexivity | apply interp_from_shift].
Qed.
