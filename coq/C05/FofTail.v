(* C05 -- the tail of chunks.friendsoffriends(): flattening of mapGroups, inGroup, lists, multiplicities *)
From Coq Require Import ZArith List Bool Arith Lia Relations.
Import ListNotations.
From PV Require Import C05.Model C05.Proofs C05.Renumber C05.Algo C05.Merge C05.MergeRel.

Lemma pair_eq : forall (A B : Type) (a a' : A) (b b' : B), a = a' -> b = b' -> (a, b) = (a', b').
Proof. intros; subst; reflexivity. Qed.

Definition isroot (mp : nat -> nat) (x : nat) : bool := Nat.eqb (mp x) x.
Definition nroots (mp : nat -> nat) (a : nat) : nat := length (filter (isroot mp) (seq 0 a)).
Definition rank (mp : nat -> nat) (g : nat) : nat := nroots mp (rep mp g).

Lemma nroots_S : forall mp a, nroots mp (S a) = nroots mp a + (if isroot mp a then 1 else 0).
Proof. intros. unfold nroots. rewrite seq_S, filter_app, app_length. simpl. destruct (isroot mp a); reflexivity. Qed.

Lemma nroots_mono : forall mp a b, a <= b -> nroots mp a <= nroots mp b.
Proof. induction 1; [lia|]. rewrite nroots_S. lia. Qed.

Lemma nroots_lt : forall mp a b, a < b -> mp a = a -> nroots mp a < nroots mp b.
Proof.
  intros mp a b Hab Ha. pose proof (nroots_mono mp (S a) b Hab) as H. rewrite nroots_S in H.
  unfold isroot in H. rewrite Ha, Nat.eqb_refl in H. lia.
Qed.

Lemma rank_eq_iff : forall mp, dec mp -> forall g g', rank mp g = rank mp g' <-> rep mp g = rep mp g'.
Proof.
  intros mp Hd g g'. unfold rank. split; [|intros ->; reflexivity]. intro H.
  destruct (rep_spec mp Hd g) as [R1 _]. destruct (rep_spec mp Hd g') as [R2 _].
  destruct (Nat.lt_trichotomy (rep mp g) (rep mp g')) as [Hlt|[He|Hgt]]; [|exact He|].
  - pose proof (nroots_lt mp _ _ Hlt R1). lia.
  - pose proof (nroots_lt mp _ _ Hgt R2). lia.
Qed.

Lemma rank_lt : forall mp, dec mp -> forall t g, g < t -> rank mp g < nroots mp t.
Proof.
  intros mp Hd t g Hg. unfold rank. destruct (rep_spec mp Hd g) as [R1 R2]. apply nroots_lt; [lia|exact R1].
Qed.

Definition fstep (st : (nat -> nat) * nat) (i : nat) : (nat -> nat) * nat :=
  if Nat.eqb (fst st i) i then (upd (fst st) i (snd st), S (snd st))
  else (upd (fst st) i (fst st (fst st i)), snd st).

Lemma flatten_unfold : forall t mp, flatten t mp = fold_left fstep (seq 0 t) (mp, 0).
Proof. reflexivity. Qed.

Lemma flatten_gen : forall mp t, dec mp -> forall k a mpk ng, a + k = t ->
  (forall x, x < a -> mpk x = rank mp x) -> (forall x, a <= x -> mpk x = mp x) -> ng = nroots mp a ->
  let r := fold_left fstep (seq a k) (mpk, ng) in
  (forall x, x < t -> fst r x = rank mp x) /\ snd r = nroots mp t.
Proof.
  intros mp t Hd. induction k as [|k IH]; intros a mpk ng Hak Hlo Hhi Hng r.
  - subst r. simpl. replace t with a by lia. split; [exact Hlo|exact Hng].
  - subst r. change (seq a (S k)) with (a :: seq (S a) k). cbn [fold_left].
    destruct (Nat.eqb (mp a) a) eqn:Ea.
    + assert (Hs : fstep (mpk, ng) a = (upd mpk a ng, S ng))
        by (unfold fstep; cbn [fst snd]; rewrite (Hhi a (le_n a)), Ea; reflexivity).
      rewrite Hs. clear Hs.
      apply Nat.eqb_eq in Ea. apply IH; [lia| | |].
      * intros x Hx. destruct (Nat.eq_dec x a) as [->|E].
        -- rewrite upd_same. unfold rank. rewrite (rep_root mp a Ea). exact Hng.
        -- rewrite upd_other by exact E. apply Hlo. lia.
      * intros x Hx. rewrite upd_other by lia. apply Hhi. lia.
      * rewrite nroots_S. unfold isroot. rewrite Ea, Nat.eqb_refl. lia.
    + assert (Hs : fstep (mpk, ng) a = (upd mpk a (mpk (mp a)), ng))
        by (unfold fstep; cbn [fst snd]; rewrite (Hhi a (le_n a)), Ea; reflexivity).
      rewrite Hs. clear Hs.
      apply Nat.eqb_neq in Ea. pose proof (Hd a) as Hda. apply IH; [lia| | |].
      * intros x Hx. destruct (Nat.eq_dec x a) as [->|E].
        -- rewrite upd_same. rewrite (Hlo (mp a)) by lia. unfold rank. rewrite <- (rep_step mp Hd a Ea). reflexivity.
        -- rewrite upd_other by exact E. apply Hlo. lia.
      * intros x Hx. rewrite upd_other by lia. apply Hhi. lia.
      * rewrite nroots_S. unfold isroot. apply Nat.eqb_neq in Ea. rewrite Ea. lia.
Qed.

Lemma flatten_spec : forall mp t, dec mp ->
  (forall x, x < t -> fst (flatten t mp) x = rank mp x) /\ snd (flatten t mp) = nroots mp t.
Proof.
  intros mp t Hd. rewrite flatten_unfold. apply (flatten_gen mp t Hd t 0 mp 0); auto; intros; lia.
Qed.

(* the labelling friendsoffriends returns *)
Definition fof_lab (st : mstate) (p : nat) : nat :=
  match m_in st p with Some e => rank (m_map st) e | None => 0 end.

(* fof_refines: given the merge invariant and that every point lies in some provisional group, the tail
   returns a labelling that is constant exactly on the chains of provisional groups, its true lists, and
   the number of classes *)
Lemma fof_arrs_spec : forall n pgs st, Inv pgs st -> (forall p, p < n -> covered pgs p) ->
  forall ing mult first next ng, fof_tail_arrs n st = (ing, mult, first, next, ng) ->
  (forall i, i < n -> ing i = Z.of_nat (fof_lab st i)) /\
  (forall g, g < n -> mult g = mult_of n (fof_lab st) g) /\
  (forall g, first g = first_of n (fof_lab st) g) /\
  (forall i, i < n -> next i = next_of n (fof_lab st) i) /\
  ng = nroots (m_map st) (m_n st).
Proof.
  intros n pgs st HI Hcov ing_ mult_ first_ next_ ng_ Heq. destruct HI as [I1 [[D1 [D2 D3]] [I3 I4]]].
  destruct (flatten_spec (m_map st) (m_n st) D1) as [F1 F2].
  assert (Hlt : forall p, p < n -> fof_lab st p < nroots (m_map st) (m_n st)).
  { intros p Hp. unfold fof_lab. destruct (m_in st p) as [e|] eqn:E.
    - apply rank_lt; [exact D1|eapply D3; eauto].
    - exfalso. apply (I3 p); [apply Hcov; exact Hp|exact E]. }
  unfold fof_tail_arrs in Heq. destruct (flatten (m_n st) (m_map st)) as [mpf ng] eqn:Ef. cbn [fst snd] in F1, F2.
  set (ing := fun i => match m_in st i with Some g => Z.of_nat (mpf g) | None => (-1)%Z end) in *.
  assert (Hing : forall i, i < n -> ing i = Z.of_nat (fof_lab st i)).
  { intros i Hi. unfold ing, fof_lab. destruct (m_in st i) as [e|] eqn:E.
    - rewrite F1 by (eapply D3; eauto). reflexivity.
    - exfalso. apply (I3 i); [apply Hcov; exact Hi|exact E]. }
  pose proof (build_lists_spec n (fof_lab st) n (const (-1)%Z) (const (-1)%Z) ing (le_n n) Hing) as Hb.
  destruct (build_lists (rev (seq 0 n)) ing (const (-1)%Z) (const (-1)%Z)) as [first next] eqn:Eb.
  destruct Hb as [Hf Hn].
  { intro g. rewrite Nat.sub_diag. reflexivity. }
  { intros i Hi. lia. }
  cbn [fst snd] in Hf, Hn. subst ng. inversion Heq; subst ing_ mult_ first_ next_ ng_. clear Heq.
  split; [exact Hing|]. split; [|split; [exact Hf|split; [exact Hn|reflexivity]]].
  intros g Hg. unfold mult_loop.
  destruct (g <? nroots (m_map st) (m_n st)) eqn:Eg.
  - rewrite Hf. unfold first_of, mult_of, members.
    rewrite (count_walk_filter n (fof_lab st) next Hn g n 0 (S n) 0%Z) by lia. reflexivity.
  - apply Nat.ltb_ge in Eg. symmetry.
    apply (beyond_groups n (fof_lab st) (nroots (m_map st) (m_n st)) g Hlt Eg).
Qed.

Lemma fof_lab_spec : forall n pgs st, Inv pgs st -> (forall p, p < n -> covered pgs p) ->
  (forall p q, p < n -> q < n -> (fof_lab st p = fof_lab st q <-> U pgs p q)) /\
  (forall p, p < n -> fof_lab st p < nroots (m_map st) (m_n st)).
Proof.
  intros n pgs st HI Hcov. destruct HI as [I1 [[D1 [D2 D3]] [I3 I4]]]. split.
  - intros p q Hp Hq. unfold fof_lab.
    destruct (m_in st p) as [e|] eqn:Ep; [|exfalso; apply (I3 p); [apply Hcov; exact Hp|exact Ep]].
    destruct (m_in st q) as [e'|] eqn:Eq; [|exfalso; apply (I3 q); [apply Hcov; exact Hq|exact Eq]].
    rewrite (rank_eq_iff _ D1). apply I4; assumption.
  - intros p Hp. unfold fof_lab. destruct (m_in st p) as [e|] eqn:E.
    + apply rank_lt; [exact D1|eapply D3; eauto].
    + exfalso. apply (I3 p); [apply Hcov; exact Hp|exact E].
Qed.

Theorem fof_refines : forall n pgs st, Inv pgs st -> (forall p, p < n -> covered pgs p) ->
  fof_tail_model n st =
    (map (fun p => Z.of_nat (fof_lab st p)) (seq 0 n),
     fst (fst (lists_of n (fof_lab st))), snd (fst (lists_of n (fof_lab st))), snd (lists_of n (fof_lab st)),
     Z.of_nat (nroots (m_map st) (m_n st))) /\
  (forall p q, p < n -> q < n -> (fof_lab st p = fof_lab st q <-> U pgs p q)).
Proof.
  intros n pgs st HI Hcov. split; [|apply (fof_lab_spec n pgs st HI Hcov)].
  pose proof (fof_arrs_spec n pgs st HI Hcov) as H. unfold fof_tail_model.
  destruct (fof_tail_arrs n st) as [[[[ing mult] first] next] ng].
  destruct (H ing mult first next ng eq_refl) as [H1 [H2 [H3 [H4 H5]]]]. subst ng. unfold lists_of, tolist. cbn [fst snd].
  apply pair_eq; [apply pair_eq; [apply pair_eq; [apply pair_eq|]|]|reflexivity].
  - apply map_ext_in. intros x Hx. apply in_seq in Hx. apply H1. lia.
  - apply map_ext_in. intros x Hx. apply in_seq in Hx. apply H2. lia.
  - apply map_ext_in. intros x Hx. apply H3.
  - apply map_ext_in. intros x Hx. apply in_seq in Hx. apply H4. lia.
Qed.
