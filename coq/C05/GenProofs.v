(* C05 -- the statements GENERATED from class groups / chunks.friendsoffriends / spheregroup (Generated/Groups.v,
   rewritten on every run by translate/c05.py) are the reference transliteration (C05/GenRef.v), and the reference
   statements do what the hand-written models of C05/Algo.v and C05/Model.v do. *)
From Coq Require Import ZArith String List Bool Arith Lia.
Import ListNotations.
From PV Require Import C05.Model C05.Algo C05.Imp C05.GenRef Generated.Groups.
Open Scope string_scope. Open Scope Z_scope.

(* every extracted piece is, syntactically, the reference piece *)
Theorem generated_is_reference :
  groups_recognised = true /\
  gen_fof_groups_from = ref_fof_groups_from /\
  gen_fof_groups_to = ref_fof_groups_to /\
  gen_fof_groups_step = ref_fof_groups_step /\
  gen_fof_min_init = ref_fof_min_init /\
  gen_fof_walk_continue = ref_fof_walk_continue /\
  gen_fof_pass1_body = ref_fof_pass1_body /\
  gen_fof_is_new = ref_fof_is_new /\
  gen_fof_new_root = ref_fof_new_root /\
  gen_fof_link_root = ref_fof_link_root /\
  gen_fof_pass2_body = ref_fof_pass2_body /\
  gen_fof_flat_from = ref_fof_flat_from /\
  gen_fof_flat_to = ref_fof_flat_to /\
  gen_fof_flat_step = ref_fof_flat_step /\
  gen_fof_flat_body = ref_fof_flat_body /\
  gen_fof_mapin_from = ref_fof_mapin_from /\
  gen_fof_mapin_to = ref_fof_mapin_to /\
  gen_fof_mapin_step = ref_fof_mapin_step /\
  gen_fof_mapin_body = ref_fof_mapin_body /\
  gen_fof_build_from = ref_fof_build_from /\
  gen_fof_build_to = ref_fof_build_to /\
  gen_fof_build_step = ref_fof_build_step /\
  gen_fof_build_body = ref_fof_build_body /\
  gen_fof_mult_from = ref_fof_mult_from /\
  gen_fof_mult_to = ref_fof_mult_to /\
  gen_fof_mult_step = ref_fof_mult_step /\
  gen_fof_mult_body = ref_fof_mult_body /\
  gen_fof_fill_inGroup = ref_fof_fill_inGroup /\
  gen_fof_fill_mapGroups = ref_fof_fill_mapGroups /\
  gen_fof_fill_firstGroup = ref_fof_fill_firstGroup /\
  gen_fof_fill_nextGroup = ref_fof_fill_nextGroup /\
  gen_fof_fill_multGroup = ref_fof_fill_multGroup /\
  gen_groups_main_from = ref_groups_main_from /\
  gen_groups_main_to = ref_groups_main_to /\
  gen_groups_main_step = ref_groups_main_step /\
  gen_groups_partner_from = ref_groups_partner_from /\
  gen_groups_partner_to = ref_groups_partner_to /\
  gen_groups_partner_step = ref_groups_partner_step /\
  gen_groups_link = ref_groups_link /\
  gen_groups_partner_body = ref_groups_partner_body /\
  gen_groups_min_init = ref_groups_min_init /\
  gen_groups_relabel_from = ref_groups_relabel_from /\
  gen_groups_relabel_to = ref_groups_relabel_to /\
  gen_groups_relabel_step = ref_groups_relabel_step /\
  gen_groups_relabel_body = ref_groups_relabel_body /\
  gen_groups_newgroup = ref_groups_newgroup /\
  gen_groups_reset_from = ref_groups_reset_from /\
  gen_groups_reset_to = ref_groups_reset_to /\
  gen_groups_reset_step = ref_groups_reset_step /\
  gen_groups_reset_body = ref_groups_reset_body /\
  gen_groups_rebuild_from = ref_groups_rebuild_from /\
  gen_groups_rebuild_to = ref_groups_rebuild_to /\
  gen_groups_rebuild_step = ref_groups_rebuild_step /\
  gen_groups_rebuild_body = ref_groups_rebuild_body /\
  gen_groups_renum_from = ref_groups_renum_from /\
  gen_groups_renum_to = ref_groups_renum_to /\
  gen_groups_renum_step = ref_groups_renum_step /\
  gen_groups_renum_body = ref_groups_renum_body /\
  gen_groups_build_from = ref_groups_build_from /\
  gen_groups_build_to = ref_groups_build_to /\
  gen_groups_build_step = ref_groups_build_step /\
  gen_groups_build_body = ref_groups_build_body /\
  gen_groups_mult_from = ref_groups_mult_from /\
  gen_groups_mult_to = ref_groups_mult_to /\
  gen_groups_mult_step = ref_groups_mult_step /\
  gen_groups_mult_body = ref_groups_mult_body /\
  gen_groups_fill_firstGroup = ref_groups_fill_firstGroup /\
  gen_groups_fill_nextGroup = ref_groups_fill_nextGroup /\
  gen_groups_refill_firstGroup = ref_groups_refill_firstGroup /\
  gen_sg_renum_from = ref_sg_renum_from /\
  gen_sg_renum_to = ref_sg_renum_to /\
  gen_sg_renum_step = ref_sg_renum_step /\
  gen_sg_renum_body = ref_sg_renum_body /\
  gen_sg_build_from = ref_sg_build_from /\
  gen_sg_build_to = ref_sg_build_to /\
  gen_sg_build_step = ref_sg_build_step /\
  gen_sg_build_body = ref_sg_build_body /\
  gen_sg_mult_from = ref_sg_mult_from /\
  gen_sg_mult_to = ref_sg_mult_to /\
  gen_sg_mult_step = ref_sg_mult_step /\
  gen_sg_mult_body = ref_sg_mult_body /\
  gen_sg_refill_firstgroup = ref_sg_refill_firstgroup /\
  gen_sg_refill_multgroup = ref_sg_refill_multgroup.
Proof. repeat split; reflexivity. Qed.

(* ================================================================== what the reference statements do *)
Definition zupd (a : Z -> Z) (i v : Z) : Z -> Z := fun x => if x =? i then v else a x.

(* while mapGroups[c] != c: c = mapGroups[c] *)
Fixpoint zchase (fuel : nat) (mp : Z -> Z) (c : Z) : Z :=
  match fuel with O => c | S f => if mp c =? c then c else zchase f mp (mp c) end.

(* while mapGroups[c] != c: tmp = mapGroups[c]; mapGroups[c] = m; c = tmp      (returns the map and the final c) *)
Fixpoint zcompress_loop (fuel : nat) (mp : Z -> Z) (c m : Z) : (Z -> Z) * Z :=
  match fuel with O => (mp, c) | S f => if mp c =? c then (mp, c) else zcompress_loop f (zupd mp c m) (mp c) m end.
Definition zcompress (fuel : nat) (mp : Z -> Z) (c m : Z) : Z -> Z :=
  let r := zcompress_loop fuel mp c m in zupd (fst r) (snd r) m.

(* ---- these are the nat-indexed functions of C05/Algo.v about which C05/Merge.v reasons *)
Definition lift (mp : nat -> nat) : Z -> Z := fun z => Z.of_nat (mp (Z.to_nat z)).

Lemma zchase_is_chase : forall fuel mp c, zchase fuel (lift mp) (Z.of_nat c) = Z.of_nat (chase fuel mp c).
Proof.
  induction fuel as [|f IH]; intros mp c; simpl; [reflexivity|].
  unfold lift at 1. rewrite Nat2Z.id.
  destruct (Nat.eqb (mp c) c) eqn:E.
  - apply Nat.eqb_eq in E. rewrite E, Z.eqb_refl. reflexivity.
  - apply Nat.eqb_neq in E. assert (E' : (Z.of_nat (mp c) =? Z.of_nat c) = false) by (apply Z.eqb_neq; lia).
    rewrite E'. unfold lift at 2. rewrite Nat2Z.id. apply IH.
Qed.

Lemma lift_upd : forall mp c m x, 0 <= x -> zupd (lift mp) (Z.of_nat c) (Z.of_nat m) x = lift (upd mp c m) x.
Proof.
  intros mp c m x Hx. unfold zupd, lift, upd.
  destruct (x =? Z.of_nat c) eqn:E.
  - apply Z.eqb_eq in E. subst x. rewrite Nat2Z.id, Nat.eqb_refl. reflexivity.
  - apply Z.eqb_neq in E. assert (E' : Nat.eqb (Z.to_nat x) c = false) by (apply Nat.eqb_neq; lia). rewrite E'. reflexivity.
Qed.

(* compress (S fuel) = the loop with `fuel` iterations followed by the final assignment *)
Lemma zcompress_is_compress : forall fuel mp mz c m,
  (forall x, 0 <= x -> mz x = lift mp x) ->
  forall x, 0 <= x -> zcompress fuel mz (Z.of_nat c) (Z.of_nat m) x = lift (compress (S fuel) mp c m) x.
Proof.
  induction fuel as [|f IH]; intros mp mz c m Hmz x Hx.
  - unfold zcompress. cbn [zcompress_loop fst snd compress].
    assert (Hu : zupd mz (Z.of_nat c) (Z.of_nat m) x = lift (upd mp c m) x).
    { rewrite <- lift_upd by exact Hx. unfold zupd. destruct (x =? Z.of_nat c); [reflexivity|apply Hmz; exact Hx]. }
    destruct (Nat.eqb (mp c) c); exact Hu.
  - assert (Hc : mz (Z.of_nat c) = Z.of_nat (mp c)) by (rewrite Hmz by lia; unfold lift; rewrite Nat2Z.id; reflexivity).
    change (compress (S (S f)) mp c m) with (if Nat.eqb (mp c) c then upd mp c m else compress (S f) (upd mp c m) (mp c) m).
    unfold zcompress. cbn [zcompress_loop]. rewrite Hc.
    destruct (Nat.eqb (mp c) c) eqn:E.
    + apply Nat.eqb_eq in E. rewrite E, Z.eqb_refl. cbn [fst snd].
      rewrite <- lift_upd by exact Hx. unfold zupd. destruct (x =? Z.of_nat c); [reflexivity|apply Hmz; exact Hx].
    + apply Nat.eqb_neq in E. assert (E' : (Z.of_nat (mp c) =? Z.of_nat c) = false) by (apply Z.eqb_neq; lia). rewrite E'.
      fold (zcompress f (zupd mz (Z.of_nat c) (Z.of_nat m)) (Z.of_nat (mp c)) (Z.of_nat m)).
      apply IH; [|exact Hx]. intros y Hy. rewrite <- lift_upd by exact Hy. unfold zupd.
      destruct (y =? Z.of_nat c); [reflexivity|apply Hmz; exact Hy].
Qed.

(* ---- the chase loop as a statement *)
Definition chase_stmt (fuel : nat) : stmt :=
  while fuel (fun s => negb (rd s "mapGroups" (sv s "checkEarly") =? sv s "checkEarly"))
             (assign "checkEarly" (fun s => rd s "mapGroups" (sv s "checkEarly"))).

Lemma chase_stmt_spec : forall fuel s,
  sv (chase_stmt fuel s) "checkEarly" = zchase fuel (rd s "mapGroups") (sv s "checkEarly") /\
  (forall y, y <> "checkEarly" -> sv (chase_stmt fuel s) y = sv s y) /\
  (forall a x, rd (chase_stmt fuel s) a x = rd s a x).
Proof.
  unfold chase_stmt. induction fuel as [|f IH]; intro s; cbn [while zchase]; [repeat split; reflexivity|].
  destruct (rd s "mapGroups" (sv s "checkEarly") =? sv s "checkEarly"); cbn [negb]; [repeat split; reflexivity|].
  destruct (IH (assign "checkEarly" (fun s0 => rd s0 "mapGroups" (sv s0 "checkEarly")) s)) as [I1 [I2 I3]].
  split; [rewrite I1; unfold assign; rewrite sv_setv_same; reflexivity|]. split.
  - intros y Hy. rewrite I2 by exact Hy. unfold assign. apply sv_setv_other. exact Hy.
  - intros a x. rewrite I3. reflexivity.
Qed.

(* first member walk of friendsoffriends, one member p = cell[l] (cf. Algo.pass1 / Merge.p1step):
   numbered already -> minEarly = min(minEarly, root of its number);  else inGroup[p] = nMapGroups;  then l = next[l] *)
Theorem ref_fof_pass1_spec : forall fuel s,
  let p := rd s "cell" (sv s "l") in
  let s' := ref_fof_pass1_body fuel s in
  sv s' "l" = rd s "cg_next" (sv s "l") /\
  (forall x, rd s' "mapGroups" x = rd s "mapGroups" x) /\
  (rd s "inGroup" p <> -1 ->
     sv s' "minEarly" = Z.min (sv s "minEarly") (zchase fuel (rd s "mapGroups") (rd s "inGroup" p)) /\
     (forall x, rd s' "inGroup" x = rd s "inGroup" x)) /\
  (rd s "inGroup" p = -1 ->
     sv s' "minEarly" = sv s "minEarly" /\ (forall x, rd s' "inGroup" x = zupd (rd s "inGroup") p (sv s "nMapGroups") x)).
Proof.
  intros fuel s p s'. subst s' p. unfold ref_fof_pass1_body. fold (chase_stmt fuel).
  unfold sq, ifte, assign, aassign. cbv beta.
  destruct (rd s "inGroup" (rd s "cell" (sv s "l")) =? -1) eqn:E; cbn [negb].
  - apply Z.eqb_eq in E. imp. split; [reflexivity|]. split; [intro x; reflexivity|]. split; [intro H; contradiction|].
    intros _. split; [reflexivity|]. intro x. unfold zupd. imp. destruct (x =? rd s "cell" (sv s "l")); reflexivity.
  - apply Z.eqb_neq in E.
    set (st0 := setv s "checkEarly" (rd s "inGroup" (rd s "cell" (sv s "l")))).
    destruct (chase_stmt_spec fuel st0) as [W1 [W2 W3]].
    imp.
    assert (A1 : forall a x, rd (chase_stmt fuel st0) a x = rd s a x) by (intros a x; rewrite W3; reflexivity).
    assert (A2 : forall y, y <> "checkEarly" -> sv (chase_stmt fuel st0) y = sv s y).
    { intros y Hy. rewrite W2 by exact Hy. unfold st0. apply sv_setv_other. exact Hy. }
    assert (A3 : sv (chase_stmt fuel st0) "checkEarly" = zchase fuel (rd s "mapGroups") (rd s "inGroup" (rd s "cell" (sv s "l")))).
    { rewrite W1. unfold st0. rewrite sv_setv_same. reflexivity. }
    split; [rewrite A1, A2 by discriminate; reflexivity|].
    split; [intro x; rewrite !rd_setv, A1; reflexivity|].
    split; [|intro H; contradiction].
    intros _. split; [rewrite A2, A3 by discriminate; reflexivity|]. intro x. rewrite !rd_setv, A1. reflexivity.
Qed.

(* ---- the path-compression loop as a statement *)
Definition compress_stmt (fuel : nat) : stmt :=
  while fuel (fun s => negb (rd s "mapGroups" (sv s "checkEarly") =? sv s "checkEarly"))
        (sq (assign "tmpEarly" (fun s => rd s "mapGroups" (sv s "checkEarly")))
            (sq (aassign "mapGroups" (fun s => sv s "checkEarly") (fun s => sv s "minEarly"))
                (assign "checkEarly" (fun s => sv s "tmpEarly")))).

Lemma compress_stmt_spec : forall fuel s,
  let r := zcompress_loop fuel (rd s "mapGroups") (sv s "checkEarly") (sv s "minEarly") in
  (forall x, rd (compress_stmt fuel s) "mapGroups" x = fst r x) /\
  sv (compress_stmt fuel s) "checkEarly" = snd r /\
  (forall y, y <> "checkEarly" -> y <> "tmpEarly" -> sv (compress_stmt fuel s) y = sv s y) /\
  (forall a x, a <> "mapGroups" -> rd (compress_stmt fuel s) a x = rd s a x).
Proof.
  unfold compress_stmt. induction fuel as [|f IH]; intro s; cbn [while zcompress_loop]; [repeat split; reflexivity|].
  destruct (rd s "mapGroups" (sv s "checkEarly") =? sv s "checkEarly"); cbn [negb fst snd]; [repeat split; reflexivity|].
  set (s1 := sq _ _ s).
  assert (B1 : forall x, rd s1 "mapGroups" x = zupd (rd s "mapGroups") (sv s "checkEarly") (sv s "minEarly") x).
  { intro x. unfold s1, zupd. imp. reflexivity. }
  assert (B2 : sv s1 "checkEarly" = rd s "mapGroups" (sv s "checkEarly")) by (unfold s1; imp; reflexivity).
  assert (B3 : sv s1 "minEarly" = sv s "minEarly") by (unfold s1; imp; reflexivity).
  assert (B4 : forall y, y <> "checkEarly" -> y <> "tmpEarly" -> sv s1 y = sv s y).
  { intros y H1 H2. unfold s1, sq, assign, aassign. rewrite sv_setv_other by exact H1. rewrite sv_seta.
    rewrite sv_setv_other by exact H2. reflexivity. }
  assert (B5 : forall a x, a <> "mapGroups" -> rd s1 a x = rd s a x).
  { intros a x H. unfold s1, sq, assign, aassign. rewrite rd_setv, rd_seta. apply String.eqb_neq in H. rewrite H. reflexivity. }
  destruct (IH s1) as [I1 [I2 [I3 I4]]]. cbv zeta in *. rewrite B2, B3 in *.
  assert (Hext : forall k mp mp' c m, (forall x, mp x = mp' x) ->
            (forall x, fst (zcompress_loop k mp c m) x = fst (zcompress_loop k mp' c m) x) /\
            snd (zcompress_loop k mp c m) = snd (zcompress_loop k mp' c m)).
  { induction k as [|f0 IH0]; intros mp mp' c m He; cbn [zcompress_loop]; [split; [exact He|reflexivity]|].
    rewrite <- He. destruct (mp c =? c); [split; [exact He|reflexivity]|].
    apply IH0. intro x. unfold zupd. rewrite He. reflexivity. }
  destruct (Hext f (rd s1 "mapGroups") (zupd (rd s "mapGroups") (sv s "checkEarly") (sv s "minEarly"))
                 (rd s "mapGroups" (sv s "checkEarly")) (sv s "minEarly") B1) as [E1 E2].
  split; [intro x; rewrite I1; apply E1|]. split; [rewrite I2; exact E2|]. split.
  - intros y H1 H2. rewrite I3 by assumption. apply B4; assumption.
  - intros a x H. rewrite I4 by exact H. apply B5. exact H.
Qed.

(* second member walk, one member p = cell[l] (cf. Algo.pass2 / compress): path compression from inGroup[p] towards
   minEarly, then l = next[l] *)
Theorem ref_fof_pass2_spec : forall fuel s,
  let p := rd s "cell" (sv s "l") in
  let s' := ref_fof_pass2_body fuel s in
  sv s' "l" = rd s "cg_next" (sv s "l") /\
  sv s' "minEarly" = sv s "minEarly" /\
  (forall x, rd s' "inGroup" x = rd s "inGroup" x) /\
  (forall x, rd s' "mapGroups" x = zcompress fuel (rd s "mapGroups") (rd s "inGroup" p) (sv s "minEarly") x).
Proof.
  intros fuel s p s'. subst s' p. unfold ref_fof_pass2_body. fold (compress_stmt fuel).
  set (st0 := setv s "checkEarly" (rd s "inGroup" (rd s "cell" (sv s "l")))).
  destruct (compress_stmt_spec fuel st0) as [W1 [W2 [W3 W4]]]. cbv zeta in *.
  unfold sq, assign, aassign. cbv beta. fold st0.
  set (st1 := compress_stmt fuel st0) in *.
  assert (C0 : sv st0 "checkEarly" = rd s "inGroup" (rd s "cell" (sv s "l"))) by (unfold st0; apply sv_setv_same).
  assert (C1 : sv st0 "minEarly" = sv s "minEarly") by (unfold st0; apply sv_setv_other; discriminate).
  assert (C2 : sv st0 "l" = sv s "l") by (unfold st0; apply sv_setv_other; discriminate).
  rewrite C0, C1 in *.
  imp. split; [rewrite W4, W3 by discriminate; rewrite C2; reflexivity|].
  split; [rewrite W3 by discriminate; exact C1|].
  split; [intro x; imp; rewrite W4 by discriminate; reflexivity|].
  intro x. imp. unfold zcompress, zupd. cbn [fst snd]. rewrite W2, W3 by discriminate. rewrite C1.
  change (rd st0 "mapGroups") with (rd s "mapGroups") in *.
  destruct (x =? snd (zcompress_loop fuel (rd s "mapGroups") (rd s "inGroup" (rd s "cell" (sv s "l"))) (sv s "minEarly")));
    [reflexivity|apply W1].
Qed.

(* ---- flattening pass, one index i (cf. Algo.flatten / FofTail.fstep): a root gets the next group number, any other
   entry the (already final) number of its parent *)
Theorem ref_fof_flat_spec : forall s, rd s "mapGroups" (sv s "i") <> -1 ->
  let i := sv s "i" in
  let s' := ref_fof_flat_body s in
  (rd s "mapGroups" i = i ->
     (forall x, rd s' "mapGroups" x = zupd (rd s "mapGroups") i (sv s "nGroups") x) /\ sv s' "nGroups" = sv s "nGroups" + 1) /\
  (rd s "mapGroups" i <> i ->
     (forall x, rd s' "mapGroups" x = zupd (rd s "mapGroups") i (rd s "mapGroups" (rd s "mapGroups" i)) x) /\
     sv s' "nGroups" = sv s "nGroups").
Proof.
  intros s Hne i s'. subst i s'. unfold ref_fof_flat_body, ifte.
  assert (E0 : (rd s "mapGroups" (sv s "i") =? -1) = false) by (apply Z.eqb_neq; exact Hne). rewrite E0. cbn [negb].
  destruct (rd s "mapGroups" (sv s "i") =? sv s "i") eqn:E.
  - apply Z.eqb_eq in E. split; [|intro H; contradiction]. intros _. imp. split; [|reflexivity].
    intro x. unfold zupd. imp. reflexivity.
  - apply Z.eqb_neq in E. split; [intro H; contradiction|]. intros _. imp. split; [|reflexivity].
    intro x. unfold zupd. imp. reflexivity.
Qed.

Theorem ref_fof_mapin_spec : forall s x,
  rd (ref_fof_mapin_body s) "inGroup" x = zupd (rd s "inGroup") (sv s "i") (rd s "mapGroups" (rd s "inGroup" (sv s "i"))) x.
Proof. intros. unfold ref_fof_mapin_body, zupd. imp. reflexivity. Qed.

(* ---- list building, one index i (cf. Model.build_lists): next[i] = first[label i], THEN first[label i] = i *)
Theorem ref_build_spec :
  (forall s x, rd (ref_fof_build_body s) "nextGroup" x = zupd (rd s "nextGroup") (sv s "i") (rd s "firstGroup" (rd s "inGroup" (sv s "i"))) x /\
               rd (ref_fof_build_body s) "firstGroup" x = zupd (rd s "firstGroup") (rd s "inGroup" (sv s "i")) (sv s "i") x) /\
  (forall s x, rd (ref_groups_build_body s) "nextGroup" x = zupd (rd s "nextGroup") (sv s "i") (rd s "firstGroup" (rd s "inGroup" (sv s "i"))) x /\
               rd (ref_groups_build_body s) "firstGroup" x = zupd (rd s "firstGroup") (rd s "inGroup" (sv s "i")) (sv s "i") x) /\
  (forall s x, rd (ref_groups_rebuild_body s) "nextGroup" x = zupd (rd s "nextGroup") (sv s "j") (rd s "firstGroup" (rd s "inGroup" (sv s "j"))) x /\
               rd (ref_groups_rebuild_body s) "firstGroup" x = zupd (rd s "firstGroup") (rd s "inGroup" (sv s "j")) (sv s "j") x) /\
  (forall s x, rd (ref_sg_build_body s) "nextgroup" x = zupd (rd s "nextgroup") (sv s "i") (rd s "firstgroup" (rd s "ingroup" (sv s "i"))) x /\
               rd (ref_sg_build_body s) "firstgroup" x = zupd (rd s "firstgroup") (rd s "ingroup" (sv s "i")) (sv s "i") x).
Proof.
  repeat split; intros; unfold ref_fof_build_body, ref_groups_build_body, ref_groups_rebuild_body, ref_sg_build_body, zupd; imp; reflexivity.
Qed.

(* ---- loop headers: bounds and direction (cf. the `seq` / `rev (seq ..)` lists the models fold over) and fill values *)
Theorem ref_headers : forall s,
  (* friendsoffriends *)
  (ref_fof_groups_from s = 0 /\ ref_fof_groups_to s = sv s "cg_nGroups" /\ ref_fof_groups_step s = 1) /\
  (ref_fof_flat_from s = 0 /\ ref_fof_flat_to s = sv s "nMapGroups" /\ ref_fof_flat_step s = 1) /\
  (ref_fof_mapin_from s = 0 /\ ref_fof_mapin_to s = sv s "nPoints" /\ ref_fof_mapin_step s = 1) /\
  (ref_fof_build_from s = sv s "nPoints" - 1 /\ ref_fof_build_to s = -1 /\ ref_fof_build_step s = -1) /\
  (ref_fof_mult_from s = 0 /\ ref_fof_mult_to s = sv s "nGroups" /\ ref_fof_mult_step s = 1) /\
  (* class groups *)
  (ref_groups_main_from s = 0 /\ ref_groups_main_to s = sv s "nTargets" /\ ref_groups_main_step s = 1) /\
  (ref_groups_partner_from s = 0 /\ ref_groups_partner_to s = sv s "nTargets" /\ ref_groups_partner_step s = 1) /\
  (ref_groups_relabel_from s = 0 /\ ref_groups_relabel_to s = sv s "nTmp" /\ ref_groups_relabel_step s = 1) /\
  (ref_groups_reset_from s = 0 /\ ref_groups_reset_to s = sv s "i" + 1 /\ ref_groups_reset_step s = 1) /\
  (ref_groups_rebuild_from s = sv s "i" /\ ref_groups_rebuild_to s = -1 /\ ref_groups_rebuild_step s = -1) /\
  (ref_groups_renum_from s = 0 /\ ref_groups_renum_to s = sv s "nTargets" /\ ref_groups_renum_step s = 1) /\
  (ref_groups_build_from s = sv s "nTargets" - 1 /\ ref_groups_build_to s = -1 /\ ref_groups_build_step s = -1) /\
  (ref_groups_mult_from s = 0 /\ ref_groups_mult_to s = sv s "nGroups" /\ ref_groups_mult_step s = 1) /\
  (* spheregroup tail *)
  (ref_sg_renum_from s = 0 /\ ref_sg_renum_to s = sv s "npoints" /\ ref_sg_renum_step s = 1) /\
  (ref_sg_build_from s = sv s "npoints" - 1 /\ ref_sg_build_to s = -1 /\ ref_sg_build_step s = -1) /\
  (ref_sg_mult_from s = 0 /\ ref_sg_mult_to s = sv s "ngroups" /\ ref_sg_mult_step s = 1) /\
  (* fill values *)
  (ref_fof_fill_inGroup = -1 /\ ref_fof_fill_mapGroups = -1 /\ ref_fof_fill_firstGroup = -1 /\ ref_fof_fill_nextGroup = -1 /\
   ref_fof_fill_multGroup = 0 /\ ref_groups_fill_firstGroup = -1 /\ ref_groups_fill_nextGroup = -1 /\
   ref_groups_refill_firstGroup = -1 /\ ref_sg_refill_firstgroup = -1 /\ ref_sg_refill_multgroup = 0).
Proof. intro s. repeat split; reflexivity. Qed.

(* ---- class groups: partner statement (minimum selection) and new-group test; merge: root test and root assignments *)
Theorem ref_small_steps : forall s,
  (sv (ref_groups_partner_body s) "minGroup" = Z.min (sv s "minGroup") (rd s "inGroup" (sv s "j")) /\
   sv (ref_groups_partner_body s) "nTmp" = sv s "nTmp" + 1 /\
   rd (ref_groups_partner_body s) "multGroup" (sv s "nTmp") = sv s "j") /\
  sv (ref_groups_min_init s) "minGroup" = sv s "nGroups" /\
  sv (ref_groups_newgroup s) "nGroups" = (if sv s "minGroup" =? sv s "nGroups" then sv s "nGroups" + 1 else sv s "nGroups") /\
  sv (ref_fof_min_init s) "minEarly" = 9 * sv s "nPoints" /\
  ref_fof_is_new s = (sv s "minEarly" =? 9 * sv s "nPoints") /\
  (forall x, rd (ref_fof_new_root s) "mapGroups" x = zupd (rd s "mapGroups") (sv s "nMapGroups") (sv s "nMapGroups") x) /\
  (forall x, rd (ref_fof_link_root s) "mapGroups" x = zupd (rd s "mapGroups") (sv s "nMapGroups") (sv s "minEarly") x) /\
  ref_fof_walk_continue s = negb (sv s "l" =? -1) /\
  (forall sep d, ref_groups_link sep d = QArith_base.Qle_bool sep d).
Proof.
  intro s. unfold ref_groups_partner_body, ref_groups_min_init, ref_groups_newgroup, ref_fof_min_init, ref_fof_is_new,
    ref_fof_new_root, ref_fof_link_root, ref_fof_walk_continue, ref_groups_link, zupd.
  repeat split; intros; imp; rewrite ?Z.eqb_refl; try reflexivity.
  destruct (sv s "minGroup" =? sv s "nGroups"); imp; reflexivity.
Qed.
