(* C11 round 5:
   PART A  aesthetics='damp' with the taper as an abstract function erfh (= 0.5*(1+erf)) with values in [0,1]:
           lengths, inverse variance identical to every other method (so every ivar theorem carries over),
           |damped flux| <= |flux filled by the traditional method| (hence finite, same zeros, no overshoot).
   PART B  same-grid identity when the data lie in the spline space of the fit: exact recovery of the coefficients,
           nothing rejected, the fitted spline evaluated on the same grid returns the data exactly.
           The unconditional exact identity is FALSE (witness in Props.v, by evaluation of the whole chain).
   PART C  degenerate sizes: what the model says for output grids of 0/1/2 pixels (no growth happens in smooth3 for
           fewer than 3 pixels: every pixel is an edge pixel), groups of <= 2 pixels, no fits at all. *)
From Coq Require Import QArith Qround Qabs Lqa List Bool Arith Lia Setoid Morphisms.
Import ListNotations.
From PV Require Import Lib.WLS BSpline.Eval BSpline.EvalProofs BSpline.Fit BSpline.FitProofs BSpline.Iter
  BSpline.IterProofs BSpline.CoxDeBoor BSpline.BasisProofs BSpline.KnotsProofs Generated.Combine1fiber
  C11.Model C11.Proofs C11.ProofsIvar C11.ProofsFlux C11.ProofsFit.
Open Scope Q_scope.

Local Notation Veq := (Forall2 Qeq).

(* ================================================================== PART A: damp *)
Section Damp.
Variable erfh : Q -> Q.
Hypothesis erfh_range : forall x, 0 <= erfh x /\ erfh x <= 1.

Lemma aesthetics_damp_length flux iv : length iv = length flux ->
  length (aesthetics_damp erfh flux iv) = length flux.
Proof.
  intro H. unfold aesthetics_damp. cbv zeta.
  destruct (forallb _ _); [reflexivity|]. destruct (existsb _ _); [|reflexivity].
  rewrite map_length, combine_length, seq_length, maskinterp_idx_length by (rewrite map_length; exact H).
  apply Nat.min_id.
Qed.

Lemma Qabs_mul_unit a t : 0 <= t -> t <= 1 -> Qabs (a * t) <= Qabs a.
Proof.
  intros H0 H1. rewrite Qabs_Qmult. rewrite (Qabs_pos t H0).
  pose proof (Qabs_nonneg a) as Ha. revert Ha. generalize (Qabs a). intros b Hb. nra.
Qed.

Lemma unit_if (b : bool) x : 0 <= (if b then erfh x else 1) /\ (if b then erfh x else 1) <= 1.
Proof. destruct b; [apply erfh_range | split; [discriminate | apply Qle_refl]]. Qed.

(* the damped flux is the traditionally filled flux times two factors in [0,1] *)
Theorem damp_bounded flux iv q : length iv = length flux ->
  Qabs (nthQ (aesthetics_damp erfh flux iv) q) <= Qabs (nthQ (aesthetics_model Traditional flux iv) q).
Proof.
  intro H. unfold aesthetics_damp, aesthetics_model, aesthetics_core. cbv zeta.
  destruct (forallb _ _); [apply Qle_refl|]. destruct (existsb _ _); [|apply Qle_refl].
  set (bad := map (fun v => Qeq_bool v 0) iv).
  set (base := maskinterp_idx flux bad).
  assert (Lb : length base = length flux) by (apply maskinterp_idx_length; unfold bad; rewrite map_length; exact H).
  destruct (Nat.lt_ge_cases q (length flux)) as [Hq|Hq].
  - unfold nthQ at 1.
    rewrite (nth_map_combine_in _ 0%nat 0 0) by (rewrite ?seq_length; lia).
    rewrite seq_nth by exact Hq. cbn [fst snd Nat.add]. fold (nthQ base q).
    match goal with |- Qabs (?b * ?t1 * ?t2) <= _ =>
      assert (T1 : 0 <= t1 /\ t1 <= 1) by apply unit_if;
      assert (T2 : 0 <= t2 /\ t2 <= 1) by apply unit_if;
      apply Qle_trans with (Qabs (b * t1)); [apply Qabs_mul_unit; tauto | apply Qabs_mul_unit; tauto]
    end.
  - unfold nthQ at 1. rewrite nth_overflow by (rewrite map_length, combine_length, seq_length; lia).
    apply Qabs_nonneg.
Qed.

(* the inverse variance does not depend on the cosmetic method: every ivar theorem holds for damp *)
Theorem damp_ivar_same c fits : snd (combine1fiber_damp erfh c fits) = snd (combine1fiber_model c fits).
Proof.
  unfold combine1fiber_damp, combine1fiber_model, combine1fiber_full.
  destruct (good_index c); [reflexivity|]. destruct (stages c fits). reflexivity.
Qed.

Theorem damp_lengths c fits :
  length (fst (combine1fiber_damp erfh c fits)) = length (c_newloglam c) /\
  length (snd (combine1fiber_damp erfh c fits)) = length (c_newloglam c).
Proof.
  split; [| rewrite damp_ivar_same; apply lengths].
  unfold combine1fiber_damp. destruct (good_index c); [apply map_length|].
  destruct (stages_lengths c fits) as (Hf & _ & Hi). destruct (stages c fits) as [s iv]. cbn [fst snd] in *.
  rewrite aesthetics_damp_length; [exact Hf|]. rewrite grow_length, Hi, Hf. reflexivity.
Qed.

(* damp against the traditional fill, on the whole function: pixel by pixel |newflux_damp| <= |newflux_traditional| *)
Theorem damp_le_traditional c fits q : c_method c = Traditional ->
  Qabs (nthQ (fst (combine1fiber_damp erfh c fits)) q) <= Qabs (nthQ (fst (combine1fiber_model c fits)) q).
Proof.
  intro Hm. unfold combine1fiber_damp, combine1fiber_model, combine1fiber_full.
  destruct (good_index c); [apply Qle_refl|].
  destruct (stages_lengths c fits) as (Hf & _ & Hi). destruct (stages c fits) as [s iv]. cbn [fst snd] in *.
  rewrite Hm. apply damp_bounded. rewrite grow_length, Hi, Hf. reflexivity.
Qed.
End Damp.

(* ================================================================== PART B: same grid, data in the spline space *)
Lemma dot_pad_r b r : forall c, dot (b ++ zeros r) c == dot b c.
Proof.
  induction b as [|x b IHb]; intros c.
  - cbn [app]. destruct c; [destruct (zeros r); reflexivity|]. rewrite dot_zeros_l. reflexivity.
  - destruct c as [|y c]; [reflexivity|]. cbn [app dot]. rewrite IHb. reflexivity.
Qed.
Lemma dot_design_row b r : forall off c, dot (zeros off ++ b ++ zeros r) c == dot b (skipn off c).
Proof.
  induction off as [|off IH]; intros c.
  - cbn [zeros repeat app skipn]. apply dot_pad_r.
  - destruct c as [|y c].
    + cbn [skipn]. destruct b; cbn [zeros repeat app dot]; reflexivity.
    + cbn [zeros repeat app dot skipn]. fold (zeros off). rewrite IH. ring.
Qed.

Lemma eval_at_design gb k m c x l : eval_at gb k c x l == dot (design_row gb k m x l) c.
Proof. unfold eval_at, design_row. cbv zeta. rewrite Qred_correct, dot_design_row. reflexivity. Qed.

Lemma yfit_of_design gb k c xs : Veq (yfit_of gb k c xs) (map (fun r => dot r c) (design gb k xs)).
Proof.
  unfold yfit_of, value_sorted, design. cbv zeta. rewrite map_map.
  induction (combine xs (intrv gb k xs)) as [|p l IH]; cbn [map]; constructor; [apply eval_at_design | exact IH].
Qed.

Lemma Veq_trans' (a b c : list Q) : Veq a b -> Veq b c -> Veq a c.
Proof.
  intros H. revert c. induction H as [|x y a b Hxy Hab IH]; intros c Hc; inversion Hc; subst; constructor.
  - rewrite Hxy. assumption.
  - apply IH. assumption.
Qed.
Lemma Veq_sym' (a b : list Q) : Veq a b -> Veq b a.
Proof. induction 1; constructor; [symmetry; assumption | assumption]. Qed.

Lemma map_dot_Veq rows : forall c c', Veq c c' -> Veq (map (fun r => dot r c) rows) (map (fun r => dot r c') rows).
Proof. intros c c' H. induction rows as [|r rows IH]; cbn [map]; constructor; [apply dot_Veq_r, H | exact IH]. Qed.

(* B1: one fit of data that are the values of a spline `a` of the fit's own space returns `a` *)
Theorem fit_masked_in_space gb k ds mask a coef :
  (1 <= k)%nat -> (2 * k <= length gb)%nat -> length a = (length gb - k)%nat ->
  Veq (map dy ds) (yfit_of gb k a (map dx ds)) ->
  fit_masked fit_dense gb k ds mask = Some coef -> Veq coef a.
Proof.
  intros Hk Hg La Hy H. unfold fit_masked, fit_coeff_with, fit_obs in H.
  eapply fit_exact_recovery; [ | exact La | | exact H].
  - now apply design_rows_length.
  - eapply Veq_trans'; [exact Hy | apply yfit_of_design].
Qed.

(* nothing is rejected when the fit passes through the data *)
Lemma reject_exact lower upper : forall ds yfit mask, length mask = length ds ->
  Veq yfit (map dy ds) -> reject lower upper ds yfit mask = mask.
Proof.
  induction ds as [|d ds IH]; intros yfit mask L H; destruct mask as [|m mask]; cbn [length] in L; try discriminate;
    [destruct yfit; reflexivity|].
  cbn [map] in H. inversion H as [|f y yfit' ys Hf Hr]; subst. cbn [reject]. f_equal.
  - unfold reject1, too_low, too_high.
    assert (E : dy d - f == 0) by (rewrite Hf; ring).
    assert (E1 : Qltb (dy d - f) 0 = false) by (apply Qltb_ge; rewrite E; apply Qle_refl).
    assert (E2 : Qltb 0 (dy d - f) = false) by (apply Qltb_ge; rewrite E; apply Qle_refl).
    rewrite E1, E2. cbn [andb orb negb]. apply andb_true_r.
  - apply IH; [lia | exact Hr].
Qed.

Lemma mask_eqb_refl m : mask_eqb m m = true.
Proof. unfold mask_eqb. induction m as [|b m IH]; [reflexivity|]. cbn [all2]. rewrite IH, eqb_reflx. reflexivity. Qed.

(* B2: the whole rejection loop: first pass recovers `a`, rejects nothing and stops; the fitted spline evaluated at
   the data abscissae (= resampling onto the same grid) returns the data EXACTLY *)
Theorem same_grid_identity_in_space gb k lower upper ds a fuel mask coef m :
  (1 <= k)%nat -> (2 * k <= length gb)%nat -> length a = (length gb - k)%nat -> length mask = length ds ->
  Veq (map dy ds) (yfit_of gb k a (map dx ds)) ->
  iter_loop fit_dense fuel gb k lower upper ds mask = Some (coef, m) ->
  Veq coef a /\ m = mask /\ Veq (yfit_of gb k coef (map dx ds)) (map dy ds).
Proof.
  intros Hk Hg La Lm Hy H. destruct fuel as [|f]; [discriminate|].
  rewrite iter_loop_S in H.
  destruct (fit_masked fit_dense gb k ds mask) as [c|] eqn:F; [|discriminate].
  pose proof (fit_masked_in_space gb k ds mask a c Hk Hg La Hy F) as Hc.
  assert (Hv : Veq (yfit_of gb k c (map dx ds)) (map dy ds)).
  { eapply Veq_trans'; [apply yfit_of_design|].
    eapply Veq_trans'; [apply map_dot_Veq, Hc|].
    apply Veq_sym'. eapply Veq_trans'; [exact Hy | apply yfit_of_design]. }
  rewrite (reject_exact lower upper ds _ mask Lm Hv), mask_eqb_refl in H. cbn [orb] in H.
  inversion H; subst. repeat split; assumption.
Qed.

(* B3: the unconditional exact identity is false (evaluated with the whole chain model; replayed on the real code:
   combine1fiber(arange(8.), [1,1,1,5,1,1,1,1], arange(8.), objivar=ones(8)) -> flux[3] = 3.12165511, ivar[3] = 1) *)
Definition refute_c : cin :=
  mkCin [0; 1; 2; 3; 4; 5; 6; 7] [1; 1; 1; 5; 1; 1; 1; 1] (Some [1; 1; 1; 1; 1; 1; 1; 1]) [0; 0; 0; 0; 0; 0; 0; 0]%nat 1
        [0; 1; 2; 3; 4; 5; 6; 7] 2 3 Nothing [0; 1; 2; 3; 4; 5; 6; 7]%nat false.
Theorem same_grid_exact_identity_refuted : exists c bkspace q,
  c_newloglam c = c_inloglam c /\ c_ivar c = Some (map (fun _ => 1) (c_inloglam c)) /\
  0 < nthQ (snd (combine1fiber_chain fit_dense bkspace c)) q /\
  ~ nthQ (fst (combine1fiber_chain fit_dense bkspace c)) q == nthQ (c_flux c) q.
Proof.
  exists refute_c, (6 # 5), 3%nat. split; [reflexivity|]. split; [reflexivity|].
  assert (E : combine1fiber_chain fit_dense (6 # 5) refute_c =
    ([1815025473023 # 1779697187071; 1346925684159 # 1779697187071; 3537831417651 # 1779697187071;
      5555600811979 # 1779697187071; 4599050369067 # 1779697187071; 1547284614227 # 1779697187071;
      716663143183 # 1779697187071; 2237984731563 # 1779697187071], [1; 1; 1; 1; 1; 0; 0; 0])) by (vm_compute; reflexivity).
  rewrite E. cbn [fst snd nthQ nth refute_c c_flux]. split; [reflexivity|]. intro H. discriminate H.
Qed.

(* ================================================================== PART C: degenerate sizes *)
(* fewer than 3 output pixels: smooth() leaves every pixel alone (istart = 1, iend = n-2: no interior) *)
Lemma smooth3_short v : (length v <= 2)%nat -> smooth3 v = v.
Proof.
  intro H. destruct v as [|a [|b [|c v]]]; cbn [length] in H; try lia; reflexivity.
Qed.

(* one output pixel: growth can only zero that pixel, and only when it is already zero: newivar = interpolated ivar *)
Lemma grow_one a : Forall2 Qeq (grow [a]) [a].
Proof.
  unfold grow. rewrite smooth3_short by (cbn; lia). cbn [length map seq filter nthB nth].
  destruct (c1f_bad a) eqn:E; cbn [map set_many set_nth Nat.min Nat.sub Nat.add].
  - constructor; [|constructor]. unfold c1f_bad in E. apply Qeq_bool_iff in E. symmetry. exact E.
  - constructor; [reflexivity|constructor].
Qed.

(* two output pixels: both keep their inverse variance or both lose it *)
Lemma grow_two a b : grow [a; b] = if c1f_bad a || c1f_bad b then [0; 0] else [a; b].
Proof.
  unfold grow. rewrite smooth3_short by (cbn; lia). cbn [length map seq filter nthB nth].
  destruct (c1f_bad a), (c1f_bad b); reflexivity.
Qed.

(* groups of at most two pixels are never fitted, whatever is recorded for them *)
Lemma usable_small ss f : (length ss <= 2)%nat -> usable ss f = None.
Proof. intro H. unfold usable. apply Nat.leb_le in H. rewrite H. reflexivity. Qed.

(* empty output grid: empty outputs *)
Lemma empty_grid c fits : c_newloglam c = [] -> combine1fiber_model c fits = ([], []) \/
  (length (fst (combine1fiber_model c fits)) = 0 /\ length (snd (combine1fiber_model c fits)) = 0)%nat.
Proof. intro H. right. destruct (lengths c fits) as [A B]. rewrite H in A, B. split; assumption. Qed.

Print Assumptions damp_bounded.
Print Assumptions damp_ivar_same.
Print Assumptions damp_lengths.
Print Assumptions same_grid_identity_in_space.
Print Assumptions grow_one.
Print Assumptions same_grid_exact_identity_refuted.
