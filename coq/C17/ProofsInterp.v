(* C17: djs_maskinterp1 / aesthetics.  numpy.interp over the sorted good samples (M) is linear
   interpolation between the nearest good neighbours found by exhaustive search (S); S is characterised
   declaratively (IsLeft / IsRight). *)
From Coq Require Import ZArith QArith Qabs List Bool Lia Lqa.
Import ListNotations.
From PV Require Import C17.Model C17.ProofsReject.
Open Scope Q_scope.

(* ---------------------------------------------------------------- nearest neighbours, declaratively *)

Definition IsLeft (pts : list (Q * Q)) (x : Q) (p : Q * Q) : Prop :=
  In p pts /\ fst p < x /\ forall q, In q pts -> fst q < x -> fst q <= fst p.
Definition IsRight (pts : list (Q * Q)) (x : Q) (p : Q * Q) : Prop :=
  In p pts /\ x < fst p /\ forall q, In q pts -> x < fst q -> fst p <= fst q.
Definition NoLeft (pts : list (Q * Q)) (x : Q) : Prop := forall q, In q pts -> ~ fst q < x.
Definition NoRight (pts : list (Q * Q)) (x : Q) : Prop := forall q, In q pts -> ~ x < fst q.

Lemma pick_left_spec : forall pts x,
  match pick_left pts x with Some p => IsLeft pts x p | None => NoLeft pts x end.
Proof.
  induction pts as [|p r IH]; intros x; cbn [pick_left].
  - intros q [].
  - specialize (IH x). destruct (Qltb (fst p) x) eqn:E.
    + apply Qltb_iff in E. destruct (pick_left r x) as [q|].
      * destruct IH as (I1 & I2 & I3). destruct (Qltb (fst p) (fst q)) eqn:F.
        -- apply Qltb_iff in F. split; [right; exact I1|]. split; [exact I2|].
           intros z [<-|Hz] Hlt; [lra | apply I3; assumption].
        -- apply Qltb_false_iff in F. split; [left; reflexivity|]. split; [exact E|].
           intros z [<-|Hz] Hlt; [lra | specialize (I3 z Hz Hlt); lra].
      * split; [left; reflexivity|]. split; [exact E|].
        intros z [<-|Hz] Hlt; [lra | exfalso; apply (IH z Hz Hlt)].
    + apply Qltb_false_iff in E. destruct (pick_left r x) as [q|].
      * destruct IH as (I1 & I2 & I3). split; [right; exact I1|]. split; [exact I2|].
        intros z [<-|Hz] Hlt; [lra | apply I3; assumption].
      * intros z [<-|Hz] Hlt; [lra | apply (IH z Hz Hlt)].
Qed.

Lemma pick_right_spec : forall pts x,
  match pick_right pts x with Some p => IsRight pts x p | None => NoRight pts x end.
Proof.
  induction pts as [|p r IH]; intros x; cbn [pick_right].
  - intros q [].
  - specialize (IH x). destruct (Qltb x (fst p)) eqn:E.
    + apply Qltb_iff in E. destruct (pick_right r x) as [q|].
      * destruct IH as (I1 & I2 & I3). destruct (Qltb (fst q) (fst p)) eqn:F.
        -- apply Qltb_iff in F. split; [right; exact I1|]. split; [exact I2|].
           intros z [<-|Hz] Hlt; [lra | apply I3; assumption].
        -- apply Qltb_false_iff in F. split; [left; reflexivity|]. split; [exact E|].
           intros z [<-|Hz] Hlt; [lra | specialize (I3 z Hz Hlt); lra].
      * split; [left; reflexivity|]. split; [exact E|].
        intros z [<-|Hz] Hlt; [lra | exfalso; apply (IH z Hz Hlt)].
    + apply Qltb_false_iff in E. destruct (pick_right r x) as [q|].
      * destruct IH as (I1 & I2 & I3). split; [right; exact I1|]. split; [exact I2|].
        intros z [<-|Hz] Hlt; [lra | apply I3; assumption].
      * intros z [<-|Hz] Hlt; [lra | apply (IH z Hz Hlt)].
Qed.

(* samples with pairwise different abscissae *)
Definition xinj (pts : list (Q * Q)) : Prop := forall p q, In p pts -> In q pts -> fst p == fst q -> p = q.

Lemma IsLeft_unique : forall pts x p q, xinj pts -> IsLeft pts x p -> IsLeft pts x q -> p = q.
Proof.
  intros pts x p q Hinj (P1 & P2 & P3) (Q1 & Q2 & Q3). apply Hinj; try assumption.
  specialize (P3 q Q1 Q2). specialize (Q3 p P1 P2). lra.
Qed.
Lemma IsRight_unique : forall pts x p q, xinj pts -> IsRight pts x p -> IsRight pts x q -> p = q.
Proof.
  intros pts x p q Hinj (P1 & P2 & P3) (Q1 & Q2 & Q3). apply Hinj; try assumption.
  specialize (P3 q Q1 Q2). specialize (Q3 p P1 P2). lra.
Qed.

(* the search result depends only on the SET of samples *)
Lemma pick_left_perm : forall a b x, xinj b -> (forall p, In p a <-> In p b) -> pick_left a x = pick_left b x.
Proof.
  intros a b x Hinj Hab. pose proof (pick_left_spec a x) as A. pose proof (pick_left_spec b x) as B.
  destruct (pick_left a x) as [p|], (pick_left b x) as [q|]; try reflexivity.
  - f_equal. apply (IsLeft_unique b x); try assumption.
    destruct A as (A1 & A2 & A3). split; [apply Hab, A1|]. split; [exact A2|]. intros z Hz. apply A3, Hab, Hz.
  - destruct A as (A1 & A2 & _). exfalso. apply (B p); [apply Hab, A1 | exact A2].
  - destruct B as (B1 & B2 & _). exfalso. apply (A q); [apply Hab, B1 | exact B2].
Qed.
Lemma pick_right_perm : forall a b x, xinj b -> (forall p, In p a <-> In p b) -> pick_right a x = pick_right b x.
Proof.
  intros a b x Hinj Hab. pose proof (pick_right_spec a x) as A. pose proof (pick_right_spec b x) as B.
  destruct (pick_right a x) as [p|], (pick_right b x) as [q|]; try reflexivity.
  - f_equal. apply (IsRight_unique b x); try assumption.
    destruct A as (A1 & A2 & A3). split; [apply Hab, A1|]. split; [exact A2|]. intros z Hz. apply A3, Hab, Hz.
  - destruct A as (A1 & A2 & _). exfalso. apply (B p); [apply Hab, A1 | exact A2].
  - destruct B as (B1 & B2 & _). exfalso. apply (A q); [apply Hab, B1 | exact B2].
Qed.

(* ---------------------------------------------------------------- numpy.interp on a sorted table *)

Fixpoint ssorted (l : list (Q * Q)) : Prop :=
  match l with [] => True | p :: r => (forall q, In q r -> fst p < fst q) /\ ssorted r end.

Lemma ssorted_pick_right_head : forall p r x, ssorted (p :: r) -> x < fst p -> pick_right (p :: r) x = Some p.
Proof.
  intros p r x [S1 S2] Hx. cbn [pick_right].
  replace (Qltb x (fst p)) with true by (symmetry; apply Qltb_iff, Hx).
  pose proof (pick_right_spec r x) as B. destruct (pick_right r x) as [q|]; [|reflexivity].
  destruct B as (B1 & _). specialize (S1 q B1).
  replace (Qltb (fst q) (fst p)) with false by (symmetry; apply Qltb_false_iff; lra). reflexivity.
Qed.

Lemma ssorted_pick_left_none : forall l x, (forall q, In q l -> x < fst q) -> pick_left l x = None.
Proof.
  induction l as [|p r IH]; intros x H; [reflexivity|]. cbn [pick_left].
  rewrite IH by (intros q Hq; apply H; right; exact Hq).
  replace (Qltb (fst p) x) with false; [reflexivity|].
  symmetry. apply Qltb_false_iff. specialize (H p (or_introl eq_refl)). lra.
Qed.

Lemma lin_forms : forall x0 y0 x1 y1 x, x0 < x1 ->
  (y1 - y0) / (x1 - x0) * (x - x0) + y0 == lin x0 y0 x1 y1 x.
Proof. intros. unfold lin. field. lra. Qed.

Lemma interp_from_spec : forall rest x0 y0 x yself,
  ssorted ((x0, y0) :: rest) -> x0 < x -> (forall q, In q rest -> ~ fst q == x) ->
  interp_from x0 y0 rest x == interp_spec_at ((x0, y0) :: rest) x yself.
Proof.
  induction rest as [|[x1 y1] r IH]; intros x0 y0 x yself Hs Hx Hne.
  - unfold interp_spec_at. cbn [interp_from pick_left pick_right fst].
    replace (Qltb x0 x) with true by (symmetry; apply Qltb_iff, Hx).
    replace (Qltb x x0) with false by (symmetry; apply Qltb_false_iff; lra). reflexivity.
  - cbn [interp_from]. destruct Hs as [S1 S2].
    assert (H01 : x0 < x1) by (apply (S1 (x1, y1)); left; reflexivity).
    destruct (Qltb x x1) eqn:E.
    + apply Qltb_iff in E. unfold interp_spec_at.
      assert (PL : pick_left ((x0, y0) :: (x1, y1) :: r) x = Some (x0, y0)).
      { cbn [pick_left]. change (pick_left ((x1, y1) :: r) x) with (pick_left ((x1, y1) :: r) x).
        assert (N : pick_left ((x1, y1) :: r) x = None).
        { apply ssorted_pick_left_none. intros q [<-|Hq]; [exact E|].
          destruct S2 as [S2 _]. specialize (S2 q Hq). cbn in S2. lra. }
        cbn [pick_left] in N. rewrite N. cbn [fst].
        replace (Qltb x0 x) with true by (symmetry; apply Qltb_iff, Hx). reflexivity. }
      assert (PR : pick_right ((x0, y0) :: (x1, y1) :: r) x = Some (x1, y1)).
      { pose proof (ssorted_pick_right_head (x1, y1) r x S2 E) as R.
        cbn [pick_right] in *. rewrite R. cbn [fst].
        replace (Qltb x x0) with false by (symmetry; apply Qltb_false_iff; lra). reflexivity. }
      rewrite PL, PR. apply lin_forms, H01.
    + apply Qltb_false_iff in E.
      assert (E' : x1 < x).
      { destruct (Qlt_le_dec x1 x); [assumption|]. exfalso. apply (Hne (x1, y1)); [left; reflexivity|]. cbn. lra. }
      rewrite (IH x1 y1 x yself S2 E') by (intros q Hq; apply Hne; right; exact Hq).
      unfold interp_spec_at.
      assert (PL : pick_left ((x0, y0) :: (x1, y1) :: r) x = pick_left ((x1, y1) :: r) x).
      { pose proof (pick_left_spec ((x1, y1) :: r) x) as B.
        change (pick_left ((x0, y0) :: (x1, y1) :: r) x) with
          (let b := pick_left ((x1, y1) :: r) x in
           if Qltb (fst (x0, y0)) x
           then match b with Some q => if Qltb (fst (x0, y0)) (fst q) then Some q else Some (x0, y0) | None => Some (x0, y0) end
           else b).
        cbv zeta. destruct (pick_left ((x1, y1) :: r) x) as [q|].
        - destruct B as (_ & _ & B3). specialize (B3 (x1, y1) (or_introl eq_refl) E'). cbn [fst] in *.
          replace (Qltb x0 x) with true by (symmetry; apply Qltb_iff, Hx).
          replace (Qltb x0 (fst q)) with true by (symmetry; apply Qltb_iff; lra). reflexivity.
        - exfalso. apply (B (x1, y1)); [left; reflexivity | exact E']. }
      assert (PR : pick_right ((x0, y0) :: (x1, y1) :: r) x = pick_right ((x1, y1) :: r) x).
      { change (pick_right ((x0, y0) :: (x1, y1) :: r) x) with
          (let b := pick_right ((x1, y1) :: r) x in
           if Qltb x (fst (x0, y0))
           then match b with Some q => if Qltb (fst q) (fst (x0, y0)) then Some q else Some (x0, y0) | None => Some (x0, y0) end
           else b).
        cbv zeta. cbn [fst]. replace (Qltb x x0) with false by (symmetry; apply Qltb_false_iff; lra). reflexivity. }
      rewrite PL, PR. reflexivity.
Qed.

Lemma interp_spec : forall pts x yself, ssorted pts -> pts <> [] -> (forall q, In q pts -> ~ fst q == x) ->
  interp pts x == interp_spec_at pts x yself.
Proof.
  intros [|[x0 y0] rest] x yself Hs Hne Hx; [congruence|]. cbn [interp].
  destruct (Qle_bool x x0) eqn:E.
  - apply Qle_bool_iff in E.
    assert (E' : x < x0).
    { destruct (Qlt_le_dec x x0); [assumption|]. exfalso. apply (Hx (x0, y0)); [left; reflexivity|]. cbn. lra. }
    unfold interp_spec_at. rewrite (ssorted_pick_right_head (x0, y0) rest x Hs E').
    rewrite ssorted_pick_left_none; [reflexivity|].
    intros q [<-|Hq]; [exact E'|]. destruct Hs as [S1 _]. specialize (S1 q Hq). cbn in S1. lra.
  - assert (E' : x0 < x) by (apply Qltb_iff; unfold Qltb; rewrite E; reflexivity).
    apply interp_from_spec; [exact Hs | exact E' | intros q Hq; apply Hx; right; exact Hq].
Qed.

(* ---------------------------------------------------------------- the good samples *)

Lemma good_pts_In : forall xs ys mask x y,
  In (x, y) (good_pts xs ys mask) <->
  exists k, nth_error xs k = Some x /\ nth_error ys k = Some y /\ nth_error mask k = Some false.
Proof.
  induction xs as [|x0 xs IH]; intros ys mask x y.
  - cbn. split; [tauto | intros ([|k] & H & _); discriminate].
  - destruct ys as [|y0 ys]; [cbn; split; [tauto | intros ([|k] & _ & H & _); discriminate]|].
    destruct mask as [|m0 mask]; [cbn; split; [tauto | intros ([|k] & _ & _ & H); discriminate]|].
    cbn [good_pts]. destruct m0.
    + rewrite IH. split.
      * intros (k & H). exists (S k). exact H.
      * intros ([|k] & H1 & H2 & H3); [discriminate | exists k; tauto].
    + cbn [In]. rewrite IH. split.
      * intros [E|(k & H)]; [exists O; inversion E; subst; cbn; tauto | exists (S k); exact H].
      * intros ([|k] & H1 & H2 & H3); [left; cbn in *; congruence | right; exists k; tauto].
Qed.

Lemma good_pts_fst : forall xs ys mask q, In q (good_pts xs ys mask) -> In (fst q) xs.
Proof.
  intros xs ys mask [x y] H. apply good_pts_In in H as (k & H & _). cbn. eapply nth_error_In, H.
Qed.

Fixpoint qdist (xs : list Q) : Prop :=
  match xs with [] => True | x :: r => (forall z, In z r -> ~ x == z) /\ qdist r end.
Fixpoint xdist (l : list (Q * Q)) : Prop :=
  match l with [] => True | p :: r => (forall q, In q r -> ~ fst p == fst q) /\ xdist r end.

Lemma good_pts_xdist : forall xs ys mask, qdist xs -> xdist (good_pts xs ys mask).
Proof.
  induction xs as [|x0 xs IH]; intros ys mask Hd; [exact I|].
  destruct ys as [|y0 ys]; [exact I|]. destruct mask as [|m0 mask]; [exact I|].
  destruct Hd as [D1 D2]. cbn [good_pts]. destruct m0; [apply IH, D2|].
  split; [|apply IH, D2]. intros q Hq. cbn [fst]. apply D1. eapply good_pts_fst, Hq.
Qed.

Lemma xdist_xinj : forall l, xdist l -> xinj l.
Proof.
  induction l as [|p r IH]; intros Hd a b Ha Hb E; [destruct Ha|].
  destruct Hd as [D1 D2]. destruct Ha as [<-|Ha], Hb as [<-|Hb].
  - reflexivity.
  - exfalso. apply (D1 b Hb E).
  - exfalso. apply (D1 a Ha). symmetry. exact E.
  - apply IH; assumption.
Qed.

Lemma masked_not_good : forall xs ys mask i x, qdist xs ->
  nth_error xs i = Some x -> nth_error mask i = Some true ->
  forall q, In q (good_pts xs ys mask) -> ~ fst q == x.
Proof.
  induction xs as [|x0 xs IH]; intros ys mask i x Hd Hx Hm q Hq; [destruct i; discriminate|].
  destruct ys as [|y0 ys]; [destruct Hq|]. destruct mask as [|m0 mask]; [destruct Hq|].
  destruct Hd as [D1 D2]. destruct i as [|i]; cbn in Hx, Hm.
  - injection Hx as <-. injection Hm as ->. cbn [good_pts] in Hq.
    intros E. apply (D1 (fst q)); [eapply good_pts_fst, Hq | symmetry; exact E].
  - cbn [good_pts] in Hq. destruct m0.
    + eapply IH; eassumption.
    + destruct Hq as [<-|Hq]; [|eapply IH; eassumption].
      cbn [fst]. apply D1. eapply nth_error_In, Hx.
Qed.

(* index mode: abscissae 0, 1, 2, ... *)
Lemma qnat_lt : forall a b, (a < b)%nat -> qnat a < qnat b.
Proof. intros. unfold qnat. rewrite <- Zlt_Qlt. lia. Qed.

Lemma In_index_from : forall a n z, In z (map qnat (seq a n)) -> exists k, (a <= k)%nat /\ z = qnat k.
Proof.
  intros a n z H. apply in_map_iff in H as (k & <- & H). apply in_seq in H. exists k. split; [lia | reflexivity].
Qed.

Lemma index_qdist : forall n a, qdist (map qnat (seq a n)).
Proof.
  induction n as [|n IH]; intros a; [exact I|]. cbn. split; [|apply IH].
  intros z Hz. apply In_index_from in Hz as (k & Hk & ->).
  pose proof (qnat_lt a k). intros E. assert (qnat a < qnat k) by (apply H; lia). lra.
Qed.

Lemma index_good_sorted : forall n a ys mask,
  ssorted (good_pts (map qnat (seq a n)) ys mask).
Proof.
  induction n as [|n IH]; intros a ys mask; [exact I|].
  cbn [seq map]. destruct ys as [|y0 ys]; [exact I|]. destruct mask as [|m0 mask]; [exact I|].
  cbn [good_pts]. destruct m0; [apply IH|]. split; [|apply IH].
  intros q Hq. apply good_pts_fst, In_index_from in Hq as (k & Hk & E). cbn [fst]. rewrite E. apply qnat_lt. lia.
Qed.

(* ---------------------------------------------------------------- insertion sort *)

Lemma insert_pt_In : forall p l q, In q (insert_pt p l) <-> q = p \/ In q l.
Proof.
  induction l as [|a l IH]; intros q; cbn [insert_pt].
  - cbn. split; [intros [H|[]]; left; congruence | intros [H|[]]; left; congruence].
  - destruct (Qltb (fst p) (fst a)); cbn [In]; [|rewrite IH]; split; intros H;
      repeat (destruct H as [H|H]); subst; tauto.
Qed.

Lemma insert_pt_sorted : forall p l, ssorted l -> (forall q, In q l -> ~ fst p == fst q) -> ssorted (insert_pt p l).
Proof.
  induction l as [|a l IH]; intros Hs Hne; cbn [insert_pt]; [split; [intros q []| exact I]|].
  destruct Hs as [S1 S2]. destruct (Qltb (fst p) (fst a)) eqn:E.
  - apply Qltb_iff in E. split; [|split; assumption].
    intros q [<-|Hq]; [exact E | specialize (S1 q Hq); lra].
  - apply Qltb_false_iff in E.
    assert (fst a < fst p).
    { destruct (Qlt_le_dec (fst a) (fst p)); [assumption|]. exfalso. apply (Hne a (or_introl eq_refl)). lra. }
    split; [|apply IH; [exact S2 | intros q Hq; apply Hne; right; exact Hq]].
    intros q Hq. apply insert_pt_In in Hq as [->|Hq]; [assumption | apply S1, Hq].
Qed.

Lemma sort_pts_In : forall l q, In q (sort_pts l) <-> In q l.
Proof.
  induction l as [|p l IH]; intros q; [reflexivity|]. cbn [sort_pts In]. rewrite insert_pt_In, IH.
  split; intros [H|H]; auto.
Qed.

Lemma sort_pts_sorted : forall l, xdist l -> ssorted (sort_pts l).
Proof.
  induction l as [|p l IH]; intros Hd; [exact I|]. destruct Hd as [D1 D2]. cbn [sort_pts].
  apply insert_pt_sorted; [apply IH, D2|]. intros q Hq. apply D1, sort_pts_In, Hq.
Qed.

(* ---------------------------------------------------------------- model = specification *)

Definition opt_Qeq (a b : option Q) : Prop :=
  match a, b with Some u, Some v => u == v | None, None => True | _, _ => False end.

Definition xs_of (xval : option (list Q)) (n : nat) : list Q :=
  match xval with Some xs => xs | None => index_x n end.

Definition xval_ok (xval : option (list Q)) (n : nat) : Prop :=
  match xval with Some xs => length xs = n /\ qdist xs | None => True end.

Lemma xs_of_length : forall xval n, xval_ok xval n -> length (xs_of xval n) = n.
Proof.
  intros [xs|] n H; cbn in *; [tauto|]. unfold index_x. rewrite map_length, seq_length. reflexivity.
Qed.

Lemma xs_of_qdist : forall xval n, xval_ok xval n -> qdist (xs_of xval n).
Proof. intros [xs|] n H; cbn in *; [tauto | apply index_qdist]. Qed.

Lemma triple_nth : forall (xs ys : list Q) (mask : list bool) i,
  length xs = length ys -> length mask = length ys ->
  nth_error (combine xs (combine ys mask)) i =
  match nth_error ys i with
  | Some y => match nth_error xs i, nth_error mask i with Some x, Some m => Some (x, (y, m)) | _, _ => None end
  | None => None
  end /\
  (forall y, nth_error ys i = Some y -> exists x m, nth_error xs i = Some x /\ nth_error mask i = Some m).
Proof.
  intros xs ys mask i L1 L2. rewrite !nth_error_combine_opt. split.
  - destruct (nth_error xs i), (nth_error ys i), (nth_error mask i); reflexivity.
  - intros y Hy. assert (i < length ys)%nat by (apply nth_error_Some; congruence).
    destruct (nth_error xs i) as [x|] eqn:Ex; [|apply nth_error_None in Ex; lia].
    destruct (nth_error mask i) as [m|] eqn:Em; [|apply nth_error_None in Em; lia].
    exists x, m. tauto.
Qed.

(* what S computes at sample i *)
Lemma maskinterp_spec_nth : forall ys mask xval i x y m,
  xval_ok xval (length ys) -> length mask = length ys ->
  nth_error (xs_of xval (length ys)) i = Some x -> nth_error ys i = Some y -> nth_error mask i = Some m ->
  nth_error (maskinterp1_spec ys mask xval) i =
  Some (if m then interp_spec_at (good_pts (xs_of xval (length ys)) ys mask) x y else y).
Proof.
  intros ys mask xval i x y m Hx Lm Ex Ey Em. unfold maskinterp1_spec.
  change (match xval with Some xs => xs | None => index_x (length ys) end) with (xs_of xval (length ys)).
  rewrite nth_error_map.
  destruct (triple_nth (xs_of xval (length ys)) ys mask i (xs_of_length _ _ Hx) Lm) as [T _].
  rewrite T, Ey, Ex, Em. reflexivity.
Qed.

Lemma table_ok : forall xval ys mask, xval_ok xval (length ys) ->
  let gp := good_pts (xs_of xval (length ys)) ys mask in
  let table := match xval with Some _ => sort_pts gp | None => gp end in
  ssorted table /\ (forall p, In p table <-> In p gp).
Proof.
  intros xval ys mask Hx gp table. destruct xval as [xs|]; cbn in *.
  - split; [apply sort_pts_sorted, good_pts_xdist; tauto | apply sort_pts_In].
  - split; [apply index_good_sorted | tauto].
Qed.

Theorem maskinterp_model_eq_spec : forall ys mask xval i,
  xval_ok xval (length ys) -> length mask = length ys ->
  opt_Qeq (nth_error (maskinterp1_model ys mask xval) i) (nth_error (maskinterp1_spec ys mask xval) i).
Proof.
  intros ys mask xval i Hx Lm.
  pose proof (xs_of_length _ _ Hx) as Lx. pose proof (xs_of_qdist _ _ Hx) as Dx.
  set (xs := xs_of xval (length ys)) in *. set (gp := good_pts xs ys mask).
  destruct (triple_nth xs ys mask i Lx Lm) as [_ T].
  destruct (nth_error ys i) as [y|] eqn:Ey.
  2:{ (* outside the array: both None *)
      assert (Hn : (length ys <= i)%nat) by (apply nth_error_None, Ey).
      assert (S : nth_error (maskinterp1_spec ys mask xval) i = None).
      { apply nth_error_None. unfold maskinterp1_spec. rewrite map_length, !combine_length.
        fold (xs_of xval (length ys)). fold xs. lia. }
      rewrite S. unfold maskinterp1_model.
      assert (A : forall l : list Q, length l = length ys -> nth_error l i = None) by (intros l Hl; apply nth_error_None; lia).
      destruct (forallb negb mask); [rewrite Ey; exact I|].
      fold (xs_of xval (length ys)). fold xs. fold gp.
      destruct gp as [|g [|g2 r]]; [rewrite Ey; exact I | rewrite A by apply map_length; exact I|].
      rewrite A; [exact I|]. rewrite map_length, !combine_length. lia. }
  destruct (T y eq_refl) as (x & m & Ex & Em).
  rewrite (maskinterp_spec_nth ys mask xval i x y m Hx Lm Ex Ey Em). fold xs. fold gp.
  unfold maskinterp1_model.
  destruct (forallb negb mask) eqn:EA.
  { rewrite Ey. cbn. rewrite forallb_forall in EA. specialize (EA m (nth_error_In _ _ Em)).
    destruct m; [discriminate | reflexivity]. }
  fold (xs_of xval (length ys)). fold xs. fold gp.
  assert (Hgood : m = false -> In (x, y) gp) by (intros ->; apply good_pts_In; exists i; tauto).
  assert (Hbad : m = true -> forall q, In q gp -> ~ fst q == x)
    by (intros ->; apply (masked_not_good xs ys mask i x Dx Ex Em)).
  destruct gp as [|g [|g2 r]] eqn:Eg.
  - rewrite Ey. cbn. destruct m; [reflexivity|]. destruct (Hgood eq_refl).
  - rewrite nth_error_map, Ey. cbn [option_map opt_Qeq]. destruct m.
    + specialize (Hbad eq_refl g (or_introl eq_refl)). destruct g as [gx gy]. cbn [fst snd] in *.
      unfold interp_spec_at. cbn [pick_left pick_right fst].
      destruct (Qltb gx x) eqn:E1, (Qltb x gx) eqn:E2; try reflexivity.
      * apply Qltb_iff in E1. apply Qltb_iff in E2. lra.
      * apply Qltb_false_iff in E1. apply Qltb_false_iff in E2. exfalso. apply Hbad. lra.
    + destruct (Hgood eq_refl) as [->|[]]. reflexivity.
  - destruct (table_ok xval ys mask Hx) as [TS TI]. fold xs in TS, TI. fold gp in TS, TI. rewrite Eg in TS, TI.
    set (table := match xval with Some _ => sort_pts (g :: g2 :: r) | None => g :: g2 :: r end) in *.
    rewrite nth_error_map.
    destruct (triple_nth xs ys mask i Lx Lm) as [T' _]. rewrite T', Ey, Ex, Em.
    cbn [option_map opt_Qeq fst snd]. destruct m; [|reflexivity].
    assert (XI : xinj (g :: g2 :: r)) by (rewrite <- Eg; apply xdist_xinj, good_pts_xdist, Dx).
    rewrite (interp_spec table x y TS).
    + unfold interp_spec_at. rewrite (pick_left_perm table (g :: g2 :: r) x XI TI),
        (pick_right_perm table (g :: g2 :: r) x XI TI). reflexivity.
    + intros F. assert (In g table) by (apply TI; left; reflexivity). rewrite F in H. destruct H.
    + intros q Hq. apply (Hbad eq_refl), TI, Hq.
Qed.

(* ---------------------------------------------------------------- the property's statement *)

Lemma interp_spec_at_decl : forall gp x y, xinj gp ->
  (forall pl pr, IsLeft gp x pl -> IsRight gp x pr ->
     interp_spec_at gp x y = lin (fst pl) (snd pl) (fst pr) (snd pr) x) /\
  (forall pl, IsLeft gp x pl -> NoRight gp x -> interp_spec_at gp x y = snd pl) /\
  (forall pr, NoLeft gp x -> IsRight gp x pr -> interp_spec_at gp x y = snd pr) /\
  (NoLeft gp x -> NoRight gp x -> interp_spec_at gp x y = y).
Proof.
  intros gp x y Hinj. unfold interp_spec_at.
  pose proof (pick_left_spec gp x) as A. pose proof (pick_right_spec gp x) as B.
  destruct (pick_left gp x) as [[xl yl]|], (pick_right gp x) as [[xr yr]|]; (split; [|split; [|split]]).
  - intros pl pr Hl Hr. rewrite <- (IsLeft_unique gp x _ _ Hinj A Hl), <- (IsRight_unique gp x _ _ Hinj B Hr). reflexivity.
  - intros pl _ Hn. destruct B as (B1 & B2 & _). destruct (Hn _ B1 B2).
  - intros pr Hn. destruct A as (A1 & A2 & _). destruct (Hn _ A1 A2).
  - intros Hn. destruct A as (A1 & A2 & _). destruct (Hn _ A1 A2).
  - intros pl pr _ Hr. destruct Hr as (R1 & R2 & _). destruct (B _ R1 R2).
  - intros pl Hl _. rewrite <- (IsLeft_unique gp x _ _ Hinj A Hl). reflexivity.
  - intros pr Hn. destruct A as (A1 & A2 & _). destruct (Hn _ A1 A2).
  - intros Hn. destruct A as (A1 & A2 & _). destruct (Hn _ A1 A2).
  - intros pl pr Hl _. destruct Hl as (L1 & L2 & _). destruct (A _ L1 L2).
  - intros pl Hl. destruct Hl as (L1 & L2 & _). destruct (A _ L1 L2).
  - intros pr _ Hr. rewrite <- (IsRight_unique gp x _ _ Hinj B Hr). reflexivity.
  - intros _ Hn. destruct B as (B1 & B2 & _). destruct (Hn _ B1 B2).
  - intros pl pr Hl _. destruct Hl as (L1 & L2 & _). destruct (A _ L1 L2).
  - intros pl Hl. destruct Hl as (L1 & L2 & _). destruct (A _ L1 L2).
  - intros pr _ Hr. destruct Hr as (R1 & R2 & _). destruct (B _ R1 R2).
  - reflexivity.
Qed.

(* unmasked samples are returned as they are *)
Theorem maskinterp_unmasked : forall ys mask xval i y,
  xval_ok xval (length ys) -> length mask = length ys ->
  nth_error ys i = Some y -> nth_error mask i = Some false ->
  exists v, nth_error (maskinterp1_model ys mask xval) i = Some v /\ v == y.
Proof.
  intros ys mask xval i y Hx Lm Ey Em.
  pose proof (maskinterp_model_eq_spec ys mask xval i Hx Lm) as E.
  destruct (triple_nth (xs_of xval (length ys)) ys mask i (xs_of_length _ _ Hx) Lm) as [_ T].
  destruct (T y Ey) as (x & m & Ex & Em'). rewrite Em in Em'. injection Em' as <-.
  rewrite (maskinterp_spec_nth ys mask xval i x y false Hx Lm Ex Ey Em) in E.
  destruct (nth_error (maskinterp1_model ys mask xval) i) as [v|]; [|destruct E]. exists v. split; [reflexivity | exact E].
Qed.

(* masked samples: linear interpolation between the nearest good neighbours IN X (x = sample index when
   xval is None), the nearest good value beyond the last good sample on either side, the sample itself
   when nothing is good *)
Theorem maskinterp_masked : forall ys mask xval i x y,
  xval_ok xval (length ys) -> length mask = length ys ->
  nth_error (xs_of xval (length ys)) i = Some x -> nth_error ys i = Some y -> nth_error mask i = Some true ->
  let gp := good_pts (xs_of xval (length ys)) ys mask in
  exists v, nth_error (maskinterp1_model ys mask xval) i = Some v /\
    (forall pl pr, IsLeft gp x pl -> IsRight gp x pr -> v == lin (fst pl) (snd pl) (fst pr) (snd pr) x) /\
    (forall pl, IsLeft gp x pl -> NoRight gp x -> v == snd pl) /\
    (forall pr, NoLeft gp x -> IsRight gp x pr -> v == snd pr) /\
    (NoLeft gp x -> NoRight gp x -> v == y).
Proof.
  intros ys mask xval i x y Hx Lm Ex Ey Em gp.
  pose proof (maskinterp_model_eq_spec ys mask xval i Hx Lm) as E.
  rewrite (maskinterp_spec_nth ys mask xval i x y true Hx Lm Ex Ey Em) in E. fold gp in E.
  destruct (nth_error (maskinterp1_model ys mask xval) i) as [v|]; [|destruct E]. exists v. split; [reflexivity|].
  assert (XI : xinj gp) by (apply xdist_xinj, good_pts_xdist, xs_of_qdist, Hx).
  destruct (interp_spec_at_decl gp x y XI) as (D1 & D2 & D3 & D4). cbn [opt_Qeq] in E.
  split; [|split; [|split]].
  - intros pl pr Hl Hr. rewrite E, (D1 pl pr Hl Hr). reflexivity.
  - intros pl Hl Hn. rewrite E, (D2 pl Hl Hn). reflexivity.
  - intros pr Hn Hr. rewrite E, (D3 pr Hn Hr). reflexivity.
  - intros Hl Hr. rewrite E, (D4 Hl Hr). reflexivity.
Qed.

(* ---------------------------------------------------------------- index mode, in terms of sample indices *)

Lemma index_x_nth : forall n k, nth_error (index_x n) k = if (k <? n)%nat then Some (qnat k) else None.
Proof.
  intros. unfold index_x. rewrite nth_error_map, nth_error_seq0. destruct (k <? n)%nat; reflexivity.
Qed.

Lemma qnat_lt_inv : forall a b, qnat a < qnat b -> (a < b)%nat.
Proof. intros a b H. unfold qnat in H. rewrite <- Zlt_Qlt in H. lia. Qed.
Lemma qnat_le : forall a b, (a <= b)%nat -> qnat a <= qnat b.
Proof. intros. unfold qnat. rewrite <- Zle_Qle. lia. Qed.

Lemma index_gp_In : forall ys mask xq yq, length mask = length ys ->
  (In (xq, yq) (good_pts (index_x (length ys)) ys mask) <->
   exists k, xq = qnat k /\ nth_error ys k = Some yq /\ nth_error mask k = Some false).
Proof.
  intros ys mask xq yq Lm. rewrite good_pts_In. split.
  - intros (k & H1 & H2 & H3). exists k. rewrite index_x_nth in H1.
    destruct (k <? length ys)%nat; [|discriminate]. split; [congruence | tauto].
  - intros (k & -> & H2 & H3). exists k. rewrite index_x_nth.
    assert (k < length ys)%nat by (apply nth_error_Some; congruence).
    replace (k <? length ys)%nat with true by (symmetry; apply Nat.ltb_lt; assumption). tauto.
Qed.

Section IndexMode.
  Variables (ys : list Q) (mask : list bool).
  Hypothesis Lm : length mask = length ys.
  Let gp := good_pts (index_x (length ys)) ys mask.

  Lemma index_IsLeft : forall i L yL, (L < i)%nat ->
    nth_error mask L = Some false -> nth_error ys L = Some yL ->
    (forall k, (L < k < i)%nat -> nth_error mask k = Some true) ->
    IsLeft gp (qnat i) (qnat L, yL).
  Proof.
    intros i L yL HL ML YL Hb. split; [apply index_gp_In; [exact Lm | exists L; tauto]|].
    split; [apply qnat_lt, HL|]. intros [xq yq] Hq Hlt. apply index_gp_In in Hq as (k & -> & Hk1 & Hk2); [|exact Lm].
    cbn [fst] in *. apply qnat_lt_inv in Hlt. apply qnat_le.
    destruct (Nat.le_gt_cases k L); [assumption|]. rewrite Hb in Hk2 by lia. discriminate.
  Qed.

  Lemma index_IsRight : forall i R yR, (i < R)%nat ->
    nth_error mask R = Some false -> nth_error ys R = Some yR ->
    (forall k, (i < k < R)%nat -> nth_error mask k = Some true) ->
    IsRight gp (qnat i) (qnat R, yR).
  Proof.
    intros i R yR HR MR YR Hb. split; [apply index_gp_In; [exact Lm | exists R; tauto]|].
    split; [apply qnat_lt, HR|]. intros [xq yq] Hq Hlt. apply index_gp_In in Hq as (k & -> & Hk1 & Hk2); [|exact Lm].
    cbn [fst] in *. apply qnat_lt_inv in Hlt. apply qnat_le.
    destruct (Nat.le_gt_cases R k); [assumption|]. rewrite Hb in Hk2 by lia. discriminate.
  Qed.

  Lemma index_NoLeft : forall i, (forall k, (k < i)%nat -> nth_error mask k <> Some false) -> NoLeft gp (qnat i).
  Proof.
    intros i Hb [xq yq] Hq Hlt. apply index_gp_In in Hq as (k & -> & Hk1 & Hk2); [|exact Lm].
    cbn [fst] in Hlt. apply qnat_lt_inv in Hlt. apply (Hb k Hlt Hk2).
  Qed.

  Lemma index_NoRight : forall i, (forall k, (i < k)%nat -> nth_error mask k <> Some false) -> NoRight gp (qnat i).
  Proof.
    intros i Hb [xq yq] Hq Hlt. apply index_gp_In in Hq as (k & -> & Hk1 & Hk2); [|exact Lm].
    cbn [fst] in Hlt. apply qnat_lt_inv in Hlt. apply (Hb k Hlt Hk2).
  Qed.

  Lemma index_masked_pre : forall i y, nth_error ys i = Some y ->
    nth_error (xs_of None (length ys)) i = Some (qnat i).
  Proof.
    intros i y Hy. cbn. rewrite index_x_nth.
    assert (i < length ys)%nat by (apply nth_error_Some; congruence).
    replace (i <? length ys)%nat with true by (symmetry; apply Nat.ltb_lt; assumption). reflexivity.
  Qed.

  (* masked sample between two good ones: linear interpolation between the NEAREST good neighbours *)
  Theorem maskinterp_index_between : forall i L R y yL yR, (L < i < R)%nat ->
    nth_error ys i = Some y -> nth_error mask i = Some true ->
    nth_error mask L = Some false -> nth_error ys L = Some yL ->
    nth_error mask R = Some false -> nth_error ys R = Some yR ->
    (forall k, (L < k < R)%nat -> nth_error mask k = Some true) ->
    exists v, nth_error (maskinterp1_model ys mask None) i = Some v /\
              v == yL + (yR - yL) * ((qnat i - qnat L) / (qnat R - qnat L)).
  Proof.
    intros i L R y yL yR Hi Ey Em ML YL MR YR Hb.
    destruct (maskinterp_masked ys mask None i (qnat i) y I Lm (index_masked_pre i y Ey) Ey Em) as (v & Hv & D1 & _).
    exists v. split; [exact Hv|].
    apply (D1 (qnat L, yL) (qnat R, yR)).
    - apply index_IsLeft; try assumption; [lia | intros k Hk; apply Hb; lia].
    - apply index_IsRight; try assumption; [lia | intros k Hk; apply Hb; lia].
  Qed.

  (* masked samples before the first / after the last good sample take that sample's value *)
  Theorem maskinterp_index_left_end : forall i R y yR, (i < R)%nat ->
    nth_error ys i = Some y -> nth_error mask i = Some true ->
    nth_error mask R = Some false -> nth_error ys R = Some yR ->
    (forall k, (k < R)%nat -> nth_error mask k = Some true) ->
    exists v, nth_error (maskinterp1_model ys mask None) i = Some v /\ v == yR.
  Proof.
    intros i R y yR Hi Ey Em MR YR Hb.
    destruct (maskinterp_masked ys mask None i (qnat i) y I Lm (index_masked_pre i y Ey) Ey Em) as (v & Hv & _ & _ & D3 & _).
    exists v. split; [exact Hv|]. apply (D3 (qnat R, yR)).
    - apply index_NoLeft. intros k Hk. rewrite Hb by lia. discriminate.
    - apply index_IsRight; try assumption. intros k Hk; apply Hb; lia.
  Qed.

  Theorem maskinterp_index_right_end : forall i L y yL, (L < i)%nat ->
    nth_error ys i = Some y -> nth_error mask i = Some true ->
    nth_error mask L = Some false -> nth_error ys L = Some yL ->
    (forall k, (L < k)%nat -> nth_error mask k <> Some false) ->
    exists v, nth_error (maskinterp1_model ys mask None) i = Some v /\ v == yL.
  Proof.
    intros i L y yL Hi Ey Em ML YL Hb.
    destruct (maskinterp_masked ys mask None i (qnat i) y I Lm (index_masked_pre i y Ey) Ey Em) as (v & Hv & _ & D2 & _).
    exists v. split; [exact Hv|]. apply (D2 (qnat L, yL)).
    - apply index_IsLeft; try assumption. intros k Hk.
      assert (k < length mask)%nat by (rewrite Lm; apply Nat.lt_trans with i; [lia | apply nth_error_Some; congruence]).
      destruct (nth_error mask k) as [[|]|] eqn:E; [reflexivity | destruct (Hb k (proj1 Hk) E) | apply nth_error_None in E; lia].
    - apply index_NoRight. intros k Hk. apply Hb. lia.
  Qed.

  (* exactly one good sample: its value everywhere *)
  Theorem one_good_constant : forall g yg i y,
    nth_error mask g = Some false -> nth_error ys g = Some yg ->
    (forall k, k <> g -> nth_error mask k <> Some false) ->
    nth_error ys i = Some y ->
    exists v, nth_error (maskinterp1_model ys mask None) i = Some v /\ v == yg.
  Proof.
    intros g yg i y Mg Yg Hone Ey.
    assert (Hi : (i < length mask)%nat) by (rewrite Lm; apply nth_error_Some; congruence).
    destruct (Nat.eq_dec i g) as [->|N].
    - replace yg with y by congruence. apply maskinterp_unmasked; [exact I | exact Lm | exact Ey | exact Mg].
    - assert (Em : nth_error mask i = Some true).
      { destruct (nth_error mask i) as [[|]|] eqn:E; [reflexivity | destruct (Hone i N E) | apply nth_error_None in E; lia]. }
      destruct (Nat.lt_gt_cases i g) as [H _]. destruct (H N) as [Hlt|Hgt].
      + apply (maskinterp_index_left_end i g y yg Hlt Ey Em Mg Yg).
        intros k Hk. assert (g < length mask)%nat by (apply nth_error_Some; congruence). assert (k < length mask)%nat by lia.
        destruct (nth_error mask k) as [[|]|] eqn:E; [reflexivity | destruct (Hone k ltac:(lia) E) | apply nth_error_None in E; lia].
      + apply (maskinterp_index_right_end i g y yg Hgt Ey Em Mg Yg).
        intros k Hk. apply Hone. lia.
  Qed.

  (* no good sample: the array is returned unchanged *)
  Theorem none_good_identity : forall i y,
    (forall k, nth_error mask k <> Some false) -> nth_error ys i = Some y ->
    exists v, nth_error (maskinterp1_model ys mask None) i = Some v /\ v == y.
  Proof.
    intros i y Hnone Ey.
    assert (Hi : (i < length mask)%nat) by (rewrite Lm; apply nth_error_Some; congruence).
    assert (Em : nth_error mask i = Some true).
    { destruct (nth_error mask i) as [[|]|] eqn:E; [reflexivity | destruct (Hnone i E) | apply nth_error_None in E; lia]. }
    destruct (maskinterp_masked ys mask None i (qnat i) y I Lm (index_masked_pre i y Ey) Ey Em) as (v & Hv & _ & _ & _ & D4).
    exists v. split; [exact Hv|]. apply D4.
    - apply index_NoLeft. intros k _. apply Hnone.
    - apply index_NoRight. intros k _. apply Hnone.
  Qed.
End IndexMode.

(* ---------------------------------------------------------------- aesthetics *)

Lemma Qeq_bool_false : forall v, ~ v == 0 -> Qeq_bool v 0 = false.
Proof. intros v H. destruct (Qeq_bool v 0) eqn:E; [|reflexivity]. apply Qeq_bool_iff in E. tauto. Qed.

(* the model assembled from the GENERATED pieces of aesthetics() is the hand-written reference (bridge) *)
Lemma aesthetics_generated_is_ref : forall meth flux iv, aesthetics_model meth flux iv = aesthetics_ref meth flux iv.
Proof. intros [ | | | ] flux iv; reflexivity. Qed.

Lemma forallb_id_nth : forall (l : list bool) i b, forallb (fun b : bool => b) l = true -> nth_error l i = Some b -> b = true.
Proof.
  intros l i b H E. rewrite forallb_forall in H. apply H. eapply nth_error_In, E.
Qed.

(* flux is untouched wherever the inverse variance is not zero.  For traditional / noconst / nothing this
   needs nothing else; `mean` overwrites every pixel that is not > 0, so there the pixel's inverse variance
   must not be negative. *)
Theorem aesthetics_support : forall meth flux iv i f v,
  length iv = length flux -> nth_error flux i = Some f -> nth_error iv i = Some v -> ~ v == 0 ->
  (meth = Mean -> 0 <= v) ->
  exists out, nth_error (aesthetics_model meth flux iv) i = Some out /\ out == f.
Proof.
  intros meth flux iv i f v L Ef Ev Hnz Hv. rewrite aesthetics_generated_is_ref. unfold aesthetics_ref.
  assert (Em : nth_error (map (fun v => Qeq_bool v 0) iv) i = Some false)
    by (rewrite nth_error_map, Ev; cbn; rewrite Qeq_bool_false by assumption; reflexivity).
  destruct (forallb (fun b : bool => b) (map (fun v => Qeq_bool v 0) iv)); [exists f; split; [exact Ef | reflexivity]|].
  destruct (existsb (fun b => b) (map (fun v => Qeq_bool v 0) iv)); [|exists f; split; [exact Ef | reflexivity]].
  destruct meth.
  - apply maskinterp_unmasked; [exact I | rewrite map_length; exact L | exact Ef | exact Em].
  - apply maskinterp_unmasked; [exact I | rewrite map_length; exact L | exact Ef | exact Em].
  - specialize (Hv eq_refl).
    rewrite nth_error_map, nth_error_combine_opt, Ef, nth_error_combine_opt, nth_error_map, Ev, Em. cbn [option_map fst snd].
    replace (Qltb 0 v) with true by (symmetry; apply Qltb_iff; lra). exists f. split; reflexivity.
  - exists f. split; [exact Ef | reflexivity].
Qed.

(* without the sign condition the statement is FALSE of the code for `mean`: a pixel with negative inverse
   variance is overwritten although its inverse variance is not zero (witness: flux 1 2 3 4, ivar 1 0 -1 2;
   pixel 2 becomes the mean 5/2 of the pixels with ivar > 0) *)
Theorem aesthetics_support_mean_refuted :
  exists flux iv i f v out,
    length iv = length flux /\ nth_error flux i = Some f /\ nth_error iv i = Some v /\ ~ v == 0 /\
    nth_error (aesthetics_model Mean flux iv) i = Some out /\ ~ out == f.
Proof.
  exists [1; 2; 3; 4], [1; 0; -(1); 2], 2%nat, 3, (-(1)), (5 # 2).
  repeat split; try reflexivity; intro H; vm_compute in H; discriminate.
Qed.

(* exactly where M may differ from the input: inverse variance zero, or (mean only) negative *)
Theorem aesthetics_support_exact : forall meth flux iv i f v out,
  length iv = length flux -> nth_error flux i = Some f -> nth_error iv i = Some v ->
  nth_error (aesthetics_model meth flux iv) i = Some out -> ~ out == f ->
  v == 0 \/ (meth = Mean /\ v < 0).
Proof.
  intros meth flux iv i f v out L Ef Ev Eo Hne.
  destruct (Qeq_dec v 0) as [Z|NZ]; [left; exact Z|]. right.
  assert (K : (meth = Mean -> 0 <= v) -> False).
  { intro Hv. destruct (aesthetics_support meth flux iv i f v L Ef Ev NZ Hv) as (o & Ho & Eq).
    rewrite Eo in Ho. injection Ho as <-. exact (Hne Eq). }
  destruct meth; try (exfalso; apply K; discriminate).
  split; [reflexivity|]. destruct (Qlt_le_dec v 0) as [Hn|Hp]; [exact Hn|]. exfalso. apply K. intros _. exact Hp.
Qed.

(* no pixel with non-zero inverse variance: every method returns the spectrum as it is *)
Theorem aesthetics_all_bad_identity : forall meth flux iv,
  (forall v, In v iv -> v == 0) -> aesthetics_model meth flux iv = flux.
Proof.
  intros meth flux iv H. rewrite aesthetics_generated_is_ref. unfold aesthetics_ref.
  replace (forallb (fun b : bool => b) (map (fun v => Qeq_bool v 0) iv)) with true; [reflexivity|].
  symmetry. apply forallb_forall. intros b Hb. apply in_map_iff in Hb. destruct Hb as (v & <- & Hv).
  apply Qeq_bool_iff, H, Hv.
Qed.

Theorem aesthetics_spec_support : forall meth flux iv i f v,
  length iv = length flux -> nth_error flux i = Some f -> nth_error iv i = Some v -> ~ v == 0 ->
  nth_error (aesthetics_spec meth flux iv) i = Some f.
Proof.
  intros meth flux iv i f v L Ef Ev Hnz. unfold aesthetics_spec.
  assert (Em : nth_error (map (fun v => Qeq_bool v 0) iv) i = Some false)
    by (rewrite nth_error_map, Ev; cbn; rewrite Qeq_bool_false by assumption; reflexivity).
  assert (TN : nth_error (maskinterp1_spec flux (map (fun v => Qeq_bool v 0) iv) None) i = Some f).
  { assert (Lm : length (map (fun v => Qeq_bool v 0) iv) = length flux) by (rewrite map_length; exact L).
    destruct (triple_nth (xs_of None (length flux)) flux _ i (xs_of_length None _ I) Lm) as [_ T].
    destruct (T f Ef) as (x & m & Ex & Em'). rewrite Em in Em'. injection Em' as <-.
    rewrite (maskinterp_spec_nth flux _ None i x f false I Lm Ex Ef Em). reflexivity. }
  destruct meth; try exact TN; try exact Ef.
  destruct (forallb (fun v => Qeq_bool v 0) iv); [exact Ef|].
  rewrite nth_error_map, nth_error_combine_opt, Ef, Ev. cbn [option_map fst snd].
  rewrite Qeq_bool_false by assumption. reflexivity.
Qed.

Lemma opt_Qeq_refl : forall a, opt_Qeq a a.
Proof. intros [a|]; cbn; [reflexivity | exact I]. Qed.

Lemma existsb_forallb_negb : forall l : list bool, existsb (fun b => b) l = false -> forallb negb l = true.
Proof.
  induction l as [|b l IH]; [reflexivity|]. cbn. destruct b; cbn; [discriminate | exact IH].
Qed.

Lemma good_pts_all_bad : forall xs ys mask, forallb (fun b : bool => b) mask = true -> good_pts xs ys mask = [].
Proof.
  induction xs as [|x xs IH]; intros [|y ys] [|m mask] H; try reflexivity.
  cbn in H. apply andb_true_iff in H. destruct H as [Hm H]. cbn. rewrite Hm. apply IH, H.
Qed.

Lemma maskinterp1_all_bad : forall ys mask xval, forallb (fun b : bool => b) mask = true -> maskinterp1_model ys mask xval = ys.
Proof.
  intros ys mask xval H. unfold maskinterp1_model. destruct (forallb negb mask); [reflexivity|].
  rewrite good_pts_all_bad by exact H. reflexivity.
Qed.

Lemma forallb_map_comp : forall {A} (g : A -> bool) (l : list A), forallb (fun b : bool => b) (map g l) = forallb g l.
Proof. induction l as [|a l IH]; [reflexivity|]. cbn. rewrite IH. reflexivity. Qed.

(* M = S for aesthetics when no inverse variance is negative (a spectrum without any good pixel included) *)
Theorem aesthetics_model_eq_spec : forall meth flux iv i,
  length iv = length flux -> (forall v, In v iv -> 0 <= v) ->
  opt_Qeq (nth_error (aesthetics_model meth flux iv) i) (nth_error (aesthetics_spec meth flux iv) i).
Proof.
  intros meth flux iv i L Hpos. rewrite aesthetics_generated_is_ref. unfold aesthetics_ref, aesthetics_spec.
  set (bad := map (fun v => Qeq_bool v 0) iv).
  assert (Lb : length bad = length flux) by (unfold bad; rewrite map_length; exact L).
  assert (AB : forallb (fun b : bool => b) bad = forallb (fun v => Qeq_bool v 0) iv) by apply forallb_map_comp.
  assert (MI : forall k, opt_Qeq (nth_error (if forallb (fun b : bool => b) bad then flux
                                             else if existsb (fun b => b) bad then maskinterp1_model flux bad None else flux) k)
                                 (nth_error (maskinterp1_model flux bad None) k)).
  { intro k. destruct (forallb (fun b : bool => b) bad) eqn:A.
    - rewrite (maskinterp1_all_bad flux bad None A). apply opt_Qeq_refl.
    - destruct (existsb (fun b => b) bad) eqn:E; [apply opt_Qeq_refl|].
      unfold maskinterp1_model. rewrite (existsb_forallb_negb bad E). apply opt_Qeq_refl. }
  assert (Tr : forall a b c, opt_Qeq a b -> opt_Qeq b c -> opt_Qeq a c).
  { intros [a|] [b|] [c|]; cbn; try tauto. intros H1 H2. rewrite H1. exact H2. }
  destruct meth.
  - eapply Tr; [apply MI|]. apply maskinterp_model_eq_spec; [exact I | exact Lb].
  - eapply Tr; [apply MI|]. apply maskinterp_model_eq_spec; [exact I | exact Lb].
  - rewrite <- AB. destruct (forallb (fun b : bool => b) bad) eqn:A; [apply opt_Qeq_refl|].
    assert (G : map (fun v => Qltb 0 v) iv = map (fun v => negb (Qeq_bool v 0)) iv).
    { apply map_ext_in. intros v Hv. specialize (Hpos v Hv). destruct (Qeq_bool v 0) eqn:E; cbn.
      - apply Qeq_bool_iff in E. apply Qltb_false_iff. lra.
      - apply Qeq_bool_neq in E. apply Qltb_iff. lra. }
    rewrite G. set (mu := qsum _ / qnat _).
    rewrite (nth_error_map _ _ (combine flux iv)), nth_error_combine_opt.
    destruct (existsb (fun b => b) bad) eqn:E.
    + rewrite nth_error_map, nth_error_combine_opt, nth_error_combine_opt, nth_error_map. unfold bad. rewrite nth_error_map.
      destruct (nth_error flux i) as [f|], (nth_error iv i) as [v|]; cbn; try exact I.
      destruct (Qeq_bool v 0); cbn; reflexivity.
    + destruct (nth_error flux i) as [f|] eqn:Ef.
      * assert (i < length iv)%nat by (rewrite L; apply nth_error_Some; congruence).
        destruct (nth_error iv i) as [v|] eqn:Ev; [|apply nth_error_None in Ev; lia]. cbn.
        assert (Hb : nth_error bad i = Some (Qeq_bool v 0)) by (unfold bad; rewrite nth_error_map, Ev; reflexivity).
        destruct (Qeq_bool v 0) eqn:Ez; [|reflexivity]. exfalso.
        assert (X : existsb (fun b => b) bad = true) by (apply existsb_exists; exists true; split; [eapply nth_error_In, Hb | reflexivity]).
        congruence.
      * destruct (nth_error iv i); exact I.
  - destruct (forallb (fun b : bool => b) bad); [apply opt_Qeq_refl|]. destruct (existsb (fun b => b) bad); apply opt_Qeq_refl.
Qed.

(* ---------------------------------------------------------------- the `const` rules (GENERATED) write nothing new *)
(* if const: ynew[lo:hi] = ynew[src]  -- with the generated lo, hi, src of the two index-mode rules, every value
   written equals (==) the value the interpolation already put there, so M does not carry `const`. *)
From PV Require Import Generated.MaskInterp.

Section ConstRules.
  Variables (ys : list Q) (mask : list bool).
  Hypothesis Lm : length mask = length ys.
  Variables (igood : Z -> Z) (ngood ny : Z).

  Theorem const_left_noop : forall g0 y0 i y,
    igood 0%Z = Z.of_nat g0 ->
    nth_error mask g0 = Some false -> nth_error ys g0 = Some y0 ->
    (forall k, (k < g0)%nat -> nth_error mask k = Some true) ->
    (mi_idx_left_lo igood ngood ny <= Z.of_nat i < mi_idx_left_hi igood ngood ny)%Z ->
    nth_error ys i = Some y ->
    exists v w, nth_error (maskinterp1_model ys mask None) i = Some v /\
                nth_error (maskinterp1_model ys mask None) (Z.to_nat (mi_idx_left_src igood ngood ny)) = Some w /\ v == w.
  Proof.
    intros g0 y0 i y Hg M0 Y0 Hb Hi Ey. unfold mi_idx_left_lo, mi_idx_left_hi, mi_idx_left_src in *.
    rewrite Hg in *. rewrite Nat2Z.id.
    assert (Hlt : (i < g0)%nat) by lia.
    destruct (maskinterp_index_left_end ys mask Lm i g0 y y0 Hlt Ey (Hb i Hlt) M0 Y0 Hb) as (v & Hv & Ev).
    destruct (maskinterp_unmasked ys mask None g0 y0 I Lm Y0 M0) as (w & Hw & Ew).
    exists v, w. split; [exact Hv|]. split; [exact Hw|]. rewrite Ev, Ew. reflexivity.
  Qed.

  Theorem const_right_noop : forall gl yl i y,
    igood (ngood - 1)%Z = Z.of_nat gl ->
    nth_error mask gl = Some false -> nth_error ys gl = Some yl ->
    (forall k, (gl < k)%nat -> nth_error mask k <> Some false) ->
    (mi_idx_right_lo igood ngood ny <= Z.of_nat i < mi_idx_right_hi igood ngood ny)%Z ->
    nth_error ys i = Some y ->
    exists v w, nth_error (maskinterp1_model ys mask None) i = Some v /\
                nth_error (maskinterp1_model ys mask None) (Z.to_nat (mi_idx_right_src igood ngood ny)) = Some w /\ v == w.
  Proof.
    intros gl yl i y Hg Ml Yl Hb Hi Ey. unfold mi_idx_right_lo, mi_idx_right_hi, mi_idx_right_src in *.
    rewrite Hg in *. rewrite Nat2Z.id.
    assert (Hlt : (gl < i)%nat) by lia.
    assert (Em : nth_error mask i = Some true).
    { assert (i < length mask)%nat by (rewrite Lm; apply nth_error_Some; congruence).
      destruct (nth_error mask i) as [[|]|] eqn:E; [reflexivity | destruct (Hb i Hlt E) | apply nth_error_None in E; lia]. }
    destruct (maskinterp_index_right_end ys mask Lm i gl y yl Hlt Ey Em Ml Yl Hb) as (v & Hv & Ev).
    destruct (maskinterp_unmasked ys mask None gl yl I Lm Yl Ml) as (w & Hw & Ew).
    exists v, w. split; [exact Hv|]. split; [exact Hw|]. rewrite Ev, Ew. reflexivity.
  Qed.
End ConstRules.

(* with xval the same two rules are applied in x-sorted order (through ii) *)
Lemma const_rules_same : forall igood ngood ny,
  (mi_x_left_guard igood ngood ny, mi_x_left_lo igood ngood ny, mi_x_left_hi igood ngood ny, mi_x_left_src igood ngood ny,
   mi_x_right_guard igood ngood ny, mi_x_right_lo igood ngood ny, mi_x_right_hi igood ngood ny, mi_x_right_src igood ngood ny)
  = (mi_idx_left_guard igood ngood ny, mi_idx_left_lo igood ngood ny, mi_idx_left_hi igood ngood ny, mi_idx_left_src igood ngood ny,
     mi_idx_right_guard igood ngood ny, mi_idx_right_lo igood ngood ny, mi_idx_right_hi igood ngood ny, mi_idx_right_src igood ngood ny).
Proof. reflexivity. Qed.
