"""C11 -- combine1fiber resamples spectra: finite flux, conservative inverse variance."""
import math
import os

from harness import common as C
from translate import c11 as T
from translate import c08 as T08

ID = 'C11'
PROPS_V = 'C11/Props.v'
LEVEL = 'proof'
TRUSTED = [
    'translate/c11.py: ast extraction of the threshold/index arithmetic and stage control of combine1fiber (EPS, default factors, '
    'grouping comparison and slice, minimum group size, inside bounds, smask threshold, bad-region test, growth offsets; round 5: '
    'the ngood == 0 branch, the all-coefficients-zero test, the per-exposure inbetween range, the interpolands of the variance '
    'path, the objivar.ndim > 1 test and the median width, the keywords of the two iterfit calls and the defaults of iterfit(), '
    'the early return / damping length / taper conditions of aesthetics(), the de-redshifting call of preprocess_spectra) into '
    'coq/Generated/Combine1fiber.v; Props.v proves the hand-written model uses exactly these (C11_generated_*)',
    'hand-written model coq/C11/Model.v (grouping, per-group evaluation/newmask, np.interp inverse-variance path with the '
    '1-EPS mask test, running-median weights for 2-D input, +-2 growth, aesthetics incl. damp with the taper as a parameter) on '
    'top of coq/BSpline -- tied to combine1fiber by the correspondence run only',
    'large calls: the per-group iterfit results (breakpoints, breakpoint mask, coefficients, rejection mask) are RECORDED from the '
    'implementation by wrapping spec2d.iterfit and fed to the model; small calls (<= 48 input pixels) are ALSO replayed with the '
    'fits computed by the model (CChain: default weights, C08 knots, the requiren walk, C10 fit/reject loop; only numpy argsort '
    'is taken from the run); iterfit itself is the subject of C10 (and C08/C09)',
    "aesthetics='damp': scipy.special.erf evaluated by the harness (float32 pipeline of the source expression) supplies the "
    'table that instantiates the abstract taper of the model',
    'harness glue in harness/impl/c11_impl.py re-deriving the grouping to attach recorded fits to groups (cross-checked: the '
    'model recomputes the grouping and fullcombmask and must agree)',
    'harness/impl/c11_maskbits.par: SPPIXMASK bit table loaded instead of the network download (values never reach the outputs)',
    'numpy argsort / np.interp / scipy medfilt exercised, compared with their models; float64 vs exact arithmetic at 1e-9 (ivar) '
    'and 1e-6 (flux)',
    'round 6: harness/impl/c11_impl.py `lay` builds the memory layouts / storage types (numpy asfortranarray, transposed and '
    'strided views, negative strides, byte-swapped and float32 copies); the layout runs are compared bit for bit with the '
    'C-contiguous float64 call, and a differing run is judged in Coq like any other call',
    'Coq stdlib QArith, Lqa (theorems closed under the global context)',
]
ASSUMPTIONS = [
    'input and output grids increasing; dyadic pixel sizes in the generated cases so that the `> maxsep` grouping decisions and '
    'the EPS windows are not decided by rounding; output pixels are not placed within 2^-23 of a pixel width beside a good '
    'pixel next to a bad one (there the code deliberately keeps the variance: the exact theorem states that window)',
    'the output grid has at least one pixel (an EMPTY grid raises IndexError in code that only serves the never-returned '
    'andmask: observed in stats.empty_output_grid, fix proposed in fixes/C11-empty-output-grid.diff); a one-pixel INPUT needs '
    'binsz= (the pixel size is otherwise taken from the first two pixels); preprocess_spectra needs two output pixels for the same reason',
    'the chain replay is used when no decision of the knot placement hinges on float rounding (number of breakpoints agrees, no '
    'pixel within 1e-9 pixel of an inexactly representable breakpoint) and declines (counted) when a group has more '
    'coefficients than pixels (no unique exact solution; the code then returns what its Cholesky solve happens to give)',
    'finalmask/indisp/skyflux keyword paths (andmask/ormask/newdisp/newsky are never returned) are outside the property',
    'the theorems about a constant spectrum and about rescaling are stated for fits that reproduce constants / scale with the '
    'data; that the C10 model fit does so is proved for the certified solver (C11/ProofsFit.v)',
    'a float32 wavelength grid moves bkptbin = 1.2*binsz by a float32 ulp: judged (to single-precision accuracy) only when the '
    'number of breakpoints is the same as for the float64 grid; indisp/skyflux are passed only where every exposure has output '
    'pixels in its range (otherwise the unchanged code raises UnboundLocalError in the newdisp path, outside the property); '
    'finalmask is not passed (a 2-D finalmask always raises IndexError in the unchanged code)',
    'nord=1 is not exercised: iterfit(requiren=1) indexes past the breakpoints for nord=1 (IndexError inside bspline.py, the '
    'subject of C08-C10)',
]

def translate(ctx):
    text, info = T.generate(C.REPO)
    path = os.path.join(C.COQ, 'Generated', 'Combine1fiber.v')
    if text is not None:
        info['changed'] = C.write_if_changed(path, text)
    else:
        info['restored_baseline'] = C.restore_generated('coq/Generated/Combine1fiber.v')
        info['note'] = ('source shape not recognised; the committed Generated/Combine1fiber.v is used and the correspondence '
                        'run alone ties model to code')
    return {'Combine1fiber': info, 'BSpline': T08.regenerate(C)}


HEADER = '''From Coq Require Import QArith ZArith List. Import ListNotations.
From PV Require Import BSpline.Eval C11.Model. Open Scope Q_scope.'''

METHODS = {'traditional': 'Traditional', 'noconst': 'Noconst', 'mean': 'Mean', 'nothing': 'Nothing', 'damp': 'Traditional'}   # damp: CDamp ignores the field


def ql(v):
    return C.coq_list([C.qlit(x) for x in v])


def bl(v):
    return C.coq_list([C.boollit(x) for x in v])


def nl(v):
    return C.coq_list(['%d%%nat' % int(x) for x in v])


# ------------------------------------------------------------------ generators

DL = 2.0 ** -13          # pixel size in log10(lambda): dyadic, close to the SDSS 1e-4


def smooth_flux(rng, n, kind):
    a = C.dyadic(rng, 0.5, 4, 3)
    if kind == 'const':
        return [a] * n, a
    ph = rng.random() * 6
    per = rng.choice([25.0, 40.0, 90.0])
    amp = rng.choice([0.125, 0.25, 0.5])
    return [a + amp * math.sin(i / per * 2 * math.pi + ph) for i in range(n)], a


def zero_runs(rng, n, nruns):
    bad = [False] * n
    for _ in range(nruns):
        ln = rng.randint(1, 6)
        st = rng.choice([0, n - ln, rng.randint(0, n - ln), rng.randint(0, n - ln)])
        for i in range(st, min(n, st + ln)):
            bad[i] = True
    return bad


def out_grid(rng, n, l0, variant):
    if variant == 'same':
        return [l0 + DL * i for i in range(n)]
    if variant == 'shift':
        fr = rng.choice([0.25, 0.5, 0.3125, 0.75, 0.0625])
        return [l0 + DL * (i + fr) for i in range(n)]
    if variant == 'wider':
        a, b = rng.randint(3, 15), rng.randint(3, 15)
        fr = rng.choice([0.0, 0.25, 0.5])
        return [l0 + DL * (i - a + fr) for i in range(n + a + b)]
    if variant == 'narrower':
        a, b = rng.randint(3, n // 4), rng.randint(3, n // 4)
        fr = rng.choice([0.0, 0.375])
        return [l0 + DL * (i + a + fr) for i in range(n - a - b)]
    if variant == 'coarser':
        st = rng.choice([1.5, 2.0, 3.0])
        return [l0 + DL * (st * i + 0.25) for i in range(int(n / st))]
    if variant == 'finer':
        return [l0 + DL * (0.5 * i + 0.125) for i in range(2 * n - 1)]
    if variant == 'disjoint':
        return [l0 + DL * (n + 5 + i) for i in range(20)]
    raise ValueError(variant)


VARIANTS = ['same', 'shift', 'wider', 'narrower', 'coarser', 'finer', 'wider', 'shift']


def f32(x):
    import struct
    return struct.unpack('f', struct.pack('f', x))[0]


# memory layouts / storage types of the caller's arrays (harness/impl/c11_impl.py: lay): Fortran-ordered, transposed view of
# an (npix, nexp) table, every 2nd column of a wider array, every 2nd row of a taller one, negative strides along either
# axis, big-endian (what astropy.io.fits delivers), float32
KINDS_2D = ['F', 'T', 'S', 'SR', 'R', 'RR', 'BE', 'f4', 'f4F']
KINDS_1D = ['S', 'R', 'BE', 'f4']


def layout_specs(rng, two_d, k, with_loglam_f4=True, with_disp=False):
    """k layout assignments, each of inloglam (L), objflux (F), objivar (V), newloglam (N) and the optional indisp/skyflux
    pair (D) chosen independently; a 2-D input always gets the all-Fortran and a mixed (loglam C, data transposed) one"""
    specs = []
    if two_d:
        specs.append({'L': 'F', 'F': 'F', 'V': 'F', 'N': 'C'})
        specs.append({'L': 'C', 'F': 'T', 'V': rng.choice(['T', 'F']), 'N': 'C'})
    kinds = KINDS_2D if two_d else KINDS_1D
    while len(specs) < k:
        sp = {a: rng.choice(['C'] + kinds + (['F', 'T'] if two_d else [])) for a in 'LFV'}
        if sp['L'].startswith('f4') and (not with_loglam_f4 or rng.random() < 0.5):
            sp['L'] = 'C'
        if all(v == 'C' for v in sp.values()):
            continue
        sp['N'] = rng.choice(['C', 'C', 'S', 'R', 'BE'])
        if with_disp and rng.random() < 0.3:
            sp['kw'] = 'disp'
            sp['D'] = rng.choice(['C'] + [q for q in kinds if not q.startswith('f4')])
        specs.append(sp)
    return specs


def gen_single(rng, idx):
    n = rng.randint(60, 200)
    l0 = 3.5 + DL * rng.randint(0, 64)
    kind = ['smooth', 'noisy', 'const', 'noisy'][idx % 4]
    flux, level = smooth_flux(rng, n, 'const' if kind == 'const' else 'smooth')
    with_ivar = idx % 5 != 4
    ivar = None
    if with_ivar:
        base = rng.choice([1.0, 4.0, 16.0])
        ivar = [base * rng.choice([1.0, 1.0, 1.0, 0.5, 2.0]) for _ in range(n)]
        mode = rng.random()
        if mode < 0.08:
            ivar = [0.0] * n                                   # no good pixel at all
        else:
            bad = zero_runs(rng, n, rng.randint(0, 5))
            ivar = [0.0 if b else v for v, b in zip(ivar, bad)]
        if kind == 'noisy':
            flux = [f + (rng.randint(-8, 8) / 8.0) / math.sqrt(v) if v > 0 else f + rng.choice([0.0, 50.0, -7.0])
                    for f, v in zip(flux, ivar)]
            for _ in range(rng.randint(0, 3)):                 # a few outliers for the rejection
                j = rng.randrange(n)
                if ivar[j] > 0:
                    flux[j] += rng.choice([-1, 1]) * 25.0 / math.sqrt(ivar[j])
    elif kind == 'noisy':
        flux = [f + rng.randint(-4, 4) / 64.0 for f in flux]
        for _ in range(rng.randint(1, 2)):                     # a cosmic ray: without objivar iterfit weighs by 1/var(flux)
            flux[rng.randrange(5, n - 5)] += rng.choice([6.0, 9.0, -7.0])
    variant = VARIANTS[(idx // 2) % len(VARIANTS)]
    if idx % 24 in (8, 11, 18):          # output grid entirely beside the data: mean, damp, traditional
        variant = 'disjoint'
    new = out_grid(rng, n, l0, variant)
    method = ['traditional', 'noconst', 'mean', 'nothing', 'traditional', 'damp'][idx % 6]
    inl = [l0 + DL * i for i in range(n)]
    extras = {}
    if idx % 3 == 0:
        # moderate factors, cgs-like tiny fluxes (1e-17 with ivar * 1e34), and large factors (ivar far below float32 eps)
        extras['scale'] = [2.0, 0.5, 3.0, 10.0, 1e-17, 1e-8, 1e4, 1e6, 0.25, 1e-17][(idx // 3) % 10]
    call = {'f': 'combine', 'shape': 'single', 'kind': kind, 'variant': variant, 'inloglam': inl, 'flux': flux, 'ivar': ivar,
            'newloglam': new, 'kwargs': {'aesthetics': method}, 'extras': extras, 'level': level}
    # flux stored as integer counts or float32 (values made exactly representable first)
    t = idx % 11
    if t in (3, 7) and kind != 'const':
        call['flux'] = [float(round(100 + 40 * (f - level))) for f in call['flux']]
        call['flux_dtype'] = 'int32' if t == 3 else 'int64'
        call['kind'] = 'noisy'
    elif t == 9:
        import struct
        call['flux'] = [struct.unpack('f', struct.pack('f', f))[0] for f in call['flux']]
        call['flux_dtype'] = 'float32'
        if call['ivar'] is not None and idx % 2:
            call['ivar_dtype'] = 'float32'
    if not with_ivar and kind == 'noisy':
        call['extras']['scale'] = [1e-17, 1e4, 2.0 ** -56, 1e-8][(idx // 10) % 4]
    if idx % 4 == 1 and not call.get('flux_dtype'):
        call['flux'] = [f32(f) for f in call['flux']]
        call['extras']['layouts'] = layout_specs(rng, False, 2, with_loglam_f4=False)
    if idx % 7 == 2 and not call.get('flux_dtype'):
        call['extras']['repeat'] = True
    if with_ivar and idx % 5 in (1, 3):
        call['extras']['badflux'] = ['nan', 'inf', '-inf', 'huge'][(idx // 5) % 4]
    if with_ivar and idx % 5 == 2:
        call['extras']['badivar'] = ['nan', '-inf', 'neg'][(idx // 5) % 3]
    if idx % 8 == 5:
        call['extras']['errstate'] = True
    return call


def gen_const_noivar(rng, idx):
    """exactly constant flux, no inverse variance (iterfit then derives its weights from the variance of the data, which
    is zero), all aesthetics methods incl. damp"""
    n = rng.randint(60, 120)
    l0 = 3.5
    level = [1.0, 3.0, 7.25, 100.0, 0.5, 1.5e-17, 2.0 ** -60][idx % 7]
    variant = ['same', 'shift', 'wider', 'narrower'][idx % 4]
    method = ['traditional', 'mean', 'damp', 'nothing', 'noconst', 'damp'][idx % 6]
    with_ivar = idx % 3 == 2
    return {'f': 'combine', 'shape': 'single', 'kind': 'const', 'variant': variant, 'inloglam': [l0 + DL * i for i in range(n)],
            'flux': [level] * n, 'ivar': ([4.0 / (level * level) if level < 1e-6 else 4.0] * n if with_ivar else None),
            'newloglam': out_grid(rng, n, l0, variant),
            'kwargs': {'aesthetics': method}, 'extras': {}, 'level': level}


def gen_stack(rng, idx):
    nspec = rng.randint(2, 3)
    n = rng.randint(108, 130)
    l0 = 3.5
    inl, flux, ivar = [], [], []
    per = rng.choice([40.0, 90.0])
    a = C.dyadic(rng, 1, 3, 2)
    const = idx % 4 == 2
    partial = idx % 3 == 1                 # exposures covering DIFFERENT wavelength ranges
    for s in range(nspec):
        off = rng.choice([0.0, 0.25, 0.5, 0.75]) if s else 0.0
        if partial and s:
            off += rng.choice([-1, 1]) * rng.randint(15, 45)
        grid = [l0 + DL * (i + off) for i in range(n)]
        base = rng.choice([1.0, 4.0, 16.0])
        iv = [base * rng.choice([1.0, 1.0, 0.5, 2.0]) for _ in range(n)]
        bad = zero_runs(rng, n, rng.randint(0, 2))
        if sum(1 for b in bad if not b) < 102:
            bad = [False] * n
        iv = [0.0 if b else v for v, b in zip(iv, bad)]
        if idx % 6 == 5:
            # EXACTLY 101 good pixels in this exposure (the least the built-in variance smoothing supports):
            # scattered single bad pixels and short runs
            bad = [False] * n
            while sum(1 for b in bad if not b) > 101:
                j = rng.randrange(n)
                for k in range(j, min(n, j + rng.choice([1, 1, 2, 3]))):
                    if sum(1 for b in bad if not b) > 101:
                        bad[k] = True
            iv = [0.0 if b else (v if v > 0 else base) for v, b in zip([base * rng.choice([1.0, 1.0, 0.5, 2.0]) for _ in range(n)], bad)]
        fx = [a + (0.0 if const else 0.25 * math.sin((i + off) / per * 2 * math.pi)) for i in range(n)]
        if not const and idx % 2:
            fx = [f + (rng.randint(-4, 4) / 8.0) / math.sqrt(v) if v > 0 else f for f, v in zip(fx, iv)]
        fx = [f32(f) for f in fx]             # float32-representable, so that float32 storage holds the same values
        inl.append(grid)
        flux.append(fx)
        ivar.append(iv)
    variant = ['same', 'shift', 'wider', 'coarser'][idx % 4]
    if partial:
        variant = 'wider'
        new = [l0 + DL * (i - 60) for i in range(n + 120)]
    else:
        new = out_grid(rng, n, l0, variant)
    method = ['traditional', 'mean', 'noconst', 'nothing'][idx % 4]
    extras = {'scale': rng.choice([2.0, 0.5, 4.0])} if idx % 2 == 0 else {}
    extras['layouts'] = layout_specs(rng, True, 5, with_disp=True)
    if idx % 3 == 0:
        extras['repeat'] = True
    if idx % 3 == 1:
        extras['badflux'] = ['nan', 'inf', '-inf', 'huge'][(idx // 3) % 4]
    if idx % 4 == 3:
        extras['errstate'] = True
    call = {'f': 'combine', 'shape': 'stack', 'kind': 'const' if const else 'smooth', 'variant': variant, 'inloglam': inl,
            'flux': flux, 'ivar': ivar, 'newloglam': new, 'kwargs': {'aesthetics': method}, 'extras': extras, 'level': a}
    if const or idx % 2 == 0:
        # noise-free: every exposure samples the same smooth function of wavelength
        call['truth'] = {'a': a, 'amp': 0.0 if const else 0.25, 'per': per, 'l0': l0}
    return call


def gen_stack_noivar(rng, idx):
    """stacked exposures WITHOUT inverse variance and with a cosmic ray in one of them: iterfit weighs by 1/var(flux) and
    must reject the ray whatever the flux units (scale extras down to 1e-17)"""
    nspec = 3
    n = rng.randint(104, 116)
    l0 = 3.5
    per = rng.choice([40.0, 90.0])
    a = C.dyadic(rng, 1, 3, 2)
    inl, flux = [], []
    for s in range(nspec):
        off = [0.0, 0.25, 0.5][s]
        inl.append([l0 + DL * (i + off) for i in range(n)])
        flux.append([a + 0.25 * math.sin((i + off) / per * 2 * math.pi) + rng.randint(-2, 2) / 64.0 for i in range(n)])
    flux[rng.randrange(nspec)][rng.randint(20, n - 20)] += rng.choice([8.0, 12.0])
    variant = ['same', 'shift'][idx % 2]
    flux = [[f32(f) for f in row] for row in flux]
    return {'f': 'combine', 'shape': 'stack', 'kind': 'noisy', 'variant': variant, 'inloglam': inl, 'flux': flux, 'ivar': None,
            'newloglam': out_grid(rng, n, l0, variant), 'kwargs': {'aesthetics': ['traditional', 'nothing', 'mean'][idx % 3]},
            'extras': {'scale': [1e-17, 2.0 ** -56, 1e-8, 1e4][idx % 4], 'layouts': layout_specs(rng, True, 4, with_loglam_f4=False, with_disp=True),
                       'repeat': idx % 2 == 0}, 'level': a}


def gen_degenerate(rng, idx):
    """degenerate sizes: output grids of 1, 2, 3 pixels (inside, at the edge, beside a bad run, outside the data), input
    spectra of 2 .. 9 pixels, one .. four good pixels, groups of 1 .. 4 pixels between bad runs, everything masked, the grid
    entirely outside the data, nord against the number of pixels, one stacked exposure of exactly 101 good pixels"""
    sub = ['tiny-out', 'tiny-in', 'few-good', 'all-masked', 'outside', 'nord', 'tiny-out', 'tiny-in', 'small-groups',
           'one-exposure', 'wide-bkpt', 'tiny-in-tiny-out'][idx % 12]
    method = ['traditional', 'mean', 'damp', 'nothing', 'noconst'][(idx // 2) % 5]
    l0 = 3.5 + DL * rng.randint(0, 16)
    with_ivar = idx % 4 != 3
    kwargs = {'aesthetics': method}
    shape = 'single'
    const = idx % 5 == 1
    level = C.dyadic(rng, 0.5, 4, 3)

    def fluxes(n):
        if const:
            return [level] * n
        a, b = rng.randint(-4, 4) / 16.0, rng.randint(-2, 2) / 64.0
        return [level + a * i + b * i * i + (rng.randint(-1, 1) / 32.0 if idx % 3 == 0 else 0.0) for i in range(n)]

    def tiny_grid(n, m):
        where = rng.choice(['inside', 'inside', 'low-edge', 'high-edge', 'on-pixels', 'straddle-low', 'beyond'])
        fr = rng.choice([0.25, 0.5, 0.3125, 0.75])
        step = rng.choice([1.0, 1.0, 0.5, 2.0, 1.5])
        if where == 'inside':
            st = rng.randint(0, max(0, n - 2)) + fr
        elif where == 'low-edge':
            st = 0.0
        elif where == 'high-edge':
            st = (n - 1) - step * (m - 1)
        elif where == 'on-pixels':
            st, step = float(rng.randint(0, max(0, n - m))), 1.0
        elif where == 'straddle-low':
            st = -step * (m - 1) / 2.0 - fr
        else:
            st = n - 1 + fr
        return [l0 + DL * (st + step * i) for i in range(m)], where

    where = sub
    if sub == 'tiny-out':
        n = rng.randint(8, 24)
        m = [1, 2, 3, 1, 2, 3, 4][(idx // 12) % 7]
        bad = zero_runs(rng, n, rng.choice([0, 0, 1]))
        new, where = tiny_grid(n, m)
    elif sub in ('tiny-in', 'tiny-in-tiny-out'):
        n = [2, 3, 4, 5, 6, 7, 8, 9, 3, 4][(idx // 12) % 10]
        m = rng.choice([1, 2, 3]) if sub == 'tiny-in-tiny-out' else rng.choice([1, 2, 3, 5, 2 * n, 2 * n + 3])
        bad = [False] * n
        if n >= 4 and rng.random() < 0.3:
            bad[rng.randrange(n)] = True
        new, where = tiny_grid(n, m)
        if m > 3:
            new = [l0 + DL * (0.5 * i - 1.25) for i in range(m)]
    elif sub == 'few-good':
        n = rng.randint(10, 24)
        g = [1, 2, 3, 4][(idx // 12) % 4]
        st = rng.randint(0, n - g)
        bad = [not (st <= i < st + g) for i in range(n)]
        new = out_grid(rng, n, l0, rng.choice(['same', 'shift', 'wider'])) if rng.random() < 0.6 else tiny_grid(n, rng.randint(1, 3))[0]
    elif sub == 'small-groups':
        n = rng.randint(20, 36)
        bad, i = [], 0
        while len(bad) < n:                      # groups of 1 .. 5 good pixels separated by bad runs of 1 .. 4 pixels
            bad += [False] * rng.randint(1, 5) + [True] * rng.randint(1, 4)
        bad = bad[:n]
        new = out_grid(rng, n, l0, rng.choice(['same', 'shift', 'wider', 'finer']))
    elif sub == 'all-masked':
        n = rng.randint(2, 16)
        bad = [True] * n
        with_ivar = True
        new = tiny_grid(n, rng.choice([1, 2, 3, 10]))[0]
    elif sub == 'outside':
        n = rng.randint(6, 20)
        bad = zero_runs(rng, n, rng.choice([0, 1]))
        m = rng.choice([1, 2, 3, 7])
        off = rng.choice([-(m + 3), n + 2, -(m - 1) - 0.5, n - 1 + 0.5])
        new = [l0 + DL * (off + i) for i in range(m)]
    elif sub == 'wide-bkpt':
        # explicit (dyadic) breakpoint spacing of 2.5 / 4 pixels and one or two strong outliers: the fit cannot follow them,
        # so the rejection loop of iterfit runs (several passes) on a group small enough for the exact chain model
        kwargs['bkptbin'] = DL * [2.5, 4.0, 3.0][(idx // 12) % 3]
        if idx % 24 >= 12:
            kwargs['maxsep'] = DL * 3.0
        n = rng.randint(14, 30)
        bad = zero_runs(rng, n, rng.choice([0, 0, 1]))
        new = out_grid(rng, n, l0, rng.choice(['same', 'shift', 'wider', 'finer']))
    elif sub == 'nord':
        kwargs['nord'] = [2, 4, 5, 2, 4][(idx // 12) % 5]
        n = rng.choice([3, 4, 5, 6, 8, 12])
        bad = [False] * n
        new = out_grid(rng, n, l0, rng.choice(['same', 'shift', 'finer'])) if n > 3 else [l0 + DL * (0.5 + i) for i in range(n)]
    else:                                        # one stacked exposure (2-D input with a single row), 101 .. 104 good pixels
        shape = 'stack'
        n = rng.randint(101, 108)
        bad = [False] * n
        for i in rng.sample(range(n), n - rng.randint(101, min(n, 104))):
            bad[i] = True
        with_ivar = True
        new = out_grid(rng, n, l0, rng.choice(['same', 'shift', 'wider'])) if idx % 2 else tiny_grid(n, rng.randint(1, 3))[0]
    inl = [l0 + DL * i for i in range(n)]
    flux = fluxes(n)
    ivar = None
    if with_ivar:
        base = rng.choice([1.0, 4.0, 16.0])
        ivar = [0.0 if b else base * rng.choice([1.0, 1.0, 0.5, 2.0]) for b in bad]
    if sub == 'wide-bkpt' and ivar is not None:
        for _ in range(rng.randint(1, 2)):
            j = rng.randrange(2, n - 2)
            if ivar[j] > 0:
                flux[j] += rng.choice([-1, 1]) * rng.choice([30.0, 60.0]) / math.sqrt(ivar[j])
    elif sub == 'wide-bkpt':
        flux[rng.randrange(2, n - 2)] += rng.choice([6.0, 9.0, -7.0])
    call = {'f': 'combine', 'shape': shape, 'kind': 'degenerate-const' if const else 'degenerate', 'variant': 'deg-' + sub,
            'where': where, 'inloglam': inl, 'flux': flux, 'ivar': ivar, 'newloglam': new, 'kwargs': kwargs,
            'extras': {'scale': rng.choice([2.0, 0.5, 1e-17, 1e4])} if idx % 3 == 1 else {}, 'level': level}
    if shape == 'stack':
        call['flux'] = flux = [f32(f) for f in flux]
        call['inloglam'], call['flux'], call['ivar'] = [inl], [flux], [ivar]
        call['extras']['layouts'] = layout_specs(rng, True, 3, with_loglam_f4=False)
    elif idx % 9 == 4 and n >= 4:
        call['flux'] = [f32(f) for f in flux]
        call['extras']['layouts'] = layout_specs(rng, False, 2, with_loglam_f4=False)
    return call


def gen_preprocess(rng, idx):
    nobj = rng.randint(1, 3)
    n = rng.randint(110, 160)
    l0 = 3.55
    loglam = [l0 + DL * i for i in range(n)]
    z = [rng.choice([0.0, 0.01, 0.03, 0.002]) for _ in range(nobj)]
    centre = [rng.randint(45, n - 45) for _ in range(nobj)]
    flux = [[1.0 + 2.0 * math.exp(-0.5 * ((i - c) / 3.0) ** 2) for i in range(n)] for c in centre]
    ivar = [[4.0] * n for _ in range(nobj)]
    a, b = 400, 40
    newloglam = [l0 + DL * (i - a) for i in range(n + a + b)]
    mode = idx % 4
    if mode in (1, 2, 3):
        # explicit output grids offset from the input grid by a sub-pixel shift (0.1 .. 0.9 pixel), same length (1, 3)
        # or different length (2); z = 0 for every object (1), for some (2), for none (3)
        fr = rng.choice([0.125, 0.25, 0.3125, 0.5, 0.75, 0.875])
        if mode == 1:
            fr = [0.125, 0.25, 0.0625, 0.1875, 0.5, 0.875][(idx // 4) % 6]
            z = [0.0] * nobj
            newloglam = [l0 + DL * (i + fr) for i in range(n)]
        elif mode == 2:
            z = [0.0 if j % 2 == 0 else rng.choice([0.002, 0.01]) for j in range(nobj)]
            newloglam = [l0 + DL * (i - 120 + fr) for i in range(n + 140)]
        else:
            z = [rng.choice([0.001, 0.002]) for _ in range(nobj)]
            newloglam = [l0 + DL * (i - 12 + fr) for i in range(n)]
            centre = [rng.randint(60, n - 45) for _ in range(nobj)]
            flux = [[1.0 + 2.0 * math.exp(-0.5 * ((i - c) / 3.0) ** 2) for i in range(n)] for c in centre]
    if idx % 8 == 4:
        # output grid with a DIFFERENT pixel size (2 or 1.5 input pixels): binsz must be the output grid's
        st = [2.0, 1.5][(idx // 8) % 2]
        newloglam = [l0 + DL * (st * i - 100) for i in range(int((n + 140) / st))]
    return {'f': 'preprocess', 'flux': flux, 'ivar': ivar, 'loglam': loglam, 'zfit': z, 'newloglam': newloglam,
            'aesthetics': rng.choice(['mean', 'traditional']), 'centre': centre}


# ------------------------------------------------------------------ Coq terms

def flat(v):
    if v is None:
        return None
    if v and isinstance(v[0], list):
        return [x for row in v for x in row]
    return list(v)


def fit_term(r):
    if r is None:
        return 'None'
    return '(Some (mkGfit %s %s %s %s))' % (ql(r['bk']), bl(r['bkmask']), ql(r['coeff']), bl(r['bmask']))


def damp_table(newivar):
    """the half error function 0.5*(1+erf(x)) at the arguments aesthetics(method='damp') needs, computed here with
    scipy in the float32 arithmetic of the source expression (`pixels = np.arange(nflux, dtype='f')`), keyed by the EXACT
    rational argument the model computes"""
    import numpy as np
    from fractions import Fraction
    from scipy.special import erf
    n = len(newivar)
    good = [i for i, v in enumerate(newivar) if v != 0]
    if not good or len(good) == n:
        return []
    # `mingood`/`maxgood` are numpy int64 scalars in the source (goodpts.min()/.max()); under NumPy 2 promotion an int64
    # scalar is not "weak", so `pixels - mingood` is float64 although `pixels` is float32.  A Python int here would keep
    # the arithmetic in float32 and the taper would differ by ~3e-3 relative in its deep tail (1 + erf(x), x < -2).
    mingood, maxgood = np.int64(good[0]), np.int64(good[-1])
    pixels = np.arange(n, dtype='f')
    tbl = {}
    if mingood > 0:
        d = min(mingood, 250)
        vals = 0.5 * (1.0 + erf((pixels - mingood) / float(d)))
        for i in range(n):
            tbl[Fraction(i - int(mingood), int(d))] = Fraction(float(vals[i]))
    if maxgood < n - 1:
        # maxgood == 0 (only pixel 0 is good): the source divides by min(maxgood, l) = 0.0 (NaN, flagged before Coq) or, with
        # fixes/C11-damp-only-first-pixel-good.diff, by max(..., 1); the model takes the floor from Generated/Combine1fiber.v
        d = max(min(maxgood, 250), 1)
        vals = 0.5 * (1.0 + erf((maxgood - pixels) / float(d)))
        for i in range(n):
            tbl[Fraction(int(maxgood) - i, int(d))] = Fraction(float(vals[i]))
    return sorted(tbl.items())


def chain_eligible(c, r):
    """may this call be replayed with the fits COMPUTED by the model (CChain)?  Small inputs only (exact dense solves), and
    no decision of the knot placement / interval walk may hinge on float rounding: the number of breakpoints must agree
    and no input or output pixel may lie within 1e-9 pixel of a breakpoint that is not exactly representable."""
    from fractions import Fraction
    import math
    inl = flat(c['inloglam'])
    if len(inl) > 48 or c['shape'] == 'stack' or 'glue_error' in r or c.get('flux_dtype') or c.get('ivar_dtype'):
        return False
    k = int(c['kwargs'].get('nord', 3))
    bks = Fraction(r['bkptbin'])
    # the groups, as the harness glue derived them
    pos = 0
    iv = flat(c['ivar'])
    for f in r['fits']:
        if f is None:
            continue
        if not f['coeff_finite'] or f['nord'] != k:
            return False
        fb = [Fraction(b) for b in f['bk']]
        lo, hi = fb[k - 1], fb[len(fb) - k]
        xs = [Fraction(x) for x in inl if lo <= Fraction(x) <= hi]
        if not xs or min(xs) != lo or max(xs) != hi:
            return False
        rng_ = hi - lo
        nb = max(2, math.floor(rng_ / bks) + 1)
        if nb + 2 * (k - 1) != len(fb):
            return False
        sp = rng_ / (nb - 1)
        tol = Fraction(DL) / 10 ** 9
        for i in range(nb):
            e = lo + i * sp
            if fb[k - 1 + i] != e and any(abs(Fraction(x) - e) < tol for x in inl + c['newloglam']):
                return False
    return True


def case_term(c, r, mode='recorded'):
    inl = flat(c['inloglam'])
    nspec = len(c['inloglam']) if c['shape'] == 'stack' else 1
    ncol = len(inl) // nspec
    specnum = [i // ncol for i in range(len(inl))]
    iv = flat(c['ivar'])
    cin = '(mkCin %s %s %s %s %d%%nat %s %s %d%%nat %s %s %s)' % (
        ql(inl), ql(flat(c['flux'])), 'None' if iv is None else '(Some %s)' % ql(iv), nl(specnum), nspec,
        ql(c['newloglam']), C.qlit(r['maxsep']), int(c['kwargs'].get('nord', 3)), METHODS[c['kwargs']['aesthetics']],
        nl(r['isort']), C.boollit(c['shape'] == 'stack'))
    if mode == 'chain':
        return '(CChain %s %s %s %s %s)' % (cin, C.qlit(r['bkptbin']), bl(r['fullcomb']), ql(r['newflux']), ql(r['newivar']))
    if c['kwargs']['aesthetics'] == 'damp':
        tbl = damp_table(r['newivar'])
        return '(CDamp %s %s %s %s %s %s)' % (cin, C.coq_list([fit_term(f) for f in r['fits']]), bl(r['fullcomb']),
                                              C.coq_list(['(%s, %s)' % (C.qlit(a), C.qlit(b)) for a, b in tbl]),
                                              ql(r['newflux']), ql(r['newivar']))
    if 'pre_ivar' in r and 'pre_flux' in r:
        return '(CStage %s %s %s %s %s %s %s)' % (cin, C.coq_list([fit_term(f) for f in r['fits']]), bl(r['fullcomb']),
                                                 ql(r['pre_flux']), ql(r['pre_ivar']), ql(r['newflux']), ql(r['newivar']))
    return '(CComb %s %s %s %s %s)' % (cin, C.coq_list([fit_term(f) for f in r['fits']]), bl(r['fullcomb']),
                                       ql(r['newflux']), ql(r['newivar']))


def close_vec(a, b, rtol):
    return len(a) == len(b) and all(abs(x - y) <= rtol * (1 + abs(y)) for x, y in zip(a, b))


def finite_list(v):
    return all(isinstance(x, (int, float)) and math.isfinite(x) for x in v)


def variant_of(c):
    return 'noivar' if c.get('ivar') is None else c['shape']


def correspond(ctx, proof_ok=True):
    ok, log = C.coq_make(['C11/Model.vo'])
    if not ok:
        raise RuntimeError('C11/Model.v does not build:\n' + log[-2000:])
    rng = ctx.rng
    calls = [gen_single(rng, i) for i in range(ctx.n(60, 600))]
    calls += [gen_const_noivar(rng, i) for i in range(ctx.n(12, 60))]
    calls += [gen_stack(rng, i) for i in range(ctx.n(12, 100))]
    calls += [gen_stack_noivar(rng, i) for i in range(ctx.n(4, 24))]
    calls += [gen_degenerate(rng, i) for i in range(ctx.n(72, 480))]
    calls += [gen_preprocess(rng, i) for i in range(ctx.n(8, 40))]
    calls.append({'f': 'probe-empty', 'variant': 'deg-probe-empty', 'inloglam': [3.5 + DL * i for i in range(12)],
                  'flux': [1.0 + 0.125 * i for i in range(12)], 'ivar': [4.0] * 12})
    only = os.environ.get('C11_FAMILIES')        # development aid: restrict the run to some families
    if only:
        calls = [c for c in calls if any(t in (c.get('variant') or c['f']) for t in only.split(','))]
    nb = 8
    outs = C.run_impl_parallel('c11_impl.py', [calls[i::nb] for i in range(nb)])
    results = [None] * len(calls)
    for bi, o in enumerate(outs):
        for j, r in enumerate(o['results']):
            results[bi + j * nb] = r
    ctx.coverage['pydl_file'] = outs[0]['pydl_file']
    seen = set()
    stats = {'same_grid_checks': 0, 'const_checks': 0, 'scale_checks': 0, 'preprocess_objects': 0, 'damp': 0,
             'rejected_pixels': 0, 'groups': 0}
    dist = {}

    def viol(sig, summary, c, r, failing=True, extra=None):
        if sig in seen:
            return
        seen.add(sig)
        rep = {'kind': 'failing-input' if failing else 'broken-correspondence', 'call': c, 'impl_result': r}
        if not failing:
            rep['item'] = 'C11.Model.run_case'
        rep.update(extra or {})
        ctx.violation(sig, summary, rep, failing)

    # class C: process-global state, snapshots taken in every (fresh) implementation process around `import pydl` and the calls
    gs = [o.get('global_state') or {} for o in outs]
    stats['global_state'] = {'changed_by_import': sorted({k for g in gs for k in g.get('changed_by_import', [])}),
                             'changed_by_calls': sorted({k for g in gs for k in g.get('changed_by_calls', [])}),
                             'warnings_filters_before_after_import': gs[0].get('warnings_filters_import'),
                             'geterr': gs[0].get('geterr')}
    for what in ('changed_by_import', 'changed_by_calls'):
        if stats['global_state'][what]:
            ctx.violation('C11:global-state:%s' % what,
                          'process-global settings %s were %s (np.geterr now %s): results of later floating-point work in '
                          'the caller\'s process (NaN/inf handling) depend on them' % (
                              stats['global_state'][what], 'changed by importing pydl / pydl.pydlspec2d' if 'import' in what
                              else 'left changed by combine1fiber / preprocess_spectra calls', gs[0].get('geterr')),
                          {'kind': 'broken-correspondence', 'item': 'global state around import / calls',
                           'global_state': stats['global_state']}, False)

    def truth_dev(c, r):
        """noise-free stacks: every exposure samples the same smooth function of wavelength; where the output has variance
        it must reproduce that function (same accuracy as the same-grid check of single spectra)"""
        t = c.get('truth')
        if not t:
            return None
        dev = 0.0
        for lam, f, v in zip(c['newloglam'], r['newflux'], r['newivar']):
            if v > 0:
                want = t['a'] + t['amp'] * math.sin(((lam - t['l0']) / DL) / t['per'] * 2 * math.pi)
                dev = max(dev, abs(f - want))
        return dev

    def stack_lost(c, r):
        """stacks whose pixels are all good and noise-free: output pixels well inside the range common to ALL exposures"""
        if c['shape'] != 'stack' or not c.get('truth') or c.get('ivar') is None or min(flat(c['ivar'])) <= 0:
            return []
        n_new = len(c['newloglam'])
        step_out = abs(c['newloglam'][1] - c['newloglam'][0]) if n_new > 1 else 0.0
        lo = max(row[3] for row in c['inloglam']) + 3 * step_out
        hi = min(row[-4] for row in c['inloglam']) - 3 * step_out
        return [k for k in range(n_new) if lo <= c['newloglam'][k] <= hi and not r['newivar'][k] > 0]

    def stack_direct(c, r, tag=''):
        var = variant_of(c)
        dev = truth_dev(c, r)
        if dev is not None:
            stats['stack_truth_checks'] = stats.get('stack_truth_checks', 0) + 1
            stats['stack_truth_max_dev'] = max(stats.get('stack_truth_max_dev', 0.0), dev)
            if dev > 2e-3:
                viol('C11:combine1fiber:%s%s:smooth-input-not-reproduced' % (var, tag),
                     'noise-free exposures of one smooth spectrum: the combined flux is off by %.3g on pixels with positive '
                     'inverse variance' % dev, c, r)
        lost = stack_lost(c, r)
        if lost:
            viol('C11:combine1fiber:%s%s:good-input-lost' % (var, tag),
                 'every pixel of every exposure is good and smooth, yet %d output pixels well inside the common range have '
                 'no inverse variance (first: %d)' % (len(lost), lost[0]), c, r)

    def judge_extras(c, r):
        var = variant_of(c)
        rp = r.get('repeat')
        if rp is not None:
            stats['repeat_calls'] = stats.get('repeat_calls', 0) + 1
            if 'err' in rp:
                viol('C11:combine1fiber:%s:impl=%s' % (var, rp['err']), 'repeated call raised %s: %s' % (rp['err'], rp.get('msg')), c, r)
            elif not (rp['first_same'] and rp['earlier_result_kept'] and rp['second_same_as_fresh']):
                viol('C11:combine1fiber:repeat-call-differs',
                     'calling combine1fiber again with the same array objects after the caller changed objflux in place: %s' % rp, c, r,
                     extra={'history': ['combine1fiber(L, F, new, objivar=V.copy())', 'F += 1.0; F[..., ::7] -= 0.5',
                                        'combine1fiber(L, F, new, objivar=V.copy()) must equal the call on fresh copies']})
        for key, what in (('badflux', 'NaN/inf/huge flux in zero-weight pixels'), ('errstate', "np.errstate(all='raise') around the call")):
            b = r.get(key)
            if b is None:
                continue
            stats[key + '_calls'] = stats.get(key + '_calls', 0) + 1
            if 'err' in b:
                viol('C11:combine1fiber:%s:%s:impl=%s' % (var, key, b['err']), '%s: raised %s: %s' % (what, b['err'], b.get('msg')), c, r)
            elif not b.get('finite', True):
                viol('C11:combine1fiber:%s:%s:non-finite' % (var, key), '%s: non-finite output' % what, c, r)
            elif not b['identical']:
                viol('C11:combine1fiber:%s:%s:changes-output' % (var, key), '%s changes the output (zero-weight pixels / the '
                     'error state must not matter)' % what, c, r, failing=False)
        b = r.get('badivar')
        if b is not None:
            stats['badivar_calls'] = stats.get('badivar_calls', 0) + 1
            if 'err' in b:
                viol('C11:combine1fiber:%s:badivar:impl=%s' % (var, b['err']), 'NaN/-inf/negative weights: raised %s: %s' % (b['err'], b.get('msg')), c, r)
            elif not (b['finite'] and b['nonneg']):
                viol('C11:combine1fiber:%s:badivar:non-finite' % var, 'NaN/-inf/negative weights: non-finite or negative output', c, r)
            elif c['extras']['badivar'] == 'neg' and not b['identical']:
                viol('C11:combine1fiber:%s:badivar:changes-output' % var, 'negative weights are not treated like zero weights', c, r, failing=False)

    def judge_layouts(c, r, i):
        """-> list of (call, record) to be judged in Coq as well"""
        var = variant_of(c)
        more = []
        for one in r.get('layout_runs') or []:
            sp = one['spec']
            lb = stats.setdefault('layout_runs', {})
            for a in 'LFVN':
                if sp.get(a, 'C') != 'C' and not (a == 'V' and c.get('ivar') is None):
                    lb['%s:%s' % (a, sp[a])] = lb.get('%s:%s' % (a, sp[a]), 0) + 1
            if sp.get('kw'):
                lb['indisp/skyflux:%s' % sp.get('D', 'C')] = lb.get('indisp/skyflux:%s' % sp.get('D', 'C'), 0) + 1
            c2 = dict(c, extras={}, layout=sp, variant=c['variant'])
            if 'err' in one:
                viol('C11:combine1fiber:%s:layout:impl=%s' % (var, one['err']),
                     'combine1fiber raised %s (%s) for the same values stored as %s; the C-contiguous float64 call works' % (
                         one['err'], one.get('msg'), sp), c2, one)
                continue
            if one['args_mutated'] or one['result_aliases_arg']:
                viol('C11:combine1fiber:argument-modified', 'combine1fiber modified a caller-owned array (%s) or returned storage '
                     'shared with an argument (layout %s)' % (one['args_mutated'], sp), c2, one)
            if one['identical']:
                stats['layout_identical'] = stats.get('layout_identical', 0) + 1
                continue
            rv, ref = one['record'], one['ref']
            f4 = [a for a in 'LFV' if str(sp.get(a, '')).startswith('f4')]
            if f4 and one['finite'] and len(rv['newflux']) == len(ref['newflux']):
                # single-precision storage: same zero pattern, values to single-precision accuracy; a float32 wavelength grid
                # also moves bkptbin = 1.2*binsz by one float32 ulp: not judged when that changes the number of breakpoints
                if 'L' in f4 and not one['same_knots']:
                    stats['layout_f4_knot_flip'] = stats.get('layout_f4_knot_flip', 0) + 1
                    continue
                ftol, itol = (2e-3, 1e-6) if 'L' in f4 else (1e-5, 1e-9)
                if close_vec(rv['newflux'], ref['newflux'], ftol) and close_vec(rv['newivar'], ref['newivar'], itol) and \
                        [v == 0 for v in rv['newivar']] == [v == 0 for v in ref['newivar']]:
                    stats['layout_f4_close'] = stats.get('layout_f4_close', 0) + 1
                    continue
            # the same values, another layout, a different answer
            nd = sum(1 for a, b in zip(rv['newivar'], ref['newivar']) if a != b)
            viol('C11:combine1fiber:%s:layout-dependent' % var,
                 'the same values stored as %s give a different answer than the C-contiguous float64 arrays (%d of %d output '
                 'inverse variances differ)' % (sp, nd, len(ref['newivar'])), c2, rv, failing=False,
                 extra={'reference_output': ref})
            if not one['finite'] or not finite_list(rv['newflux']) or not finite_list(rv['newivar']):
                viol('C11:combine1fiber:%s:layout:non-finite' % var, 'non-finite output for layout %s' % sp, c2, rv)
                continue
            if rv['len_flux'] != len(c['newloglam']) or rv['len_ivar'] != len(c['newloglam']) or 'glue_error' in rv:
                if 'glue_error' not in rv:
                    viol('C11:combine1fiber:wrong-length', 'output length differs from the output grid (layout %s)' % sp, c2, rv)
                else:
                    stack_direct(c2, rv, ':layout')
                    # recorded fits cannot be attached to the groups: only the specification is judged, with every
                    # positive-weight pixel counted as passing (the most permissive reading)
                    more.append((c2, dict(rv, no_model=True, fullcomb=[True] * len(rv['fullcomb']))))
                continue
            stack_direct(c2, rv, ':layout')
            more.append((c2, rv))
        return more

    terms, owners = [], []
    layout_cases = []
    for i, (c, r) in enumerate(list(zip(calls, results))):
        if c['f'] == 'probe-empty':
            stats['empty_output_grid'] = r.get('outcome')       # observed, not judged
            continue
        if c['f'] == 'preprocess':
            key = 'preprocess:%s' % (r.get('err') or 'ok')
            dist[key] = dist.get(key, 0) + 1
            if 'err' in r:
                viol('C11:preprocess_spectra:impl=%s' % r['err'], 'preprocess_spectra raised %s: %s' % (r['err'], r.get('msg', '')), c, r)
                continue
            if r.get('args_mutated') or not r.get('second_call_same', True):
                viol('C11:preprocess_spectra:argument-modified',
                     'preprocess_spectra modified a caller-owned array (%s); calling it again with the same arrays gives %s result'
                     % (r.get('args_mutated'), 'the same' if r.get('second_call_same') else 'a DIFFERENT'), c, r,
                     extra={'history': ['preprocess_spectra(flux, ivar, loglam, zfit, newloglam)', 'the same call again with the same array objects']})
            n_new = len(c['newloglam'])
            if not r['finite'] or r['shape'] != [len(c['flux']), n_new] or not r['loglam_same']:
                viol('C11:preprocess_spectra:bad-output', 'non-finite output / wrong shape from preprocess_spectra', c, r)
                continue
            for k, (d, zs) in enumerate(zip(r['direct'], r['logshift'])):
                stats['preprocess_objects'] += 1
                if 'err' in d or d['flux'] != r['flux'][k] or d['ivar'] != r['ivar'][k]:
                    viol('C11:preprocess_spectra:not-the-shifted-call',
                         'preprocess_spectra differs from combine1fiber on loglam - log10(1+z)', c, r)
                    continue
                # the emission feature placed at pixel `centre` must peak at L - log10(1+z)
                want = c['loglam'][c['centre'][k]] - zs
                peak = max(range(n_new), key=lambda p: r['flux'][k][p] if r['ivar'][k][p] > 0 else -1e30)
                # sub-pixel position: flux-weighted centroid of the feature above the continuum (pixels with variance)
                win = [p for p in range(max(0, peak - 9), min(n_new, peak + 10)) if r['ivar'][k][p] > 0]
                wsum = sum(r['flux'][k][p] - 1.0 for p in win)
                cen = sum((r['flux'][k][p] - 1.0) * c['newloglam'][p] for p in win) / wsum if wsum > 0.5 else None
                step = c['newloglam'][1] - c['newloglam'][0]
                if cen is not None and len(win) == 19 and step == DL and abs(cen - want) > 0.1 * DL:
                    viol('C11:preprocess_spectra:feature-not-shifted',
                         'the centroid of a narrow feature at log-wavelength L is %.2f pixels away from L - log10(1+z)' % (
                             (cen - want) / DL), c, r)
                if abs(c['newloglam'][peak] - want) > 1.01 * max(step, DL):
                    viol('C11:preprocess_spectra:feature-not-shifted',
                         'a feature at log-wavelength L does not appear at L - log10(1+z) (off by %.2f pixels)' % (
                             (c['newloglam'][peak] - want) / DL), c, r)
            continue
        var = variant_of(c)
        key = '%s:%s:%s:%s' % (var, c['variant'], c['kwargs']['aesthetics'], r.get('err') or 'ok')
        dist[key] = dist.get(key, 0) + 1
        if 'err' in r:
            viol('C11:combine1fiber:%s:impl=%s' % (var, r['err']),
                 'combine1fiber (%s, output grid %s, aesthetics=%s) raised %s: %s' % (
                     var, c['variant'], c['kwargs']['aesthetics'], r['err'], r.get('msg', '')), c, r,
                 extra={'meaning': 'the function must return finite flux and inverse variance of the output grid\'s length'})
            continue
        if r.get('args_mutated') or r.get('result_aliases_arg'):
            viol('C11:combine1fiber:argument-modified', 'combine1fiber modified a caller-owned array (%s) or returned storage shared with an argument'
                 % r.get('args_mutated'), c, r)
        if r.get('objivar_modified'):
            stats['objivar_modified_in_place'] = stats.get('objivar_modified_in_place', 0) + 1
        n_new = len(c['newloglam'])
        if r['len_flux'] != n_new or r['len_ivar'] != n_new:
            viol('C11:combine1fiber:wrong-length', 'output length differs from the output grid', c, r)
            continue
        if not r['finite'] or not finite_list(r['newflux']) or not finite_list(r['newivar']):
            viol('C11:combine1fiber:%s:non-finite:aesthetics=%s' % (var, c['kwargs']['aesthetics']),
                 'non-finite flux or inverse variance (output grid %s, aesthetics=%s)' % (c['variant'], c['kwargs']['aesthetics']), c, r)
            continue
        if min(r['newivar']) < 0:
            viol('C11:combine1fiber:negative-ivar', 'negative inverse variance', c, r)
        if 'glue_error' in r:
            viol('C11:harness:glue', r['glue_error'], c, r, failing=False)
            continue
        stats['groups'] += len(r['fits'])
        # branch coverage of the model
        br = stats.setdefault('branches', {})
        def hit(k, n=1):
            if n:
                br[k] = br.get(k, 0) + n
        hit('no_good_pixel', 1 if (c.get('ivar') is not None and max(flat(c['ivar'])) == 0) else 0)
        hit('group_le_2_pixels', sum(1 for f in r['fits'] if f is None))
        hit('fit_all_coefficients_zero', sum(1 for f in r['fits'] if f and not any(f['coeff'])))
        hit('fit_used', sum(1 for f in r['fits'] if f and any(f['coeff'])))
        hit('breakpoints_masked_beyond_the_last', sum(1 for f in r['fits'] if f and f['bkmask'].count(False) > 1))
        hit('pixels_rejected_by_fit', sum(1 for f in r['fits'] if f and any(f['coeff']) and not all(f['bmask'])))
        hit('growth_fired', 1 if ('pre_ivar' in r and r['pre_ivar'] != r['newivar']) else 0)
        hit('stacked_median_weights', 1 if c['shape'] == 'stack' and c.get('ivar') is not None else 0)
        hit('no_objivar', 1 if c.get('ivar') is None else 0)
        hit('output_all_without_variance', 1 if not any(v > 0 for v in r['newivar']) else 0)
        hit('output_grid_lt_3_pixels', 1 if len(c['newloglam']) < 3 else 0)
        if c['kwargs']['aesthetics'] == 'damp' and any(v > 0 for v in r['newivar']):
            g = [k for k, v in enumerate(r['newivar']) if v != 0]
            hit('damp_taper_low', 1 if g[0] > 0 else 0)
            hit('damp_taper_high', 1 if g[-1] < len(r['newivar']) - 1 else 0)
        hit('aesthetics_' + c['kwargs']['aesthetics'])
        stats['rejected_pixels'] += sum(1 for f in r['fits'] if f for b in f['bmask'] if not b)
        nf, ni = r['newflux'], r['newivar']
        good_out = [v > 0 for v in ni]
        # where the input is good and smooth the output reproduces it: with no bad input pixel and nothing to reject,
        # every output pixel well inside the input range must carry variance (not vacuous checks below)
        fl_in = flat(c['inloglam'])
        iv_in = flat(c['ivar'])
        if c['shape'] == 'single' and c['kind'] in ('const', 'smooth') and (iv_in is None or min(iv_in) > 0):
            step_out = abs(c['newloglam'][1] - c['newloglam'][0]) if n_new > 1 else 0.0
            lo_in, hi_in = fl_in[3] + 3 * step_out, fl_in[-4] - 3 * step_out     # the growth reaches 2 OUTPUT pixels
            # (the generators of these kinds make at least 60 input pixels)
            lost = [k for k in range(n_new) if lo_in <= c['newloglam'][k] <= hi_in and not good_out[k]]
            if lost:
                viol('C11:combine1fiber:%s:good-input-lost' % var,
                     'all input pixels are good and smooth, yet %d output pixels well inside the input range have no inverse '
                     'variance (first: %d)' % (len(lost), lost[0]), c, r)
        # constant spectrum stays constant
        if c['kind'] in ('const', 'degenerate-const'):
            stats['const_checks'] += 1
            lvl = c['level']
            meth = c['kwargs']['aesthetics']
            where = [k for k in range(n_new) if good_out[k] or (meth in ('traditional', 'noconst', 'mean') and any(good_out))]
            if any(abs(nf[k] - lvl) > 1e-9 * (1 + abs(lvl)) for k in where):
                if meth == 'damp':
                    dev = max(abs(nf[k] - lvl) for k in where)
                    viol('C11:combine1fiber:constant-not-preserved:aesthetics=damp',
                         "aesthetics='damp' multiplies the whole spectrum (good pixels included) by its erf taper: a constant "
                         'spectrum %g comes back changed by up to %.3g on pixels with positive inverse variance' % (lvl, dev), c, r)
                else:
                    viol('C11:combine1fiber:constant-not-preserved', 'a constant spectrum does not stay constant', c, r)
        # same grid = identity to interpolation accuracy (smooth, noise-free input)
        if c['variant'] == 'same' and c['kind'] == 'smooth' and c['shape'] == 'single':
            stats['same_grid_checks'] += 1
            fin = flat(c['flux'])
            dev = max([abs(nf[k] - fin[k]) for k in range(n_new) if good_out[k]] or [0.0])
            if dev > 2e-3:
                viol('C11:combine1fiber:same-grid-not-identity', 'resampling onto the same grid changes a smooth spectrum by %.3g' % dev, c, r)
        # scaling law
        sc = r.get('scaled')
        if sc is not None:
            s = c['extras']['scale']
            if 'err' in sc:
                viol('C11:combine1fiber:%s:impl=%s' % (var, sc['err']), 'scaled call raised %s' % sc['err'], c, r)
            else:
                stats['scale_checks'] += 1
                # compare in the ORIGINAL units (a tolerance relative to 1 would be vacuous for c = 1e-17)
                okf = close_vec([v / s for v in sc['newflux']], nf, 1e-9)
                if c.get('ivar') is None:
                    oki = [v == 0 for v in sc['newivar']] == [v == 0 for v in ni]
                else:
                    oki = close_vec([v * (s * s) for v in sc['newivar']], ni, 1e-9) and \
                        [v == 0 for v in sc['newivar']] == [v == 0 for v in ni]
                if not (okf and oki):
                    lost = sum(1 for a, b in zip(sc['newivar'], ni) if a == 0 and b > 0)
                    viol('C11:combine1fiber:scaling-law:%s' % ('large-c' if s >= 100 else ('tiny-c' if s <= 1e-6 else 'moderate-c')),
                         'flux*c, ivar/c^2 does not scale the outputs likewise (c=%g): %d output pixels lose their inverse variance'
                         % (s, lost), c, r,
                         extra={'meaning': 'scaling flux by c and inverse variance by 1/c^2 must scale newflux by c and newivar by 1/c^2'})
        if c['kwargs']['aesthetics'] == 'damp':
            stats['damp'] += 1          # the taper enters the model as a table of scipy erf values (CDamp)
        if c['shape'] == 'stack':
            stack_direct(c, r)
        judge_extras(c, r)
        for c2, rv in judge_layouts(c, r, i)[:2]:
            if len(layout_cases) < 6:            # a differing layout run: its output goes through Coq like any call
                layout_cases.append((c2, rv))
        terms.append(case_term(c, r))
        owners.append(i)
        if chain_eligible(c, r) and c['kwargs']['aesthetics'] != 'damp':
            stats['chain_cases'] = stats.get('chain_cases', 0) + 1
            stats['chain_with_variance'] = stats.get('chain_with_variance', 0) + (1 if any(good_out) else 0)
            stats['chain_rejected_pixels'] = stats.get('chain_rejected_pixels', 0) + sum(
                1 for f in r['fits'] if f for b in f['bmask'] if not b)
            terms.append(case_term(c, r, mode='chain'))
            owners.append(i)

    for c2, rv in layout_cases:
        calls.append(c2)
        results.append(rv)
        terms.append(case_term(c2, {k: v for k, v in rv.items() if k not in ('pre_ivar', 'pre_flux')}))
        owners.append(len(calls) - 1)
    stats['layout_runs_judged_in_coq'] = len(layout_cases)
    # big calls one per coqc process, the small (degenerate) ones twelve per process
    cc = C.CoqCases(ctx.work, HEADER, 'run_cases', shard=1)
    cc_small = C.CoqCases(ctx.work, HEADER, 'run_cases', shard=6)
    small = [j for j, i in enumerate(owners) if len(flat(calls[i]['inloglam'])) <= 48 and len(calls[i]['newloglam']) <= 100]
    sset_ = set(small)
    big = [j for j in range(len(terms)) if j not in sset_]
    # longest first (the pool takes the files in order): cost ~ input pixels x output pixels
    big.sort(key=lambda j: -len(flat(calls[owners[j]]['inloglam'])) * len(calls[owners[j]]['newloglam']))
    small.sort(key=lambda j: -len(terms[j]))
    nsh = max(1, -(-len(small) // 6))
    small = [j for k in range(nsh) for j in small[k::nsh]]          # spread the long ones over the shards
    verdicts = [None] * len(terms)
    for idxs, runner, tag in ((big, cc, 'cases'), (small, cc_small, 'small')):
        if idxs:
            for j, v in zip(idxs, runner.run([terms[j] for j in idxs], tag=tag)):
                verdicts[j] = v
    cc.coq_seconds += cc_small.coq_seconds
    if os.environ.get('C11_KEEP'):               # development aid: keep the case files (per-file timing)
        import shutil
        shutil.copytree(ctx.work, os.environ['C11_KEEP'], dirs_exist_ok=True)
    ctx.coverage.update({
        'evaluations': sum(len(calls[i]['newloglam']) for i in owners),
        'distinct_nontrivial': len(set(terms)),
        'rule': 'one evaluation = one output pixel of one combine1fiber call compared in Coq with the stage model (fed with the '
                'recorded per-group fits) and with the specification (lengths, ivar >= 0, zero pattern, single-spectrum '
                'interpolation/local-max law); distinct = distinct calls; direct checks on the real code (constant, scaling, same '
                'grid, preprocess shift) are counted in stats',
        'calls': len(calls), 'cases_by_variant_outcome': dist, 'stats': stats, 'coq_eval_s': round(cc.coq_seconds, 1),
        'chain_declined': sum(1 for v in verdicts if v & 4),
        'model_disagreements': sum(1 for v in verdicts if v & 1),
        'spec_violations': sum(1 for v in verdicts if v & 2),
        'samples': [{'call': {k: (v if k not in ('inloglam', 'flux', 'ivar', 'newloglam') else '%d values' % len(flat(v) or []))
                              for k, v in calls[i].items()},
                     'impl': {'newivar_head': results[i]['newivar'][:12], 'groups': len(results[i]['fits'])}} for i in owners[:3]],
    })
    for t, i, v in zip(terms, owners, verdicts):
        v &= 3              # bit 4: the chain model declined (no unique exact solution); counted in chain_declined
        if v == 0:
            continue
        c, r = calls[i], results[i]
        if r.get('no_model'):
            v &= 2          # the recorded fits could not be attached to the groups: only the specification is judged
            if v == 0:
                continue
        sig = 'C11:combine1fiber:%s%s:%s' % (variant_of(c), ':layout' if c.get('layout') else '', 'property' if v & 2 else 'model')
        if sig in seen:
            continue
        diag = cc.show('diagnose %s' % t)[-300:]
        if v & 2:
            viol(sig, 'output contradicts the specification (lengths / ivar >= 0 / zero pattern / interpolation law): %s grid, %s' % (
                c['variant'], variant_of(c)), c, r,
                extra={'verdict': v, 'diagnose': diag,
                       'meaning': 'diagnose = [fullcombmask; ivar zero pattern vs model; ivar values; flux; spec_basic; spec_zero_pattern; spec_interp_law; stages (pre-growth ivar, pre-aesthetics flux)]'})
        else:
            viol(sig, 'model and implementation disagree (%s grid, %s, aesthetics=%s)' % (c['variant'], variant_of(c), c['kwargs']['aesthetics']),
                 c, r, failing=False, extra={'verdict': v, 'diagnose': diag})


def replay(ctx, rep):
    c = rep.get('call')
    if not c:
        print('replay file has no call (kind=%s, item=%s)' % (rep.get('kind'), rep.get('item')))
        return 2
    out = C.run_impl('c11_impl.py', [c])
    r = out['results'][0]
    if c['f'] == 'combine':
        print('call   : combine1fiber(%s, %d input pixels, %d output pixels (%s), objivar %s, %s)' % (
            c['shape'], len(flat(c['inloglam'])), len(c['newloglam']), c['variant'],
            'given' if c.get('ivar') is not None else 'None', c['kwargs']))
    else:
        print('call   : preprocess_spectra(%d objects, zfit=%s)' % (len(c['flux']), c['zfit']))
    keys = ('err', 'msg', 'stage', 'finite', 'len_flux', 'len_ivar')
    print('impl   :', {k: v for k, v in r.items() if k in keys}, 'newivar[:12] =', (r.get('newivar') or [])[:12])
    print('before :', {k: v for k, v in (rep.get('impl_result') or {}).items() if k in keys})
    return 0
