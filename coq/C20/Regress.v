(* C20 regression obligations: the two historical defects of pydl, as the translator sees them.

   The skeletons below are RECORDED: translate/c20.py applied to the source tree just before the repairing commit
   (git worktree of cbb0f60^ resp. 9322e2d^ of /repo).  They do not change with /repo.  The abstract interpreter
   must keep rejecting them (`..._rejected`), and the operational semantics really has an execution that leaves a
   variable changed (`..._leaks`), found by searching the single-fault schedules false^k :: true. *)
From Coq Require Import List Bool Arith.
Import ListNotations.
From PV Require Import C20.Model.

(* window_score before cbb0f60 "fix: window_score restores PHOTO_CALIB in a finally block":
   save, del, ..., restore on the straight-line path only.
   window_score in pydl/photoop/window.py, line 270; variables: 0=PHOTO_CALIB, 1=PHOTO_RESOLVE; slots: 0=calib_dir_save, 1=resolve_dir; inlined: - *)
Definition window_score_pre_cbb0f60 : prog :=
  (Seq (I (SaveStrict 0 0)) (Seq (I (Del 0)) (Seq (I (SaveStrict 1 1)) (Seq (I (Call 1)) (Seq (Choice Skip Skip) (Seq (TryExcept (I (Call 2)) Raise) (Seq (I (Call 3)) (Seq (Choice (I (Call 4)) Skip) (Seq (I (Call 5)) (Seq (I (Restore 0 0)) Ret)))))))))).

(* template_input before 9322e2d "fix: template_input restores RUN2D/RUN1D however it ends":
   template_metadata overwrites RUN2D/RUN1D, the "Clean up" block sits at the end of the straight-line path.
   template_input in pydl/pydlspec2d/spec1d.py, line 1367; variables: 0=RUN2D, 1=RUN1D; slots: 0=['orig_run2d'], 1=['orig_run1d']; inlined: pydl/pydlspec2d/spec1d.py:template_metadata *)
Definition template_input_pre_9322e2d : prog :=
  (Seq (I (Call 1)) (Seq (I (Call 2)) (Seq (I (Call 3)) (Seq (I (Call 4)) (Seq (I (Call 5)) (Seq (I (Call 6)) (Seq (Choice (I (Call 7)) Skip) (Seq (Seq (Scope (Seq (I (Call 8)) (Seq (Choice (I (Call 9)) Skip) (Seq (Seq (I (Call 10)) (Choice Raise Skip)) (Seq (I (Call 11)) (Seq (I (Call 12)) (Seq (I (Call 13)) (Seq (I (Call 14)) (Seq (Seq (I (Call 17)) (Choice (TryExcept (Seq (I (Call 15)) (I (Call 16))) (Choice Raise Raise)) Skip)) (Seq (I (Call 18)) (Seq (Seq (Seq (I (SaveOpt 0 0)) (I (SetC 0 1))) (Seq (I (SaveOpt 1 1)) (I (SetC 1 2)))) (Seq (Seq (I (Call 19)) (Choice (Seq (I (Call 20)) (Seq (I (Call 23)) (Choice (TryExcept (Seq (I (Call 21)) (I (Call 22))) (Choice Raise Raise)) Skip))) Skip)) (Seq (I (Call 24)) Ret))))))))))))) (I (Call 25))) (Seq (I (Call 26)) (Seq (I (Call 27)) (Seq (Seq (I (Call 28)) (Choice (Seq (I (Call 29)) (Seq (Seq (I (Call 30)) (I (Call 31))) (Seq (I (Call 32)) (Seq (I (Call 33)) (I (Call 34)))))) (Seq (Seq (I (Call 35)) (Choice (I (Call 36)) (I (Call 37)))) (Seq (I (Call 38)) (Seq (Seq (I (Call 39)) (Choice (Seq (I (Call 40)) (Seq (I (Call 42)) Raise)) Skip)) (Seq (I (Call 43)) (Seq (I (Call 44)) (Seq (Seq (I (Call 45)) (Choice (I (Call 46)) Skip)) (Seq (TryExcept (I (Call 47)) (I (Call 48))) (Seq (Seq (I (Call 49)) (Choice (I (Call 50)) (I (Call 51)))) (Seq (TryExcept (I (Call 52)) (I (Call 53))) (Seq (I (Call 54)) (Seq (I (Call 55)) (Choice (Seq (I (Call 56)) (Seq (I (Call 57)) (I (Call 58)))) Skip)))))))))))))) (Seq (Seq (I (Call 59)) (Choice (I (Call 60)) (Seq (I (Call 61)) (Choice (I (Call 62)) (Seq (I (Call 63)) (Choice (I (Call 64)) (Seq (I (Call 65)) (Choice (Seq (I (Call 66)) (I (Call 67))) Raise)))))))) (Seq (I (Call 68)) (Seq (I (Call 69)) (Seq (I (Call 70)) (Seq (Seq (I (Call 71)) (Choice (Seq (I (Call 72)) (Seq (I (Call 73)) (Choice (Seq (I (Call 74)) (Seq (I (Call 77)) (I (Call 78)))) Skip))) Skip)) (Seq (I (Call 79)) (Seq (I (Call 80)) (Seq (Choice (Seq (I (Call 81)) (Seq (Seq (I (Call 82)) (Choice (I (Call 83)) Skip)) (I (Call 95)))) Skip) (Seq (I (Call 96)) (Seq (I (Call 97)) (Seq (I (Call 98)) (Seq (I (Call 99)) (Seq (I (Call 100)) (Seq (I (Call 101)) (Seq (I (Call 102)) (Seq (I (Call 103)) (Seq (Seq (I (Call 104)) (Choice (Seq (I (Call 105)) (Seq (I (Call 106)) (Seq (I (Call 107)) (Seq (I (Call 108)) (Seq (I (Call 109)) (Seq (I (Call 110)) (Seq (I (Call 111)) (I (Call 112))))))))) Skip)) (Seq (Seq (I (Call 113)) (Choice (Seq (I (Call 114)) (Seq (I (Call 115)) (Seq (I (Call 116)) (Seq (I (Call 117)) (Seq (I (Call 118)) (Seq (I (Call 120)) (Seq (I (Call 121)) (Seq (I (Call 122)) (Seq (I (Call 123)) (Seq (I (Call 124)) (Seq (I (Call 125)) (Seq (I (Call 126)) (Seq (I (Call 127)) (Seq (I (Call 129)) (Seq (I (Call 130)) (Seq (I (Call 131)) (Seq (I (Call 132)) (Seq (I (Call 133)) (I (Call 134)))))))))))))))))))) Skip)) (Seq (Seq (I (Call 135)) (Choice (I (Call 136)) Skip)) (Seq (I (Call 137)) (Seq (Seq (I (Call 138)) (Choice Skip Skip)) (Seq (I (Call 139)) (Seq (I (Call 140)) (Seq (I (Call 141)) (Seq (I (Call 142)) (Seq (I (Call 143)) (Seq (I (Call 144)) (Seq (I (Call 145)) (Seq (I (Call 146)) (Seq (I (Call 147)) (Seq (I (Call 148)) (Seq (I (Call 149)) (Seq (I (Call 150)) (Seq (I (Call 151)) (Seq (Seq (I (ReadReq 0)) (I (Call 152))) (Seq (Seq (I (ReadReq 1)) (I (Call 153))) (Seq (I (Call 154)) (Seq (I (Call 155)) (Seq (Seq (I (Call 156)) (Choice (Seq (I (Call 157)) (I (Call 158))) Skip)) (Seq (I (Call 159)) (Seq (I (Call 160)) (Seq (Seq (I (Call 161)) (Choice (Seq (I (Call 162)) (I (Call 164))) (I (Call 165)))) (Seq (I (Call 166)) (Seq (I (Call 167)) (Seq (I (Call 168)) (Seq (I (Call 169)) (Seq (Seq (I (Call 170)) (Choice (I (Call 171)) Skip)) (Seq (Seq (I (RestoreOpt 0 0)) (I (RestoreOpt 1 1))) Ret))))))))))))))))))))))))))))))))))))))))))))))))))))))))))).

(* does the execution under schedule false^k :: true, from an environment where every variable is set to 7,
   end with variable v different from 7 ? *)
Definition single_fault (k : nat) : sched := repeat false k ++ [true].
Definition leaks_at (p : prog) (v : var) (k : nat) : bool :=
  match fst (fst (fst (exec p (single_fault k) (fun _ => Some 7, fun _ => None)))) v with
  | Some 7 => false
  | _ => true
  end.
Definition first_leak (p : prog) (v : var) (bound : nat) : option nat := find (leaks_at p v) (seq 0 bound).

Lemma window_score_cbb0f60_rejected : restores_check [0; 1] window_score_pre_cbb0f60 = false.
Proof. vm_compute. reflexivity. Qed.

Lemma window_score_cbb0f60_leaks :
  exists sc env0, fst (fst (fst (exec window_score_pre_cbb0f60 sc (env0, fun _ => None)))) 0 <> env0 0.
Proof.
  exists (single_fault 0), (fun _ => Some 7). vm_compute. discriminate.
Qed.

Lemma template_input_9322e2d_rejected : restores_check [0; 1] template_input_pre_9322e2d = false.
Proof. vm_compute. reflexivity. Qed.

Lemma template_input_9322e2d_leaks :
  exists sc env0, fst (fst (fst (exec template_input_pre_9322e2d sc (env0, fun _ => None)))) 0 <> env0 0.
Proof.
  (* first_leak template_input_pre_9322e2d 0 200 = Some 6: the 7th scheduled decision, a call made after
     template_metadata has overwritten RUN2D *)
  exists (single_fault 6), (fun _ => Some 7). vm_compute. discriminate.
Qed.
