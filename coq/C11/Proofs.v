(* C11 proofs *)
From Coq Require Import QArith Qround Qabs Lqa List Bool Arith Lia.
Import ListNotations.
From PV Require Import Lib.WLS BSpline.Eval BSpline.EvalProofs C11.Model.
Open Scope Q_scope.

Lemma grow_length v : length (grow v) = length v.
Proof.
  unfold grow.
  assert (H : forall (idx : list nat) (vals l : list Q), length (set_many idx vals l) = length l).
  { induction idx as [|i idx IH]; intros vals l; [reflexivity|]. destruct vals as [|a vals]; [reflexivity|].
    cbn [set_many]. rewrite IH. clear. revert i. induction l as [|b l IHl]; intros [|i]; cbn; auto. }
  rewrite !H. reflexivity.
Qed.
