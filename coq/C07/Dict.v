(* C07 proofs, part 1: strings, python-dict association lists, and what set_maskbits builds
   (load true rows aliases) in terms of the rows of the file. *)
From Coq Require Import ZArith List Bool Lia.
Import ListNotations.
From PV Require Import C07.Model.
Open Scope Z_scope.

(* ------------------------------------------------------------------ strings *)

Lemma str_eqb_eq a b : str_eqb a b = true <-> a = b.
Proof.
  revert b; induction a as [|x a IH]; intros [|y b]; cbn [str_eqb]; split; intros H; try reflexivity; try discriminate.
  - apply andb_true_iff in H. destruct H as [H1 H2]. apply Z.eqb_eq in H1. apply IH in H2. subst. reflexivity.
  - inversion H; subst. apply andb_true_iff. split; [apply Z.eqb_refl|apply IH; reflexivity].
Qed.

Lemma str_eqb_refl a : str_eqb a a = true.
Proof. apply str_eqb_eq. reflexivity. Qed.

Lemma str_eqb_neq a b : str_eqb a b = false <-> a <> b.
Proof.
  split.
  - intros H E. apply str_eqb_eq in E. congruence.
  - intros H. destruct (str_eqb a b) eqn:E; [|reflexivity]. apply str_eqb_eq in E. contradiction.
Qed.

Lemma str_eqb_sym a b : str_eqb a b = str_eqb b a.
Proof.
  destruct (str_eqb a b) eqn:E.
  - apply str_eqb_eq in E. subst. symmetry. apply str_eqb_refl.
  - apply str_eqb_neq in E. symmetry. apply str_eqb_neq. congruence.
Qed.

Lemma upper_c_idem c : upper_c (upper_c c) = upper_c c.
Proof.
  unfold upper_c.
  destruct ((97 <=? c) && (c <=? 122)) eqn:E.
  - destruct ((97 <=? c - 32) && (c - 32 <=? 122)) eqn:E2; [|reflexivity]. lia.
  - rewrite E. reflexivity.
Qed.

Lemma upper_idem s : upper (upper s) = upper s.
Proof. unfold upper. rewrite map_map. apply map_ext. intros; apply upper_c_idem. Qed.

Lemma mem_In s l : mem s l = true <-> In s l.
Proof.
  unfold mem. rewrite existsb_exists. split.
  - intros (x & Hin & E). apply str_eqb_eq in E. subst. exact Hin.
  - intros H. exists s. split; [exact H|apply str_eqb_refl].
Qed.

Lemma mem_notIn s l : mem s l = false <-> ~ In s l.
Proof.
  split.
  - intros H Hin. apply mem_In in Hin. congruence.
  - intros H. destruct (mem s l) eqn:E; [|reflexivity]. apply mem_In in E. contradiction.
Qed.

(* ------------------------------------------------------------------ dictionaries *)

Section DictLemmas.
Context {V : Type}.
Implicit Types d : list (str * V).

Lemma dget_dset_same k v d : dget k (dset k v d) = Some v.
Proof.
  induction d as [|[k' v'] d IH]; cbn [dset dget].
  - rewrite str_eqb_refl. reflexivity.
  - destruct (str_eqb k k') eqn:E; cbn [dget]; rewrite E; [reflexivity|exact IH].
Qed.

Lemma dget_dset_other k k' v d : k <> k' -> dget k (dset k' v d) = dget k d.
Proof.
  intros Hne. induction d as [|[k2 v2] d IH]; cbn [dset dget].
  - apply str_eqb_neq in Hne. rewrite Hne. reflexivity.
  - destruct (str_eqb k' k2) eqn:E; cbn [dget].
    + apply str_eqb_eq in E. subst k2. apply str_eqb_neq in Hne. rewrite Hne. reflexivity.
    + destruct (str_eqb k k2); [reflexivity|exact IH].
Qed.

Lemma dget_None_notin k d : dget k d = None <-> ~ In k (map fst d).
Proof.
  induction d as [|[k' v'] d IH]; cbn [dget map fst In].
  - split; [intros _ []|reflexivity].
  - destruct (str_eqb k k') eqn:E.
    + apply str_eqb_eq in E. subst. split; [discriminate|]. intros H. exfalso. apply H. left. reflexivity.
    + apply str_eqb_neq in E. rewrite IH. split.
      * intros H [H1|H1]; [congruence|contradiction].
      * intros H H1. apply H. right. exact H1.
Qed.

Lemma dget_In k v d : dget k d = Some v -> In (k, v) d.
Proof.
  induction d as [|[k' v'] d IH]; cbn [dget]; [discriminate|].
  destruct (str_eqb k k') eqn:E.
  - apply str_eqb_eq in E. subst. intros H. inversion H; subst. left. reflexivity.
  - intros H. right. apply IH. exact H.
Qed.

Lemma NoDup_dget k v d : NoDup (map fst d) -> In (k, v) d -> dget k d = Some v.
Proof.
  induction d as [|[k' v'] d IH]; cbn [map fst]; intros Hnd Hin; [destruct Hin|].
  inversion Hnd as [|? ? Hnotin Hnd']; subst. cbn [dget]. destruct Hin as [Hin|Hin].
  - inversion Hin; subst. rewrite str_eqb_refl. reflexivity.
  - destruct (str_eqb k k') eqn:E.
    + apply str_eqb_eq in E. subst. exfalso. apply Hnotin. apply (in_map fst) in Hin. exact Hin.
    + apply IH; assumption.
Qed.

Lemma dset_fresh k v d : dget k d = None -> dset k v d = d ++ [(k, v)].
Proof.
  induction d as [|[k' v'] d IH]; cbn [dget dset app]; [reflexivity|].
  destruct (str_eqb k k'); [discriminate|]. intros H. rewrite IH by exact H. reflexivity.
Qed.

Lemma has_true k d : has k d = true <-> In k (map fst d).
Proof.
  unfold has. destruct (dget k d) eqn:E.
  - split; [|reflexivity]. intros _. apply dget_In in E. apply (in_map fst) in E. exact E.
  - split; [discriminate|]. intros H. apply dget_None_notin in E. contradiction.
Qed.

End DictLemmas.

(* ------------------------------------------------------------------ lists *)

Lemma existsb_false_filter {A} (p : A -> bool) l : existsb p l = false -> filter p l = [].
Proof.
  induction l as [|x l IH]; cbn [existsb filter]; [reflexivity|].
  intros H. apply orb_false_iff in H. destruct H as [H1 H2]. rewrite H1. apply IH. exact H2.
Qed.

Lemma nodupb_NoDup {A} (eqb : A -> A -> bool) (l : list A) :
  (forall a b, eqb a b = true <-> a = b) -> nodupb eqb l = true -> NoDup l.
Proof.
  intros Heq. induction l as [|x l IH]; cbn [nodupb]; intros H; [constructor|].
  apply andb_true_iff in H. destruct H as [H1 H2]. constructor; [|apply IH; exact H2].
  intros Hin. apply negb_true_iff in H1.
  assert (existsb (eqb x) l = true) as E by (apply existsb_exists; exists x; split; [exact Hin|apply Heq; reflexivity]).
  congruence.
Qed.

Lemma fl_eqb_eq a b : fl_eqb a b = true <-> a = b.
Proof.
  destruct a as [a1 a2], b as [b1 b2]. unfold fl_eqb. cbn [fst snd]. rewrite andb_true_iff, !str_eqb_eq.
  split; [intros [-> ->]; reflexivity|intros H; inversion H; split; reflexivity].
Qed.

Lemma fb_eqb_eq a b : fb_eqb a b = true <-> a = b.
Proof.
  destruct a as [a1 a2], b as [b1 b2]. unfold fb_eqb. cbn [fst snd]. rewrite andb_true_iff, str_eqb_eq, Z.eqb_eq.
  split; [intros [-> ->]; reflexivity|intros H; inversion H; split; reflexivity].
Qed.

(* NoDup of (group, x) pairs gives NoDup of x within one group *)
Lemma NoDup_within_group {A B} (g : A -> B) (G : str) (flag : A -> str) (l : list A) :
  NoDup (map (fun r => (flag r, g r)) l) ->
  NoDup (map g (filter (fun r => str_eqb (flag r) G) l)).
Proof.
  induction l as [|x l IH]; cbn [map filter]; intros H; [constructor|].
  inversion H as [|? ? Hnotin Hnd]; subst.
  destruct (str_eqb (flag x) G) eqn:E; [|apply IH; exact Hnd].
  cbn [map]. constructor; [|apply IH; exact Hnd].
  intros Hin. apply in_map_iff in Hin. destruct Hin as (y & Hy & Hyin).
  apply filter_In in Hyin. destruct Hyin as [Hyl HyG].
  apply str_eqb_eq in E. apply str_eqb_eq in HyG.
  apply Hnotin. apply in_map_iff. exists y. split; [|exact Hyl]. rewrite Hy, HyG, E. reflexivity.
Qed.

(* ------------------------------------------------------------------ rows -> table *)

(* the (LABEL, bit) pairs of group G, in file order *)
Definition gdefs (rows : list row) (G : str) : group :=
  map (fun r => (rlabel r, rbit r)) (filter (fun r => str_eqb (rflag r) G) rows).
Definition gknown (rows : list row) (G : str) : bool := existsb (fun r => str_eqb (rflag r) G) rows.

Lemma defs_gdefs rows aliases g : defs rows aliases g = gdefs rows (target aliases g).
Proof. reflexivity. Qed.
Lemma known_gknown rows aliases g : known rows aliases g = gknown rows (target aliases g).
Proof. reflexivity. Qed.

Lemma gdefs_app rows1 rows2 G : gdefs (rows1 ++ rows2) G = gdefs rows1 G ++ gdefs rows2 G.
Proof. unfold gdefs. rewrite filter_app, map_app. reflexivity. Qed.

Lemma gknown_app rows1 rows2 G : gknown (rows1 ++ rows2) G = gknown rows1 G || gknown rows2 G.
Proof. unfold gknown. apply existsb_app. Qed.

Lemma gknown_false_gdefs rows G : gknown rows G = false -> gdefs rows G = [].
Proof. intros H. unfold gdefs. rewrite existsb_false_filter by exact H. reflexivity. Qed.

Definition RowsInv (m : table) (done : list row) : Prop :=
  forall G, dget G m = if gknown done G then Some (gdefs done G) else None.

Lemma add_row_unfold m r :
  add_row true m r = match dget (rflag r) m with
                     | Some g => dset (rflag r) (dset (rlabel r) (rbit r) g) m
                     | None => dset (rflag r) [(rlabel r, rbit r)] m
                     end.
Proof. destruct r as [[f b] l]. reflexivity. Qed.

Lemma add_row_step m done r :
  RowsInv m done ->
  ~ In (rlabel r) (map fst (gdefs done (rflag r))) ->
  RowsInv (add_row true m r) (done ++ [r]).
Proof.
  intros Inv Hfresh G. rewrite add_row_unfold.
  set (F := rflag r) in *. set (L := rlabel r) in *. set (b := rbit r) in *.
  rewrite gknown_app, gdefs_app.
  assert (E1 : gknown [r] G = str_eqb F G) by (unfold gknown; cbn [existsb]; apply orb_false_r).
  assert (E2 : gdefs [r] G = if str_eqb F G then [(L, b)] else []).
  { unfold gdefs. cbn [filter]. fold F. destruct (str_eqb F G); reflexivity. }
  rewrite E1, E2. pose proof (Inv F) as HF.
  destruct (str_eqb F G) eqn:EFG.
  - apply str_eqb_eq in EFG. subst G. rewrite orb_true_r.
    destruct (gknown done F) eqn:EK; rewrite HF.
    + rewrite dget_dset_same. rewrite dset_fresh; [reflexivity|]. apply dget_None_notin. exact Hfresh.
    + rewrite dget_dset_same. rewrite (gknown_false_gdefs done F EK). reflexivity.
  - apply str_eqb_neq in EFG. rewrite orb_false_r, app_nil_r.
    assert (G <> F) as Hne by congruence.
    destruct (gknown done F); rewrite HF; rewrite dget_dset_other by exact Hne; apply Inv.
Qed.

Lemma load_rows_fold rows : forall done m,
  RowsInv m done ->
  NoDup (map (fun r => (rflag r, rlabel r)) (done ++ rows)) ->
  RowsInv (fold_left (add_row true) rows m) (done ++ rows).
Proof.
  induction rows as [|r rows IH]; intros done m Inv Hnd; cbn [fold_left].
  - rewrite app_nil_r. exact Inv.
  - replace (done ++ r :: rows) with ((done ++ [r]) ++ rows) in * by (rewrite <- app_assoc; reflexivity).
    apply IH; [|exact Hnd].
    apply add_row_step; [exact Inv|].
    intros Hin. unfold gdefs in Hin. rewrite map_map in Hin. cbn [fst] in Hin.
    apply in_map_iff in Hin. destruct Hin as (y & Hy & Hyin). apply filter_In in Hyin. destruct Hyin as [Hyd HyF].
    apply str_eqb_eq in HyF.
    rewrite !map_app in Hnd. cbn [map] in Hnd. rewrite <- app_assoc in Hnd. cbn [app] in Hnd.
    apply NoDup_remove_2 in Hnd. apply Hnd. apply in_or_app. left.
    apply in_map_iff. exists y. split; [|exact Hyd]. rewrite Hy, HyF. reflexivity.
Qed.

Lemma wf_rows_keys rows : wf_rows rows = true ->
  NoDup (map (fun r => (rflag r, rlabel r)) rows) /\ NoDup (map (fun r => (rflag r, rbit r)) rows)
  /\ Forall (fun r => 0 <= rbit r < 64) rows.
Proof.
  unfold wf_rows. rewrite !andb_true_iff. intros [[H1 H2] H3]. repeat split.
  - apply (nodupb_NoDup fl_eqb); [apply fl_eqb_eq|exact H2].
  - apply (nodupb_NoDup fb_eqb); [apply fb_eqb_eq|exact H3].
  - apply Forall_forall. intros r Hr. rewrite forallb_forall in H1. specialize (H1 r Hr). lia.
Qed.

Lemma load_rows_get rows : wf_rows rows = true -> RowsInv (load_rows true rows) rows.
Proof.
  intros Hwf. apply wf_rows_keys in Hwf. destruct Hwf as (H1 & _ & _).
  unfold load_rows. apply (load_rows_fold rows [] []); [|exact H1].
  intros G. reflexivity.
Qed.

(* ------------------------------------------------------------------ aliases *)

Definition lookup_spec (rows : list row) (adone : list arow) (G : str) : option group :=
  let T := resolve (rev adone) G in if gknown rows T then Some (gdefs rows T) else None.

Definition AInv (rows : list row) (names : list str) (adone : list arow) (m : table) : Prop :=
  (forall G, dget G m = lookup_spec rows adone G) /\
  (forall N, In N names -> gknown rows (resolve (rev adone) N) = true) /\
  (forall f a, In (f, a) adone -> In (upper a) names /\ In (upper f) names /\ dget (upper a) m = dget (upper f) m).

Lemma alias_fold rows rest : forall names adone m,
  AInv rows names adone m -> wf_aliases names rest = true ->
  exists m' names', fold_left (add_alias true) rest (Some m) = Some m' /\ AInv rows names' (adone ++ rest) m'.
Proof.
  induction rest as [|[f a] rest IH]; intros names adone m Inv Hwf.
  - exists m, names. rewrite app_nil_r. split; [reflexivity|exact Inv].
  - cbn [wf_aliases] in Hwf. rewrite !andb_true_iff in Hwf. destruct Hwf as [[HF HA] Hrest].
    apply mem_In in HF. apply negb_true_iff in HA. apply mem_notIn in HA.
    destruct Inv as (I1 & I2 & I3).
    set (F := upper f) in *. set (A := upper a) in *.
    assert (HFA : F <> A) by (intros E; apply HA; rewrite <- E; exact HF).
    pose proof (I2 F HF) as HFk.
    assert (HgetF : dget F m = Some (gdefs rows (resolve (rev adone) F))).
    { rewrite I1. unfold lookup_spec. rewrite HFk. reflexivity. }
    cbn [fold_left add_alias norm]. fold F. fold A. rewrite HgetF.
    set (x := gdefs rows (resolve (rev adone) F)) in *.
    change (adone ++ (f, a) :: rest) with (adone ++ ([(f, a)] ++ rest)). rewrite app_assoc.
    apply (IH (A :: names)); [|exact Hrest].
    assert (Hres : forall G, resolve (rev (adone ++ [(f, a)])) G
                             = if str_eqb A G then resolve (rev adone) F else resolve (rev adone) G).
    { intros G. rewrite rev_app_distr. cbn [rev app resolve]. reflexivity. }
    repeat split.
    + intros G. unfold lookup_spec. rewrite Hres.
      destruct (str_eqb A G) eqn:E.
      * apply str_eqb_eq in E. subst G. rewrite dget_dset_same. rewrite HFk. reflexivity.
      * apply str_eqb_neq in E. rewrite dget_dset_other by congruence. apply I1.
    + intros N [HN|HN].
      * subst N. rewrite Hres, str_eqb_refl. exact HFk.
      * rewrite Hres. assert (A <> N) as Hne by (intros E; apply HA; rewrite E; exact HN).
        apply str_eqb_neq in Hne. rewrite Hne. apply I2. exact HN.
    + apply in_app_or in H. destruct H as [H|[H|[]]].
      * right. apply (I3 f0 a0 H).
      * inversion H; subst. left. reflexivity.
    + apply in_app_or in H. destruct H as [H|[H|[]]].
      * right. apply (I3 f0 a0 H).
      * inversion H; subst. right. exact HF.
    + apply in_app_or in H. destruct H as [H|[H|[]]].
      * destruct (I3 f0 a0 H) as (Ha & Hf & Heq).
        rewrite !dget_dset_other; [exact Heq| |].
        -- intros E. apply HA. fold A. rewrite <- E. exact Hf.
        -- intros E. apply HA. fold A. rewrite <- E. exact Ha.
      * inversion H; subst. fold A F. rewrite dget_dset_same. rewrite dget_dset_other by exact HFA. symmetry. exact HgetF.
Qed.

Lemma In_rflag_gknown rows N : In N (map rflag rows) -> gknown rows N = true.
Proof.
  intros H. apply in_map_iff in H. destruct H as (r & Hr & Hin).
  unfold gknown. apply existsb_exists. exists r. split; [exact Hin|]. rewrite Hr. apply str_eqb_refl.
Qed.

(* what the dictionary holds after a successful load of a well-formed file *)
Theorem load_spec rows aliases : wf_file rows aliases = true ->
  exists m, load true rows aliases = Some m /\
    (forall g, dget (upper g) m = if known rows aliases g then Some (defs rows aliases g) else None) /\
    (forall f a, In (f, a) aliases -> dget (upper a) m = dget (upper f) m /\ known rows aliases f = true).
Proof.
  unfold wf_file. rewrite andb_true_iff. intros [Hr Ha].
  pose proof (load_rows_get rows Hr) as Inv0.
  assert (AInv rows (map rflag rows) [] (load_rows true rows)) as Inv.
  { repeat split.
    - intros G. unfold lookup_spec. cbn [rev resolve]. apply Inv0.
    - intros N HN. cbn [rev resolve]. apply In_rflag_gknown. exact HN.
    - destruct H. - destruct H. - destruct H. }
  destruct (alias_fold rows aliases _ _ _ Inv Ha) as (m & names' & Hload & (I1 & I2 & I3)).
  exists m. split; [exact Hload|]. split.
  - intros g. rewrite I1. unfold lookup_spec. cbn [app]. rewrite known_gknown, defs_gdefs. reflexivity.
  - intros f a Hin. destruct (I3 f a Hin) as (_ & Hf & Heq). split; [exact Heq|].
    rewrite known_gknown. unfold target. apply (I2 (upper f) Hf).
Qed.

(* S resolves a name that is not an alias to itself *)
Lemma resolve_not_alias ra G : (forall f a, In (f, a) ra -> upper a <> G) -> resolve ra G = G.
Proof.
  induction ra as [|[f a] ra IH]; intros H; cbn [resolve]; [reflexivity|].
  assert (upper a <> G) as Hne by (apply (H f a); left; reflexivity).
  apply str_eqb_neq in Hne. rewrite Hne. apply IH. intros f' a' Hin. apply (H f' a'). right. exact Hin.
Qed.

Lemma target_not_alias aliases g : (forall f a, In (f, a) aliases -> upper a <> upper g) -> target aliases g = upper g.
Proof.
  intros H. unfold target. apply resolve_not_alias. intros f a Hin. apply (H f a). apply in_rev. exact Hin.
Qed.

(* ------------------------------------------------------------------ the case of the names in the file does not matter *)

Definition upper_row (r : row) : row := (upper (fst (fst r)), snd (fst r), upper (snd r)).
Definition upper_arow (a : arow) : arow := (upper (fst a), upper (snd a)).

Lemma add_row_upper m r : add_row true m (upper_row r) = add_row true m r.
Proof. destruct r as [[f b] l]. unfold upper_row, add_row, norm. cbn [fst snd]. rewrite !upper_idem. reflexivity. Qed.

Lemma add_alias_upper m a : add_alias true m (upper_arow a) = add_alias true m a.
Proof. destruct a as [f al]. unfold upper_arow, add_alias, norm. cbn [fst snd]. rewrite !upper_idem. reflexivity. Qed.

Lemma fold_left_map_ext {A B} (f : A -> B -> A) (h : B -> B) l :
  (forall a b, f a (h b) = f a b) -> forall a, fold_left f (map h l) a = fold_left f l a.
Proof. intros E. induction l as [|b l IH]; intros a; cbn [map fold_left]; [reflexivity|]. rewrite E. apply IH. Qed.

Lemma load_file_case rows aliases :
  load true (map upper_row rows) (map upper_arow aliases) = load true rows aliases.
Proof.
  unfold load, load_rows.
  rewrite (fold_left_map_ext (add_row true) upper_row rows add_row_upper).
  apply fold_left_map_ext. apply add_alias_upper.
Qed.

(* a file whose names are already upper-case loads the same way with or without normalisation *)
Definition row_is_upper (r : row) : Prop := upper (fst (fst r)) = fst (fst r) /\ upper (snd r) = snd r.
Definition arow_is_upper (a : arow) : Prop := upper (fst a) = fst a /\ upper (snd a) = snd a.

Lemma fold_left_ext_In {A B} (f g : A -> B -> A) l :
  (forall a b, In b l -> f a b = g a b) -> forall a, fold_left f l a = fold_left g l a.
Proof.
  induction l as [|b l IH]; intros E a; cbn [fold_left]; [reflexivity|].
  rewrite E by (left; reflexivity). apply IH. intros; apply E; right; assumption.
Qed.

Lemma load_upper_file rows aliases :
  Forall row_is_upper rows -> Forall arow_is_upper aliases ->
  load false rows aliases = load true rows aliases.
Proof.
  intros Hr Ha. unfold load, load_rows.
  rewrite (fold_left_ext_In (add_row false) (add_row true) rows).
  - apply fold_left_ext_In. intros m [f al] Hin. rewrite Forall_forall in Ha. destruct (Ha _ Hin) as [E1 E2].
    cbn [fst snd] in E1, E2. unfold add_alias, norm. rewrite E1, E2. reflexivity.
  - intros m [[f b] l] Hin. rewrite Forall_forall in Hr. destruct (Hr _ Hin) as [E1 E2].
    cbn [fst snd] in E1, E2. unfold add_row, norm. rewrite E1, E2. reflexivity.
Qed.
