From Coq Require Import QArith List.
From PV Require Import Lib.WLS C13.LinAlg C15.Model C15.Proofs.
Open Scope Q_scope.
Theorem C15_dof_spec : forall sq n, cc_dof sq n = (Z.of_nat (length (filter (fun s => Qlt_bool 0 s) sq)) - Z.of_nat n)%Z.
Proof. exact dof_spec0. Qed.
Print Assumptions C15_dof_spec.
