(* C09 -- correspondence cases: bspline.fit against the certified dense weighted least-squares solve
   (BSpline/Fit.v: fit_coeff, certified optimal and unique by FitProofs.v), the banded assembly, the
   status logic, and the certified checkers chol_ok / solve_ok on cholesky_band / cholesky_solve outputs.
   Definitions only. *)
From Coq Require Import QArith Qround Qabs List Bool Arith ZArith Lia.
Import ListNotations.
From PV Require Import Lib.WLS BSpline.Eval BSpline.Fit.
Open Scope Q_scope.

Definition rtol7 : Q := 1 # 10000000.
Definition rtol9 : Q := 1 # 1000000000.

Inductive case :=
  (* well-supported fit on sorted data: gb = good knots, observed (status, coeff, yfit) and the banded
     matrix alpha handed to cholesky_band *)
| CFit (gb : list Q) (k : nat) (xs ys ws : list Q) (status : Z) (coeff yfit : list Q) (alpha : list (list Q))
  (* cholesky_band returned (-1, L) on the band matrix ab (n = size), cholesky_solve(L, b) returned x *)
| CChol (ab L : list (list Q)) (n : nat) (x b : list Q)
  (* ill-posed fit caught by the diagonal screening: observed status and breakpoint mask after fit() *)
| CStatus (bk : list Q) (bmask : list bool) (k : nat) (xs ws : list Q) (mininf : Q) (status : Z) (newmask : list bool).

Definition diag_of (m : nat) (D : list obs) : list Q :=
  map (fun j => nthQ (Avec m D (unit m j)) j) (seq 0 m).

(* norm-wise comparison: every component within rtol * (1 + max |b|) *)
Definition maxabs (b : list Q) : Q := fold_left (fun acc v => if Qltb acc (Qabs v) then Qabs v else acc) b 0.
Definition close_norm (rtol : Q) (a b : list Q) : bool :=
  let tol := rtol * (1 + maxabs b) in all2 (close tol) a b.

Definition band_close (a b : list (list Q)) : bool := all2 (all2 (close_rel rtol9)) a b.
Definition band_eq (a b : list (list Q)) : bool := all2 (all2 Qeq_bool) a b.

(* verdict: +1 model differs from the implementation; +2 the implementation contradicts the specification
   (the certified least-squares optimum / L L^T = A / A x = b) *)
Definition run_case (c : case) : Z :=
  match c with
  | CFit gb k xs ys ws status coeff yfit alpha =>
      let m := (length gb - k)%nat in
      let D := fit_obs gb k xs ys ws in
      let band_ok := band_close alpha (band_assemble gb k xs ws)
                     && band_eq (band_assemble gb k xs ws) (band_of k m (normal_matrix m D)) in
      match fit_fast m D with
      | None => 1%Z       (* the generator promised a well-supported problem: the model must solve it *)
      | Some c0 =>
          let s_ok := Z.eqb status 0 && close_norm rtol7 coeff c0
                      && close_norm rtol7 yfit (yfit_of gb k c0 xs) in
          ((if band_ok then 0 else 1) + (if s_ok then 0 else 2))%Z
      end
  | CChol ab L n x b =>
      ((if chol_ok rtol9 ab L n && solve_ok rtol7 ab n x b then 0 else 2))%Z
  | CStatus bk bmask k xs ws mininf status newmask =>
      let gb := select bmask bk in
      let m := (length gb - k)%nat in
      let D := fit_obs gb k xs (map (fun _ => 0) xs) ws in
      let '(st, nm) := fit_status_model bmask k (diag_of m D) mininf in
      (if Z.eqb st status && all2 Bool.eqb nm newmask then 0 else 1)%Z
  end.

Definition run_cases : list case -> list Z := map run_case.

Definition diagnose (c : case) : list bool :=
  match c with
  | CFit gb k xs ys ws status coeff yfit alpha =>
      let m := (length gb - k)%nat in
      let D := fit_obs gb k xs ys ws in
      [band_close alpha (band_assemble gb k xs ws);
       band_eq (band_assemble gb k xs ws) (band_of k m (normal_matrix m D));
       match fit_fast m D with Some _ => true | None => false end;
       Z.eqb status 0;
       match fit_fast m D with Some c0 => close_norm rtol7 coeff c0 | None => false end;
       match fit_fast m D with Some c0 => close_norm rtol7 yfit (yfit_of gb k c0 xs) | None => false end]
  | CChol ab L n x b => [chol_ok rtol9 ab L n; solve_ok rtol7 ab n x b]
  | CStatus bk bmask k xs ws mininf status newmask =>
      let gb := select bmask bk in
      let m := (length gb - k)%nat in
      let D := fit_obs gb k xs (map (fun _ => 0) xs) ws in
      let '(st, nm) := fit_status_model bmask k (diag_of m D) mininf in
      [Z.eqb st status; all2 Bool.eqb nm newmask]
  end.
