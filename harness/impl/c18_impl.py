"""Runs gcirc, the ICRS <-> SDSSMuNu frame transforms, stripe_to_eta/incl and angles_to_x / x_to_angles of the
repository under test on a list of jobs (stdin JSON) and returns the raw doubles (stdout JSON).
Floats travel as repr (exact round trip); NaN/inf as the strings 'nan', 'inf', '-inf'.

Process-global state (np.geterr, warnings.filters, print options, decimal context, the global random streams, os.environ) is
recorded BEFORE pydl is imported (numpy and astropy are already loaded then), after the import and -- op `globals` -- after
the calls of the run: importing or calling pydl must not change any of it."""
import copy
import decimal
import hashlib
import json
import math
import os
import pickle
import random
import sys
import warnings

import numpy as np
from astropy import units as u
from astropy.coordinates import ICRS, SkyCoord, UnitSphericalRepresentation
import astropy.coordinates  # noqa: F401  (everything astropy-side is loaded before the first snapshot)


def global_state():
    h = hashlib.sha1
    return {'np.geterr': dict(np.geterr()),
            'warnings.filters': [repr(f)[:120] for f in warnings.filters],
            'np.printoptions': {k: repr(v) for k, v in np.get_printoptions().items()},
            'decimal.prec': decimal.getcontext().prec,
            'np.random': h(repr(np.random.get_state()[1].tolist()).encode()).hexdigest()[:12],
            'random': h(repr(random.getstate()).encode()).hexdigest()[:12],
            'os.environ': h(repr(sorted(os.environ.items())).encode()).hexdigest()[:12],
            'sys.path0': sys.path[0] if sys.path else None,
            'float_repr': repr(0.1 + 0.2)}


STATE_BEFORE_IMPORT = global_state()

# the way a user imports it: the package first, then the public names
import pydl  # noqa: E402
from pydl.goddard.astro import gcirc  # noqa: E402
from pydl.pydlutils import coord as pc  # noqa: E402
from pydl.pydlutils.mangle import angles_to_x, x_to_angles  # noqa: E402

STATE_AFTER_IMPORT = global_state()
FILTERS_AFTER_IMPORT = list(warnings.filters)

warnings.simplefilter('ignore')
STATE_RUNNER = global_state()     # the runner's own filter is in place from here on


# truthy / falsy values a caller may pass for the `latitude` flag (the same object goes to both functions)
FLAGS = {
    'True': lambda: True, 'False': lambda: False,
    'np.True_': lambda: np.True_, 'np.False_': lambda: np.False_,
    '1': lambda: 1, '0': lambda: 0,
    'cmp-true': lambda: np.float64(2.0) > 1.0, 'cmp-false': lambda: np.float64(0.0) > 1.0,
    'np.bool-array-element': lambda: np.array([True, False])[0],
}


def fl(x):
    x = float(x)
    if x != x:
        return 'nan'
    if x in (math.inf, -math.inf):
        return 'inf' if x > 0 else '-inf'
    return x


def fls(a):
    return [fl(x) for x in np.asarray(a, dtype='d').ravel()]


def err(e):
    return {'err': type(e).__name__, 'msg': str(e)[:160]}


def stored(col, storage):
    """the 1-d float64 column `col` in another storage type; returns (object handed to pydl, float64 copy of the same numbers)"""
    col = np.asarray(col, dtype='d')
    if storage == 'noncontig':
        big = np.zeros(2 * col.size + 1, dtype='d')
        big[1::2] = col
        return big[1::2], col.copy()
    if storage == 'reversed':             # negative stride
        big = col[::-1].copy()
        return big[::-1], col.copy()
    if storage == '2d-column':            # non-contiguous 2-D (n, 1) column of a wider array
        big = np.zeros((col.size, 3), dtype='d')
        big[:, 1] = col
        return big[:, 1:2], col.copy()
    if storage == '2d-fortran':           # Fortran-ordered (2, n/2); ravel() of the result is in logical (C) order
        return np.asfortranarray(col.reshape(2, -1)), col.copy()
    if storage == '2d-transposed':        # transposed view of a C array
        return np.ascontiguousarray(col.reshape(2, -1).T).T, col.copy()
    if storage == 'readonly':
        a = col.copy()
        a.setflags(write=False)
        return a, col.copy()
    if storage == 'list':
        return [float(v) for v in col], col.copy()
    if storage == 'quantity':
        return col.copy() * u.deg, col.copy()
    a = col.astype(storage)
    return a, a.astype('d')


def stored2d(pts, st):
    """the 2-D float64 array `pts` in another storage type / memory layout"""
    n, m = pts.shape
    if st == 'noncontig':
        big = np.zeros((n, 2 * m + 1), dtype='d')
        big[:, 1::2] = pts
        return big[:, 1::2]
    if st == 'fortran':
        return np.asfortranarray(pts)
    if st == 'transposed':
        return np.ascontiguousarray(pts.T).T
    if st == 'reversed':
        return pts[::-1].copy()[::-1]
    if st == 'reversed-columns':
        return pts[:, ::-1].copy()[:, ::-1]
    if st == 'rows-strided':
        big = np.zeros((3 * n, m), dtype='d')
        big[::3] = pts
        return big[::3]
    if st == 'readonly':
        a = pts.copy()
        a.setflags(write=False)
        return a
    return pts.astype(st)


def same(a, b):
    return bool(np.array_equal(np.asarray(a), np.asarray(b)) and getattr(a, 'dtype', None) == getattr(b, 'dtype', None))


def scan_decl(rng, n):
    """declinations (deg): uniform in angle, uniform on the sphere, on a 1/8 degree grid, round values"""
    which = rng.integers(0, 4, n)
    dec = rng.uniform(-90, 90, n)
    dec = np.where(which == 1, np.degrees(np.arcsin(rng.uniform(-1, 1, n))), dec)
    dec = np.where(which == 2, np.round(dec * 8) / 8, dec)
    dec = np.where(which == 3, rng.choice([0.0, 30.0, -30.0, 45.0, -45.0, 60.0, -60.0, 89.0, -89.0, 1.0, -1.0], n), dec)
    return dec


def small_offsets(rng, n, lo=-16.0, hi=-1.0):
    """(d_ra, d_dec) in degrees: magnitude log-uniform over the decades 10^lo .. 10^hi, a third along RA only, a third along
    Dec only, a third in a random direction; a few exactly zero"""
    mag = 10.0 ** rng.uniform(lo, hi, n)
    ang = rng.uniform(0, 2 * np.pi, n)
    mode = rng.integers(0, 3, n)
    dra = np.where(mode == 1, 0.0, mag * np.cos(ang))
    ddec = np.where(mode == 0, 0.0, mag * np.sin(ang))
    return dra, ddec


def vector_reference_deg(a1, d1, a2, d2):
    """independent vector formula atan2(|p x q|, p . q) in degrees (float64; absolute error ~1e-14 deg)"""
    a1, d1, a2, d2 = [np.radians(v) for v in (a1, d1, a2, d2)]
    p = np.array([np.cos(d1) * np.cos(a1), np.cos(d1) * np.sin(a1), np.sin(d1)])
    q = np.array([np.cos(d2) * np.cos(a2), np.cos(d2) * np.sin(a2), np.sin(d2)])
    c = np.cross(p.T, q.T)
    return np.degrees(np.arctan2(np.sqrt((c * c).sum(1)), (p * q).sum(0)))



# ----------------------------------------------------------------------------
# calling conventions for ONE point pair (every family of pairs goes through all of them, not only through the array call)
# ----------------------------------------------------------------------------

CONVENTIONS = {
    'pyfloat': lambda v: float(v),
    'npfloat64': lambda v: np.float64(v),
    '0d': lambda v: np.array(float(v), dtype='d'),
    '1elem': lambda v: np.array([float(v)], dtype='d'),
    'list': lambda v: [float(v)],
    'npfloat32': lambda v: np.float32(v),           # the numbers change: the reference is computed from the stored ones
    'pyint': lambda v: int(round(float(v))),        # integral coordinates
    'mixed': None,                                  # float, np.float64, 0-d array, Python float in one call
}
EXACT_CONVENTIONS = ('pyfloat', 'npfloat64', '0d', '1elem', 'list', 'mixed')     # hold exactly the float64 numbers
_MIXED = (float, np.float64, lambda v: np.array(float(v), dtype='d'), float)


def conv_args(conv, p):
    if conv == 'mixed':
        return [f(v) for f, v in zip(_MIXED, p)]
    return [CONVENTIONS[conv](v) for v in p]


def as_float64(a):
    return [float(np.asarray(v, dtype='d').ravel()[0]) for v in a]


def one_reference_deg(un, p):
    """vector formula for one pair given in the convention `un` (float64 numbers)"""
    if un == 0:
        b = [math.degrees(v) for v in p]
    elif un == 1:
        b = [p[0] * 15.0, p[1], p[2] * 15.0, p[3]]
    else:
        b = list(p)
    return float(vector_reference_deg(*[np.array([v]) for v in b])[0])


def scalar_conventions(un, rows, conventions=None):
    """rows: list of [ra1, dec1, ra2, dec2] (float64, convention `un`).  Every row is passed to gcirc in every calling
    convention; strict floating-point error state (an invalid operation or a division by zero on legal input would raise).
    Returns per convention: calls, counts per fault, the first example per fault."""
    top = math.pi if un == 0 else 648000.0
    to_deg = 180.0 / math.pi if un == 0 else 1.0 / 3600.0
    floor = 1e-8 / 3600.0
    out = {}
    for conv in (conventions or list(CONVENTIONS)):
        st = {'calls': 0, 'counts': {}, 'examples': {}}
        for p in rows:
            a = conv_args(conv, p)
            keep = copy.deepcopy(a)
            num = as_float64(a)
            st['calls'] += 1
            fault, got = None, None
            try:
                with np.errstate(invalid='raise', divide='raise', over='raise', under='ignore'):
                    r = gcirc(*a, units=un)
                rv = np.asarray(getattr(r, 'value', r), dtype='d').ravel()
                got = fl(rv[0]) if rv.size == 1 else [fl(x) for x in rv]
                if rv.size != 1:
                    fault = 'shape'
                elif not math.isfinite(rv[0]):
                    fault = 'nan'
                elif not (0 <= rv[0] <= top * (1 + 1e-12)):
                    fault = 'range'
                else:
                    ref = one_reference_deg(un, num)
                    if abs(rv[0] * to_deg - ref) > 1e-6 * ref + floor:
                        fault = 'accuracy'
                if fault is None and not all(same(x, y) if isinstance(x, np.ndarray) else (x == y and type(x) is type(y))
                                             for x, y in zip(a, keep)):
                    fault = 'input-modified'
            except Exception as e:  # noqa: BLE001 - the error class is the observation
                fault, got = 'raises-' + type(e).__name__, str(e)[:120]
            if fault:
                st['counts'][fault] = st['counts'].get(fault, 0) + 1
                if fault not in st['examples']:
                    st['examples'][fault] = {'input': num, 'gcirc': got, 'reference_deg': one_reference_deg(un, num),
                                             'argument_types': [type(x).__name__ for x in a]}
        out[conv] = st
    return out


def naive_sindis2(un, a):
    """the haversine sum in float64, written out naively: which pairs are rounding-critical (closest to / above 1, closest to 0)"""
    ra1, dec1, ra2, dec2 = a
    if un == 0:
        d1, d2, dd, dr = dec1, dec2, dec2 - dec1, ra2 - ra1
    else:
        k = 15.0 if un == 1 else 1.0
        d1, d2, dd, dr = np.deg2rad(dec1), np.deg2rad(dec2), np.deg2rad(dec2 - dec1), np.deg2rad(k * (ra2 - ra1))
    return np.sin(dd / 2) ** 2 + np.cos(d1) * np.cos(d2) * np.sin(dr / 2) ** 2


def near_scan(j):
    """Volume scan of gcirc around the places where the haversine argument is close to 0, 1/2 or 1 and where the RA difference is
    close to a multiple of half a turn; displacements from the special configuration over the decades 1e-16 .. 1e-1 deg.
    Checks on every pair: finite, within [0, 180 deg], symmetric, and equal to the vector formula (1e-6 relative + 1e-8 arcsec:
    the reference is float64)."""
    rng = np.random.default_rng(j['seed'])
    n, un, kind = j['n'], j['units'], j['kind']
    ra = rng.uniform(0, 360, n)
    ra = np.where(rng.random(n) < 0.25, np.round(ra * 8) / 8, ra)
    dec = scan_decl(rng, n)
    dra, ddec = small_offsets(rng, n)
    if kind == 'near-antipodal':
        ra2, dec2 = ra + 180.0 + dra, -dec + ddec
    elif kind == 'near-coincident':
        ra2, dec2 = ra + dra, dec + ddec
    elif kind == 'near-quadrature':
        # (ra + 180, 90 - dec) is exactly 90 degrees from (ra, dec) for dec >= 0 (over the pole)
        sg = np.where(dec < 0, -1.0, 1.0)
        ra2, dec2 = ra + 180.0 + dra, sg * (90.0 - np.abs(dec)) + ddec
    elif kind == 'ra-multiples':
        # RA difference close to m half turns, m = -4 .. 4: near coincident for even m, near antipodal for odd m
        m = rng.integers(-4, 5, n)
        ra2, dec2 = ra + 180.0 * m + dra, np.where(m % 2 == 0, dec, -dec) + ddec
    elif kind == 'near-pole':
        # both points within 10^-16 .. 1 deg of a pole (or exactly on it), the same pole or opposite poles
        e1 = np.where(rng.random(n) < 0.2, 0.0, 10.0 ** rng.uniform(-16, 0, n))
        e2 = np.where(rng.random(n) < 0.2, 0.0, 10.0 ** rng.uniform(-16, 0, n))
        s1 = rng.choice([1.0, -1.0], n)
        s2 = np.where(rng.random(n) < 0.5, s1, -s1)
        dec, dec2 = s1 * (90.0 - e1), s2 * (90.0 - e2)
        ra2 = np.where(rng.random(n) < 0.5, ra + 180.0 + dra, rng.uniform(0, 360, n))
    elif kind == 'near-equator':
        dec = np.where(rng.random(n) < 0.3, 0.0, rng.choice([1.0, -1.0], n) * 10.0 ** rng.uniform(-16, -1, n))
        m = rng.integers(0, 3, n)
        ra2, dec2 = ra + 180.0 * m + dra, np.where(m == 1, -dec, dec) + ddec
    else:
        return {'err': 'BadJob'}
    dec2 = np.clip(dec2, -90.0, 90.0)
    wrap = rng.random(n)
    ra2 = np.where((wrap < 0.3) & (ra2 >= 360.0), ra2 - 360.0, ra2)
    a = [ra, dec, ra2, dec2]
    if un == 0:
        a = [np.deg2rad(x) for x in a]
    elif un == 1:
        a = [a[0] / 15.0, a[1], a[2] / 15.0, a[3]]
    keep = [x.copy() for x in a]
    with np.errstate(all='ignore'):
        d = gcirc(*a, units=un)
        dswap = gcirc(a[2], a[3], a[0], a[1], units=un)
    unchanged = all(np.array_equal(x, y) for x, y in zip(a, keep))
    # reference from the numbers actually passed
    if un == 0:
        b = [np.degrees(x) for x in a]
    elif un == 1:
        b = [a[0] * 15.0, a[1], a[2] * 15.0, a[3]]
    else:
        b = a
    ref = vector_reference_deg(*b)
    top = math.pi if un == 0 else 648000.0
    to_deg = 180.0 / math.pi if un == 0 else 1.0 / 3600.0
    floor = 1e-8 / 3600.0                      # degrees (the reference is float64: radians of ~1000 deg carry ~4e-10 arcsec)
    ddeg = d * to_deg
    fin = np.isfinite(d) & np.isfinite(dswap)
    masks = {
        'nan': ~fin,
        'range': fin & ((d < 0) | (d > top * (1 + 1e-12))),
        'accuracy': fin & (np.abs(ddeg - ref) > 1e-6 * ref + floor),
        'symmetry': fin & (np.abs(d - dswap) * to_deg > 1e-6 * ref + floor),
    }
    # the same pairs through every scalar calling convention: the failures of the array call first, then the rounding-critical
    # pairs (haversine sum closest to / above 1 and closest to 0 in a naive float64 evaluation), then a random sample
    with np.errstate(all='ignore'):
        s2 = naive_sindis2(un, a)
    order = np.argsort(s2)
    nhard, nrand = j.get('n_hard', 150), j.get('n_random', 150)
    idx = list(np.flatnonzero(masks['nan'])[:8]) + list(order[::-1][:nhard]) + list(order[:nhard // 3]) + \
        list(rng.integers(0, n, nrand))
    rows = [[float(x[i]) for x in a] for i in idx]
    conv = scalar_conventions(un, rows)
    # scalar answer = array answer (same numbers): only for the conventions that hold exactly the float64 numbers
    with np.errstate(all='ignore'):
        for cv in EXACT_CONVENTIONS[:2]:
            for i in idx[:200]:
                try:
                    sv = float(np.asarray(gcirc(*conv_args(cv, [x[i] for x in a]), units=un)).ravel()[0])
                except Exception:  # noqa: BLE001 (already recorded above)
                    continue
                if math.isfinite(sv) and math.isfinite(d[i]) and abs(sv - d[i]) * to_deg > 1e-6 * ref[i] + floor:
                    st = conv[cv]
                    st['counts']['differs-from-array-call'] = st['counts'].get('differs-from-array-call', 0) + 1
                    st['examples'].setdefault('differs-from-array-call', {
                        'input': [float(x[i]) for x in a], 'gcirc': fl(sv), 'array_call': fl(d[i]), 'reference_deg': float(ref[i])})
    out = {'n': int(n), 'scalar_calls': sum(c['calls'] for c in conv.values()), 'input_unchanged': bool(unchanged), 'counts': {},
           'examples': {}, 'conventions': conv, 'critical_above_one': int(np.count_nonzero(s2 > 1.0))}
    for what, mk in masks.items():
        bad = np.flatnonzero(mk)
        out['counts'][what] = int(bad.size)
        if bad.size:
            i = int(bad[0])
            out['examples'][what] = {'input': [float(x[i]) for x in a], 'gcirc': fl(d[i]), 'swapped': fl(dswap[i]),
                                     'reference_deg': float(ref[i])}
    # how close to the special configuration the scan actually went (evidence)
    out['min_ref_deg'], out['max_ref_deg'] = float(ref.min()), float(ref.max())
    return out


DERIVED_ROUTES = ['direct', 'replicate_without_data', 'replicate', 'realize_frame', 'skycoord-replicate',
                  'skycoord-frame-replicate_without_data', 'skycoord-from-derived-frame', 'skycoord-by-name', 'copy', 'deepcopy', 'pickle',
                  'pickle-direct', 'getitem', 'reshape', 'frame-copy', 'transform-result', 'transform-result-replicate',
                  'replicate-twice', 'replicate-same-stripe', 'skycoord-pickle', 'skycoord-getitem']


def derive(route, s0, s):
    """an SDSSMuNu frame / coordinate / SkyCoord whose stripe is `s`, obtained by `route` from objects of stripe `s0`"""
    base = pc.SDSSMuNu(stripe=s0)
    co = pc.SDSSMuNu(mu=[12.0, 40.0] * u.deg, nu=[-3.0, 5.0] * u.deg, stripe=s0)
    icrs = ICRS(ra=[10.0, 20.0] * u.deg, dec=[5.0, 6.0] * u.deg)
    if route == 'direct':
        return pc.SDSSMuNu(stripe=s)
    if route == 'replicate_without_data':
        return base.replicate_without_data(stripe=s)
    if route == 'replicate':
        return co.replicate(stripe=s)
    if route == 'realize_frame':
        return co.realize_frame(co.data, stripe=s)
    if route == 'skycoord-replicate':
        return SkyCoord(icrs).transform_to(base).replicate(stripe=s)
    if route == 'skycoord-frame-replicate_without_data':
        return SkyCoord(icrs).transform_to(base).frame.replicate_without_data(stripe=s)
    if route == 'skycoord-from-derived-frame':
        return SkyCoord(12.0 * u.deg, 3.0 * u.deg, frame=base.replicate_without_data(stripe=s))
    if route == 'skycoord-by-name':
        return SkyCoord(12.0 * u.deg, 3.0 * u.deg, frame='sdssmunu', stripe=s)
    if route == 'copy':
        return copy.copy(base.replicate_without_data(stripe=s))
    if route == 'deepcopy':
        return copy.deepcopy(co.replicate(stripe=s))
    if route == 'pickle':
        return pickle.loads(pickle.dumps(co.replicate(stripe=s)))
    if route == 'pickle-direct':
        return pickle.loads(pickle.dumps(pc.SDSSMuNu(stripe=s)))
    if route == 'getitem':
        return co.replicate(stripe=s)[1:]
    if route == 'reshape':
        return co.replicate(stripe=s).reshape(2, 1)
    if route == 'frame-copy':
        return co.replicate(stripe=s).copy()
    if route == 'transform-result':
        return icrs.transform_to(pc.SDSSMuNu(stripe=s))
    if route == 'transform-result-replicate':
        return icrs.transform_to(base).replicate(stripe=s)
    if route == 'replicate-twice':
        return base.replicate_without_data(stripe=(s0 + s + 7) % 90).replicate_without_data(stripe=s)
    if route == 'replicate-same-stripe':
        return pc.SDSSMuNu(stripe=s).replicate_without_data().replicate_without_data(stripe=s)
    if route == 'skycoord-pickle':
        return pickle.loads(pickle.dumps(SkyCoord(icrs).transform_to(base).replicate(stripe=s)))
    if route == 'skycoord-getitem':
        return SkyCoord(SkyCoord(icrs).transform_to(base).replicate(stripe=s))[0:1]
    raise KeyError(route)


def derived(j):
    """frames obtained from other frames must satisfy the same relations as directly constructed ones"""
    s0, s = j['base_stripe'], j['stripe']
    lon, lat = np.array(j['lon'], dtype='d'), np.array(j['lat'], dtype='d')
    mu, nu = np.array(j['mu'], dtype='d'), np.array(j['nu'], dtype='d')
    out = {}
    for route in j['routes']:
        try:
            obj = derive(route, s0, s)
            fr = getattr(obj, 'frame', obj)
            res = {'stripe_out': int(fr.stripe), 'incl': fl(fr.incl.to(u.deg).value), 'node': fl(fr.node.to(u.deg).value),
                   'has_data': bool(fr.has_data)}
            if fr.has_data:
                # the object's own coordinates through its own frame
                own = obj.transform_to(ICRS())
                res['own'] = {'mu': fls(fr.mu.to(u.deg).value), 'nu': fls(fr.nu.to(u.deg).value),
                              'ra': fls(own.ra.to(u.deg).value), 'dec': fls(own.dec.to(u.deg).value)}
                fr = fr.replicate_without_data()
                res['incl_without_data'] = fl(fr.incl.to(u.deg).value)
            m = ICRS(ra=lon * u.deg, dec=lat * u.deg).transform_to(fr)
            res['stripe_result'] = int(m.stripe)
            res['incl_result'] = fl(m.incl.to(u.deg).value)
            b = m.transform_to(ICRS())
            res['r2m'] = {'lon1': fls(m.mu.to(u.deg).value), 'lat1': fls(m.nu.to(u.deg).value),
                          'lon2': fls(b.ra.to(u.deg).value), 'lat2': fls(b.dec.to(u.deg).value)}
            g = fr.realize_frame(UnitSphericalRepresentation(mu * u.deg, nu * u.deg))
            c = g.transform_to(ICRS())
            b = c.transform_to(fr)
            res['m2r'] = {'lon1': fls(c.ra.to(u.deg).value), 'lat1': fls(c.dec.to(u.deg).value),
                          'lon2': fls(b.mu.to(u.deg).value), 'lat2': fls(b.nu.to(u.deg).value)}
            out[route] = res
        except Exception as e:  # noqa: BLE001
            out[route] = err(e)
    return {'routes': out}


class plain_state:
    """the process-global state exactly as `import pydl` left it: no errstate of the runner, the warning filters of that moment"""
    def __enter__(self):
        self.cw = warnings.catch_warnings()
        self.cw.__enter__()
        warnings.filters[:] = FILTERS_AFTER_IMPORT
        if hasattr(warnings, '_filters_mutated'):
            warnings._filters_mutated()

    def __exit__(self, *a):
        return self.cw.__exit__(*a)


def job(j):
    k = j['op']
    if j.get('plain'):
        # no errstate / warning filter of the runner around the call: what the caller gets depends on pydl's import side effects
        with plain_state():
            return job(dict(j, plain=False, no_errstate=True))
    try:
        if k == 'history':
            # several calls in ONE process, in order; every answer is later compared with the answer of the same call alone
            return {'results': [job(c) for c in j['calls']]}
        if k == 'gcirc_storage':
            pts = np.array(j['pts'], dtype='d').reshape(-1, 4)
            un, st = j['units'], j['storage']
            if st in ('pyint', 'npint32', 'npuint16', 'npfloat32'):
                conv = {'pyint': int, 'npint32': np.int32, 'npuint16': np.uint16, 'npfloat32': np.float32}[st]
                out, ref = [], []
                with np.errstate(all='ignore'):
                    for p in pts:
                        a = [conv(v) for v in p]
                        out.append(fl(gcirc(*a, units=un)))
                        ref.append(fl(gcirc(*[float(v) for v in a], units=un)))
                return {'d': out, 'ref': ref, 'input_unchanged': True, 'aliases_input': False, 'dtype': None}
            cols, refs = zip(*[stored(pts[:, c], st) for c in range(4)])
            keep = [np.array(c, copy=True) if not isinstance(c, list) else list(c) for c in cols]
            with np.errstate(all='ignore'):
                d = gcirc(*cols, units=un)
                ref = gcirc(*refs, units=un)
            unchanged = all((c == kp) if isinstance(c, list) else same(c, kp) for c, kp in zip(cols, keep))
            alias = any(np.shares_memory(np.asarray(d), c) for c in cols if isinstance(c, np.ndarray))
            return {'d': fls(getattr(d, 'value', d)), 'ref': fls(ref), 'input_unchanged': bool(unchanged), 'aliases_input': bool(alias),
                    'dtype': str(getattr(d, 'dtype', type(d).__name__))}
        if k == 'angles_storage':
            pts = np.array(j['pts'], dtype='d').reshape(-1, 2)
            lat, st = bool(j['latitude']), j['storage']
            a = stored2d(pts, st)
            keep = a.copy()
            ref64 = a.astype('d')
            x = angles_to_x(a, latitude=lat)
            xkeep = np.array(x, copy=True)
            back = x_to_angles(x, latitude=lat)
            xr = angles_to_x(ref64, latitude=lat)
            br = x_to_angles(xr, latitude=lat)
            # the (N, 3) vectors themselves in the same storage type (float64 reference vectors, re-stored)
            xs = stored2d(xr, st if st not in ('i4', 'i8') else 'noncontig')
            xs_keep = xs.copy()
            back_s = x_to_angles(xs, latitude=lat)
            return {'x': [fls(r) for r in xkeep], 'back': [fls(r) for r in back], 'x_ref': [fls(r) for r in xr],
                    'back_ref': [fls(r) for r in br], 'input_unchanged': same(a, keep), 'x_unchanged': same(x, xkeep),
                    'back_stored': [fls(r) for r in back_s], 'xs_unchanged': same(xs, xs_keep),
                    'aliases_input': bool(np.shares_memory(x, a) or np.shares_memory(back, x) or np.shares_memory(back_s, xs)),
                    'dtypes': [str(x.dtype), str(back.dtype)]}
        if k == 'gcirc':
            # pts: list of [ra1, dec1, ra2, dec2]; mode 'scalar' (one call per row) or 'array' (one call)
            pts = np.array(j['pts'], dtype='d').reshape(-1, 4)
            un = j['units']
            kw = {} if j.get('default_units') else {'units': un}
            with (np.errstate() if j.get('no_errstate') else np.errstate(all='ignore')):
                if j.get('mode') == 'scalar':
                    out = [fl(gcirc(float(p[0]), float(p[1]), float(p[2]), float(p[3]), **kw)) for p in pts]
                elif j.get('mode') in EXACT_CONVENTIONS:
                    out = [fl(np.asarray(gcirc(*conv_args(j['mode'], p), **kw), dtype='d').ravel()[0]) for p in pts]
                else:
                    out = fls(gcirc(pts[:, 0].copy(), pts[:, 1].copy(), pts[:, 2].copy(), pts[:, 3].copy(), **kw))
            return {'d': out}
        if k == 'gcirc_nan_scan':
            # volume scan in the implementation's process: antipodal / coincident / near-antipodal pairs
            rng = np.random.default_rng(j['seed'])
            n = j['n']
            un = j['units']
            ra = rng.uniform(0, 360, n)
            dec = rng.uniform(-90, 90, n)
            if j['kind'] == 'antipodal-grid':
                ra = np.round(ra * 8) / 8
                dec = np.round(dec * 8) / 8
            if j['kind'].startswith('antipodal'):
                ra2, dec2 = ra + 180.0, -dec
                ra2 = np.where(rng.random(n) < 0.5, np.where(ra2 >= 360, ra2 - 360, ra2), ra2)
            elif j['kind'] == 'coincident':
                ra2, dec2 = ra.copy(), dec.copy()
            else:   # poles
                dec = np.where(rng.random(n) < 0.5, 90.0, -90.0)
                ra2, dec2 = rng.uniform(0, 360, n), np.where(rng.random(n) < 0.5, -dec, dec)
            a = [ra, dec, ra2, dec2]
            if un == 0:
                a = [np.deg2rad(x) for x in a]
            elif un == 1:
                a = [a[0] / 15.0, a[1], a[2] / 15.0, a[3]]
            with np.errstate(all='ignore'):
                d = gcirc(*a, units=un)
            bad = np.flatnonzero(~np.isfinite(d))
            top = math.pi if un == 0 else 648000.0
            oor = np.flatnonzero(np.isfinite(d) & ((d < 0) | (d > top * (1 + 1e-12))))
            nz = 0
            if j['kind'] == 'coincident':
                nz = int(np.count_nonzero(d[np.isfinite(d)] != 0.0))
            ex = None
            for idx in list(bad[:1]) + list(oor[:1]):
                ex = [float(x[idx]) for x in a] + [fl(d[idx])]
            return {'n': int(n), 'nonfinite': int(bad.size), 'out_of_range': int(oor.size), 'nonzero_coincident': nz,
                    'example': ex}
        if k == 'gcirc_near_scan':
            return near_scan(j)
        if k == 'gcirc_bad_units':
            try:
                gcirc(1.0, 2.0, 3.0, 4.0, units=j['units'])
                return {'raised': None}
            except Exception as e:  # noqa: BLE001
                return {'raised': type(e).__name__}
        if k in ('r2m', 'm2r', 'r2m2r', 'm2r2m'):
            st = j['stripe']
            lon = np.array(j['lon'], dtype='d')
            lat = np.array(j['lat'], dtype='d')
            if j.get('storage'):
                lon, lat = stored(lon, j['storage'])[0], stored(lat, j['storage'])[0]
                lon_keep, lat_keep = np.array(lon, copy=True), np.array(lat, copy=True)
            res = {}
            if k in ('r2m', 'r2m2r'):
                c = ICRS(ra=lon * u.deg, dec=lat * u.deg)
                m = c.transform_to(pc.SDSSMuNu(stripe=st))
                res['lon1'], res['lat1'] = fls(m.mu.to(u.deg).value), fls(m.nu.to(u.deg).value)
                res['stripe_out'] = m.stripe if isinstance(m.stripe, int) else int(m.stripe)
                res['incl'] = fl(m.incl.to(u.deg).value)
                res['node'] = fl(m.node.to(u.deg).value)
                if k == 'r2m2r':
                    b = m.transform_to(ICRS())
                    res['lon2'], res['lat2'] = fls(b.ra.to(u.deg).value), fls(b.dec.to(u.deg).value)
            else:
                m = pc.SDSSMuNu(mu=lon * u.deg, nu=lat * u.deg, stripe=st)
                c = m.transform_to(ICRS())
                res['lon1'], res['lat1'] = fls(c.ra.to(u.deg).value), fls(c.dec.to(u.deg).value)
                res['incl'] = fl(m.incl.to(u.deg).value)
                res['node'] = fl(m.node.to(u.deg).value)
                if k == 'm2r2m':
                    b = c.transform_to(pc.SDSSMuNu(stripe=st))
                    res['lon2'], res['lat2'] = fls(b.mu.to(u.deg).value), fls(b.nu.to(u.deg).value)
            if j.get('storage'):
                res['input_unchanged'] = bool(same(lon, lon_keep) and same(lat, lat_keep))
            return res
        if k == 'derived':
            return derived(j)
        if k == 'globals':
            now = global_state()
            return {'before_import': STATE_BEFORE_IMPORT, 'after_import': STATE_AFTER_IMPORT, 'runner': STATE_RUNNER, 'after_calls': now,
                    'modules': sorted(m for m in sys.modules if m == 'pydl' or m.startswith('pydl.'))}
        if k == 'gcirc_inplace':
            # the caller changes its arrays in place between two calls / passes one array object for two arguments / queries the
            # earlier result again: every call is judged against the same call on fresh copies of the numbers as they then are
            pts = np.array(j['pts'], dtype='d').reshape(-1, 4)
            un = j['units']
            a = [pts[:, c].copy() for c in range(4)]
            res = {}
            with np.errstate(all='ignore'):
                d1 = gcirc(*a, units=un)
                d1_keep = np.array(d1, copy=True)
                a[0] += j['shift'][0]
                a[3][:] = a[3] * j['shift'][1]
                d2 = gcirc(*a, units=un)
                res['second'] = fls(d2)
                res['second_fresh'] = fls(gcirc(*[x.copy() for x in a], units=un))
                res['first_result_unchanged'] = bool(np.array_equal(d1, d1_keep, equal_nan=True))
                # one array object for both points (distance 0), and for RA and Dec of one point
                res['same_object'] = fls(gcirc(a[0], a[1], a[0], a[1], units=un))
                res['ra_is_dec'] = fls(gcirc(a[1], a[1], a[3], a[3], units=un))
                res['ra_is_dec_fresh'] = fls(gcirc(a[1].copy(), a[1].copy(), a[3].copy(), a[3].copy(), units=un))
                # the result array is the caller's: writing into it must not change a later answer
                d2[...] = -1.0
                res['third'] = fls(gcirc(*a, units=un))
            return res
        if k == 'gcirc_units_types':
            pts = np.array(j['pts'], dtype='d').reshape(-1, 4)
            out = {}
            with np.errstate(all='ignore'):
                for un in (0, 1, 2):
                    ref = fls(gcirc(*[pts[:, c].copy() for c in range(4)], units=un))
                    for nm, f in (('np.int64', np.int64), ('np.uint8', np.uint8), ('float', float), ('np.float64', np.float64),
                                  ('np.int8', np.int8), ('0d-int', lambda v: np.array(v))):
                        try:
                            got = fls(gcirc(*[pts[:, c].copy() for c in range(4)], units=f(un)))
                        except Exception as e:  # noqa: BLE001
                            got = err(e)
                        if got != ref:
                            out['%s(%d)' % (nm, un)] = {'got': got, 'int_units': ref}
                    if un == 1:
                        try:
                            got = fls(gcirc(*[pts[:, c].copy() for c in range(4)], units=True))
                        except Exception as e:  # noqa: BLE001
                            got = err(e)
                        if got != ref:
                            out['True'] = {'got': got, 'int_units': ref}
                pos = fls(gcirc(pts[:, 0].copy(), pts[:, 1].copy(), pts[:, 2].copy(), pts[:, 3].copy(), 1))      # positional
                kwd = fls(gcirc(ra1=pts[:, 0].copy(), dec1=pts[:, 1].copy(), ra2=pts[:, 2].copy(), dec2=pts[:, 3].copy(), units=1))
                if pos != kwd:
                    out['positional-vs-keyword'] = {'got': pos, 'int_units': kwd}
            return {'differences': out}
        if k == 'stripe':
            conv = {'int': int, 'int64': np.int64, 'int16': np.int16, 'uint8': np.uint8, 'uint16': np.uint16,
                    'float': float, 'float64': np.float64}[j.get('type', 'int')]
            with np.errstate(all='ignore'):
                res = {'eta': [fl(pc.stripe_to_eta(conv(s))) for s in j['stripes']],
                       'incl': [fl(pc.stripe_to_incl(conv(s))) for s in j['stripes']]}
            if j.get('frame'):
                # the frame attribute as the transforms see it
                res['frame_incl'] = [fl(pc.SDSSMuNu(stripe=conv(s)).incl.to(u.deg).value) for s in j['stripes'][:12]]
            return res
        if k == 'angles':
            pts = np.array(j['pts'], dtype='d').reshape(-1, 2)
            lat = FLAGS[j['flag']]() if 'flag' in j else bool(j['latitude'])
            keep = pts.copy()
            x = angles_to_x(pts, latitude=lat)
            xkeep = x.copy()
            back = x_to_angles(x, latitude=lat)
            x_unchanged = bool(np.array_equal(xkeep, x))
            back2 = x_to_angles(x, latitude=lat)     # same array again: must give the same answer
            return {'x': [fls(r) for r in xkeep], 'back': [fls(r) for r in back],
                    'input_unchanged': bool(np.array_equal(keep, pts)), 'x_unchanged': x_unchanged,
                    'x_after': [fls(r) for r in x[:2]],
                    'second_call_same': bool(np.array_equal(back, back2, equal_nan=True))}
        if k == 'x2a':
            x = np.array(j['x'], dtype='d').reshape(-1, 3)
            lat = FLAGS[j['flag']]() if 'flag' in j else bool(j['latitude'])
            xkeep = x.copy()
            a = x_to_angles(x, latitude=lat)
            x_unchanged = bool(np.array_equal(xkeep, x))
            a2 = x_to_angles(x, latitude=lat)        # same array again
            akeep = a.copy()
            xb = angles_to_x(a, latitude=lat)
            return {'a': [fls(r) for r in akeep], 'back': [fls(r) for r in xb], 'x_unchanged': x_unchanged,
                    'x_after': [fls(r) for r in x[:2]], 'angles_unchanged': bool(np.array_equal(akeep, a)),
                    'second_call_same': bool(np.array_equal(akeep, a2, equal_nan=True))}
        return {'err': 'BadJob'}
    except Exception as e:  # noqa: BLE001 - the error class is the observation
        return err(e)


def main():
    jobs = json.load(sys.stdin)
    json.dump({'pydl_file': pydl.__file__, 'results': [job(j) for j in jobs]}, sys.stdout)


if __name__ == '__main__':
    main()
