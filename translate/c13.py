"""Fail-closed ast translator for the trace-set code (property C13) -> coq/Generated/Trace.v.

What is extracted (pure index / arithmetic expressions, re-read from the source on every run):
  * fchebyshev_split, fpoly: the initial rows, the loop start and the recurrence expression;
    fchebyshev, flegendre: the row-1 assignment, the loop start, the scipy polynomial family (chebyt / legendre)
    and the degree expression passed to it;
  * TraceSet: xmid, xRange, nx (int(...)), has_jump, the three expressions of xnorm (jump fraction clamp,
    "natural" x, final rescaling), the jump argument passed to xnorm by __init__ and by xy, do_jump, the default grid;
  * func_fit: the good-point test, ncfit, the ngood == 0 / == 1 branch constants, the fixed-parameter expression
    inputans*(1-ia), ysub, the free / fixed index masks, the weighting of the basis (extra2) and of the data (beta),
    the single-parameter formula, the inputfunc scaling.
Every expression is translated by `expr` below; anything it does not know raises Unrecognised and the previous
Generated/Trace.v is kept (no alarm: the correspondence run alone ties model to code then).
Numpy broadcasting idioms are interpreted only in the two shapes the sources use:
  np.outer(np.ones(..), v)            -> entry [j, i] = v[i]
  np.tile(v, n).reshape(n, L)         -> entry [j, i] = v[i]      (+ .transpose() / .T -> entry [i, j] = v[i])
The translation is elementwise: the caller states which index the elementwise variable runs over.
"""
import ast
import os
from fractions import Fraction


class Unrecognised(Exception):
    pass


# ------------------------------------------------------------------ expressions over Q
def qconst(v):
    if isinstance(v, bool):
        raise Unrecognised('bool constant')
    if isinstance(v, int):
        return '(%d # 1)' % v if v >= 0 else '(- (%d # 1))' % (-v)
    if isinstance(v, float):
        fr = Fraction(repr(v))
        s = '(%d # %d)' % (abs(fr.numerator), fr.denominator)
        return s if fr >= 0 else '(- %s)' % s
    raise Unrecognised('constant %r' % (v,))


def strip_wrappers(node):
    """x.astype(..), np.double(x), float(x), (x).copy(), np.asarray(x) -> x"""
    while True:
        if isinstance(node, ast.Call) and isinstance(node.func, ast.Attribute) and node.func.attr in ('astype', 'copy') \
                and not node.keywords:
            node = node.func.value
            continue
        if isinstance(node, ast.Call) and len(node.args) == 1 and not node.keywords and \
                ast.unparse(node.func) in ('np.double', 'float', 'np.float64', 'np.asarray'):
            node = node.args[0]
            continue
        return node


def broadcast_inner(node):
    """np.outer(np.ones(..), v) / np.tile(v, n).reshape(n, L)[.transpose()|.T] -> (v, axis) ; axis 'col' means the
    value depends on the LAST index, 'row' on the first.  Returns None when node is not such an idiom."""
    flips = 0
    while True:
        if isinstance(node, ast.Attribute) and node.attr == 'T':
            node = node.value
            flips += 1
            continue
        if isinstance(node, ast.Call) and isinstance(node.func, ast.Attribute) and node.func.attr == 'transpose' \
                and not node.args and not node.keywords:
            node = node.func.value
            flips += 1
            continue
        break
    inner = None
    if isinstance(node, ast.Call) and ast.unparse(node.func) == 'np.outer' and len(node.args) == 2:
        o = node.args[0]
        if isinstance(o, ast.Call) and ast.unparse(o.func) == 'np.ones':
            inner = node.args[1]
    elif isinstance(node, ast.Call) and isinstance(node.func, ast.Attribute) and node.func.attr == 'reshape' \
            and len(node.args) == 2:
        t = node.func.value
        if isinstance(t, ast.Call) and ast.unparse(t.func) == 'np.tile' and len(t.args) == 2 and \
                ast.unparse(t.args[1]) == ast.unparse(node.args[0]):
            inner = t.args[0]
    if inner is None:
        return None
    return inner, ('col' if flips % 2 == 0 else 'row')


def expr(node, env, axes=None):
    """Python numeric expression -> Gallina term over Q.  env: source text of a sub-expression -> Gallina variable.
    axes: list collecting the axis of every broadcasting idiom met."""
    node = strip_wrappers(node)
    key = ast.unparse(node)
    if key in env:
        return env[key]
    b = broadcast_inner(node)
    if b is not None:
        if axes is not None:
            axes.append(b[1])
        return expr(b[0], env, axes)
    if isinstance(node, ast.Constant):
        return qconst(node.value)
    if isinstance(node, ast.UnaryOp) and isinstance(node.op, ast.USub):
        return '(- %s)' % expr(node.operand, env, axes)
    if isinstance(node, ast.BinOp):
        if isinstance(node.op, ast.Pow):
            if isinstance(node.right, ast.Constant) and node.right.value == 2:
                a = expr(node.left, env, axes)
                return '(%s * %s)' % (a, a)
            raise Unrecognised('power %s' % key)
        op = {ast.Add: '+', ast.Sub: '-', ast.Mult: '*', ast.Div: '/'}.get(type(node.op))
        if op is None:
            raise Unrecognised('operator in %s' % key)
        return '(%s %s %s)' % (expr(node.left, env, axes), op, expr(node.right, env, axes))
    if isinstance(node, ast.Call) and ast.unparse(node.func) in ('np.minimum', 'np.maximum') and len(node.args) == 2:
        f = 'Qmin' if ast.unparse(node.func) == 'np.minimum' else 'Qmax'
        return '(%s %s %s)' % (f, expr(node.args[0], env, axes), expr(node.args[1], env, axes))
    if isinstance(node, ast.Call) and ast.unparse(node.func) in ('min', 'max') and len(node.args) == 2 and not node.keywords:
        # the builtins on two numbers (e.g. a clamped range max(xmax - xmin, 1.0))
        f = 'Qmin' if ast.unparse(node.func) == 'min' else 'Qmax'
        return '(%s %s %s)' % (f, expr(node.args[0], env, axes), expr(node.args[1], env, axes))
    if isinstance(node, ast.Compare):
        return '(if %s then 1 else 0)' % bexpr(node, env)
    raise Unrecognised('expression %s' % key[:80])


def bexpr(node, env):
    node = strip_wrappers(node)
    key = ast.unparse(node)
    if key in env:
        return env[key]
    if isinstance(node, ast.Compare) and len(node.ops) == 1:
        a, b = expr(node.left, env), expr(node.comparators[0], env)
        op = node.ops[0]
        if isinstance(op, ast.Gt):
            return '(gQlt_bool %s %s)' % (b, a)
        if isinstance(op, ast.GtE):
            return '(Qle_bool %s %s)' % (b, a)
        if isinstance(op, ast.Lt):
            return '(gQlt_bool %s %s)' % (a, b)
        if isinstance(op, ast.LtE):
            return '(Qle_bool %s %s)' % (a, b)
    if isinstance(node, ast.UnaryOp) and isinstance(node.op, (ast.Invert, ast.Not)):
        return '(negb %s)' % bexpr(node.operand, env)
    if isinstance(node, ast.BoolOp):
        f = 'andb' if isinstance(node.op, ast.And) else 'orb'
        out = bexpr(node.values[0], env)
        for v in node.values[1:]:
            out = '(%s %s %s)' % (f, out, bexpr(v, env))
        return out
    raise Unrecognised('boolean expression %s' % key[:80])


def nexpr(node, env):
    """small natural-number expressions: names, literals, + -, min(a, b)"""
    key = ast.unparse(node)
    if key in env:
        return env[key]
    if isinstance(node, ast.Constant) and isinstance(node.value, int) and not isinstance(node.value, bool) and node.value >= 0:
        return '%d%%nat' % node.value
    if isinstance(node, ast.BinOp) and isinstance(node.op, (ast.Add, ast.Sub)):
        return '(%s %s %s)%%nat' % (nexpr(node.left, env), '+' if isinstance(node.op, ast.Add) else '-', nexpr(node.right, env))
    if isinstance(node, ast.Call) and ast.unparse(node.func) == 'min' and len(node.args) == 2:
        return '(Nat.min %s %s)' % (nexpr(node.args[0], env), nexpr(node.args[1], env))
    raise Unrecognised('nat expression %s' % key[:80])


# ------------------------------------------------------------------ locating statements
def find_def(tree, name, cls=None):
    scope = tree
    if cls is not None:
        scope = next((n for n in tree.body if isinstance(n, ast.ClassDef) and n.name == cls), None)
        if scope is None:
            raise Unrecognised('class %s' % cls)
    for n in scope.body:
        if isinstance(n, ast.FunctionDef) and n.name == name:
            return n
    raise Unrecognised('function %s' % name)


def assigns(scope, target):
    """all `target = value` statements (by source text of the target) anywhere below scope"""
    out = []
    for n in ast.walk(scope):
        if isinstance(n, ast.Assign) and len(n.targets) == 1 and ast.unparse(n.targets[0]) == target:
            out.append(n)
    return out


def the_assign(scope, target):
    a = assigns(scope, target)
    if len(a) != 1:
        raise Unrecognised('%d assignments to %s' % (len(a), target))
    return a[0]


def the_if(scope, test):
    found = [n for n in ast.walk(scope) if isinstance(n, ast.If) and ast.unparse(n.test) == test]
    if len(found) != 1:
        raise Unrecognised('%d ifs with test %s' % (len(found), test))
    return found[0]


def the_for(scope, target, it):
    found = [n for n in ast.walk(scope) if isinstance(n, ast.For) and ast.unparse(n.target) == target and ast.unparse(n.iter) == it]
    if len(found) != 1:
        raise Unrecognised('%d loops over %s' % (len(found), it))
    return found[0]


def single_return(fn):
    body = [s for s in fn.body if not (isinstance(s, ast.Expr) and isinstance(s.value, ast.Constant))]
    if len(body) != 1 or not isinstance(body[0], ast.Return):
        raise Unrecognised('%s is not a single return' % fn.name)
    return body[0].value


def defn(name, args, typ, body, line=None):
    a = ' '.join('(%s)' % x for x in args)
    c = '(* source line %d *)\n' % line if line else ''
    return '%sDefinition %s %s%s: %s :=\n  %s.\n' % (c, name, a, ' ' if a else '', typ, body)


def ones_fill(fn):
    a = the_assign(fn, 'leg')
    if not (isinstance(a.value, ast.Call) and ast.unparse(a.value.func) == 'np.ones'):
        raise Unrecognised('leg is not np.ones(...)')
    return a.lineno


# ------------------------------------------------------------------ the basis functions
def order_guard(fn, prefix, out):
    """if m < K: raise ValueError(...)  -> g_<prefix>_min_order = K (orders below K are refused)"""
    found = [n for n in fn.body if isinstance(n, ast.If) and any(isinstance(x, ast.Raise) for x in ast.walk(n))]
    if any(isinstance(x, ast.Raise) for n in fn.body if n not in found for x in ast.walk(n)):
        raise Unrecognised('raise outside the order guard in %s' % fn.name)
    if len(found) != 1:
        raise Unrecognised('%d order guards in %s' % (len(found), fn.name))
    g = found[0]
    if not (len(g.test.ops) == 1 and isinstance(g.test.ops[0], (ast.Lt, ast.LtE)) and isinstance(g.test.comparators[0], ast.Constant)
            and isinstance(g.test.comparators[0].value, int) and len(g.body) == 1 and isinstance(g.body[0], ast.Raise)
            and not g.orelse and isinstance(g.body[0].exc, ast.Call) and ast.unparse(g.body[0].exc.func) == 'ValueError'):
        raise Unrecognised('order guard of %s: %s' % (fn.name, ast.unparse(g.test)))
    k = g.test.comparators[0].value + (1 if isinstance(g.test.ops[0], ast.LtE) else 0)
    if k < 0:
        raise Unrecognised('negative order guard')
    out.append(defn('g_%s_min_order' % prefix, [], 'nat', '%d%%nat' % k, g.lineno))


def basis_simple(fn, prefix, out):
    """flegendre / fchebyshev / fpoly: ones; if m >= 2: leg[1,:] = x; if m >= 3: for k in range(2, m): leg[k,:] = E"""
    order_guard(fn, prefix, out)
    ones_fill(fn)
    i2 = the_if(fn, 'm >= 2')
    a1 = the_assign(i2, 'leg[1, :]')
    out.append(defn('g_%s_row1' % prefix, ['x : Q'], 'Q', expr(a1.value, {'x': 'x'}), a1.lineno))
    i3 = the_if(fn, 'm >= 3')
    loop = the_for(i3, 'k', 'range(2, m)')
    ak = the_assign(loop, 'leg[k, :]')
    v = ak.value
    if isinstance(v, ast.Call) and ast.unparse(v.func) == 'np.polyval' and len(v.args) == 2 and ast.unparse(v.args[1]) == 'x':
        p = v.args[0]
        if not (isinstance(p, ast.Call) and isinstance(p.func, ast.Name) and len(p.args) == 1):
            raise Unrecognised('polyval argument')
        fam = {'legendre': 'FamLegendre', 'chebyt': 'FamChebyshevT'}.get(p.func.id)
        if fam is None:
            raise Unrecognised('polynomial family %s' % p.func.id)
        out.append(defn('g_%s_family' % prefix, [], 'polyfam', fam, ak.lineno))
        out.append(defn('g_%s_degree' % prefix, ['k : nat'], 'nat', nexpr(p.args[0], {'k': 'k'})))
    else:
        out.append(defn('g_%s_rec' % prefix, ['x p1 : Q'], 'Q', expr(v, {'x': 'x', 'leg[k - 1, :]': 'p1'}), ak.lineno))


def basis_split(fn, out):
    order_guard(fn, 'split', out)
    ones_fill(fn)
    rows0 = assigns(fn, 'leg[0, :]')
    texts = set()
    for a in rows0:
        texts.add(expr(a.value, {'x': 'x'}))
    if len(texts) != 1:
        raise Unrecognised('leg[0, :] assignments disagree: %s' % sorted(texts))
    out.append(defn('g_split_row0', ['x : Q'], 'Q', texts.pop(), rows0[0].lineno))
    i2 = the_if(fn, 'm > 2')
    a2 = the_assign(i2, 'leg[2, :]')
    out.append(defn('g_split_row2', ['x : Q'], 'Q', expr(a2.value, {'x': 'x'}), a2.lineno))
    i3 = the_if(fn, 'm > 3')
    loop = the_for(i3, 'k', 'range(3, m)')
    ak = the_assign(loop, 'leg[k, :]')
    out.append(defn('g_split_rec', ['x p1 p2 : Q'], 'Q',
                    expr(ak.value, {'x': 'x', 'leg[k - 1, :]': 'p1', 'leg[k - 2, :]': 'p2'}), ak.lineno))


# ------------------------------------------------------------------ TraceSet
SELF = {'self.xmin': 'xmin', 'self.xmax': 'xmax', 'self.xRange': 'xrange', 'self.xmid': 'xmid',
        'self.xjumplo': 'lo', 'self.xjumphi': 'hi', 'self.xjumpval': 'val'}


def traceset(tree, out):
    c = 'TraceSet'
    r = single_return(find_def(tree, 'xmid', c))
    out.append(defn('g_xmid', ['xmin xmax : Q'], 'Q', expr(r, SELF), r.lineno))
    r = single_return(find_def(tree, 'xRange', c))
    out.append(defn('g_xrange', ['xmin xmax : Q'], 'Q', expr(r, SELF), r.lineno))
    r = single_return(find_def(tree, 'nx', c))
    if not (isinstance(r, ast.Call) and ast.unparse(r.func) == 'int' and len(r.args) == 1):
        raise Unrecognised('nx is not int(...)')
    out.append(defn('g_nx', ['xrange : Q'], 'nat', 'Z.to_nat (Qfloor %s)' % expr(r.args[0], SELF), r.lineno))
    r = single_return(find_def(tree, 'has_jump', c))
    if not (isinstance(r, ast.Compare) and len(r.ops) == 1 and isinstance(r.ops[0], ast.IsNot) and
            ast.unparse(r.left) == 'self.xjumplo' and ast.unparse(r.comparators[0]) == 'None'):
        raise Unrecognised('has_jump: %s' % ast.unparse(r))
    out.append(defn('g_has_jump', ['lo_set : bool'], 'bool', 'lo_set', r.lineno))
    # xnorm
    fn = find_def(tree, 'xnorm', c)
    body = [s for s in fn.body if not (isinstance(s, ast.Expr) and isinstance(s.value, ast.Constant))]
    if len(body) != 2 or not isinstance(body[0], ast.If) or ast.unparse(body[0].test) != 'jump' or not isinstance(body[1], ast.Return):
        raise Unrecognised('xnorm skeleton')
    iff = body[0]
    jf = the_assign(ast.Module(body=iff.body, type_ignores=[]), 'jfrac')
    xn = the_assign(ast.Module(body=iff.body, type_ignores=[]), 'xnatural')
    if len(iff.body) != 2 or len(iff.orelse) != 1 or ast.unparse(iff.orelse[0]) != 'xnatural = xinput':
        raise Unrecognised('xnorm branches')
    env = dict(SELF, xinput='x')
    out.append(defn('g_jfrac', ['x lo hi : Q'], 'Q', expr(jf.value, env), jf.lineno))
    out.append(defn('g_xnatural', ['x jfrac val : Q'], 'Q', expr(xn.value, dict(env, jfrac='jfrac')), xn.lineno))
    out.append(defn('g_xnorm', ['xnat xmid xrange : Q'], 'Q', expr(body[1].value, dict(SELF, xnatural='xnat')), body[1].lineno))
    # jump argument of the two callers
    for name, fname in (('fit', '__init__'), ('xy', 'xy')):
        f = find_def(tree, fname, c)
        a = the_assign(f, 'xvec')
        v = a.value
        if not (isinstance(v, ast.Call) and ast.unparse(v.func) == 'self.xnorm' and len(v.args) == 2 and
                ast.unparse(v.args[0]) == 'xpos[iTrace, :]'):
            raise Unrecognised('xvec in %s' % fname)
        arg = ast.unparse(v.args[1])
        tag = {'do_jump': 'ArgDoJump', 'False': 'ArgFalse', 'True': 'ArgTrue'}.get(arg)
        if tag is None:
            raise Unrecognised('jump argument %s in %s' % (arg, fname))
        out.append(defn('g_%s_jump_arg' % name, [], 'jumparg', tag, a.lineno))
    f = find_def(tree, 'xy', c)
    a = the_assign(f, 'do_jump')
    out.append(defn('g_do_jump', ['has_jump ignore_jump : bool'], 'bool',
                    bexpr(a.value, {'self.has_jump': 'has_jump', 'ignore_jump': 'ignore_jump'}), a.lineno))
    a = the_assign(f, 'xpos')
    v = a.value
    if not (isinstance(v, ast.BinOp) and isinstance(v.op, ast.Add) and
            ast.unparse(v.left) == 'djs_laxisgen([self.nTrace, self.nx], iaxis=1)'):
        raise Unrecognised('default grid: %s' % ast.unparse(v))
    out.append(defn('g_grid', ['k xmin : Q'], 'Q', '(k + %s)' % expr(v.right, SELF), a.lineno))
    # in __init__ the jump is requested iff xjumplo is given
    f = find_def(tree, '__init__', c)
    i = the_if(f, "'xjumplo' in kwargs")
    if not any(ast.unparse(s) == 'do_jump = True' for s in i.body):
        raise Unrecognised('do_jump = True under xjumplo')


GF = {'flegendre': 'GLegendre', 'fchebyshev': 'GChebyshev', 'fpoly': 'GPoly', 'fchebyshev_split': 'GChebSplit'}
GNAME = {'legendre': 'GLegendre', 'chebyshev': 'GChebyshev', 'poly': 'GPoly', 'chebyshev_split': 'GChebSplit'}


def kw_default(f, key, target, wrappers):
    """if '<key>' in kwargs: <target> = W(kwargs['<key>']) else: <target> = DEFAULT   -> DEFAULT node"""
    i = the_if(f, "'%s' in kwargs" % key)
    body = [x for x in i.body if ast.unparse(x) != 'do_jump = True']
    if len(body) != 1 or len(i.orelse) != 1:
        raise Unrecognised('keyword %s: shape' % key)
    b, e = body[0], i.orelse[0]
    for st in (b, e):
        if not (isinstance(st, ast.Assign) and len(st.targets) == 1 and ast.unparse(st.targets[0]) == target):
            raise Unrecognised('keyword %s: target' % key)
    v = b.value
    if isinstance(v, ast.Call) and len(v.args) == 1 and not v.keywords and ast.unparse(v.func) in wrappers:
        v = v.args[0]
    if ast.unparse(v) != "kwargs['%s']" % key:
        raise Unrecognised('keyword %s: value %s' % (key, ast.unparse(b.value)))
    return e.value


def dict_map(node, what):
    if not isinstance(node, ast.Dict):
        raise Unrecognised('%s is not a dict display' % what)
    d = {}
    for k, v in zip(node.keys, node.values):
        if not (isinstance(k, ast.Constant) and isinstance(k.value, str) and isinstance(v, ast.Name) and v.id in GF):
            raise Unrecognised('%s entry %s' % (what, ast.unparse(k) if k else k))
        if k.value in d:
            raise Unrecognised('%s: duplicate key %s' % (what, k.value))
        d[k.value] = GF[v.id]
    return d


def traceset_init(tree, out):
    c = 'TraceSet'
    cls = next(n for n in tree.body if isinstance(n, ast.ClassDef) and n.name == c)
    f = find_def(tree, '__init__', c)
    top = [s for s in f.body if not (isinstance(s, ast.Expr) and isinstance(s.value, ast.Constant))]
    if len(top) != 1 or not isinstance(top[0], ast.If) or ast.unparse(top[0].test) != 'len(args) == 1 and isinstance(args[0], FITS_rec)':
        raise Unrecognised('__init__ skeleton')
    fits = top[0]
    # ---- the FITS-record constructor (verified text; the trace-set record of the model carries these fields)
    want = ["self.func = args[0]['FUNC'][0]", "self.xmin = args[0]['XMIN'][0]", "self.xmax = args[0]['XMAX'][0]",
            "self.coeff = args[0]['COEFF'][0]", 'self.nTrace = self.coeff.shape[0]', 'self.ncoeff = self.coeff.shape[1]']
    got = [ast.unparse(x) for x in fits.body]
    if got[:6] != want or not isinstance(fits.body[6], ast.If) or ast.unparse(fits.body[6].test) != "'XJUMPLO' in args[0].dtype.names":
        raise Unrecognised('FITS constructor')
    j = fits.body[6]
    if [ast.unparse(x) for x in j.body] != ["self.xjumplo = args[0]['XJUMPLO'][0]", "self.xjumphi = args[0]['XJUMPHI'][0]",
                                            "self.xjumpval = args[0]['XJUMPVAL'][0]"] or \
            [ast.unparse(x) for x in j.orelse] != ['self.xjumplo = None', 'self.xjumphi = None', 'self.xjumpval = None']:
        raise Unrecognised('FITS constructor jump fields')
    out.append(defn('g_fits_constructor_verified', [], 'bool', 'true', fits.lineno))
    if len(fits.orelse) != 1 or not isinstance(fits.orelse[0], ast.If) or ast.unparse(fits.orelse[0].test) != 'len(args) == 2':
        raise Unrecognised('__init__ second branch')
    fit = fits.orelse[0]
    scope = ast.Module(body=fit.body, type_ignores=[])
    heads = [ast.unparse(x) for x in fit.body[:3]]
    if heads != ['xpos = args[0]', 'ypos = args[1]', 'self.nTrace = xpos.shape[0]']:
        raise Unrecognised('__init__ positional arguments')
    # ---- keyword defaults
    d = kw_default(scope, 'invvar', 'invvar', ())
    if ast.unparse(d) != 'np.ones(xpos.shape, dtype=xpos.dtype)':
        raise Unrecognised('default invvar')
    out.append(defn('g_default_invvar', [], 'Q', '1', d.lineno))
    d = kw_default(scope, 'func', 'self.func', ())
    if not (isinstance(d, ast.Constant) and d.value in GNAME):
        raise Unrecognised('default func')
    out.append(defn('g_default_func', [], 'gfunc', GNAME[d.value], d.lineno))
    for key, name, typ in (('ncoeff', 'self.ncoeff', 'nat'), ('maxiter', 'maxiter', 'Z')):
        d = kw_default(scope, key, name, ('int',))
        if not (isinstance(d, ast.Constant) and isinstance(d.value, int) and not isinstance(d.value, bool) and d.value >= 0):
            raise Unrecognised('default %s' % key)
        out.append(defn('g_default_%s' % key, [], typ, '%d%%%s' % (d.value, typ), d.lineno))
    for key in ('xmin', 'xmax'):
        d = kw_default(scope, key, 'self.' + key, ('np.float64', 'float'))
        ext = {'xpos.min()': 'ExtMin', 'xpos.max()': 'ExtMax'}.get(ast.unparse(d))
        if ext is None:
            raise Unrecognised('default %s: %s' % (key, ast.unparse(d)))
        out.append(defn('g_%s_default' % key, [], 'extremum', ext, d.lineno))
    d = kw_default(scope, 'inmask', 'inmask', ())
    if ast.unparse(d) != 'np.ones(xpos.shape, dtype=bool)':
        raise Unrecognised('default inmask')
    out.append(defn('g_default_inmask', [], 'bool', 'true', d.lineno))
    for key in ('xjumplo', 'xjumphi', 'xjumpval'):
        d = kw_default(scope, key, 'self.' + key, ('np.float64', 'float'))
        if ast.unparse(d) != 'None':
            raise Unrecognised('default %s' % key)
    # ---- the loop over the traces
    loop = the_for(scope, 'iTrace', 'range(self.nTrace)')
    body = loop.body
    texts = [ast.unparse(x) for x in body]
    if len(body) != 9 or not isinstance(body[5], ast.While):
        raise Unrecognised('trace loop skeleton (%d statements)' % len(body))
    if texts[1] != 'iIter = 0' or texts[2] != 'qdone = False' or texts[4] != 'thismask = tempivar > 0' or \
            texts[6:] != ['self.yfit[iTrace, :] = ycurfit', 'self.coeff[iTrace, :] = res', 'self.outmask[iTrace, :] = thismask']:
        raise Unrecognised('trace loop statements')
    a = body[3]
    if not (isinstance(a, ast.Assign) and ast.unparse(a.targets[0]) == 'tempivar'):
        raise Unrecognised('tempivar')
    out.append(defn('g_tempivar', ['iv m01 : Q'], 'Q',
                    expr(a.value, {'invvar[iTrace, :]': 'iv', 'inmask[iTrace, :]': 'm01'}), a.lineno))
    out.append(defn('g_iiter0', [], 'Z', '0%Z', body[1].lineno))
    out.append(defn('g_qdone0', [], 'bool', 'false', body[2].lineno))
    w = body[5]
    t = w.test
    if not (isinstance(t, ast.BoolOp) and isinstance(t.op, ast.And) and len(t.values) == 2 and ast.unparse(t.values[0]) == 'not qdone'
            and isinstance(t.values[1], ast.Compare) and len(t.values[1].ops) == 1 and ast.unparse(t.values[1].left) == 'iIter'
            and ast.unparse(t.values[1].comparators[0]) == 'maxiter' and isinstance(t.values[1].ops[0], (ast.LtE, ast.Lt))) or w.orelse:
        raise Unrecognised('while test %s' % ast.unparse(t))
    cmp_ = 'Z.leb' if isinstance(t.values[1].ops[0], ast.LtE) else 'Z.ltb'
    out.append(defn('g_loop_continue', ['qdone : bool', 'iiter maxiter : Z'], 'bool',
                    '(andb (negb qdone) (%s iiter maxiter))' % cmp_, w.lineno))
    if len(w.body) != 3:
        raise Unrecognised('while body')
    fcall, rcall, inc = w.body
    if not (isinstance(fcall, ast.Assign) and ast.unparse(fcall.targets[0]).strip('()') == 'res, ycurfit' and isinstance(fcall.value, ast.Call)
            and ast.unparse(fcall.value.func) == 'func_fit'
            and [ast.unparse(x) for x in fcall.value.args] == ['xvec', 'ypos[iTrace, :]', 'self.ncoeff']
            and sorted(k.arg for k in fcall.value.keywords) == ['function_name', 'invvar']):
        raise Unrecognised('func_fit call in the rejection loop')
    kws = {k.arg: ast.unparse(k.value) for k in fcall.value.keywords}
    if kws['function_name'] != 'self.func':
        raise Unrecognised('function_name passed to func_fit')
    wt = {'tempivar': 'WTempivar', 'tempivar * thismask': 'WMasked', 'thismask * tempivar': 'WMasked'}.get(kws['invvar'])
    if wt is None:
        raise Unrecognised('weights passed to func_fit: %s' % kws['invvar'])
    out.append(defn('g_fit_weight', [], 'fitweight', wt, fcall.lineno))
    # djs_reject without any rejection criterion (lower / upper / maxdev / maxrej / grow / inmask / sticky absent):
    # the model of that call is "nothing rejected, done"
    if ast.unparse(rcall).replace('(thismask, qdone) =', 'thismask, qdone =') != \
            'thismask, qdone = djs_reject(ypos[iTrace, :], ycurfit, invvar=tempivar)':
        raise Unrecognised('djs_reject call: %s' % ast.unparse(rcall))
    out.append(defn('g_reject_without_criteria', [], 'bool', 'true', rcall.lineno))
    if ast.unparse(inc) != 'iIter += 1':
        raise Unrecognised('iteration counter')
    out.append(defn('g_iiter_step', [], 'Z', '1%Z', inc.lineno))
    # ---- the function tables
    fm = [n for n in cls.body if isinstance(n, ast.Assign) and ast.unparse(n.targets[0]) == '_func_map']
    if len(fm) != 1:
        raise Unrecognised('_func_map')
    d = dict_map(fm[0].value, '_func_map')
    if any(k not in GNAME for k in d):
        raise Unrecognised('_func_map keys %s' % sorted(d))
    out.append(defn('g_xy_func_map', ['name : gfunc'], 'option gfunc',
                    'match name with %s end' % ' | '.join('%s => %s' % (GNAME[k], 'Some ' + d[k] if k in d else 'None') for k in GNAME),
                    fm[0].lineno))
    a = the_assign(f, 'legarr') if False else None
    x = the_assign(find_def(tree, 'xy', c), 'legarr')
    if ast.unparse(x.value) != 'self._func_map[self.func](xvec, self.ncoeff)':
        raise Unrecognised('legarr in xy')
    x = the_assign(find_def(tree, 'xy', c), 'ypos[iTrace, :]')
    if ast.unparse(x.value) != 'np.dot(legarr.T, self.coeff[iTrace, :])':
        raise Unrecognised('ypos in xy')
    ff = find_def(tree, 'func_fit')
    a = the_assign(ff, 'function_map')
    d = dict_map(a.value, 'function_map')
    for k in GNAME:
        if k not in d or d.get('f' + k) != d[k]:
            raise Unrecognised('function_map: %s and its alias f%s' % (k, k))
    if sorted(d) != sorted(list(GNAME) + ['f' + k for k in GNAME]):
        raise Unrecognised('function_map keys')
    out.append(defn('g_function_map', ['name : gfunc'], 'gfunc',
                    'match name with %s end' % ' | '.join('%s => %s' % (GNAME[k], d[k]) for k in GNAME), a.lineno))
    x = the_assign(ff, 'legarr')
    if ast.unparse(x.value) != 'function_map[function_name](x, ncfit)':
        raise Unrecognised('legarr in func_fit')
    # traceset2xy / xy2traceset are plain forwards
    r = single_return(find_def(tree, 'traceset2xy'))
    if ast.unparse(r) != 'tset.xy(xpos, ignore_jump)':
        raise Unrecognised('traceset2xy')
    r = single_return(find_def(tree, 'xy2traceset'))
    if ast.unparse(r) != 'TraceSet(xpos, ypos, **kwargs)':
        raise Unrecognised('xy2traceset')


# ------------------------------------------------------------------ func_fit
def funcfit(tree, out):
    fn = find_def(tree, 'func_fit')
    a = the_assign(fn, 'igood')
    v = a.value
    # (invvar > 0).nonzero()[0]
    if not (isinstance(v, ast.Subscript) and isinstance(v.value, ast.Call) and isinstance(v.value.func, ast.Attribute)
            and v.value.func.attr == 'nonzero'):
        raise Unrecognised('igood')
    out.append(defn('g_good', ['w : Q'], 'bool', bexpr(v.value.func.value, {'invvar': 'w'}), a.lineno))
    a = the_assign(fn, 'ncfit')
    out.append(defn('g_ncfit', ['ngood ncoeff : nat'], 'nat', nexpr(a.value, {'ngood': 'ngood', 'ncoeff': 'ncoeff'}), a.lineno))
    i0 = the_if(fn, 'ngood == 0')
    if len(i0.body) != 1 or not isinstance(i0.body[0], ast.Pass) or len(i0.orelse) != 1 or not isinstance(i0.orelse[0], ast.If):
        raise Unrecognised('ngood == 0 branch')
    i1 = i0.orelse[0]
    if ast.unparse(i1.test) != 'ngood == 1' or [ast.unparse(s) for s in i1.body] != ['res[0] = y[igood[0]]', 'yfit += y[igood[0]]']:
        raise Unrecognised('ngood == 1 branch')
    out.append(defn('g_ngood_none', [], 'nat', '0%nat', i0.lineno))
    out.append(defn('g_ngood_one', [], 'nat', '1%nat', i1.lineno))
    main = ast.Module(body=i1.orelse, type_ignores=[])
    a = the_assign(main, 'nonfix')
    if ast.unparse(a.value) not in ('ia[0:ncfit].nonzero()[0]', '(~ia[0:ncfit]).nonzero()[0]'):
        raise Unrecognised('nonfix')
    out.append(defn('g_nonfix', ['b : bool'], 'bool', bexpr(a.value.value.func.value, {'ia[0:ncfit]': 'b'}), a.lineno))
    a = the_assign(main, 'fixed')
    if ast.unparse(a.value) not in ('ia[0:ncfit].nonzero()[0]', '(~ia[0:ncfit]).nonzero()[0]'):
        raise Unrecognised('fixed')
    out.append(defn('g_fixed', ['b : bool'], 'bool', bexpr(a.value.value.func.value, {'ia[0:ncfit]': 'b'}), a.lineno))
    cands = [x for x in assigns(main, 'yfix') if ast.unparse(x.value.func if isinstance(x.value, ast.Call) else x.value) != 'np.zeros']
    if len(cands) != 1:
        raise Unrecognised('yfix')
    v = cands[0].value
    if not (ast.unparse(v.func) == 'np.dot' and len(v.args) == 2 and ast.unparse(v.args[0]) == 'legarr.T'):
        raise Unrecognised('yfix = np.dot(legarr.T, ...)')
    out.append(defn('g_fixv', ['ans ia01 : Q'], 'Q', expr(v.args[1], {'inputans': 'ans', 'ia': 'ia01'}), cands[0].lineno))
    ys = [x for x in assigns(main, 'ysub') if ast.unparse(x.value) != 'y']
    if len(ys) != 1:
        raise Unrecognised('ysub')
    out.append(defn('g_ysub', ['y yfix : Q'], 'Q', expr(ys[0].value, {'y': 'y', 'yfix': 'yfix'}), ys[0].lineno))
    fa = [ast.unparse(x.value) for x in assigns(main, 'finalarr')]
    if sorted(fa) != ['legarr', 'legarr[nonfix, :]']:
        raise Unrecognised('finalarr: %s' % fa)
    a = the_assign(main, 'extra2')
    axes = []
    out.append(defn('g_extra2', ['f w : Q'], 'Q', expr(a.value, {'finalarr': 'f', 'invvar': 'w'}, axes), a.lineno))
    if axes != ['col']:
        raise Unrecognised('extra2 broadcasting axes %s' % axes)
    a = the_assign(main, 'alpha')
    if ast.unparse(a.value) != 'np.dot(finalarr, extra2.T)':
        raise Unrecognised('alpha')
    a = the_assign(main, 'beta')
    v = a.value
    if not (isinstance(v, ast.Call) and ast.unparse(v.func) == 'np.dot' and len(v.args) == 2 and ast.unparse(v.args[1]) == 'finalarr.T'):
        raise Unrecognised('beta')
    out.append(defn('g_beta_w', ['ysub w : Q'], 'Q', expr(v.args[0], {'ysub': 'ysub', 'invvar': 'w'}), a.lineno))
    rs = assigns(main, 'res[nonfix]')
    texts = sorted(ast.unparse(x.value) for x in rs)
    if len(rs) != 2 or 'np.linalg.solve(alpha, beta)' not in texts:
        raise Unrecognised('res[nonfix]: %s' % texts)
    one = next(x for x in rs if ast.unparse(x.value) != 'np.linalg.solve(alpha, beta)')
    v = one.value
    if not (isinstance(v, ast.BinOp) and isinstance(v.op, ast.Div) and ast.unparse(v.right) == 'alpha' and
            isinstance(v.left, ast.Call) and isinstance(v.left.func, ast.Attribute) and v.left.func.attr == 'sum'):
        raise Unrecognised('single-parameter formula')
    out.append(defn('g_beta1', ['ysub w f : Q'], 'Q',
                    expr(v.left.func.value, {'ysub': 'ysub', 'invvar': 'w', 'finalarr': 'f'}), one.lineno))
    if [ast.unparse(x.value) for x in assigns(main, 'res[fixed]')] != ['inputans[fixed]']:
        raise Unrecognised('res[fixed]')
    yf = [ast.unparse(x.value) for x in assigns(main, 'yfit')]
    if yf != ['np.dot(legarr.T, res[0:ncfit])']:
        raise Unrecognised('yfit: %s' % yf)
    # legarr *= np.tile(inputfunc, ncfit).reshape(ncfit, x.shape[0])
    aug = [n for n in ast.walk(main) if isinstance(n, ast.AugAssign) and ast.unparse(n.target) == 'legarr']
    if len(aug) != 1 or not isinstance(aug[0].op, ast.Mult):
        raise Unrecognised('legarr *= ...')
    axes = []
    out.append(defn('g_ifunc', ['f s : Q'], 'Q', '(f * %s)' % expr(aug[0].value, {'inputfunc': 's'}, axes), aug[0].lineno))
    if axes != ['col']:
        raise Unrecognised('inputfunc broadcasting axes %s' % axes)


HEADER = '''(* GENERATED by translate/c13.py from pydl/pydlutils/trace.py and pydl/goddard/math.py -- do not edit *)
From Coq Require Import QArith Qminmax Qround ZArith Bool.
Open Scope Q_scope.

Definition gQlt_bool (a b : Q) : bool := negb (Qle_bool b a).
Inductive polyfam := FamLegendre | FamChebyshevT.
Inductive jumparg := ArgDoJump | ArgFalse | ArgTrue.
Inductive gfunc := GLegendre | GChebyshev | GPoly | GChebSplit.
Inductive extremum := ExtMin | ExtMax.
Inductive fitweight := WTempivar | WMasked.
(* np.ones((m, n)) : every row starts as 1 *)
Definition g_fill : Q := 1.
'''


def generate(repo):
    info = {'recognised': True, 'detail': []}
    out = [HEADER]
    try:
        t_trace = ast.parse(open(os.path.join(repo, 'pydl/pydlutils/trace.py')).read())
        t_math = ast.parse(open(os.path.join(repo, 'pydl/goddard/math.py')).read())
        out.append('(* ---- flegendre (pydl/goddard/math.py) *)')
        basis_simple(find_def(t_math, 'flegendre'), 'leg', out)
        out.append('(* ---- fchebyshev *)')
        basis_simple(find_def(t_trace, 'fchebyshev'), 'cheb', out)
        out.append('(* ---- fpoly *)')
        basis_simple(find_def(t_trace, 'fpoly'), 'poly', out)
        out.append('(* ---- fchebyshev_split *)')
        basis_split(find_def(t_trace, 'fchebyshev_split'), out)
        out.append('(* ---- TraceSet *)')
        traceset(t_trace, out)
        out.append('(* ---- TraceSet.__init__ (defaults, weights, rejection loop), function tables *)')
        traceset_init(t_trace, out)
        out.append('(* ---- func_fit *)')
        funcfit(t_trace, out)
        text = '\n'.join(out)
        for need in ('g_leg_family', 'g_cheb_family', 'g_poly_rec', 'g_split_rec', 'g_loop_continue', 'g_function_map'):
            if 'Definition %s ' % need not in text:
                raise Unrecognised('%s not produced' % need)
        out.append('Definition trace_recognised : bool := true.')
    except (Unrecognised, SyntaxError, OSError, AttributeError, StopIteration) as e:
        info['recognised'] = False
        info['detail'].append('%s: %s' % (type(e).__name__, e))
        return None, info
    return '\n'.join(out) + '\n', info


if __name__ == '__main__':
    import sys
    text, info = generate(sys.argv[1] if len(sys.argv) > 1 else '/repo')
    print(info)
    print(text)
