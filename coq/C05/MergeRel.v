(* C05 -- merge_refines: after the mapGroups merge loop, two points have provisional groups with the same
   root exactly when they are joined by a chain of provisional groups sharing points. *)
From Coq Require Import ZArith List Bool Arith Lia Relations.
Import ListNotations.
From PV Require Import C05.Model C05.Algo C05.Merge.

Definition share (GS : list (list nat)) (a b : nat) : Prop := exists g, In g GS /\ In a g /\ In b g.
Definition U (GS : list (list nat)) : nat -> nat -> Prop := clos_refl_sym_trans nat (share GS).
Definition covered (GS : list (list nat)) (p : nat) : Prop := exists g, In g GS /\ In p g.

Lemma U_isolated : forall GS a b, U GS a b -> a = b \/ (covered GS a /\ covered GS b).
Proof.
  intros GS a b H. induction H as [a b [g [Hg [Ha Hb]]]| | |].
  - right. split; exists g; auto.
  - left. reflexivity.
  - destruct IHclos_refl_sym_trans as [->|[H1 H2]]; auto.
  - destruct IHclos_refl_sym_trans1 as [->|[H1 H2]]; [exact IHclos_refl_sym_trans2|].
    destruct IHclos_refl_sym_trans2 as [<-|[H3 H4]]; auto.
Qed.

Lemma U_mono : forall GS g a b, U GS a b -> U (GS ++ [g]) a b.
Proof.
  intros GS g a b H. induction H as [a b [g' [Hg [Ha Hb]]]| | |].
  - apply rst_step. exists g'. split; [apply in_app_iff; left; exact Hg|auto].
  - apply rst_refl.
  - apply rst_sym. assumption.
  - eapply rst_trans; eassumption.
Qed.

(* adding one group = adding a clique *)
Lemma U_snoc : forall GS g x y,
  U (GS ++ [g]) x y <-> (U GS x y \/ ((exists a, In a g /\ U GS a x) /\ (exists b, In b g /\ U GS b y))).
Proof.
  intros GS g x y. split.
  - intro H. induction H as [x y [g' [Hg [Hx Hy]]]|x|x y H IH|x y z H1 IH1 H2 IH2].
    + apply in_app_iff in Hg. destruct Hg as [Hg|[<-|[]]].
      * left. apply rst_step. exists g'. auto.
      * right. split; [exists x|exists y]; split; auto; apply rst_refl.
    + left. apply rst_refl.
    + destruct IH as [IH|[IH1 IH2]]; [left; apply rst_sym; exact IH|right; split; assumption].
    + destruct IH1 as [L1|[[a [Ha Ta]] [b [Hb Tb]]]]; destruct IH2 as [L2|[[c [Hc Tc]] [d [Hd Td]]]].
      * left. eapply rst_trans; eassumption.
      * right. split; [|exists d; auto]. exists c. split; [exact Hc|].
        eapply rst_trans; [exact Tc|apply rst_sym; exact L1].
      * right. split; [exists a; auto|]. exists b. split; [exact Hb|]. eapply rst_trans; eassumption.
      * right. split; [exists a; auto|exists d; auto].
  - intros [H|[[a [Ha Ta]] [b [Hb Tb]]]].
    + apply U_mono. exact H.
    + eapply rst_trans; [apply rst_sym; apply U_mono; exact Ta|].
      eapply rst_trans; [|apply U_mono; exact Tb].
      apply rst_step. exists g. split; [apply in_app_iff; right; left; reflexivity|auto].
Qed.

Lemma covered_snoc : forall GS g p, covered (GS ++ [g]) p <-> (covered GS p \/ In p g).
Proof.
  intros. unfold covered. split.
  - intros [g' [Hg Hp]]. apply in_app_iff in Hg. destruct Hg as [Hg|[<-|[]]]; [left; exists g'; auto|right; exact Hp].
  - intros [[g' [Hg Hp]]|Hp]; [exists g'; split; [apply in_app_iff; left; exact Hg|exact Hp]|].
    exists g. split; [apply in_app_iff; right; left; reflexivity|exact Hp].
Qed.

Lemma chase_ext : forall mp mp', (forall x, mp x = mp' x) -> forall f c, chase f mp c = chase f mp' c.
Proof.
  intros mp mp' H. induction f as [|f IH]; intro c; simpl; [reflexivity|].
  rewrite <- H. destruct (Nat.eqb (mp c) c); [reflexivity|apply IH].
Qed.

Lemma rep_ext : forall mp mp', (forall x, mp x = mp' x) -> forall c, rep mp c = rep mp' c.
Proof. intros. unfold rep. apply chase_ext. assumption. Qed.

Definition Inv (GS : list (list nat)) (st : mstate) : Prop :=
  m_n st = length GS /\
  minv (m_n st) (m_map st) (m_in st) /\
  (forall p, covered GS p <-> m_in st p <> None) /\
  (forall p q e e', m_in st p = Some e -> m_in st q = Some e' ->
     (rep (m_map st) e = rep (m_map st) e' <-> U GS p q)).

Lemma Inv_init : Inv [] {| m_in := fun _ => None; m_map := fun x => x; m_n := 0 |}.
Proof.
  split; [reflexivity|]. split; [|split].
  - split; [intro x; simpl; lia|]. split; [intros; reflexivity|]. simpl. intros; discriminate.
  - intro p. simpl. split; [intros [g [[] _]]|intro H; exfalso; apply H; reflexivity].
  - simpl. intros; discriminate.
Qed.

Section Step.
  Variable GS : list (list nat).
  Variable st : mstate.
  Variable g : list nat.
  Hypothesis HI : Inv GS st.

  Let t := m_n st.
  Let mp := m_map st.
  Let ing := m_in st.
  Let ing1 : nat -> option nat :=
    fun p => match ing p with Some e => Some e | None => if rep_in_dec p g then Some t else None end.

  Lemma Hdec : dec mp. Proof. destruct HI as [_ [[H _] _]]. exact H. Qed.
  Lemma Hid : forall x, t <= x -> mp x = x. Proof. destruct HI as [_ [[_ [H _]] _]]. exact H. Qed.
  Lemma Hlt : forall p e, ing p = Some e -> e < t. Proof. destruct HI as [_ [[_ [_ H]] _]]. exact H. Qed.
  Lemma Hcov : forall p, covered GS p <-> ing p <> None. Proof. destruct HI as [_ [_ [H _]]]. exact H. Qed.
  Lemma Hcls : forall p q e e', ing p = Some e -> ing q = Some e' -> (rep mp e = rep mp e' <-> U GS p q).
  Proof. destruct HI as [_ [_ [_ H]]]. exact H. Qed.

  Lemma ing1_old : forall p e, ing p = Some e -> ing1 p = Some e.
  Proof. intros p e H. unfold ing1. rewrite H. reflexivity. Qed.
  Lemma ing1_new : forall p, ing p = None -> In p g -> ing1 p = Some t.
  Proof. intros p H Hp. unfold ing1. rewrite H. destruct (rep_in_dec p g); [reflexivity|contradiction]. Qed.
  Lemma ing1_inv : forall p e, ing1 p = Some e -> ing p = Some e \/ (ing p = None /\ In p g /\ e = t).
  Proof.
    intros p e H. unfold ing1 in H. destruct (ing p) eqn:E; [left; exact H|].
    destruct (rep_in_dec p g); [|discriminate]. inversion H. right. auto.
  Qed.

  Lemma cov1 : forall p, covered (GS ++ [g]) p <-> ing1 p <> None.
  Proof.
    intro p. rewrite covered_snoc, Hcov. unfold ing1. destruct (ing p) eqn:E.
    - split; [intros _; discriminate|intros _; left; discriminate].
    - destruct (rep_in_dec p g) as [H|H].
      + split; [intros _; discriminate|intros _; right; exact H].
      + split; [intros [H1|H1]; [exfalso; apply H1; reflexivity|contradiction]|intro H1; exfalso; apply H1; reflexivity].
  Qed.

  (* an uncovered member of g is related by U GS only to itself *)
  Lemma new_isolated : forall a x, ing a = None -> U GS a x -> a = x.
  Proof.
    intros a x Ha H. destruct (U_isolated GS a x H) as [H1|[H1 _]]; [exact H1|].
    apply Hcov in H1. contradiction.
  Qed.

  (* ---------------- case 1: no member of g had a group: a fresh root t *)
  Lemma step_fresh : (forall p, In p g -> ing p = None) ->
    Inv (GS ++ [g]) {| m_in := ing1; m_map := upd mp t t; m_n := S t |}.
  Proof.
    intro Hnone.
    assert (Hext : forall x, upd mp t t x = mp x).
    { intro x. unfold upd. destruct (Nat.eqb x t) eqn:E; [apply Nat.eqb_eq in E; subst; symmetry; apply Hid; lia|reflexivity]. }
    split; [|split; [|split]]; cbn [m_n m_map m_in].
    - rewrite app_length. simpl. destruct HI as [H _]. fold t in H. lia.
    - split; [intro x; rewrite Hext; apply Hdec|]. split.
      + intros x Hx. rewrite Hext. apply Hid. lia.
      + intros p e H. destruct (ing1_inv p e H) as [H1|[_ [_ ->]]]; [apply Hlt in H1; lia|lia].
    - apply cov1.
    - intros p q e e' Hp Hq. rewrite !(rep_ext _ _ Hext).
      destruct (ing1_inv p e Hp) as [Hp1|[Hp1 [Hp2 ->]]]; destruct (ing1_inv q e' Hq) as [Hq1|[Hq1 [Hq2 ->]]].
      + rewrite (Hcls p q e e' Hp1 Hq1). rewrite U_snoc. split; [intro H; left; exact H|].
        intros [H|[[a [Ha Ta]] _]]; [exact H|].
        exfalso. pose proof (new_isolated a p (Hnone a Ha) Ta). subst a. rewrite (Hnone p Ha) in Hp1. discriminate.
      + split.
        * intro H. exfalso. pose proof (Hlt p e Hp1). pose proof (proj2 (rep_spec mp Hdec e)).
          rewrite (rep_root mp t (Hid t (le_n t))) in H. lia.
        * intro H. exfalso. apply U_snoc in H. destruct H as [H|[[a [Ha Ta]] _]].
          -- apply rst_sym in H. pose proof (new_isolated q p Hq1 H). subst q. congruence.
          -- pose proof (new_isolated a p (Hnone a Ha) Ta). subst a. rewrite (Hnone p Ha) in Hp1. discriminate.
      + split.
        * intro H. exfalso. pose proof (Hlt q e' Hq1). pose proof (proj2 (rep_spec mp Hdec e')).
          rewrite (rep_root mp t (Hid t (le_n t))) in H. lia.
        * intro H. exfalso. apply U_snoc in H. destruct H as [H|[_ [b [Hb Tb]]]].
          -- pose proof (new_isolated p q Hp1 H). subst q. congruence.
          -- pose proof (new_isolated b q (Hnone b Hb) Tb). subst b. rewrite (Hnone q Hb) in Hq1. discriminate.
      + split; [intros _|intros _; reflexivity].
        apply rst_step. exists g. split; [apply in_app_iff; right; left; reflexivity|auto].
  Qed.

  (* ---------------- case 2: some member had a group; m = the smallest root found *)
  Variable m : nat.
  Hypothesis Hm_root : mp m = m.
  Hypothesis Hm_le : m <= t.
  Hypothesis Hm_min : forall p e, In p g -> ing p = Some e -> m <= rep mp e.
  Hypothesis Hm_att : m = t \/ exists p e, In p g /\ ing p = Some e /\ rep mp e = m.

  Let mp0 := upd mp t m.

  Lemma Hdec0 : dec mp0. Proof. apply dec_upd; [apply Hdec|exact Hm_le]. Qed.
  Lemma Hm0 : mp0 m = m.
  Proof. unfold mp0. destruct (Nat.eq_dec m t) as [->|E]; [apply upd_same|rewrite upd_other by exact E; exact Hm_root]. Qed.
  Lemma rep0_old : forall e, e < t -> rep mp0 e = rep mp e.
  Proof. intros. apply rep_upd_above; [apply Hdec|exact Hm_le|assumption]. Qed.
  Lemma rep0_t : rep mp0 t = m.
  Proof.
    destruct (Nat.eq_dec m t) as [E|E].
    - rewrite <- E at 1. apply rep_root. exact Hm0.
    - assert (Hmt : mp0 t = m) by (unfold mp0; apply upd_same).
      rewrite (rep_step mp0 Hdec0 t) by (rewrite Hmt; exact E). rewrite Hmt. apply rep_root. exact Hm0.
  Qed.

  Definition Rt (p : nat) : nat := match ing1 p with Some e => rep mp0 e | None => 0 end.
  Definition Roots : list nat := roots_of mp0 ing1 g.

  Lemma In_Roots : forall r, In r Roots <-> exists a ea, In a g /\ ing1 a = Some ea /\ rep mp0 ea = r.
  Proof.
    intro r. unfold Roots, roots_of. rewrite in_flat_map. split.
    - intros [a [Ha H]]. destruct (ing1 a) as [ea|] eqn:E; [|contradiction]. destruct H as [<-|[]]. exists a, ea. auto.
    - intros [a [ea [Ha [E <-]]]]. exists a. split; [exact Ha|]. rewrite E. left. reflexivity.
  Qed.

  Definition Tch (x : nat) : Prop := exists a, In a g /\ U GS a x.

  Lemma touched_old : forall p e, ing p = Some e -> (In (rep mp e) Roots <-> Tch p).
  Proof.
    intros p e Hp. pose proof (Hlt p e Hp) as Het. rewrite In_Roots. split.
    - intros [a [ea [Ha [E Hr]]]]. destruct (ing1_inv a ea E) as [E1|[E1 [_ ->]]].
      + exists a. split; [exact Ha|]. apply (Hcls a p ea e E1 Hp). rewrite <- Hr. symmetry. apply rep0_old. eapply Hlt; eauto.
      + rewrite rep0_t in Hr. destruct Hm_att as [Hmt|[a' [ea' [Ha' [E' Hr']]]]].
        * exfalso. pose proof (proj2 (rep_spec mp Hdec e)). lia.
        * exists a'. split; [exact Ha'|]. apply (Hcls a' p ea' e E' Hp). congruence.
    - intros [a [Ha Ta]]. destruct (ing a) as [ea|] eqn:Ea.
      + exists a, ea. split; [exact Ha|]. split; [apply ing1_old; exact Ea|].
        rewrite rep0_old by (eapply Hlt; eauto). apply (Hcls a p ea e Ea Hp). exact Ta.
      + pose proof (new_isolated a p Ea Ta). subst a. congruence.
  Qed.

  Lemma untouched_not_m : forall p e, ing p = Some e -> ~ In (rep mp e) Roots -> rep mp e <> m.
  Proof.
    intros p e Hp Hn Heq. apply Hn. apply In_Roots. destruct Hm_att as [Hmt|[a' [ea' [Ha' [E' Hr']]]]].
    - exfalso. pose proof (Hlt p e Hp). pose proof (proj2 (rep_spec mp Hdec e)). lia.
    - exists a', ea'. split; [exact Ha'|]. split; [apply ing1_old; exact E'|].
      rewrite rep0_old by (eapply Hlt; eauto). congruence.
  Qed.

  Variable mp' : nat -> nat.
  Hypothesis Hd' : dec mp'.
  Hypothesis Hrep' : forall y, rep mp' y = if rep_in_dec (rep mp0 y) Roots then m else rep mp0 y.
  Hypothesis Hab' : forall x, t < x -> mp' x = mp0 x.

  Lemma step_merge : Inv (GS ++ [g]) {| m_in := ing1; m_map := mp'; m_n := S t |}.
  Proof.
    split; [|split; [|split]]; cbn [m_n m_map m_in].
    - rewrite app_length. simpl. destruct HI as [H _]. fold t in H. lia.
    - split; [exact Hd'|]. split.
      + intros x Hx. rewrite Hab' by lia. unfold mp0. rewrite upd_other by lia. apply Hid. lia.
      + intros p e H. destruct (ing1_inv p e H) as [H1|[_ [_ ->]]]; [apply Hlt in H1; lia|lia].
    - apply cov1.
    - intros p q e e' Hp Hq. rewrite !Hrep'.
      (* classify both points *)
      assert (Hnew : forall x ex, ing1 x = Some ex -> ing x = None -> In (rep mp0 ex) Roots /\ Tch x /\ In x g).
      { intros x ex Hx Hn. destruct (ing1_inv x ex Hx) as [H1|[_ [Hg ->]]]; [congruence|].
        split; [apply In_Roots; exists x, t; auto|]. split; [exists x; split; [exact Hg|apply rst_refl]|exact Hg]. }
      assert (Hold : forall x ex, ing x = Some ex -> rep mp0 ex = rep mp ex).
      { intros x ex Hx. apply rep0_old. eapply Hlt; eauto. }
      assert (Htch : forall x ex, ing1 x = Some ex -> (In (rep mp0 ex) Roots <-> Tch x)).
      { intros x ex Hx. destruct (ing x) as [ex'|] eqn:Ex.
        - assert (ex' = ex) by (rewrite (ing1_old x ex' Ex) in Hx; congruence). subst ex'.
          rewrite (Hold x ex Ex). apply touched_old. exact Ex.
        - destruct (Hnew x ex Hx Ex) as [H1 [H2 _]]. tauto. }
      rewrite U_snoc. fold (Tch p) (Tch q).
      destruct (rep_in_dec (rep mp0 e) Roots) as [Tp|Tp]; destruct (rep_in_dec (rep mp0 e') Roots) as [Tq|Tq].
      + split; [intros _; right; split; [apply (Htch p e Hp); exact Tp|apply (Htch q e' Hq); exact Tq]|reflexivity].
      + (* p merged, q not *)
        assert (Hq1 : ing q = Some e').
        { destruct (ing q) eqn:Eq; [rewrite (ing1_old q n Eq) in Hq; congruence|].
          exfalso. apply Tq. apply (Hnew q e' Hq Eq). }
        split.
        * intro H. exfalso. rewrite (Hold q e' Hq1) in H, Tq. symmetry in H. exact (untouched_not_m q e' Hq1 Tq H).
        * intros [H|[_ H]]; [|exfalso; apply Tq; apply (Htch q e' Hq); exact H].
          exfalso. apply Tq. apply (Htch q e' Hq). apply (Htch p e Hp) in Tp. destruct Tp as [a [Ha Ta]].
          exists a. split; [exact Ha|]. eapply rst_trans; eassumption.
      + assert (Hp1 : ing p = Some e).
        { destruct (ing p) eqn:Eq; [rewrite (ing1_old p n Eq) in Hp; congruence|].
          exfalso. apply Tp. apply (Hnew p e Hp Eq). }
        split.
        * intro H. exfalso. rewrite (Hold p e Hp1) in H, Tp. exact (untouched_not_m p e Hp1 Tp H).
        * intros [H|[H _]]; [|exfalso; apply Tp; apply (Htch p e Hp); exact H].
          exfalso. apply Tp. apply (Htch p e Hp). apply (Htch q e' Hq) in Tq. destruct Tq as [a [Ha Ta]].
          exists a. split; [exact Ha|]. eapply rst_trans; [exact Ta|apply rst_sym; exact H].
      + assert (Hp1 : ing p = Some e).
        { destruct (ing p) eqn:Eq; [rewrite (ing1_old p n Eq) in Hp; congruence|].
          exfalso. apply Tp. apply (Hnew p e Hp Eq). }
        assert (Hq1 : ing q = Some e').
        { destruct (ing q) eqn:Eq; [rewrite (ing1_old q n Eq) in Hq; congruence|].
          exfalso. apply Tq. apply (Hnew q e' Hq Eq). }
        rewrite (Hold p e Hp1), (Hold q e' Hq1), (Hcls p q e e' Hp1 Hq1).
        split; [intro H; left; exact H|]. intros [H|[H _]]; [exact H|].
        exfalso. apply Tp. apply (Htch p e Hp). exact H.
  Qed.
End Step.

(* ------------------------------------------------------------------ assembling one step *)
Lemma Inv_ext : forall GS st st',
  (forall p, m_in st p = m_in st' p) -> (forall x, m_map st x = m_map st' x) -> m_n st = m_n st' ->
  Inv GS st -> Inv GS st'.
Proof.
  intros GS st st' Hi Hm Hn [I1 [[D1 [D2 D3]] [I3 I4]]].
  split; [congruence|]. split; [|split].
  - split; [intro x; rewrite <- Hm; apply D1|]. split.
    + intros x Hx. rewrite <- Hm. apply D2. congruence.
    + intros p e H. rewrite <- Hi in H. rewrite <- Hn. eapply D3; eauto.
  - intro p. rewrite <- Hi. apply I3.
  - intros p q e e' Hp Hq. rewrite <- Hi in Hp, Hq. rewrite <- !(rep_ext _ _ Hm). apply I4; assumption.
Qed.

Lemma pass2_ext : forall fuel g ing ing' mp m, (forall p, ing p = ing' p) ->
  pass2 fuel g ing mp m = pass2 fuel g ing' mp m.
Proof.
  intros fuel g ing ing' mp m H. unfold pass2. revert mp. induction g as [|p g IH]; intro mp; simpl; [reflexivity|].
  rewrite <- H. apply IH.
Qed.

Lemma merge_step_Inv : forall GS st g, Inv GS st -> Inv (GS ++ [g]) (merge_step st g).
Proof.
  intros GS st g HI.
  pose proof (Hdec GS st HI) as Hd. pose proof (Hid GS st HI) as Hi. pose proof (Hlt GS st HI) as Hl.
  set (t := m_n st) in *. set (mp := m_map st) in *. set (ing := m_in st) in *.
  set (ing1 := fun p => match ing p with Some e => Some e | None => if rep_in_dec p g then Some t else None end).
  unfold merge_step. fold t mp ing. rewrite pass1_unfold.
  destruct (pass1_gen t mp (Hi t (le_n t)) g ing None) as [Q1 [Q2 Q3]]. cbv zeta in Q1, Q2, Q3.
  destruct (fold_left (p1step (S t) t mp) g (ing, None)) as [ingr me] eqn:Ef. cbn [fst snd] in Q1, Q2, Q3.
  destruct me as [m|].
  - (* merge into the smallest root *)
    destruct (Q3 m eq_refl) as [_ [R2 R3]].
    assert (Hme : mp m = m /\ m <= t).
    { destruct (pass1_spec t mp Hd Hi g ing None) as [_ P2].
      - intros p e H. apply Hl in H. lia.
      - intros; discriminate.
      - apply P2. fold (p1step (S t) t mp). rewrite Ef. reflexivity. }
    destruct Hme as [Hmr Hml].
    assert (Hmin : forall p e, In p g -> ing p = Some e -> m <= rep mp e).
    { intros p e Hp He. rewrite <- (chase_rep mp Hd (S t) e) by (apply Hl in He; lia). eapply R2; eauto. }
    assert (Hatt : m = t \/ exists p e, In p g /\ ing p = Some e /\ rep mp e = m).
    { destruct R3 as [R3|[R3|[p [e [Hp [He Hc]]]]]]; [discriminate|left; exact R3|].
      right. exists p, e. split; [exact Hp|]. split; [exact He|].
      rewrite <- (chase_rep mp Hd (S t) e) by (apply Hl in He; lia). exact Hc. }
    rewrite (pass2_ext (S t) g ingr ing1 (upd mp t m) m Q1).
    destruct (pass2_spec t m (upd mp t m) ing1 (Hdec0 GS st HI m Hml) (Hm0 st g m Hmr Hml Hmin Hatt) g (upd mp t m) [])
      as [P1 [P2 [P3 P4]]].
    + intros p e Hp He. destruct (ing1_inv st g p e He) as [H1|[H1 [_ ->]]].
      * split; [apply Hl in H1; lia|]. pose proof (rep0_old GS st HI m Hml e (Hl _ _ H1)) as X. fold t mp in X. rewrite X. eapply Hmin; eauto.
      * split; [lia|]. pose proof (rep0_t GS st g HI m Hmr Hml Hmin Hatt) as X. fold t mp in X. fold t. rewrite X. lia.
    + apply (Hdec0 GS st HI m Hml).
    + apply (Hm0 st g m Hmr Hml Hmin Hatt).
    + intro y. destruct (rep_in_dec (rep (upd mp t m) y) []) as [[]|_]. reflexivity.
    + intros r [].
    + intros; reflexivity.
    + cbv zeta in P1, P2, P3, P4. cbn [app] in P3.
      eapply Inv_ext; [| | |apply (step_merge GS st g HI m Hmr Hml Hmin Hatt (pass2 (S t) g ing1 (upd mp t m) m) P1 P3 P4)];
        cbn [m_in m_map m_n]; [intro p; symmetry; apply Q1|reflexivity|reflexivity].
  - destruct (Q2 eq_refl) as [_ Hnone].
    eapply Inv_ext; [| | |apply (step_fresh GS st g HI Hnone)];
      cbn [m_in m_map m_n]; [intro p; symmetry; apply Q1|reflexivity|reflexivity].
Qed.

Lemma merge_fold_Inv : forall gs GS st, Inv GS st -> Inv (GS ++ gs) (fold_left merge_step gs st).
Proof.
  induction gs as [|g gs IH]; intros GS st H; simpl.
  - rewrite app_nil_r. exact H.
  - replace (GS ++ g :: gs) with ((GS ++ [g]) ++ gs) by (rewrite <- app_assoc; reflexivity).
    apply IH. apply merge_step_Inv. exact H.
Qed.

(* merge_refines: the invariant 0 <= map[g] <= g, group numbers below nMapGroups, every covered point has
   a provisional group, and roots agree exactly on chains of provisional groups sharing points *)
Theorem merge_refines : forall pgs, Inv pgs (merge_model pgs).
Proof. intro pgs. apply (merge_fold_Inv pgs [] _ Inv_init). Qed.
