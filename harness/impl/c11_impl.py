"""Runs combine1fiber / preprocess_spectra of the repository under test (stdin JSON -> stdout JSON).

The iterfit calls made inside spec2d are recorded (breakpoints, breakpoint mask, coefficients, rejection mask)
by wrapping `spec2d.iterfit` from this process; the grouping is re-derived with the same numpy expressions so
that every recorded fit can be attached to its group and the internal `fullcombmask` reconstructed.
sdss_flagval needs the SPPIXMASK table: it is loaded from harness/impl/c11_maskbits.par (no network).
"""
import json
import os
import sys
import warnings

import numpy as np


def global_state():
    """process-global settings a library must leave alone (class C of round 6)"""
    return {'np.geterr': dict(np.geterr()), 'np.printoptions': {k: repr(v) for k, v in np.get_printoptions().items()},
            'os.environ': dict(os.environ), 'warnings.filters': len(warnings.filters)}


def state_diff(a, b, keys=None):
    return sorted(k for k in (keys or a) if a[k] != b[k])


# third-party packages first, so that THEIR import-time effects are not attributed to pydl
import astropy  # noqa: E402,F401
import astropy.io.fits  # noqa: E402,F401
import astropy.units  # noqa: E402,F401
import scipy.signal  # noqa: E402,F401
import scipy.special  # noqa: E402,F401
from astropy import log as _astropy_log  # noqa: E402,F401
from astropy.utils.data import download_file as _df  # noqa: E402,F401

STATE_BEFORE_IMPORT = global_state()
import pydl  # noqa: E402
from pydl.pydlspec2d.spec2d import combine1fiber as _user_c1f  # noqa: E402,F401  (the way a user imports it)
from pydl.pydlspec2d.spec1d import preprocess_spectra as _user_pp  # noqa: E402,F401
STATE_AFTER_IMPORT = global_state()
import pydl.pydlutils.sdss as S  # noqa: E402
import pydl.pydlspec2d.spec2d as SP  # noqa: E402

HERE = os.path.dirname(os.path.abspath(__file__))
S.maskbits = S.set_maskbits(maskbits_file=os.path.join(HERE, 'c11_maskbits.par'))


def err(e, stage):
    return {'err': type(e).__name__, 'msg': str(e)[:200], 'stage': stage}


def _f(v):
    v = float(v)
    if v != v:
        return 'nan'
    if v in (float('inf'), float('-inf')):
        return 'inf' if v > 0 else '-inf'
    return v


def fl(a):
    return [_f(v) for v in np.asarray(a, dtype='d').ravel()]


def arr(v):
    return None if v is None else np.array(v, dtype='d')


def lay(a, kind):
    """the same VALUES as `a` (C-contiguous float64 or whatever dtype the case asks for) in another memory layout / storage
    type.  Every call builds fresh storage, so the result can be handed to the code under test as a caller-owned array."""
    if a is None:
        return None
    if kind in (None, 'C'):
        return np.array(a, order='C')
    if kind == 'F':                                   # Fortran-ordered
        return np.array(a, order='F')
    if kind == 'T':                                   # transposed view of a C-contiguous (npix, nexp) table
        return np.ascontiguousarray(a.T).T if a.ndim == 2 else np.array(a)
    if kind == 'S':                                   # every 2nd column of a wider array (filler must never be read)
        w = np.full(a.shape[:-1] + (2 * a.shape[-1],), -777.0).astype(a.dtype)
        w[..., ::2] = a
        return w[..., ::2]
    if kind == 'SR':                                  # every 2nd row of a taller array
        if a.ndim != 2:
            return lay(a, 'S')
        w = np.full((2 * a.shape[0], a.shape[1]), -777.0).astype(a.dtype)
        w[::2, :] = a
        return w[::2, :]
    if kind == 'R':                                   # negative stride along the pixels
        return np.ascontiguousarray(a[..., ::-1])[..., ::-1]
    if kind == 'RR':                                  # negative stride along the exposures
        return np.ascontiguousarray(a[::-1])[::-1] if a.ndim == 2 else lay(a, 'R')
    if kind == 'BE':                                  # big-endian, as astropy.io.fits delivers it
        return a.astype(a.dtype.newbyteorder('>'))
    if kind == 'f4':
        return a.astype('f4')
    if kind == 'f4F':
        return np.array(a.astype('f4'), order='F')
    raise ValueError(kind)


def same_layout_copy(a):
    """pristine copy for the argument-immutability comparison (values and dtype)"""
    return np.array(a, order='C')


def run_combine(inloglam, flux, newloglam, ivar, kwargs, layout=None):
    """-> dict with outputs and the recorded internals.  layout: {'L','F','V','N': kind, 'kw': None|'disp'}"""
    rec = []
    layout = layout or {}
    orig = SP.iterfit

    def spy(xdata, ydata, invvar=None, **kw):
        sset, outmask = orig(xdata, ydata, invvar=invvar, **kw)
        coeff = sset.coeff if isinstance(sset.coeff, np.ndarray) else np.zeros(sset.breakpoints.size - sset.nord)
        rec.append({'n': int(xdata.size), 'bk': fl(sset.breakpoints), 'bkmask': [bool(v) for v in np.atleast_1d(sset.mask)],
                    'coeff': fl(coeff), 'coeff_finite': bool(np.all(np.isfinite(coeff))),
                    'bmask': [bool(v) for v in np.atleast_1d(outmask)], 'nord': int(sset.nord)})
        return sset, outmask
    SP.iterfit = spy
    stage = {}
    orig_smooth, orig_aes = SP.smooth, SP.aesthetics

    def spy_smooth(signal, owidth, **kw):
        stage.setdefault('pre_ivar', fl(signal))          # newivar before the growth of bad regions
        return orig_smooth(signal, owidth, **kw)

    def spy_aes(flux_, invvar_, method='traditional'):
        stage.setdefault('pre_flux', fl(flux_))           # spline values before the cosmetic fill
        return orig_aes(flux_, invvar_, method=method)
    SP.smooth, SP.aesthetics = spy_smooth, spy_aes
    # caller-owned arrays, in the memory layout / storage type the case asks for
    iv = lay(ivar, layout.get('V'))
    a_in, a_fl, a_new = lay(inloglam, layout.get('L')), lay(flux, layout.get('F')), lay(newloglam, layout.get('N'))
    if layout:
        inloglam, flux, newloglam = same_layout_copy(a_in), same_layout_copy(a_fl), same_layout_copy(a_new)
        ivar = None if iv is None else same_layout_copy(iv)
    call_kwargs = dict(kwargs)
    if layout.get('kw') == 'disp':
        # the optional dispersion / sky arrays (newdisp, newsky are never returned): must not change (newflux, newivar)
        call_kwargs['indisp'] = lay(1.0 + 0.0 * np.asarray(inloglam, dtype='d'), layout.get('D'))
        call_kwargs['skyflux'] = lay(0.5 + 0.0 * np.asarray(inloglam, dtype='d'), layout.get('D'))
    try:
        with warnings.catch_warnings():
            warnings.simplefilter('ignore')
            nf, ni = SP.combine1fiber(a_in, a_fl, a_new, objivar=iv, **call_kwargs)
    finally:
        SP.iterfit = orig
        SP.smooth, SP.aesthetics = orig_smooth, orig_aes
    def same(a, b):
        return a.dtype == b.dtype and a.shape == b.shape and bool(np.array_equal(a, b, equal_nan=True))
    mutated = [nm for nm, a, b in (('inloglam', a_in, inloglam), ('objflux', a_fl, flux), ('newloglam', a_new, newloglam)) if not same(a, b)]
    aliases = bool(any(np.shares_memory(r_, a) for r_ in (nf, ni) for a in (a_in, a_fl, a_new) + (() if iv is None else (iv,))))
    out = {'args_mutated': mutated, 'result_aliases_arg': aliases,
           # objivar is an in/out argument in the IDL original (rejected pixels are zeroed); observed, not judged
           'objivar_modified': bool(iv is not None and not same(iv, ivar)),
           'newflux': fl(nf), 'newivar': fl(ni), 'len_flux': int(np.asarray(nf).size), 'len_ivar': int(np.asarray(ni).size),
           'finite': bool(np.all(np.isfinite(nf)) and np.all(np.isfinite(ni)))}
    if 'pre_ivar' in stage and 'pre_flux' in stage and all(isinstance(v, float) for v in stage['pre_ivar'] + stage['pre_flux']):
        out['pre_ivar'] = stage['pre_ivar']
        out['pre_flux'] = stage['pre_flux']
    # ---- glue: the grouping, with the expressions of the source (on the LOGICAL arrays: ravel() = C order)
    inr = inloglam.ravel()
    npix = inr.size
    if ivar is None:
        nonzero = np.arange(npix)
    else:
        nonzero = (ivar.ravel() > 0).nonzero()[0]
    ngood = nonzero.size
    binsz = kwargs.get('binsz', (inloglam[0, 1] - inloglam[0, 0]) if inloglam.ndim == 2 else (inloglam[1] - inloglam[0]))
    maxsep = kwargs.get('maxsep', 2.0 * binsz)
    out['maxsep'] = float(maxsep)
    out['binsz'] = float(binsz)
    out['bkptbin'] = float(kwargs.get('bkptbin', 1.2 * binsz))
    fits = []
    fullcomb = np.zeros(npix, dtype=bool)
    isort = np.zeros(0, dtype=int)
    if ngood > 0:
        isort = nonzero[inr[nonzero].argsort()]
        wavesort = inr[isort]
        padwave = np.insert(wavesort, 0, wavesort.min() - 2.0 * maxsep)
        padwave = np.append(padwave, wavesort.max() + 2.0 * maxsep)
        ig1 = ((padwave[1:ngood + 1] - padwave[0:ngood]) > maxsep).nonzero()[0]
        ig2 = ((padwave[2:ngood + 2] - padwave[1:ngood + 1]) > maxsep).nonzero()[0]
        k = 0
        for g in range(ig1.size):
            ss = isort[ig1[g]:ig2[g] + 1]
            if ss.size > 2:
                r = rec[k] if k < len(rec) else None
                k += 1
                if r is None or r['n'] != ss.size:
                    out['glue_error'] = 'recorded iterfit calls do not match the groups'
                    fits.append(None)
                    continue
                fits.append(r)
                if r['coeff_finite'] and np.sum(np.abs(r['coeff'])) != 0 and len(r['bmask']) == ss.size:
                    fullcomb[ss] = r['bmask']
            else:
                fits.append(None)
        if k != len(rec):
            out['glue_error'] = 'more iterfit calls than groups'
    out['isort'] = [int(i) for i in isort]
    out['fits'] = fits
    out['fullcomb'] = [bool(v) for v in fullcomb]
    if iv is not None:
        out['ivar_after'] = fl(iv)
    return out


def do_combine(c):
    inloglam = arr(c['inloglam'])
    flux = arr(c['flux'])
    if c.get('flux_dtype'):
        flux = flux.astype(c['flux_dtype'])        # integer counts / float32 flux (values exactly representable)
    ivar = arr(c.get('ivar'))
    if ivar is not None and c.get('ivar_dtype'):
        ivar = ivar.astype(c['ivar_dtype'])
    newloglam = arr(c['newloglam'])
    kwargs = dict(c.get('kwargs') or {})
    try:
        # c['layout']: replay of a layout run (the stored call carries the layout that made the difference)
        out = run_combine(inloglam, flux, newloglam, ivar, kwargs, layout=c.get('layout'))
    except Exception as e:  # noqa: BLE001
        return err(e, 'combine1fiber')
    ex = c.get('extras') or {}

    def outputs_same(o):
        return o['newflux'] == out['newflux'] and o['newivar'] == out['newivar']

    # ---- class B: the same values in other memory layouts / storage types, each array independently
    runs = []
    for spec in ex.get('layouts') or []:
        f4 = [k for k in 'LFV' if str(spec.get(k, '')).startswith('f4')]
        ref = out
        try:
            if any(k in f4 for k in 'FV'):
                # float32 storage of flux / weights: the reference is the float64 call on the float32-representable values
                fl32 = flux.astype('f4').astype('d') if 'F' in f4 else flux
                iv32 = ivar.astype('f4').astype('d') if ('V' in f4 and ivar is not None) else ivar
                if not (np.array_equal(fl32, flux) and (ivar is None or np.array_equal(iv32, ivar))):
                    ref = run_combine(inloglam, fl32, newloglam, iv32, kwargs)
                rv = run_combine(inloglam, fl32, newloglam, iv32, kwargs, layout=spec)
            else:
                rv = run_combine(inloglam, flux, newloglam, ivar, kwargs, layout=spec)
        except Exception as e:  # noqa: BLE001
            runs.append({'spec': spec, 'err': type(e).__name__, 'msg': str(e)[:200]})
            continue
        one = {'spec': spec, 'identical': rv['newflux'] == ref['newflux'] and rv['newivar'] == ref['newivar'],
               'args_mutated': rv['args_mutated'], 'result_aliases_arg': rv['result_aliases_arg'], 'finite': rv['finite']}
        if not one['identical']:
            one['same_knots'] = [None if f is None else len(f['bk']) for f in rv['fits']] == \
                                [None if f is None else len(f['bk']) for f in ref['fits']]
            one['ref_is_base'] = ref is out
            one['ref'] = {'newflux': ref['newflux'], 'newivar': ref['newivar']}
            one['record'] = rv                   # the whole record: judged in Coq by the harness
        runs.append(one)
    if runs:
        out['layout_runs'] = runs
    # ---- class A: the very same array objects again after the caller changed one in place; a fresh call must agree
    if ex.get('repeat'):
        try:
            with warnings.catch_warnings():
                warnings.simplefilter('ignore')
                A_in, A_fl, A_new = inloglam.copy(), flux.copy(), newloglam.copy()
                r1 = SP.combine1fiber(A_in, A_fl, A_new, objivar=None if ivar is None else ivar.copy(), **kwargs)
                first_same = fl(r1[0]) == out['newflux'] and fl(r1[1]) == out['newivar']
                keep = (r1[0].copy(), r1[1].copy())
                A_fl += 1.0                      # caller refills its buffer in place
                A_fl[..., ::7] -= 0.5
                r2 = SP.combine1fiber(A_in, A_fl, A_new, objivar=None if ivar is None else ivar.copy(), **kwargs)
                results_kept = bool(np.array_equal(keep[0], r1[0], equal_nan=True) and np.array_equal(keep[1], r1[1], equal_nan=True))
                r3 = SP.combine1fiber(inloglam.copy(), A_fl.copy(), newloglam.copy(),
                                      objivar=None if ivar is None else ivar.copy(), **kwargs)
            out['repeat'] = {'first_same': bool(first_same), 'earlier_result_kept': results_kept,
                             'second_same_as_fresh': bool(np.array_equal(r2[0], r3[0], equal_nan=True) and
                                                          np.array_equal(r2[1], r3[1], equal_nan=True)),
                             'second_differs_from_first': bool(not np.array_equal(r2[0], r1[0], equal_nan=True))}
        except Exception as e:  # noqa: BLE001
            out['repeat'] = err(e, 'combine1fiber')
    # ---- class G: NaN / inf in the flux of zero-weight pixels must not leak (nor change anything)
    if ex.get('badflux') and ivar is not None:
        try:
            f2 = flux.astype('d')
            f2[np.asarray(ivar) <= 0] = {'nan': np.nan, 'inf': np.inf, '-inf': -np.inf, 'huge': 1e300}[ex['badflux']]
            o2 = run_combine(inloglam, f2, newloglam, ivar, kwargs)
            out['badflux'] = {'finite': o2['finite'], 'identical': outputs_same(o2), 'n_bad': int((np.asarray(ivar) <= 0).sum())}
        except Exception as e:  # noqa: BLE001
            out['badflux'] = err(e, 'combine1fiber')
    # ---- class G: NaN / inf among the WEIGHTS: the documented outcome is finite output with ivar >= 0
    if ex.get('badivar') and ivar is not None:
        try:
            v2 = np.array(ivar, dtype='d')
            v2[np.asarray(ivar) <= 0] = {'nan': np.nan, '-inf': -np.inf, 'neg': -1.0}[ex['badivar']]
            o2 = run_combine(inloglam, flux, newloglam, v2, kwargs)
            out['badivar'] = {'finite': o2['finite'], 'nonneg': all(isinstance(v, float) and v >= 0 for v in o2['newivar']),
                              'identical': outputs_same(o2), 'n_bad': int((np.asarray(ivar) <= 0).sum())}
        except Exception as e:  # noqa: BLE001
            out['badivar'] = err(e, 'combine1fiber')
    # ---- class C: the call under a caller-chosen floating-point error state (all='raise')
    if ex.get('errstate'):
        try:
            with np.errstate(all='raise'):
                o2 = run_combine(inloglam, flux, newloglam, ivar, kwargs)
            out['errstate'] = {'identical': outputs_same(o2)}
        except Exception as e:  # noqa: BLE001
            out['errstate'] = err(e, 'combine1fiber')
    if 'scale' in ex:
        s = float(ex['scale'])
        try:
            o2 = run_combine(inloglam, flux.astype('d') * s, newloglam, None if ivar is None else ivar.astype('d') / (s * s), kwargs)
            out['scaled'] = {'newflux': o2['newflux'], 'newivar': o2['newivar']}
        except Exception as e:  # noqa: BLE001
            out['scaled'] = err(e, 'combine1fiber')
    return out


def do_preprocess(c):
    """preprocess_spectra against direct combine1fiber calls on the shifted grid"""
    from pydl.pydlspec2d.spec1d import preprocess_spectra
    flux = arr(c['flux'])
    ivar = arr(c['ivar'])
    loglam = arr(c['loglam'])
    z = arr(c['zfit'])
    newloglam = arr(c['newloglam'])
    args = [flux.copy(), ivar.copy(), loglam.copy(), z.copy(), newloglam.copy()]       # caller-owned arrays
    try:
        with warnings.catch_warnings():
            warnings.simplefilter('ignore')
            f, i, l = preprocess_spectra(args[0], args[1], loglam=args[2], zfit=args[3],
                                         newloglam=args[4], aesthetics=c.get('aesthetics', 'mean'))
            # the same call again with the very same array objects (object spectra, then e.g. sky spectra)
            f2, i2, l2 = preprocess_spectra(args[0], args[1], loglam=args[2], zfit=args[3],
                                            newloglam=args[4], aesthetics=c.get('aesthetics', 'mean'))
    except Exception as e:  # noqa: BLE001
        return err(e, 'preprocess_spectra')
    names = ('flux', 'ivar', 'loglam', 'zfit', 'newloglam')
    orig = (flux, ivar, loglam, z, newloglam)
    out = {'flux': [fl(r) for r in f], 'ivar': [fl(r) for r in i], 'loglam_same': bool(np.array_equal(l, newloglam)),
           'finite': bool(np.all(np.isfinite(f)) and np.all(np.isfinite(i))), 'shape': list(np.asarray(f).shape),
           'args_mutated': [nm for nm, a, b in zip(names, args, orig) if not (a.dtype == b.dtype and np.array_equal(a, b, equal_nan=True))],
           'second_call_same': bool(np.array_equal(f, f2, equal_nan=True) and np.array_equal(i, i2, equal_nan=True))}
    direct = []
    dl = newloglam[1] - newloglam[0]
    for k in range(flux.shape[0]):
        try:
            with warnings.catch_warnings():
                warnings.simplefilter('ignore')
                nf, ni = SP.combine1fiber(loglam - np.log10(1.0 + z[k]), flux[k].copy(), newloglam.copy(),
                                          objivar=ivar[k].copy(), binsz=dl, aesthetics=c.get('aesthetics', 'mean'))
            direct.append({'flux': fl(nf), 'ivar': fl(ni)})
        except Exception as e:  # noqa: BLE001
            direct.append(err(e, 'combine1fiber'))
    out['direct'] = direct
    out['logshift'] = fl(np.log10(1.0 + z))
    return out


def main():
    calls = json.load(sys.stdin)
    real_stdout = sys.stdout
    sys.stdout = sys.stderr          # astropy's logger writes INFO lines to stdout
    try:
        from astropy import log as _log
        _log.setLevel('ERROR')
    except Exception:  # noqa: BLE001
        pass
    res = []
    for c in calls:
        if c['f'] == 'combine':
            res.append(do_combine(c))
        elif c['f'] == 'preprocess':
            res.append(do_preprocess(c))
        elif c['f'] == 'probe-empty':
            # an EMPTY output grid: observed, not judged (see notes/C11.md, round 5)
            try:
                with warnings.catch_warnings():
                    warnings.simplefilter('ignore')
                    nf, ni = SP.combine1fiber(arr(c['inloglam']), arr(c['flux']), np.zeros(0), objivar=arr(c.get('ivar')))
                res.append({'outcome': 'ok' if (nf.shape == (0,) and ni.shape == (0,)) else 'wrong-shape'})
            except Exception as e:  # noqa: BLE001
                res.append({'outcome': type(e).__name__})
        else:
            res.append({'err': 'BadCall', 'stage': 'harness'})
    after_calls = global_state()
    real_stdout.write(json.dumps({'pydl_file': pydl.__file__, 'results': res,
                                  'global_state': {
                                      # the import of pydl adds one warnings filter (astropy's): length not judged at import
                                      'changed_by_import': state_diff(STATE_BEFORE_IMPORT, STATE_AFTER_IMPORT,
                                                                      ['np.geterr', 'np.printoptions', 'os.environ']),
                                      'warnings_filters_import': [STATE_BEFORE_IMPORT['warnings.filters'],
                                                                  STATE_AFTER_IMPORT['warnings.filters']],
                                      'changed_by_calls': state_diff(STATE_AFTER_IMPORT, after_calls),
                                      'geterr': after_calls['np.geterr']}}, allow_nan=False))


if __name__ == '__main__':
    main()
