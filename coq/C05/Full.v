(* C05 -- groups_refines and the end-to-end theorem with pair_coverage as the only geometric hypothesis *)
From Coq Require Import ZArith List Bool Arith Lia Relations.
Import ListNotations.
From PV Require Import C05.Model C05.Proofs C05.Renumber C05.Tail C05.Algo C05.Merge C05.MergeRel C05.FofTail
                       C05.Spec C05.Groups.

Section Full.
  Variable n : nat.
  Variable link : nat -> nat -> bool.
  Variable cells : list (list nat).
  Hypothesis Hsym : forall a b, a < n -> b < n -> link a b = link b a.
  Hypothesis Hrefl : forall a, a < n -> link a a = true.
  Hypothesis Hcells : forall c a, In c cells -> In a c -> a < n.

  Definition lnk_of (c : list nat) : nat -> nat -> bool := fun a b => link (nth a c 0) (nth b c 0).
  Definition all_pgs : list (list nat) := flat_map (fun c => cell_pgs (lnk_of c) c) cells.

  Lemma lnk_sym : forall c, In c cells -> forall a b, a < length c -> b < length c -> lnk_of c a b = lnk_of c b a.
  Proof. intros c Hc a b Ha Hb. unfold lnk_of. apply Hsym; eapply Hcells; eauto using nth_In. Qed.
  Lemma lnk_refl : forall c, In c cells -> forall a, a < length c -> lnk_of c a a = true.
  Proof. intros c Hc a Ha. unfold lnk_of. apply Hrefl. eapply Hcells; eauto using nth_In. Qed.

  (* a chain of links among the positions of a cell is a chain of links among the points *)
  Lemma E_cell : forall c, In c cells -> forall l l', E (length c) (lnk_of c) l l' ->
    E n link (nth l c 0) (nth l' c 0).
  Proof.
    intros c Hc l l' H. induction H as [x y [Hx [Hy Hl]]| | |].
    - apply rst_step. split; [eapply Hcells; eauto using nth_In|]. split; [eapply Hcells; eauto using nth_In|exact Hl].
    - apply E_refl.
    - apply E_sym. assumption.
    - eapply E_trans; eassumption.
  Qed.

  Lemma In_all_pgs : forall g, In g all_pgs <->
    exists c k, In c cells /\ k < nfirst (length c) (labz (g_in (gfinal (length c) (lnk_of c)))) (length c) /\
      g = map (fun l => nth l c 0)
              (members (length c) (canon (length c) (labz (g_in (gfinal (length c) (lnk_of c))))) k).
  Proof.
    intro g. unfold all_pgs. rewrite in_flat_map. split.
    - intros [c [Hc Hg]]. rewrite (cell_pgs_spec (length c) (lnk_of c) (lnk_sym c Hc) (lnk_refl c Hc) c eq_refl) in Hg.
      apply in_map_iff in Hg. destruct Hg as [k [<- Hk]]. apply in_seq in Hk. exists c, k. split; [exact Hc|]. split; [lia|reflexivity].
    - intros [c [k [Hc [Hk ->]]]]. exists c. split; [exact Hc|].
      rewrite (cell_pgs_spec (length c) (lnk_of c) (lnk_sym c Hc) (lnk_refl c Hc) c eq_refl).
      apply in_map_iff. exists k. split; [reflexivity|apply in_seq; lia].
  Qed.

  (* groups_refines: class groups, run on every cell, delivers what the merge needs *)
  Theorem groups_refines : groups_ok n link cells all_pgs.
  Proof.
    split; [|split].
    - intros g a Hg Ha. apply In_all_pgs in Hg. destruct Hg as [c [k [Hc [_ ->]]]].
      apply in_map_iff in Ha. destruct Ha as [l [<- Hl]]. apply members_spec in Hl. destruct Hl as [Hl _].
      eapply Hcells; eauto using nth_In.
    - intros g a b Hg Ha Hb. apply In_all_pgs in Hg. destruct Hg as [c [k [Hc [_ ->]]]].
      apply in_map_iff in Ha. destruct Ha as [l [<- Hl]]. apply in_map_iff in Hb. destruct Hb as [l' [<- Hl']].
      apply members_spec in Hl. apply members_spec in Hl'. destruct Hl as [Hl Hk]. destruct Hl' as [Hl' Hk'].
      apply (E_cell c Hc).
      apply (cn_same_iff (length c) (lnk_of c) (lnk_sym c Hc) (lnk_refl c Hc) l l' Hl Hl'). congruence.
    - intros c a b Hc Ha Hb Han Hbn Hl.
      destruct (In_nth c a 0 Ha) as [l [Hl1 Hl2]]. destruct (In_nth c b 0 Hb) as [l' [Hl1' Hl2']].
      assert (HE : E (length c) (lnk_of c) l l').
      { apply rst_step. split; [exact Hl1|]. split; [exact Hl1'|]. unfold lnk_of. rewrite Hl2, Hl2'. exact Hl. }
      apply (cn_same_iff (length c) (lnk_of c) (lnk_sym c Hc) (lnk_refl c Hc) l l' Hl1 Hl1') in HE.
      set (lab0 := labz (g_in (gfinal (length c) (lnk_of c)))) in *.
      exists (map (fun x => nth x c 0) (members (length c) (canon (length c) lab0) (canon (length c) lab0 l))).
      split; [|split].
      + apply In_all_pgs. exists c, (canon (length c) lab0 l). split; [exact Hc|]. split; [|reflexivity].
        apply (cn_lt_K (length c) (lnk_of c) l Hl1).
      + rewrite <- Hl2. apply (in_map (fun x => nth x c 0)). apply members_spec. split; [exact Hl1|reflexivity].
      + rewrite <- Hl2'. apply (in_map (fun x => nth x c 0)). apply members_spec. split; [exact Hl1'|symmetry; exact HE].
  Qed.

  (* C05 with the geometric hypothesis only *)
  Theorem spheregroup_full_spec : pair_coverage n link cells -> spheregroup_full n link cells = spec_output n link.
  Proof.
    intro Hpc. unfold spheregroup_full. fold lnk_of. fold all_pgs.
    apply (spheregroup_spec n link cells all_pgs Hrefl Hpc groups_refines).
  Qed.
End Full.
