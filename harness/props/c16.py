"""C16 -- readspec returns each requested spectrum in request order, unshifted (pydl/pydlspec2d/spec1d.py)."""
import os
import time
from concurrent.futures import ThreadPoolExecutor

from harness import common as C
from translate import c16 as T

ID = 'C16'
PROPS_V = 'C16/Props.v'
LEVEL = 'proof'
TRUSTED = [
    'translate/c16.py + translate/pyexpr.py: Python ast -> Gallina for the key shift/mask expressions, the row subscripts '
    'data[thisfiber-1], and the offsets / width / slice bounds of spec_append (Generated/Readspec.v, C16/Source.v)',
    'hand-written model C16/Model.v (readspec_core, request_vectors, spec_append, argsort, usort): a transliteration of '
    'spec1d.py:867-1078,1127-1163 tied to the code by exact correspondence on every run; the znum row expression is '
    'tied by correspondence only',
    'astropy FITS writing/reading of the synthetic trees; numpy fancy indexing data[thisfiber-1], np.unique, argsort, '
    'nonzero, concatenate (exercised through the real code, modelled by their meaning)',
    "Python's int(run2d) modelled as 'non-empty, decimal digits only'; os.path.join as concatenation of path components; "
    'RUN2D/RUN1D strings of platelist.fits represented by integer codes (only equality is used)',
    'history groups: module-level state in pydl is only observable through sequences of calls in one process; the harness '
    'runs fixed interleavings over 4-5 trees/reductions per group (not all interleavings)',
    'harness/impl/c16_impl.py sets RUN2D, RUN1D, BOSS_SPECTRO_REDUX/SPECTRO_REDUX, SPECTRO_MATCH, PHOTO_RESOLVE per call',
    'storage types: C16/Typed.v peval models NumPy 2 (NEP 50) integer arithmetic of one-element arrays and Python ints (array (op) '
    'Python int keeps the array type and wraps, OverflowError for a Python int that does not fit, np.array(x, dtype) wraps); tied to '
    'NumPy by ~300 CTyped cases per run (the extracted expressions evaluated by NumPy itself, in and far outside the documented '
    'ranges); not in the typed layer: znum / nper passed as NumPy scalars (promotion), the comparison platevec == np.uint64 scalar, '
    'int(thisplate) for the file names',
    'realistic-size trees (bigz): the Coq survey is given by the formulas the rows were written from (Model.gen_img / gen_col); '
    'harness/props/c16.py checks every formula against the explicit rows before use',
    'align=True: C16/AlignModel.v is the intended algorithm (integer pixel shift); the unrepaired code raises for every call whose '
    'files differ in COEFF0, so the tie is the extracted rounding rule / COEFF0 updates (C16_source_align) plus a direct check of any '
    'answer the code does return (align-grid calls; all of them with fixes/C16-align-float-pixshift.diff applied)',
    'Coq stdlib ZArith, List, Permutation, Sorted, Lia, QArith/Qround (theorems closed under the global context)',
    'round 6: answers returned although readspec_S is undefined (request without file / row, files differing in what they hold) are judged by '
    'Model.partial_ok / rows_belong (hand-written from the first sentence of the property, no theorem relates it to readspec_S beyond sharing spec_row); '
    'dtype expectations (harness/props/c16.py expected_dtypes) are the kinds the runner writes; the process-global-state snapshot covers '
    'astropy.io.fits.conf, np.geterr, np.get_printoptions, os.environ (+ len(warnings.filters) per call) and nothing else',
]
ASSUMPTIONS = [
    'requests are valid: plate >= 0, 0 <= MJD < 2^16 (the key is (plate<<16)+mjd), 1 <= fiber <= number of rows; '
    'fiber 0 or negative (numpy wraps to the last rows) is outside the property',
    'every HDU / table column of a file is a rectangular array (wf_survey); all plate-MJDs of a call have the same '
    'set of table columns and the same presence of spZbest/spZall/photoPlate files',
    'pixel values are integers below 2^31 stored as f8/i4 (float32 rounding of real fluxes is not modelled); '
    'COEFF0/COEFF1 are dyadic so that c0 + c1*pixel is exact in double precision',
    'the wavelength statement is read per spectrum: row i of loglam is COEFF0_i + COEFF1_i*pixel for the NAXIS1_i pixels '
    'of its own file and is zero-padded on the right like every other image (this is what readspec.pro does as well)',
    "align=True (the only caller of spec_append with pixshift != 0): the statement's 'no pixel is shifted' is read for aligned "
    'calls as "not shifted relative to its own wavelength solution" and proved for the intended algorithm on a common grid '
    '(C16_align_chain_unshifted); crashes of the unrepaired code (TypeError / IndexError) are counted in '
    'coverage.align_grid_calls and NOT reported as violations (recorded defect outside the quantified conventions); a returned '
    'answer that is not the aligned one IS reported; COEFF0 = 0 (no wavelength solution) and off-grid COEFF0 are outside',
    'storage-type theorems hold for fibre 1..1000, DIMS0 and znum 1..1000, plate 0..99999, 0 <= MJD < 2^16, any integer storage '
    'of the caller\'s arrays that holds the values',
    'a call on a tree whose requested files differ in what they hold (missing spZbest/spZall/photoPlate, truncated spPlate) or with a request without file '
    'may raise: no claim either way; only a RETURNED answer is judged (one row per request, row i of request i)',
    'SPECTRO_MATCH and PHOTO_RESOLVE must be set (readspec reads them unconditionally when no photoPlate file sits next '
    'to the spPlate file)',
]



def translate(ctx):
    text, info = T.generate(C.REPO)
    path = os.path.join(C.COQ, 'Generated', 'Readspec.v')
    if text is not None:
        info['changed'] = C.write_if_changed(path, text)
    else:
        info['note'] = ('source shape not recognised; the previous Generated/Readspec.v is kept and the correspondence run '
                        'alone ties model to code')
    return {'Readspec': info}


SCALE = 1 << 20
RUN2D_BOSS = 'v5_7_0'
IMG_NAMES = ['flux', 'invvar', 'andmask', 'ormask', 'disp', 'sky']

HEADER = '''From Coq Require Import ZArith List. Import ListNotations.
From PV Require Import C16.Model. Open Scope Z_scope.
'''


# ---------------------------------------------------------------- synthetic files (deterministic from their meta)

def code_small(uid, fib, h, pix):
    return ((uid * 1000 + fib) * 100 + h) * 100 + pix


def code_big(uid, fib, h, pix):
    """realistic-size trees: fibres up to 1000, fit numbers up to 134 (uid stays small, values stay below 2^31)"""
    return ((uid * 2048 + fib) * 100 + h) * 256 + pix


_FA_MEMO = {}


def file_arrays(m):
    """meta -> explicit arrays.  Every value encodes (file uid, fiber, hdu/column, pixel/component)."""
    if m.get('big'):
        key = tuple(sorted((k, v) for k, v in m.items() if not isinstance(v, (list, dict))))
        if key not in _FA_MEMO:
            _FA_MEMO[key] = file_arrays_(m)
        return _FA_MEMO[key]
    return file_arrays_(m)


def file_arrays_(m):
    uid, nfib, npix, nper = m['uid'], m['nfib'], m['npix'], m['nper']
    fibs = range(1, nfib + 1)
    code = code_big if m.get('big') else code_small
    out = dict(m)
    out['imgs'] = [[[code(uid, f, h, p) for p in range(npix)] for f in fibs] for h in range(6)]
    out['plug'] = [
        {'name': 'FIBERID', 'kind': 'J', 'rows': [[f] for f in fibs]},
        {'name': 'CODE', 'kind': 'K', 'rows': [[code(uid, f, 10, 0)] for f in fibs]},
        {'name': 'OBJTYPE', 'kind': 'A', 'rows': [[code(uid, f, 11, 0)] for f in fibs]},
        {'name': 'MAG', 'kind': '5D', 'rows': [[code(uid, f, 12, k) for k in range(5)] for f in fibs]},
        {'name': 'RA', 'kind': 'D', 'rows': [[code(uid, f, 13, 0)] for f in fibs]},
    ]
    out['zbest'] = [
        {'name': 'FIBERID', 'kind': 'J', 'rows': [[f] for f in fibs]},
        {'name': 'Z', 'kind': 'D', 'rows': [[code(uid, f, 20, 0)] for f in fibs]},
        {'name': 'CLASS', 'kind': 'A', 'rows': [[code(uid, f, 21, 0)] for f in fibs]},
    ] if m['has_zbest'] else []
    out['zall'] = [
        {'name': 'FIBERID', 'kind': 'J', 'rows': [[f] for f in fibs for z in range(1, nper + 1)]},
        {'name': 'Z', 'kind': 'D', 'rows': [[code(uid, f, 30, z)] for f in fibs for z in range(1, nper + 1)]},
        {'name': 'CLASS', 'kind': 'A', 'rows': [[code(uid, f, 31, z)] for f in fibs for z in range(1, nper + 1)]},
    ] if m['has_zall'] else []
    out['photo'] = [
        {'name': 'OBJID', 'kind': 'K', 'rows': [[code(uid, f, 40, 0)] for f in fibs]},
        {'name': 'MODELFLUX', 'kind': '5D', 'rows': [[code(uid, f, 41, k) for k in range(5)] for f in fibs]},
    ] if m['has_photo'] else []
    if m.get('ucols'):
        # unsigned integers stored the standard FITS way (TZEROn): 64-bit identifiers above 2^63 whose neighbouring fibres
        # differ by 1 (a detour through float64 makes them equal), 32- and 16-bit values above the signed range
        out['plug'] += [
            {'name': 'TARGETID', 'kind': 'UK', 'rows': [[U64_BASE + (uid << 24) + f] for f in fibs]},
            {'name': 'UMASK32', 'kind': 'UJ', 'rows': [[(1 << 31) + code(uid, f, 14, 0)] for f in fibs]},
            {'name': 'USHORT', 'kind': 'UI', 'rows': [[(1 << 15) + (uid * 1024 + f) % (1 << 15)] for f in fibs]},
        ]
        if m['has_zbest']:
            out['zbest'] += [{'name': 'SPECOBJID', 'kind': 'UK', 'rows': [[U64_BASE + (5 << 56) + (uid << 24) + f] for f in fibs]}]
        if m['has_zall']:
            out['zall'] += [{'name': 'SPECOBJID', 'kind': 'UK',
                             'rows': [[U64_BASE + (6 << 56) + (uid << 24) + f * 256 + z] for f in fibs for z in range(1, nper + 1)]}]
        if m['has_photo']:
            out['photo'] += [{'name': 'PHOTOID', 'kind': 'UK', 'rows': [[U64_BASE + (7 << 56) + (uid << 24) + f] for f in fibs]}]
    if m.get('umask'):
        # unsigned 32-bit pixel masks with the top bit in use
        for h in (2, 3):
            out['imgs'][h] = [[v + (1 << 31) for v in row] for row in out['imgs'][h]]
    if m.get('truncated'):
        # a partial reduction: the spPlate file stops after the dispersion HDU (no plug-map table, no sky)
        out['imgs'] = out['imgs'][:5]
        out['plug'] = []
    return out


U64_BASE = (1 << 63) + (1 << 60)
UCOLS = {'plugmap': ['TARGETID', 'UMASK32', 'USHORT'], 'zans': ['SPECOBJID'], 'tsobj': ['PHOTOID']}
KIND_DTYPE = {'J': 'i4', 'K': 'i8', 'D': 'f8', '5D': 'f8', 'UK': 'u8', 'UJ': 'u4', 'UI': 'u2'}


def call_columns(ucols):
    cols = {'plugmap': ['FIBERID', 'CODE', 'OBJTYPE', 'MAG', 'RA'], 'tsobj': ['OBJID', 'MODELFLUX'], 'zans': ['FIBERID', 'Z', 'CLASS']}
    if ucols:
        cols = {g: c + UCOLS[g] for g, c in cols.items()}
    return cols


def expected_dtypes(fa, znum):
    """name -> dtype ('<kind><itemsize>', byte order aside) every returned array must have: the one it was written with"""
    um = 'u4' if fa.get('umask') else 'i4'
    exp = dict(zip(IMG_NAMES, ['f8', 'f8', um, um, 'f8', 'f8']))
    exp['loglam'] = 'f8'
    for grp, cols in (('plugmap', fa['plug']), ('tsobj', fa['photo']), ('zans', fa['zall'] if znum is not None else fa['zbest'])):
        for c in cols:
            exp['%s.%s' % (grp, c['name'])] = KIND_DTYPE.get(c['kind'])     # None: strings, any width
    return exp


def zl(rows):
    return C.coq_list([C.coq_list([C.zlit(v) for v in r]) for r in rows])


def formula_img(rows, nfib, width, g, per=None):
    """Coq term for an image / column given by the formula g (a Python AND Gallina expression in f and p, or f and z);
    the explicit rows the files are written from are checked against the formula here"""
    if per is None:
        want = [[eval(g, {'f': f, 'p': p}) for p in range(width)] for f in range(1, nfib + 1)]
        term = '(gen_img %d %d (fun f p => %s))' % (nfib, width, g)
    else:
        want = [[eval(g, {'f': f, 'z': z})] for f in range(1, nfib + 1) for z in range(1, per + 1)]
        term = '(gen_col %d %d (fun f z => %s))' % (nfib, per, g)
    if want != rows:
        raise RuntimeError('formula %s does not describe the rows written to the file' % g)
    return term


def file_term(fa):
    if fa.get('big'):
        # 1000 fibres x 134 fits: the Coq survey is given by the formulas the rows were written from (Model.gen_img,
        # Model.gen_col), not as literals (a literal survey of this size takes coqc a minute to read)
        uid, nfib, nper = fa['uid'], fa['nfib'], fa['nper']
        cd = lambda h, v: '((%d * 2048 + f) * 100 + %d) * 256 + %s' % (uid, h, v)   # noqa: E731
        imgs = [formula_img(fa['imgs'][h], nfib, fa['npix'], cd(h, 'p')) for h in range(6)]
        assert [c['name'] for c in fa['plug']] == ['FIBERID', 'CODE', 'OBJTYPE', 'MAG', 'RA'] and not fa['photo']
        tabs = [formula_img(fa['plug'][0]['rows'], nfib, 1, 'f'), formula_img(fa['plug'][1]['rows'], nfib, 1, cd(10, 'p')),
                formula_img(fa['plug'][2]['rows'], nfib, 1, cd(11, 'p')), formula_img(fa['plug'][3]['rows'], nfib, 5, cd(12, 'p')),
                formula_img(fa['plug'][4]['rows'], nfib, 1, cd(13, 'p'))]
        assert [c['name'] for c in fa['zbest']] == ['FIBERID', 'Z', 'CLASS'] and [c['name'] for c in fa['zall']] == ['FIBERID', 'Z', 'CLASS']
        zbest = [formula_img(fa['zbest'][0]['rows'], nfib, 1, 'f'), formula_img(fa['zbest'][1]['rows'], nfib, 1, cd(20, 'p')),
                 formula_img(fa['zbest'][2]['rows'], nfib, 1, cd(21, 'p'))]
        zall = [formula_img(fa['zall'][0]['rows'], nfib, None, 'f', per=nper), formula_img(fa['zall'][1]['rows'], nfib, None, cd(30, 'z'), per=nper),
                formula_img(fa['zall'][2]['rows'], nfib, None, cd(31, 'z'), per=nper)]
        return '(mkFile %s %s %d%%nat %s %s %s %s %s %s %s)' % (
            C.zlit(fa['plate']), C.zlit(fa['mjd']), fa['npix'], C.zlit(fa['c0z']), C.zlit(fa['c1z']),
            C.coq_list(imgs), C.coq_list(tabs), C.coq_list(zbest), C.zlit(nper), C.coq_list(zall))
    tabs = [c['rows'] for c in fa['plug']] + [c['rows'] for c in fa['photo']]
    if fa.get('truncated'):     # no plug-map HDU: empty columns keep the photoPlate columns at their indices
        tabs = [[] for _ in call_columns(fa.get('ucols'))['plugmap']] + tabs
    return '(mkFile %s %s %d%%nat %s %s %s %s %s %s %s)' % (
        C.zlit(fa['plate']), C.zlit(fa['mjd']), fa['npix'], C.zlit(fa['c0z']), C.zlit(fa['c1z']),
        C.coq_list([zl(i) for i in fa['imgs']]), C.coq_list([zl(t) for t in tabs]),
        C.coq_list([zl(c['rows']) for c in fa['zbest']]), C.zlit(fa['nper']),
        C.coq_list([zl(c['rows']) for c in fa['zall']]))


# ---------------------------------------------------------------- python reference of the SPECIFICATION (classification only)

def spec_py(files, reqs, znum):
    """-> (names, arrays) or None when a request is invalid.  Used to name the outputs that differ; verdicts come from Coq."""
    by = {}
    for fa in files:
        by.setdefault((fa['plate'], fa['mjd']), fa)
    if not reqs:
        return None
    sel = []
    for (p, m, f) in reqs:
        fa = by.get((p, m))
        if fa is None or not (1 <= f <= fa['nfib']):
            return None
        sel.append((fa, f))
    if znum is not None and any(not (1 <= (f - 1) * fa['nper'] + znum <= fa['nfib'] * fa['nper']) for fa, f in sel):
        return None
    w = max(fa['npix'] for fa, _ in sel)
    names, arrays = [], []
    for h in range(6):
        names.append(IMG_NAMES[h])
        arrays.append([fa['imgs'][h][f - 1] + [0] * (w - fa['npix']) for fa, f in sel])
    names.append('loglam')
    arrays.append([[fa['c0z'] + fa['c1z'] * p for p in range(fa['npix'])] + [0] * (w - fa['npix']) for fa, f in sel])
    f0 = sel[0][0]
    for ci, c in enumerate(f0['plug']):
        names.append('plugmap.' + c['name'])
        arrays.append([fa['plug'][ci]['rows'][f - 1] for fa, f in sel])
    for ci, c in enumerate(f0['photo']):
        names.append('tsobj.' + c['name'])
        arrays.append([fa['photo'][ci]['rows'][f - 1] for fa, f in sel])
    if znum is None:
        for ci, c in enumerate(f0['zbest']):
            names.append('zans.' + c['name'])
            arrays.append([fa['zbest'][ci]['rows'][f - 1] for fa, f in sel])
    else:
        for ci, c in enumerate(f0['zall']):
            names.append('zans.' + c['name'])
            arrays.append([fa['zall'][ci]['rows'][(f - 1) * fa['nper'] + znum - 1] for fa, f in sel])
    return names, arrays


def aligned_py(files, reqs):
    """the aligned answer for wavelength solutions on a common grid: images of request i start at column
    (COEFF0_i - min COEFF0)/COEFF1, loglam is min COEFF0 + COEFF1*column for every row; tables as in spec_py"""
    sp = spec_py(files, reqs, None)
    if sp is None:
        return None
    by = {}
    for fa in files:
        by.setdefault((fa['plate'], fa['mjd']), fa)
    sel = [by[(p, m)] for p, m, _ in reqs]
    c1 = sel[0]['c1z']
    cmin = min(fa['c0z'] for fa in sel)
    offs = [(fa['c0z'] - cmin) // c1 for fa in sel]
    w = max(o + fa['npix'] for o, fa in zip(offs, sel))
    names, arrays = sp
    out = []
    for n, a in zip(names, arrays):
        if n in IMG_NAMES:
            out.append([[0] * o + row[:fa['npix']] + [0] * (w - o - fa['npix']) for o, fa, row in zip(offs, sel, a)])
        elif n == 'loglam':
            out.append([[cmin + c1 * q for q in range(w)] for _ in sel])
        else:
            out.append(a)
    return names, out


def group_of(name):
    if name in IMG_NAMES or name == 'loglam':
        return 'img'
    return 'zans' if name.startswith('zans.') else 'tab'


# ---------------------------------------------------------------- storage of the arguments (wave 3)

def arg_values(x):
    return [x['s']] if 's' in x else list(x['a'])


def pick_store(rng, x, plain=0.35):
    """a storage for one readspec argument that can hold its values; the answer must not depend on it.
    64-bit unsigned storage of a length-1 / scalar plate or fibre is kept for dedicated calls (feature 'uint64')."""
    if x is None:
        return None
    vals = arg_values(x)
    hi = max(vals) if vals else 0
    if 's' in x:
        if rng.random() < plain:
            return 'int'
        c = ['int', 'np:i4', 'np:i8', 'np:u4', '0d:i4', '0d:i8', '0d:>i4']
        c += ['np:i2', '0d:i2'] if hi < 32768 else []
        c += ['np:u2', '0d:>u2'] if hi < 65536 else []
        c += ['np:u1'] if hi < 256 else []
        return rng.choice(c)
    if rng.random() < plain:
        return rng.choice(['i4', 'i8', 'list'])
    c = ['list', 'tuple', 'i4', 'i8', '>i4', '>i8', 'u4', '>u4', 'nc:i4', 'nc:>i4', 'nc:i8', 'ro:i4', 'ro:>i4', 'rv:i4', 'rv:>i8']
    c += ['u8', '>u8', 'nc:u8', 'rv:>u8'] if len(vals) >= 2 else []
    c += ['i2', '>i2', 'nc:>i2', 'rv:>i2'] if hi < 32768 else []
    c += ['u2', '>u2'] if hi < 65536 else []
    c += ['u1'] if hi < 256 else []
    return rng.choice(c)


def pick_stores(rng, plate, mjd, fiber, fixed=None):
    if fixed is not None:
        return {'plate': fixed, 'mjd': fixed, 'fiber': fixed}
    st = {'plate': pick_store(rng, plate), 'mjd': pick_store(rng, mjd), 'fiber': pick_store(rng, fiber)}
    if mjd is not None and len(arg_values(mjd)) == 1 and rng.random() < 0.3:
        st['mjd'] = rng.choice(['np:u8', '0d:u8']) if 's' in mjd else 'u8'    # harmless for the MJD (never used as an index)
    return st


IMG_STORES = ['i8', 'i4', 'f8', '>f8', '>i4', '>i8', 'f4', '>f4', 'i2?', 'nc:i8', 'nc:>f8', 'ncr:i4', 'F:i8', 'F:>f8', 'ro:i8', 'ro:>i4',
              'u2+', 'u4+', '>u4+', 'u8+']
SHIFT_STORES = ['int', 'np:i1', 'np:i2', 'np:i4', 'np:i8', '0d:i4', '0d:>i2', 'np:u1+', 'np:u2+', 'np:u4+', 'np:u8+', '0d:u1+', '0d:>u4+']


def spec_append_py(a, b, shift):
    """pure answer, used only to chain the inputs of an append history (verdicts come from Coq)"""
    s = shift or 0
    n1, n2 = (-s if s < 0 else 0), (s if s > 0 else 0)
    w = max(len(a[0]) + n1, len(b[0]) + n2)
    return [[0] * n1 + r + [0] * (w - n1 - len(r)) for r in a] + [[0] * n2 + r + [0] * (w - n2 - len(r)) for r in b]


# ---------------------------------------------------------------- scenario generation

def sarg(z):
    return {'s': int(z)}


def aarg(l):
    return {'a': [int(x) for x in l]}


def arg_term(x):
    if 's' in x:
        return '(Sc %s)' % C.zlit(x['s'])
    return '(Ar %s)' % C.coq_list([C.zlit(v) for v in x['a']])


def gen_scenario(rng, si, kind, root, thorough=False):
    """kind in path | path5 (a plate number with five digits) | env | env-sdss | topdir | allfib-sdss | allfib-boss |
    bigz (realistic magnitudes: 1000 and 640 fibres, 134 fits per fibre in spZall, a five-digit plate, high fibre numbers)"""
    top = os.path.join(root, 's%03d' % si)
    run2d = '26' if kind == 'env-sdss' else RUN2D_BOSS
    run1d = rng.choice(['v5_7_0', 'r1'])
    allfib = kind.startswith('allfib')
    # plates and MJDs
    if kind == 'allfib-sdss':
        pm = [(rng.randint(1, 9999), 55024 if rng.random() < 0.5 else rng.randint(50000, 55023))]   # 640 fibres before MJD 55025
    elif kind == 'bigz':
        pm = [(rng.choice([rng.randint(10000, 15999), rng.randint(32768, 99999)]), rng.randint(55026, 65535)),
              (rng.randint(3500, 9999), rng.randint(55026, 65535))]
    elif kind == 'allfib-boss':
        plates = rng.sample(range(3500, 9999), 2)
        pm = [(p, 55025 if (k == 1 and rng.random() < 0.5) else rng.randint(55026, 65535)) for k, p in enumerate(plates)]
        # an older MJD of the first plate that must be ignored by latest_mjd
        pm.append((plates[0], rng.randint(55025, pm[0][1] - 1) if pm[0][1] > 55025 else 55025))
        # a plate last observed before MJD 55025: 640 fibres when asked alone, its platelist row when asked together
        # with a BOSS plate (number_of_fibers then looks EVERY plate up)
        early = rng.choice([q for q in range(1, 3499)])
        pm.append((early, 55024 if rng.random() < 0.5 else rng.randint(50000, 55023)))
        pm = list(dict.fromkeys(pm))
    else:
        nplates = 1 if rng.random() < 0.1 else rng.randint(2, 4)
        plates = rng.sample(range(1, 9999), nplates)
        if kind in ('env', 'env-sdss', 'topdir') or rng.random() < 0.7:
            # a plate number that needs zero padding in directory and file names ({0:04d})
            small = rng.randint(1, 999)
            if small not in plates:
                plates[0] = small
        if kind == 'path5':
            plates[-1] = rng.choice([rng.randint(10000, 15999), rng.randint(32768, 99999)])   # beyond 15 / 16 bits too
        pm = []
        for p in plates:
            nm = rng.choice([1, 1, 2, 2, 3])
            mj = set()
            while len(mj) < nm:
                t = rng.random()
                mj.add(65535 if t < 0.05 else (50000 if t < 0.1 else rng.randint(50001, 65534)))
            pm += [(p, m) for m in mj]
        if rng.random() < 0.3 and len(plates) >= 2:
            # two plates sharing an MJD, and neighbouring plate numbers (keys differ only in the plate bits)
            pm.append((plates[0] + 1 if (plates[0] + 1) not in plates else plates[0], pm[-1][1]))
            pm = list(dict.fromkeys(pm))
        rng.shuffle(pm)
        pm = pm[:6]
    same_npix = rng.random() < 0.25
    # wavelength solutions on a common grid (same COEFF1, COEFF0 differing by whole pixels): what align=True is for
    grid = (not same_npix) and kind in ('path', 'env', 'topdir') and rng.random() < 0.5
    grid_c0, grid_c1 = 3 * SCALE + rng.randint(SCALE // 2, SCALE // 2 + 200000), rng.randint(90, 125)
    npix0 = rng.randint(3, 9)
    has_zbest = True if kind == 'topdir' else rng.random() < 0.75
    has_zall = (kind in ('path', 'path5', 'env', 'env-sdss')) and rng.random() < 0.7
    has_photo = rng.random() < 0.3
    nper = rng.randint(2, 4)
    if kind == 'bigz':
        has_zbest, has_zall, has_photo, same_npix, nper = True, True, False, False, 134     # DIMS0 of real spZall files
    if kind == 'holes':
        has_zbest, has_zall, has_photo, grid = True, True, True, False
        pm = pm[:4]
        while len(pm) < 4:
            q = rng.randint(1000, 9999)
            if all(q != p for p, _ in pm):
                pm.append((q, rng.randint(50001, 65534)))
    # unsigned table columns (64-bit identifiers above 2^63, 32/16-bit above the signed range) and unsigned pixel masks
    ucols = kind != 'bigz' and (si % 2 == 0 or rng.random() < 0.3)
    umask = kind != 'bigz' and rng.random() < 0.5
    metas, decoys = [], []
    for k, (p, m) in enumerate(pm):
        nfib = 640 if kind == 'allfib-sdss' else rng.randint(3, 8)
        npix = 2 if kind == 'allfib-sdss' else (npix0 if same_npix else rng.randint(3, 9))
        if kind == 'bigz':
            nfib, npix = (1000, 2) if k == 0 else (640, 3)     # narrow images keep the files small
        meta = {'uid': k + 1, 'plate': p, 'mjd': m, 'nfib': nfib, 'npix': npix, 'nper': nper,
                'c0z': 3 * SCALE + rng.randint(SCALE // 2, SCALE // 2 + 200000), 'c1z': rng.randint(90, 125),
                'has_zbest': has_zbest, 'has_zall': has_zall, 'has_photo': has_photo}
        if kind == 'bigz':
            meta['big'] = True
        if ucols:
            meta['ucols'] = True
        if umask:
            meta['umask'] = True
        if kind == 'holes':
            # file 0 complete; file 1 without spZbest/spZall; file 2 without photoPlate; file 3 a truncated spPlate file
            if k == 1:
                meta['has_zbest'] = meta['has_zall'] = False
            elif k == 2:
                meta['has_photo'] = False
            elif k == 3:
                meta['truncated'] = True
        if same_npix and metas:      # equal pixel counts come with equal wavelength solutions (align=True is then a no-op)
            meta['c0z'], meta['c1z'] = metas[0]['c0z'], metas[0]['c1z']
        if grid:
            meta['c0z'], meta['c1z'] = grid_c0 + rng.choice([0, 0, 1, 2, 3, 5, 8]) * grid_c1, grid_c1
        metas.append(meta)
        d = dict(meta)
        d['uid'] = 100 + k + 1
        d['c0z'] = meta['c0z'] + 7
        decoys.append(d)
    layout = 'path' if kind in ('path', 'path5', 'allfib-sdss', 'allfib-boss', 'bigz', 'holes') else 'topdir'
    trees = [{'top': os.path.join(top, 'main'), 'layout': layout, 'run2d': run2d, 'run1d': run1d, 'files': metas}]
    if kind == 'topdir':
        trees.append({'top': os.path.join(top, 'decoy'), 'layout': layout, 'run2d': run2d, 'run1d': run1d, 'files': decoys})
    if kind in ('allfib-boss', 'bigz'):
        latest = {}
        for mt in metas:
            latest[mt['plate']] = max(latest.get(mt['plate'], 0), mt['mjd'])
        pl = []
        for k, mt in enumerate(metas):
            # rows of other reductions of the same plate-MJD carry other counts; they come first for the first file and in
            # random order for the rest, so that a lookup ignoring RUN2D or RUN1D picks a wrong N_TOTAL
            rows = [{'plate': mt['plate'], 'mjd': mt['mjd'], 'run2d': 'other', 'run1d': run1d, 'n_total': mt['nfib'] + 1},
                    {'plate': mt['plate'], 'mjd': mt['mjd'], 'run2d': run2d, 'run1d': 'x1d', 'n_total': max(mt['nfib'] - 1, 1)},
                    {'plate': mt['plate'], 'mjd': mt['mjd'], 'run2d': run2d, 'run1d': run1d, 'n_total': mt['nfib']}]
            if k > 0:
                rng.shuffle(rows)
            pl += rows
        trees[0]['platelist'] = pl
        trees[0]['platelist_dir'] = trees[0]['top']
    sc = {'si': si, 'kind': kind, 'run2d': run2d, 'run1d': run1d, 'trees': trees, 'metas': metas, 'calls': [],
          'platelist': trees[0].get('platelist') or []}

    by_plate_latest = {}
    for mt in metas:
        by_plate_latest[mt['plate']] = max(by_plate_latest.get(mt['plate'], 0), mt['mjd'])
    meta_of = {}
    for mt in metas:
        meta_of.setdefault((mt['plate'], mt['mjd']), mt)

    def base_call(pass_runs):
        """kwargs/env for the location mode; pass_runs: 'kw' | 'env'"""
        kw, env = {}, {'SPECTRO_MATCH': os.path.join(top, 'nomatch'), 'PHOTO_RESOLVE': os.path.join(top, 'noresolve', 'x')}
        if pass_runs == 'kw':
            kw['run2d'], kw['run1d'] = run2d, run1d
        else:
            env['RUN2D'], env['RUN1D'] = run2d, run1d
        redux = 'SPECTRO_REDUX' if run2d.isdigit() else 'BOSS_SPECTRO_REDUX'
        if layout == 'path':
            kw['path'] = trees[0]['top']
        elif kind == 'topdir':
            kw['topdir'] = trees[0]['top']
            env[redux] = trees[1]['top']
        else:
            env[redux] = trees[0]['top']
        return kw, env

    cols = call_columns(ucols)

    def add(tag, plate, mjd, fiber, reqs, znum=None, pass_runs=None, feature='plain', dtype=None, model=None, extra_kw=None,
            store=None, reuse=None):
        pr = pass_runs or rng.choice(['kw', 'env'])
        if mjd is None and fiber is not None and feature == 'plain' and \
                any(v >= 10000 for v in ([plate['s']] if 's' in plate else plate['a'])):
            feature = 'plate5'   # latest_mjd has to find spPlate-PPPPP-MMMMM.fits
        kw, env = base_call(pr)
        if znum is not None:
            kw['znum'] = znum
        if extra_kw:
            kw.update(extra_kw)
        call = {'plate': plate, 'mjd': mjd, 'fiber': fiber, 'kwargs': kw, 'env': env, 'columns': cols,
                'store': store or pick_stores(rng, plate, mjd, fiber, dtype),
                'max_rows': (len(reqs) if reqs else 12) + 2}   # rows beyond this cannot make a wrong answer right
        if reuse:
            call['reuse'] = reuse
        sc['calls'].append({'tag': tag, 'call': call, 'reqs': reqs, 'znum': znum, 'feature': feature,
                            'model': model or {'plate': plate, 'mjd': mjd, 'fiber': fiber}})

    def rand_reqs(n, latest_only=False):
        out = []
        pool = [mt for mt in metas if (not latest_only or by_plate_latest[mt['plate']] == mt['mjd'])]
        for _ in range(n):
            mt = rng.choice(pool)
            out.append((mt['plate'], mt['mjd'], rng.randint(1, mt['nfib'])))
        return out

    def cover_reqs():
        """every file at least once, extra repeats, scrambled"""
        out = [(mt['plate'], mt['mjd'], rng.randint(1, mt['nfib'])) for mt in metas]
        out += rand_reqs(rng.randint(0, 6))
        if rng.random() < 0.5 and out:
            out.append(rng.choice(out))   # exact duplicate request
        rng.shuffle(out)
        return out

    if kind == 'allfib-sdss':
        p, m = pm[0]
        reqs = [(p, m, f) for f in range(1, 641)]
        add('allfib-sdss-scalar', sarg(p), None, None, reqs, pass_runs='env', feature='allfib-sdss', dtype='i4')
        sc['calls'][-1]['allfib'] = True
        return sc
    if kind == 'allfib-boss':
        boss = sorted(p for p in by_plate_latest if by_plate_latest[p] >= 55025)
        early = [p for p in by_plate_latest if by_plate_latest[p] < 55025][0]

        def expand(ps):
            out = []
            for p in sorted(set(ps)):
                mt = meta_of[(p, by_plate_latest[p])]
                out += [(p, mt['mjd'], f) for f in range(1, mt['nfib'] + 1)]
            return out

        def allcall(tag, ps, mjd=None, reqs='expand', feature='allfib-boss'):
            rq = expand(ps) if reqs == 'expand' else reqs
            add('allfib-boss-' + tag, sarg(ps[0]) if (len(ps) == 1 and rng.random() < 0.7) else aarg(ps), mjd, None, rq,
                pass_runs='env', feature=feature, dtype='i4')
            sc['calls'][-1]['allfib'] = True
        allcall('scalar', [boss[1]])
        allcall('vector', [boss[1], boss[0]])
        allcall('older-mjd-present', [boss[0]])
        allcall('mixed-early-and-boss', [boss[0], early])          # the early plate's count comes from the platelist too
        allcall('scalar-mjd-given', [boss[1]], mjd=sarg(by_plate_latest[boss[1]]))
        # error conventions of the all-fibre mode (the model says which calls raise)
        allcall('error-early-alone-640', [early], reqs=None, feature='error')       # 640 fibres assumed, the file is smaller
        allcall('error-mjd-vector', [boss[1], boss[0]], mjd=aarg([by_plate_latest[boss[1]], by_plate_latest[boss[0]]]),
                reqs=None, feature='error')
        allcall('error-repeated-plate', [boss[0], boss[0]], reqs=None, feature='error')
        return sc

    # ---- standard scenarios
    def vec_call(tag, reqs, **k):
        add(tag, aarg([r[0] for r in reqs]), aarg([r[1] for r in reqs]), aarg([r[2] for r in reqs]), reqs, **k)

    if kind == 'holes':
        # files that differ in what they hold.  No claim that a call raises; an answer that IS returned is judged by the first
        # sentence of the property alone (Model.rows_belong, case CReadPartial): one row per request in every returned array,
        # row i = the row of request i wherever request i has a file holding that HDU / column
        def some(ks, n):
            out = [(metas[k]['plate'], metas[k]['mjd'], rng.randint(1, metas[k]['nfib'])) for k in ks]
            out += [(lambda mt: (mt['plate'], mt['mjd'], rng.randint(1, mt['nfib'])))(metas[rng.choice(ks)]) for _ in range(n)]
            rng.shuffle(out)
            return out
        nm = len(metas)
        zn = rng.randint(1, nper)
        plan = [('complete-file-only', [0], None), ('complete-file-only-znum', [0], zn)]
        if nm >= 2:
            plan += [('one-without-spZbest', [0, 1], None), ('one-without-spZall', [0, 1], zn), ('only-the-one-without-spZbest', [1], None),
                     ('one-without-spZbest-first', [1, 0], None)]
        if nm >= 3:
            plan += [('one-without-photoPlate', [0, 2], None), ('three-kinds', [0, 1, 2], None), ('only-the-one-without-photoPlate', [2], None)]
        if nm >= 4:
            plan += [('one-truncated-spPlate', [0, 3], None), ('only-the-truncated-spPlate', [3], None), ('all-four', [0, 1, 2, 3], zn)]
        for tag, ks, z in plan:
            r = some(ks, rng.randint(1, 4))
            if tag.endswith('-first'):
                r.sort(key=lambda t: 0 if (t[0], t[1]) == (metas[ks[0]]['plate'], metas[ks[0]]['mjd']) else 1)
            vec_call('holes-' + tag, r, znum=z, feature='holes')
        # a request without any file among requests of complete files (first, middle, last position)
        for pos in ('first', 'middle', 'last'):
            r = some([0], rng.randint(2, 4))
            mt = metas[0]
            newm = mt['mjd'] - 1 if (mt['plate'], mt['mjd'] - 1) not in meta_of else mt['mjd'] + 7
            r.insert({'first': 0, 'middle': len(r) // 2, 'last': len(r)}[pos], (mt['plate'], newm, 1))
            vec_call('holes-missing-spPlate-' + pos, r, feature='holes')
        return sc

    if kind == 'bigz':
        # realistic magnitudes: the spZall row (fiber-1)*nper+znum-1 reaches 133 999, far beyond 16 bits (first above 32767:
        # fibre 246 with nper = 134); fibres up to 1000; a five-digit plate.  Everything else as in the small trees.
        def high_reqs(n):
            out = []
            for _ in range(n):
                mt = rng.choice(metas)
                t = rng.random()
                f = (mt['nfib'] if t < 0.15 else rng.choice([244, 245, 246, 247, 490, 491]) if t < 0.35
                     else rng.randint(246, mt['nfib']) if t < 0.85 else rng.randint(1, 245))
                out.append((mt['plate'], mt['mjd'], f))
            return out
        for zn, tag in ((nper, 'nper'), (1, '1'), (rng.randint(2, nper - 1), 'mid')):
            r = [(mt['plate'], mt['mjd'], mt['nfib']) for mt in metas] + high_reqs(rng.randint(4, 9))
            rng.shuffle(r)
            vec_call('big-znum=%s' % tag, r, znum=zn, feature='bigznum')
        mt = metas[0]
        fs = [mt['nfib'], 246, 245] + [rng.randint(246, mt['nfib']) for _ in range(4)]
        rng.shuffle(fs)
        add('big-znum-scalar-plate-vector-fiber-i2', sarg(mt['plate']), sarg(mt['mjd']), aarg(fs), [(mt['plate'], mt['mjd'], f) for f in fs],
            znum=nper, feature='bigznum', store={'plate': 'int', 'mjd': 'np:i4', 'fiber': rng.choice(['i2', '>i2', 'nc:>i2', 'u2'])})
        mt = metas[1]
        add('big-znum-scalar-last-row', sarg(mt['plate']), sarg(mt['mjd']), sarg(mt['nfib']), [(mt['plate'], mt['mjd'], mt['nfib'])],
            znum=nper, feature='bigznum')
        r = high_reqs(rng.randint(5, 10))
        add('big-znum-mjd-omitted', aarg([x[0] for x in r]), None, aarg([x[2] for x in r]), r, znum=rng.randint(1, nper),
            pass_runs='env', feature='bigznum')
        vec_call('big-plain-high-fibres', high_reqs(rng.randint(5, 10)), feature='bigplain')
        # every fibre of both plates (fiber=None) together with znum: the fibre numbers come from np.arange(n)+1
        mt = metas[1]      # the 640-fibre plate (rows up to 85 759): the list model makes Coq walk to every requested row
        allr = [(mt['plate'], mt['mjd'], f) for f in range(1, mt['nfib'] + 1)]
        add('big-allfib-znum', sarg(mt['plate']) if rng.random() < 0.5 else aarg([mt['plate']]), None, None, allr,
            znum=rng.choice([nper, nper - 1, 2]), pass_runs='env', feature='bigznum-allfib', dtype='i4')
        sc['calls'][-1]['allfib'] = True
        return sc

    r = cover_reqs()
    while len(r) < 2:
        r.append(r[0])
    vec_call('vector-scrambled', r)
    r2 = rand_reqs(rng.randint(2, 10))
    vec_call('vector-random', r2)
    if same_npix:
        # align=True with nothing to align (same COEFF0/COEFF1 and pixel count everywhere): pixshift is 0 for every file and
        # the answer must be the unaligned one; other uses of align are outside the property (notes/C16.md)
        ra = cover_reqs()
        while len(ra) < 2:
            ra.append(ra[0])
        vec_call('align-noop', ra, feature='align', extra_kw={'align': True})
    if grid:
        # align=True with COEFF0 values that differ by whole pixels.  The unrepaired code raises (float pixshift, see notes);
        # a returned answer is checked directly: every spectrum at the column of its own wavelength (C16_align_chain_unshifted)
        ra = cover_reqs()
        while len(ra) < 2:
            ra.append(ra[0])
        vec_call('align-grid', ra, feature='align-grid', extra_kw={'align': True})
        mt = rng.choice(metas)
        fb = rng.randint(1, mt['nfib'])
        add('align-grid-single', sarg(mt['plate']), sarg(mt['mjd']), sarg(fb), [(mt['plate'], mt['mjd'], fb)], feature='align-grid',
            extra_kw={'align': True})
    # descending key order, each file once: grouping order is the exact reverse of request order
    r3 = sorted([(mt['plate'], mt['mjd'], rng.randint(1, mt['nfib'])) for mt in metas], key=lambda t: (-t[0], -t[1]))
    if len(r3) >= 2:
        vec_call('vector-descending-keys', r3)
    mt = rng.choice(metas)
    f1 = rng.randint(1, mt['nfib'])
    add('scalar', sarg(mt['plate']), sarg(mt['mjd']), sarg(f1), [(mt['plate'], mt['mjd'], f1)])
    mt = rng.choice(metas)
    fs = [rng.randint(1, mt['nfib']) for _ in range(rng.randint(2, 6))]
    add('scalar-plate-vector-fiber', sarg(mt['plate']), sarg(mt['mjd']), aarg(fs), [(mt['plate'], mt['mjd'], f) for f in fs])
    add('len1-plate-vector-fiber', aarg([mt['plate']]), aarg([mt['mjd']]), aarg(fs), [(mt['plate'], mt['mjd'], f) for f in fs])
    if len(metas) >= 2:
        ms = [rng.choice(metas) for _ in range(rng.randint(2, 6))]
        fb = rng.randint(1, min(x['nfib'] for x in ms))
        add('vector-plate-scalar-fiber', aarg([x['plate'] for x in ms]), aarg([x['mjd'] for x in ms]), sarg(fb),
            [(x['plate'], x['mjd'], fb) for x in ms])
    # mjd omitted -> latest_mjd (RUN2D/RUN1D through the environment: see the kwfwd case below)
    r4 = rand_reqs(rng.randint(2, 8), latest_only=True)
    add('mjd-omitted', aarg([x[0] for x in r4]), None, aarg([x[2] for x in r4]), r4, pass_runs='env')
    mt = rng.choice(metas)
    lm = by_plate_latest[mt['plate']]
    fb = rng.randint(1, meta_of[(mt['plate'], lm)]['nfib'])
    add('mjd-omitted-scalar', sarg(mt['plate']), None, sarg(fb), [(mt['plate'], lm, fb)], pass_runs='env')
    if has_zall:
        r5 = cover_reqs()
        while len(r5) < 2:
            r5.append(r5[0])
        zn = rng.randint(1, nper)
        vec_call('znum=%s' % ('1' if zn == 1 else ('nper' if zn == nper else 'mid')), r5, znum=zn, feature='znum')
        if zn != 1:
            vec_call('znum=1', rand_reqs(rng.randint(2, 6)), znum=1, feature='znum')
    # 64-bit unsigned scalars / length-1 arrays (what bit arithmetic on specObjIDs yields): int32 + uint64 promotes to float64
    mt = rng.choice(metas)
    fb = rng.randint(1, mt['nfib'])
    u8s = rng.choice(['np:u8', '0d:u8'])
    add('uint64-scalars', sarg(mt['plate']), sarg(mt['mjd']), sarg(fb), [(mt['plate'], mt['mjd'], fb)], feature='uint64',
        store={'plate': u8s, 'mjd': u8s, 'fiber': u8s})
    if len(metas) >= 2:
        ms = [rng.choice(metas) for _ in range(rng.randint(2, 4))]
        fb = rng.randint(1, min(x['nfib'] for x in ms))
        add('uint64-len1-fiber', aarg([x['plate'] for x in ms]), aarg([x['mjd'] for x in ms]), aarg([fb]),
            [(x['plate'], x['mjd'], fb) for x in ms], feature='uint64', store={'plate': 'u8', 'mjd': 'u8', 'fiber': 'u8'})
    mt = rng.choice(metas)
    lm = by_plate_latest[mt['plate']]
    fs = [rng.randint(1, meta_of[(mt['plate'], lm)]['nfib']) for _ in range(rng.randint(2, 4))]
    if mt['plate'] < 10000:
        add('uint64-len1-plate-mjd-omitted', aarg([mt['plate']]), None, aarg(fs), [(mt['plate'], lm, f) for f in fs],
            pass_runs='env', feature='uint64', store={'plate': 'u8', 'mjd': None, 'fiber': 'u8'})
    # the SAME argument objects passed again after their owner refilled them in place (a scratch buffer of requests): the
    # answer must be the one of the values they hold at the time of each call
    n_re = rng.randint(2, 6)
    ra, rb = rand_reqs(n_re), rand_reqs(n_re)
    for _ in range(8):
        if rb != ra:
            break
        rb = rand_reqs(n_re)
    rst = rng.choice(['i4', 'i8', '>i4', '>i8', 'u4', 'nc:i8', 'nc:>i4', 'rv:i4', 'list'])
    rstore = {'plate': rst, 'mjd': rst, 'fiber': rst}
    if thorough or si % 3 != 2:
        vec_call('reuse-objects-first', ra, feature='reuse', store=rstore, reuse='buf%d' % si)
        vec_call('reuse-objects-refilled', rb, feature='reuse', store=rstore, reuse='buf%d' % si)
    # the first call once more at the end: same answer, earlier results untouched
    first = sc['calls'][0]
    sc['calls'].append({**first, 'tag': 'repeat-first-call', 'call': dict(first['call'])})
    # error cases
    t = rng.random()
    if t < 0.3:
        bad = list(r2)
        mt = rng.choice(metas)
        bad[rng.randrange(len(bad))] = (mt['plate'], mt['mjd'], mt['nfib'] + 1)
        vec_call('error-fiber-too-large', bad, feature='error')
    elif t < 0.6:
        bad = list(r2)
        mt = rng.choice(metas)
        newm = mt['mjd'] - 1 if (mt['plate'], mt['mjd'] - 1) not in meta_of else mt['mjd'] + 7
        bad[rng.randrange(len(bad))] = (mt['plate'], newm, 1)
        vec_call('error-missing-file', bad, feature='error')
    elif t < 0.8 and len(r2) >= 3:
        add('error-length-mismatch', aarg([x[0] for x in r2]), aarg([x[1] for x in r2]), aarg([x[2] for x in r2][:-1]), None,
            feature='error')
    else:
        add('error-mjd-length-mismatch', aarg([x[0] for x in r2]), aarg([x[1] for x in r2] + [r2[0][1]]),
            aarg([x[2] for x in r2]), None, feature='error')
    if kind == 'path' and si % 2 == 0:
        # documented keywords together with an omitted MJD: readspec forwards **kwargs to latest_mjd -> spec_path
        r6 = rand_reqs(rng.randint(2, 5), latest_only=True)
        add('mjd-omitted-run1d-keyword', aarg([x[0] for x in r6]), None, aarg([x[2] for x in r6]), r6, pass_runs='kw',
            feature='kwfwd')
    return sc


def gen_history(rng, si, root):
    """One implementation process, several survey trees / reductions that share plate numbers but differ in their MJD
    sets, visited in an interleaved sequence of calls (mjd omitted and explicit; path=, topdir=, environment), plus a
    file that appears in a tree between two calls.  The expected answer of every call is the one of the tree and
    reduction named in THAT call: any state surviving from an earlier call (caches keyed too coarsely, leaked
    environment, reused buffers) shows up as rows of another tree or as a missing file.
    -> (list of sub-scenarios, group) ; group = {'trees': initial trees, 'seq': [(sub index, call index, build_first)]}"""
    top = os.path.join(root, 's%03d' % si)
    nfib = rng.randint(4, 7)
    plates = [rng.randint(1, 999)] + rng.sample(range(1000, 9999), rng.randint(1, 2))
    pool = {p: sorted(rng.sample(range(50001, 65534), 3)) for p in plates}
    R1 = RUN2D_BOSS
    R2 = rng.choice(['v5_9_0', '26'])
    run1d = rng.choice(['v5_7_0', 'r1'])
    P1, P2 = plates[0], plates[1]

    def sets(first, second):
        d = {P1: [pool[P1][i] for i in first], P2: [pool[P2][i] for i in second]}
        for p in plates[2:]:
            d[p] = sorted(rng.sample(pool[p], rng.randint(1, 3)))
        return d
    # (label, layout, top, run2d, MJD sets, how the location is passed)
    spec = [('A', 'path', os.path.join(top, 'A'), R1, sets([0], [0, 2]), 'path'),
            ('B', 'topdir', os.path.join(top, 'T'), R1, sets([0, 1], [0]), 'topdir'),
            ('C', 'topdir', os.path.join(top, 'T'), R2, sets([0, 1, 2], [0, 1]), rng.choice(['topdir', 'env'])),
            ('D', 'topdir', os.path.join(top, 'E'), R1, sets([1], [2]), 'env')]
    uid = [0]
    h_ucols = rng.random() < 0.5

    def metas_of(msets):
        out = []
        for p in plates:
            for m in msets[p]:
                uid[0] += 1
                out.append({'uid': uid[0], 'plate': p, 'mjd': m, 'nfib': nfib, 'npix': rng.randint(3, 8), 'nper': 2,
                            'c0z': 3 * SCALE + rng.randint(SCALE // 2, SCALE // 2 + 200000), 'c1z': rng.randint(90, 125),
                            'has_zbest': True, 'has_zall': False, 'has_photo': False})
                if h_ucols:
                    out[-1]['ucols'] = True
        return out
    subs = []
    for label, layout, t, run2d, msets, loc in spec:
        metas = metas_of(msets)
        subs.append({'si': si, 'kind': 'history', 'sub': label, 'run2d': run2d, 'run1d': run1d, 'loc': loc, 'layout': layout,
                     'trees': [{'top': t, 'layout': layout, 'run2d': run2d, 'run1d': run1d, 'files': metas}],
                     'metas': metas, 'calls': []})
    # A2: a newer spPlate file of plate P1 appears in tree A between two calls
    extra = metas_of({p: ([pool[P1][2]] if p == P1 else []) for p in plates})
    a = subs[0]
    subs.append({'si': si, 'kind': 'history', 'sub': 'A2', 'run2d': a['run2d'], 'run1d': run1d, 'loc': 'path', 'layout': 'path',
                 'trees': [{'top': a['trees'][0]['top'], 'layout': 'path', 'run2d': a['run2d'], 'run1d': run1d, 'files': extra}],
                 'metas': a['metas'] + extra, 'calls': []})
    group = {'trees': [sc['trees'][0] for sc in subs[:4]], 'seq': [], 'top': top}
    cols = call_columns(h_ucols)
    decoy = os.path.join(top, 'E')

    def add(k, tag, plate, mjd, fiber, reqs, build_first=None):
        sc = subs[k]
        kw = {}
        env = {'SPECTRO_MATCH': os.path.join(top, 'nomatch'), 'PHOTO_RESOLVE': os.path.join(top, 'noresolve', 'x')}
        if rng.random() < 0.5:
            kw['run2d'], kw['run1d'] = sc['run2d'], run1d
        else:
            env['RUN2D'], env['RUN1D'] = sc['run2d'], run1d
        redux = 'SPECTRO_REDUX' if sc['run2d'].isdigit() else 'BOSS_SPECTRO_REDUX'
        t = sc['trees'][0]['top']
        if sc['loc'] == 'path':
            kw['path'] = t
        elif sc['loc'] == 'topdir':
            kw['topdir'] = t
            env[redux] = decoy
        else:
            env[redux] = t
        call = {'plate': plate, 'mjd': mjd, 'fiber': fiber, 'kwargs': kw, 'env': env, 'columns': cols,
                'store': pick_stores(rng, plate, mjd, fiber), 'max_rows': len(reqs) + 2}
        sc['calls'].append({'tag': 'history-%s-%s' % (sc['sub'], tag), 'call': call, 'reqs': reqs, 'znum': None,
                            'feature': 'history', 'model': {'plate': plate, 'mjd': mjd, 'fiber': fiber}})
        group['seq'].append((k, len(sc['calls']) - 1, build_first))

    def latest(k, p):
        return max(m['mjd'] for m in subs[k]['metas'] if m['plate'] == p)

    def omitted_vector(k, build_first=None):
        ps = plates + [rng.choice(plates) for _ in range(rng.randint(0, 3))]
        rng.shuffle(ps)
        reqs = [(p, latest(k, p), rng.randint(1, nfib)) for p in ps]
        add(k, 'mjd-omitted', aarg([r[0] for r in reqs]), None, aarg([r[2] for r in reqs]), reqs, build_first)

    def omitted_scalar(k):
        p = rng.choice(plates)
        f = rng.randint(1, nfib)
        add(k, 'mjd-omitted-scalar', sarg(p), None, sarg(f), [(p, latest(k, p), f)])

    def explicit(k):
        reqs = [(m['plate'], m['mjd'], rng.randint(1, nfib)) for m in subs[k]['metas']]
        rng.shuffle(reqs)
        while len(reqs) < 2:
            reqs.append(reqs[0])
        add(k, 'mjd-given', aarg([r[0] for r in reqs]), aarg([r[1] for r in reqs]), aarg([r[2] for r in reqs]), reqs)

    for k in (0, 1, 2, 3):          # ascending number of MJDs of P1: a remembered answer is stale but still present
        omitted_vector(k)
        explicit(k)
    order = [0, 1, 2, 3]
    rng.shuffle(order)
    for k in order:
        omitted_scalar(k)
        omitted_vector(k)
    omitted_vector(4, build_first=[subs[4]['trees'][0]])   # the new file appears, then the same tree is asked again
    omitted_vector(1)
    explicit(4)
    omitted_scalar(2)
    return subs, group


def scenario_plan(ctx):
    if ctx.thorough:
        kinds = ['bigz'] * 3 + ['holes'] * 6 + ['path'] * 50 + ['path5'] * 8 + ['env'] * 30 + ['env-sdss'] * 15 + ['topdir'] * 20 + ['allfib-sdss'] * 2 + ['allfib-boss'] * 5
    else:
        kinds = ['bigz'] + ['holes'] + ['path'] * 7 + ['path5'] * 2 + ['env'] * 4 + ['env-sdss'] * 2 + ['topdir'] * 4 + ['allfib-sdss'] + ['allfib-boss'] * 2
    return kinds


# ---------------------------------------------------------------- spec_append cases

def resolve_store(rng, st, rows_list):
    """'x+' needs non-negative values, 'x?' needs values that fit 16 bits -> (store, make_nonneg)"""
    if st.endswith('?'):
        ok = all(-32768 <= v < 32768 for rows in rows_list for r in rows for v in r)
        return (st[:-1] if ok else 'i4'), False
    if st.endswith('+'):
        return st[:-1], True
    return st, False


def with_stores(rng, c):
    """random storages for spec1, spec2 and pixshift; unsigned storage makes the data of both blocks non-negative"""
    if rng.random() < 0.3:
        c.update({'a_store': rng.choice(['i8', 'i4', 'f8']), 'b_store': None, 'shift_store': 'int'})
        c['b_store'] = c['a_store']
        return c
    sa, na = resolve_store(rng, rng.choice(IMG_STORES), [c['a'], c['b']])
    sb, nb = (sa, na) if rng.random() < 0.6 else resolve_store(rng, rng.choice(IMG_STORES), [c['a'], c['b']])
    if na or nb:
        c['b'] = [[abs(v) + 500 for v in r] for r in c['b']]
        c['a'] = [[abs(v) for v in r] for r in c['a']]
        if any(v >= 65536 for rows in (c['a'], c['b']) for r in rows for v in r):
            sa = sa.replace('u2', 'u4')
            sb = sb.replace('u2', 'u4')
    ss = rng.choice(SHIFT_STORES)
    if ss.endswith('+'):
        ss = ss[:-1] if (c['shift'] is not None and c['shift'] >= 0) else 'int'
    c.update({'a_store': sa, 'b_store': sb, 'shift_store': ss if c['shift'] is not None else 'int'})
    return c


def gen_append_histories(ctx):
    """repeated spec_append on the same caller-owned arrays in one process: the same pair with different shifts, results
    fed back as inputs (the way readspec accumulates), earlier results re-used later"""
    rng = ctx.rng
    hs = []
    for k in range(ctx.n(40, 400)):
        pool, pure = {}, {}
        unsigned = rng.random() < 0.25
        for j in range(rng.randint(2, 3)):
            n, w = rng.randint(1, 3), rng.randint(1, 5)
            base = (j + 1) * 1000 + rng.randint(1, 9) * 10000
            rows = [[(base + 100 * i + q + 1) * (1 if (unsigned or j % 2 == 0) else -1) for q in range(w)] for i in range(n)]
            st, _ = resolve_store(rng, rng.choice([x for x in IMG_STORES if unsigned or not x.endswith('+')]), [rows])
            if st.startswith('u2') or st == 'i2':
                st = 'u4' if unsigned else 'i4'
            pool['x%d' % j] = {'rows': rows, 'store': st}
            pure['x%d' % j] = rows
        ops = []
        names = list(pool)
        for t in range(rng.randint(4, 8)):
            u = rng.random()
            if t > 0 and u < 0.35:
                a, b = ops[-1]['out'], rng.choice(names)           # accumulate: previous result first
            elif t > 0 and u < 0.5:
                a, b = ops[-1]['a'], ops[-1]['b']                    # the same pair again, other shift
            else:
                a, b = rng.choice(names), rng.choice(names)          # may be the same array twice
            v = rng.random()
            shift = None if v < 0.15 else (0 if v < 0.3 else rng.randint(-4, 4))
            ss = rng.choice(SHIFT_STORES)
            if ss.endswith('+'):
                ss = ss[:-1] if (shift is not None and shift >= 0) else 'int'
            if len(pure[a]) + len(pure[b]) > 12:
                a, b = names[0], names[1 % len(names)]
            out = 'r%d' % t
            ops.append({'a': a, 'b': b, 'shift': shift, 'shift_store': ss if shift is not None else 'int', 'kwshift': rng.random() < 0.5, 'out': out})
            pure[out] = spec_append_py(pure[a], pure[b], shift)
            names.append(out)
        hs.append({'pool': pool, 'ops': ops, 'pure': pure})
    return hs


def gen_append(ctx):
    rng = ctx.rng
    cases = []
    for k in range(ctx.n(320, 4000)):
        n1, n2 = rng.randint(1, 4), rng.randint(1, 4)
        w1, w2 = rng.randint(1, 7), rng.randint(1, 7)
        if rng.random() < 0.3:
            w2 = w1
        t = rng.random()
        shift = None if t < 0.15 else (0 if t < 0.25 else rng.randint(-5, 5))
        base = rng.randint(1, 50) * 1000
        a = [[base + 100 * i + j + 1 for j in range(w1)] for i in range(n1)]
        b = [[-(base + 100 * i + j + 1) for j in range(w2)] for i in range(n2)]
        if rng.random() < 0.1:   # genuine zeros inside the data must survive too
            a[rng.randrange(n1)][rng.randrange(w1)] = 0
        cases.append(with_stores(rng, {'a': a, 'b': b, 'shift': shift, 'kwshift': rng.random() < 0.5}))
    # bounded-exhaustive small family: all shapes up to 2x3 and shifts -3..3
    for n1 in (1, 2):
        for n2 in (1, 2):
            for w1 in (1, 2, 3):
                for w2 in (1, 2, 3):
                    for s in range(-3, 4):
                        a = [[10 * (i + 1) + j + 1 for j in range(w1)] for i in range(n1)]
                        b = [[-(10 * (i + 1) + j + 1) for j in range(w2)] for i in range(n2)]
                        cases.append({'a': a, 'b': b, 'shift': s, 'kwshift': False, 'a_store': 'i8', 'b_store': 'i8', 'shift_store': 'int'})
    return cases


def append_term(c, r):
    exp = 'None' if 'ok' not in r else '(Some %s)' % zl(r['ok'])
    return '(CAppend %s %s %s %s)' % (zl(c['a']), zl(c['b']), C.zlit(c['shift'] or 0), exp)


# ---------------------------------------------------------------- spec_path cases and opened files

def blit(x):
    return C.coq_list(['%d' % c for c in x.encode('ascii')])


def gen_specpath(ctx):
    rng = ctx.rng
    cases = []
    for k in range(ctx.n(160, 1500)):
        run2d = rng.choice(['26', '103', '007', 'v5_7_0', 'v5_9_0', 'v5_13_2', '2x6', 'x26'])
        t = rng.random()
        if t < 0.2:
            plate = sarg(rng.choice([rng.randint(0, 9), rng.randint(10, 999), rng.randint(1000, 9999), rng.randint(10000, 20000), rng.randint(32768, 99999)]))
        else:
            plate = aarg([rng.choice([rng.randint(0, 999), rng.randint(1000, 9999), rng.randint(10000, 20000)])
                          for _ in range(rng.randint(1, 4))])
        kw, env = {}, {}
        if rng.random() < 0.25:
            kw['path'] = 'PATHDIR'
        if rng.random() < 0.4:
            kw['topdir'] = 'TOPKW'
        if rng.random() < 0.6:
            kw['run2d'] = run2d
        else:
            env['RUN2D'] = run2d
        if rng.random() < 0.7:
            env['SPECTRO_REDUX'] = 'ENVSDSS'
        if rng.random() < 0.7:
            env['BOSS_SPECTRO_REDUX'] = 'ENVBOSS'
        cases.append({'plate': plate, 'kwargs': kw, 'env': env, 'run2d': run2d, 'dtype': rng.choice(['i4', 'i8'])})
    return cases


def opt_b(x):
    return 'None' if x is None else '(Some %s)' % blit(x)


def specpath_term(c, r):
    plates = [c['plate']['s']] if 's' in c['plate'] else c['plate']['a']
    exp = 'None' if 'ok' not in r else '(Some %s)' % C.coq_list([C.coq_list([blit(x) for x in p.split('/')]) for p in r['ok']])
    return '(CSpecPath %s %s (mkEnv %s %s) %s %s %s)' % (
        opt_b(c['kwargs'].get('path')), opt_b(c['kwargs'].get('topdir')), opt_b(c['env'].get('SPECTRO_REDUX')),
        opt_b(c['env'].get('BOSS_SPECTRO_REDUX')), blit(c['run2d']), C.coq_list([C.zlit(p) for p in plates]), exp)


def files_term(sc, cm, res):
    """the spPlate files one successful call opened, relative to the roots named in the call, as path components"""
    call = cm['call']
    roots = {}
    for key, tok in (('path', 'PATHDIR'), ('topdir', 'TOPKW')):
        if key in call['kwargs']:
            roots[call['kwargs'][key]] = tok
    for key, tok in (('SPECTRO_REDUX', 'ENVSDSS'), ('BOSS_SPECTRO_REDUX', 'ENVBOSS')):
        if key in call['env']:
            roots.setdefault(call['env'][key], tok)
    comps = []
    for f in res.get('opened', []):
        if not os.path.basename(f).startswith('spPlate-'):
            continue
        for root, tok in sorted(roots.items(), key=lambda kv: -len(kv[0])):
            if f.startswith(root + '/'):
                comps.append([tok] + f[len(root) + 1:].split('/'))
                break
        else:
            comps.append(['?'] + f.split('/'))
    tok_of = lambda key, d: roots.get(d.get(key)) if d.get(key) is not None else None   # noqa: E731
    return '(CFiles %s %s (mkEnv %s %s) %s %s (Some %s))' % (
        opt_b(tok_of('path', call['kwargs'])), opt_b(tok_of('topdir', call['kwargs'])),
        opt_b(tok_of('SPECTRO_REDUX', call['env'])), opt_b(tok_of('BOSS_SPECTRO_REDUX', call['env'])),
        blit(sc['run2d']), C.coq_list(['(%s, %s, %s)' % (C.zlit(p), C.zlit(mj), C.zlit(f)) for p, mj, f in cm['reqs']]),
        C.coq_list([C.coq_list([blit(x) for x in c]) for c in comps]))


# ---------------------------------------------------------------- typed index expressions (storage types)

TYPED_HEADER = '''From Coq Require Import ZArith List. Import ListNotations.
From PV Require Import Lib.NumpyInt C16.Typed C16.Model. Open Scope Z_scope.
'''
ITY = {'I8': (-2**7, 2**7 - 1), 'U8': (0, 2**8 - 1), 'I16': (-2**15, 2**15 - 1), 'U16': (0, 2**16 - 1),
       'I32': (-2**31, 2**31 - 1), 'U32': (0, 2**32 - 1), 'I64': (-2**63, 2**63 - 1), 'U64': (0, 2**64 - 1)}
# variable: (is a Python int, documented range, out-of-range magnitudes that make the casts / products wrap)
TYPED_VARS = [(False, (1, 1000), [32767, 32768, 40000, 70000, 2**31 + 5, 3 * 10**9]),        # 0 fiber
              (True, (1, 1000), [134, 70000, 5 * 10**6, 2**31 - 1, 2**33]),                    # 1 nper
              (True, (1, 1000), [134, 40000, 2**31 - 1, 2**31]),                               # 2 znum
              (False, (0, 99999), [32768, 2**31 - 1, 2**31, 2**33 + 7]),                       # 3 plate
              (False, (0, 65535), [65536, 2**20 + 3, 2**31 + 1]),                              # 4 mjd
              (False, (0, 999), [32767, 2**31 - 1, 2**40]),                                    # 5 arange element
              (True, (0, 65535), [65536, 2**31 - 1, 2**31, 2**40])]                            # 6 bigmjd


def tree_vars(t, acc):
    if t[0] in ('arr', 'int'):
        acc.add(t[1])
    elif t[0] == 'cast':
        tree_vars(t[2], acc)
    elif t[0] == 'bin':
        tree_vars(t[2], acc)
        tree_vars(t[3], acc)
    return acc


def gen_typed(ctx, closed):
    """cases for every extracted typed expression: values inside the documented ranges in random storages, and values far
    outside (wrapping casts, int32 products beyond 2^31, Python ints that do not fit -> OverflowError)"""
    rng = ctx.rng
    cases = []
    for ex in closed:
        used = tree_vars(ex['tree'], set())
        for k in range(ctx.n(14, 60)):
            wild = k >= 5
            env = []
            for i, (is_py, (lo, hi), far) in enumerate(TYPED_VARS):
                if i in used and wild and rng.random() < 0.5:
                    v = rng.choice(far) + rng.randint(-2, 2) * (rng.random() < 0.3)
                else:
                    v = rng.choice([lo, hi, rng.randint(lo, hi)]) if i in used else lo
                if is_py:
                    env.append([None, v])
                else:
                    env.append([rng.choice([t for t, (a, b) in ITY.items() if a <= v <= b]), v])
            cases.append({'name': ex['name'], 'tree': ex['tree'], 'coq': ex['coq'], 'env': env})
    return cases


def typed_term(c, r):
    env = C.coq_list(['(%s, %s)' % ('None' if t is None else 'Some %s' % t, C.zlit(v)) for t, v in c['env']])
    if 'ok' in r:
        t, v = r['ok']
        exp = '(PVal %s %s)' % ('None' if t is None else '(Some %s)' % t, C.zlit(v))
    elif r.get('err') == 'OverflowError':
        exp = 'POverflow'
    else:
        exp = 'PUnmodelled'          # any other exception: never equal to a modelled result
    return '(CTyped %s %s %s)' % (c['coq'], env, exp)


# ---------------------------------------------------------------- correspondence

def call_term(cm, res):
    m = cm['model']
    mjd = 'None' if m['mjd'] is None else '(Some %s)' % arg_term(m['mjd'])
    reqs = 'None' if cm['reqs'] is None else '(Some %s)' % C.coq_list(
        ['(%s, %s, %s)' % (C.zlit(p), C.zlit(mj), C.zlit(f)) for p, mj, f in cm['reqs']])
    if 'err' in res or res.get('bad'):
        exp = 'None' if 'err' in res else '(Some [])'
    else:
        exp = '(Some %s)' % C.coq_list([zl(a) for a in res['arrays']])
    if cm.get('allfib'):
        return '(CReadAll sv pl %s %s %s %s %s %s %s)' % (C.zlit(cm['r2']), C.zlit(cm['r1']), arg_term(m['plate']), mjd,
                                                         C.optlit(cm['znum'], C.zlit), reqs, exp)
    return '(CRead sv %s %s %s %s %s %s)' % (arg_term(m['plate']), mjd, arg_term(m['fiber']),
                                            C.optlit(cm['znum'], C.zlit), reqs, exp)


def partial_term(sc, cm, res):
    """a call on files that differ in what they hold: every returned array with the output it claims to be (Model.CReadPartial)"""
    reqs = C.coq_list(['(%s, %s, %s)' % (C.zlit(p), C.zlit(mj), C.zlit(f)) for p, mj, f in cm['reqs']])
    if 'err' in res:
        return '(CReadPartial sv %s None)' % reqs
    f0 = file_arrays(sc['metas'][0])       # the complete file names the outputs
    what = {n: '(WImg %d)' % h for h, n in enumerate(IMG_NAMES)}
    what['loglam'] = 'WLoglam'
    for ci, c in enumerate(f0['plug']):
        what['plugmap.' + c['name']] = '(WTab %d)' % ci
    for ci, c in enumerate(f0['photo']):
        what['tsobj.' + c['name']] = '(WTab %d)' % (len(f0['plug']) + ci)
    for ci, c in enumerate(f0['zbest'] if cm['znum'] is None else f0['zall']):
        what['zans.' + c['name']] = ('(WZbest %d)' % ci) if cm['znum'] is None else '(WZall %d %s)' % (ci, C.zlit(cm['znum']))
    outs = ['(%s, %s)' % (what[n], zl(a)) for n, a in zip(res['names'], res['arrays']) if n in what]
    return '(CReadPartial sv %s (Some %s))' % (reqs, C.coq_list(outs))


def dtype_changes(sc, cm, res):
    """returned arrays whose dtype is not the one the data were written with (byte order aside)"""
    if 'err' in res or 'dtypes' not in res:
        return []
    exp = expected_dtypes(file_arrays(sc['metas'][0]), cm['znum'])
    return sorted('%s: %s, written as %s' % (n, d, exp[n]) for n, d in zip(res['names'], res['dtypes']) if exp.get(n) and d != exp[n])


def classify(sc, cm, res):
    """outcome string for the signature: which output groups differ from the specification / which error"""
    if 'err' in res:
        return 'impl=' + res['err']
    files = [file_arrays(m) for m in sc['metas']]
    sp = spec_py(files, cm['reqs'], cm['znum']) if cm['reqs'] is not None else None
    if res.get('bad'):
        return 'bad-output=' + '+'.join(sorted(set(b.split(':')[0] for b in res['bad'])))
    if sp is None:
        return 'impl=returned'
    names, arrays = sp
    if names != res['names']:
        return 'outputs=' + '+'.join(sorted(set(group_of(n) for n in set(names) ^ set(res['names']))))
    diff = sorted(set(group_of(n) for n, a, b in zip(names, arrays, res['arrays']) if a != b))
    return 'diff=' + '+'.join(diff) if diff else 'same'


def correspond(ctx, proof_ok=True):
    ok, log = C.coq_make(['C16/Model.vo'])
    if not ok:
        raise RuntimeError('C16/Model.v does not build:\n' + log[-2000:])
    rng = ctx.rng
    root = os.path.join(ctx.work, 'trees')
    scenarios = [gen_scenario(rng, si, kind, root, ctx.thorough) for si, kind in enumerate(scenario_plan(ctx))]
    groups = []
    for g in range(ctx.n(2, 12)):
        subs, grp = gen_history(rng, len(scenarios) + 1000 * (g + 1), root)
        grp['base'] = len(scenarios)
        scenarios += subs
        groups.append(grp)
    app_cases = gen_append(ctx)
    sp_cases = gen_specpath(ctx)
    app_hist = gen_append_histories(ctx)
    try:
        _, tinfo = T.typed_extract(C.REPO)
        typed_cases = gen_typed(ctx, tinfo['closed'])
        ctx.coverage['typed_expressions'] = {'extracted': len(tinfo['closed']), 'types': tinfo['types'],
                                             'fibervec_types': tinfo['fibervec_types']}
    except Exception as e:  # noqa: BLE001 - unrecognised source: the typed tie is skipped, the proof side reports it
        typed_cases = []
        ctx.coverage['typed_expressions'] = {'extracted': 0, 'note': 'not recognised: %s' % e}

    def with_arrays(t):
        tt = dict(t)
        tt['files'] = [file_arrays(m) for m in t['files']]
        return tt

    # ---- run the implementation (tree building + calls), scenarios spread over parallel processes
    jobs = []        # (job, list of (scenario index, call index) in the order of the job's calls)
    for k, sc in enumerate(scenarios):
        if sc['kind'] == 'history':
            continue
        jobs.append(({'kind': 'scenario', 'trees': [with_arrays(t) for t in sc['trees']], 'calls': [cm['call'] for cm in sc['calls']]},
                     [(k, j) for j in range(len(sc['calls']))], sum(m['nfib'] for m in sc['metas'])))
    for grp in groups:
        calls, back = [], []
        for (ks, j, build_first) in grp['seq']:
            c = dict(scenarios[grp['base'] + ks]['calls'][j]['call'])
            if build_first:
                c['build_first'] = [with_arrays(t) for t in build_first]
            calls.append(c)
            back.append((grp['base'] + ks, j))
        jobs.append(({'kind': 'scenario', 'trees': [with_arrays(t) for t in grp['trees']], 'calls': calls}, back, 0))
    nb = min(C.NPROC, 14)
    batches = [[] for _ in range(nb)]
    where = []
    # the 640-fibre scenario is the heaviest: own batch
    order = sorted(range(len(jobs)), key=lambda i: -jobs[i][2])
    for k, i in enumerate(order):
        b = k % nb
        where.append((i, b, len(batches[b])))
        batches[b].append(jobs[i][0])
    app_chunks = [app_cases[i::2] for i in range(2)]
    payloads = [{'jobs': b} for b in batches] + [{'jobs': [{'kind': 'append', 'cases': ch}]} for ch in app_chunks]
    payloads[-1]['jobs'].append({'kind': 'specpath', 'cases': sp_cases})
    payloads[-2]['jobs'].append({'kind': 'append_history', 'histories': [{'pool': h['pool'], 'ops': h['ops']} for h in app_hist]})
    payloads[-1]['jobs'].append({'kind': 'typed', 'cases': [{'tree': c['tree'], 'env': c['env']} for c in typed_cases]})
    outs = C.run_impl_parallel('c16_impl.py', payloads)
    ctx.coverage['pydl_file'] = outs[0]['pydl_file']
    results = [[None] * len(sc['calls']) for sc in scenarios]
    for i, b, pos in where:
        for (k, j), r in zip(jobs[i][1], outs[b]['results'][pos]):
            results[k][j] = r
    sp_results = outs[-1]['results'][1]
    typed_results = outs[-1]['results'][2]
    hist_results = outs[-2]['results'][1]
    app_results = [None] * len(app_cases)
    for ci, ch in enumerate(app_chunks):
        for k, r in enumerate(outs[nb + ci]['results'][0]):
            app_results[ci + 2 * k] = r

    # ---- evaluate model and specification in Coq: one shard per scenario (the survey is defined once per shard)
    file_verdicts = {}

    def retrying(f, *a, **kw):
        """a coqc process killed from outside (out-of-memory killer on a crowded machine) is not an observation: evaluate again;
        a deterministic failure fails three times and is reported as before"""
        for attempt in range(3):
            try:
                return f(*a, **kw)
            except C.CoqEvalError:
                if attempt == 2:
                    raise
                time.sleep(5 + 20 * attempt)

    def eval_scenario(k):
        try:
            return retrying(eval_scenario_, k)
        except C.CoqEvalError as e:   # one unevaluable shard must not hide the others
            ctx.notes.append('scenario %d: %s' % (k, str(e)[:300]))
            return [1] * len(scenarios[k]['calls']), 0.0, ['(* not evaluated *)'] * len(scenarios[k]['calls'])

    def eval_scenario_(k):
        sc = scenarios[k]
        files = [file_arrays(m) for m in sc['metas']]
        codes = {}

        def rc(x):
            return codes.setdefault(x, len(codes) + 1)
        pl_rows = ['(mkPl %s %s %d %d %s)' % (C.zlit(r['plate']), C.zlit(r['mjd']), rc('2:' + r['run2d']), rc('1:' + r['run1d']),
                                              C.zlit(r['n_total'])) for r in sc.get('platelist', [])]
        for cm in sc['calls']:
            cm['r2'], cm['r1'] = rc('2:' + sc['run2d']), rc('1:' + sc['run1d'])
        header = HEADER + 'Definition sv : survey := %s.\nDefinition pl : list plrow := %s.\n' % (
            C.coq_list([file_term(fa) for fa in files]), C.coq_list(pl_rows))
        # realistic-size trees: one coqc per call (the 1000-row answers take long to read; the survey itself is small)
        cc = C.CoqCases(ctx.work, header, 'run_cases', shard=1 if sc['kind'] == 'bigz' else 1000, timeout=1500)
        # align-grid calls have no Coq case (checked directly below): a trivially true placeholder keeps the indices aligned
        terms = ['(CAppend [] [] 0 (Some []))' if cm['feature'] == 'align-grid' else
                 (partial_term(sc, cm, res) if cm['feature'] == 'holes' else call_term(cm, res))
                 for cm, res in zip(sc['calls'], results[k])]
        # which spPlate files each successful call opened (path model)
        fidx = [j for j, (cm, res) in enumerate(zip(sc['calls'], results[k]))
                if cm['reqs'] is not None and 'err' not in res and not res.get('bad') and cm['feature'] not in ('align-grid', 'holes')]
        fterms = [files_term(sc, sc['calls'][j], results[k][j]) for j in fidx]
        v = cc.run(terms + fterms, tag='scen%03d' % k)
        file_verdicts[k] = dict(zip(fidx, zip(v[len(terms):], fterms)))
        return v[:len(terms)], cc.coq_seconds, terms

    with ThreadPoolExecutor(max_workers=C.NPROC) as ex:
        evals = list(ex.map(eval_scenario, range(len(scenarios))))
    cc = C.CoqCases(ctx.work, HEADER, 'run_cases', shard=120)
    app_terms = [append_term(c, r) for c, r in zip(app_cases, app_results)]
    app_verdicts = retrying(cc.run, app_terms, tag='append')
    # append histories: every operation against the model's pure answer for the values its inputs should hold
    hist_ops = [(hi, oi) for hi, h in enumerate(app_hist) for oi in range(len(h['ops']))]
    hist_terms = []
    for hi, oi in hist_ops:
        h, op, r = app_hist[hi], app_hist[hi]['ops'][oi], hist_results[hi][oi]
        hist_terms.append(append_term({'a': h['pure'][op['a']], 'b': h['pure'][op['b']], 'shift': op['shift']}, r))
    hist_verdicts = retrying(cc.run, hist_terms, tag='apphist')
    sp_terms = [specpath_term(c, r) for c, r in zip(sp_cases, sp_results)]
    sp_verdicts = retrying(cc.run, sp_terms, tag='specpath')
    typed_terms = [typed_term(c, r) for c, r in zip(typed_cases, typed_results)]
    typed_verdicts = retrying(C.CoqCases(ctx.work, TYPED_HEADER, 'run_cases', shard=200).run, typed_terms, tag='typed') if typed_terms else []
    ctx.coverage['coq_eval_s'] = round(cc.coq_seconds + max(e[1] for e in evals), 1)

    # ---- decide
    seq_pos = {}
    for grp in groups:
        for pos, (ks, j, _bf) in enumerate(grp['seq']):
            seq_pos[(grp['base'] + ks, j)] = (grp, pos)
    dist = {}
    n_calls = 0
    n_rows = 0
    seen = set()
    model_dis = spec_vio = 0
    n_dtype_checked = 0
    samples = []
    # ---- what importing pydl the way a user does (import pydl; import pydl.pydlspec2d; from ... import readspec) did to the
    # process-global state of a fresh interpreter (every implementation process records it)
    imp = [d for o in outs for d in o.get('import_changes', [])]
    ctx.coverage['global_state'] = {'fresh_interpreters': len(outs), 'changed_at_import': sorted(set(d['item'] for d in imp)),
                                    'after_all_calls': outs[0].get('global_state')}
    if imp:
        items = sorted(set(d['item'] for d in imp))
        model_dis += 1
        ctx.violation('C16:globals:import:%s:model' % '+'.join(items),
                      'importing pydl changes process-global state: %s' % '; '.join('%s: %s -> %s (%s)' % (d['item'], d['before'], d['after'], d['stage']) for d in imp[:3]),
                      {'kind': 'broken-correspondence', 'item': 'process-global state at import (astropy.io.fits.conf, np.geterr, np.get_printoptions, os.environ)',
                       'changes': imp[:6], 'note': 'snapshots taken in a fresh interpreter before import pydl, after it, after import pydl.pydlspec2d and after '
                                                    'importing readspec; readspec is modelled as a pure function of the files'}, False)
    for k, sc in enumerate(scenarios):
        verdicts, _, terms = evals[k]
        for cj, (cm, res, v, term) in enumerate(zip(sc['calls'], results[k], verdicts, terms)):
            n_calls += 1
            n_rows += len(cm['reqs'] or [])
            if cm['feature'] == 'align-grid':
                ag = ctx.coverage.setdefault('align_grid_calls', {})
                if 'err' in res:
                    # known defect outside the property (notes/C16.md: float pixshift -> TypeError, allcoeff1[1] -> IndexError)
                    ag['impl=' + res['err']] = ag.get('impl=' + res['err'], 0) + 1
                    continue
                want = aligned_py([file_arrays(m) for m in sc['metas']], cm['reqs'])
                good = want is not None and want[0] == res['names'] and want[1] == res['arrays']
                ag['returned-' + ('aligned' if good else 'WRONG')] = ag.get('returned-' + ('aligned' if good else 'WRONG'), 0) + 1
                if not good:
                    spec_vio += 1
                    diff = sorted(set(group_of(n) for n, a, b in zip(want[0], want[1], res['arrays']) if a != b)) if want and want[0] == res['names'] else ['outputs']
                    sig = 'C16:readspec:std:align-grid:diff=%s:property' % '+'.join(diff)
                    if sig not in seen:
                        seen.add(sig)
                        ctx.violation(sig, 'readspec(align=True) on wavelength solutions differing by whole pixels: a spectrum is not at the column of '
                                      'its own wavelength (or rows/loglam differ) on %s' % cm['tag'],
                                      {'kind': 'failing-input', 'what': 'readspec', 'scenario': {'kind': sc['kind'], 'si': sc['si'], 'run2d': sc['run2d'],
                                       'run1d': sc['run1d'], 'metas': sc['metas'], 'trees': sc['trees']}, 'call': cm['call'], 'requests': cm['reqs'],
                                       'znum': None, 'tag': cm['tag'], 'expected_aligned': {'names': want[0][:7], 'arrays': want[1][:7]} if want else None,
                                       'impl_result': {'names': res['names'][:7], 'arrays': res['arrays'][:7]},
                                       'meaning': 'images of request i must start at column (COEFF0_i - min COEFF0)/COEFF1, zeros elsewhere; loglam = '
                                                  'min COEFF0 + COEFF1*column (units 2^-20)'}, True)
                continue
            scen_rep = {'kind': sc['kind'], 'si': sc['si'], 'run2d': sc['run2d'], 'run1d': sc['run1d'], 'metas': sc['metas'], 'trees': sc['trees']}
            # ---- process-global state must be what it was before the call
            if res.get('globals_changed'):
                items = sorted(set(d['item'] for d in res['globals_changed']))
                gsig = 'C16:globals:call:%s:model' % '+'.join(items)
                if gsig not in seen:
                    seen.add(gsig)
                    model_dis += 1
                    ctx.violation(gsig, 'a readspec call changed process-global state (%s) on %s' % (', '.join(items), cm['tag']),
                                  {'kind': 'broken-correspondence', 'item': 'process-global state across a readspec call (the model is a pure function)',
                                   'changes': res['globals_changed'], 'call': cm['call'], 'scenario': scen_rep}, False)
            # ---- every returned array has the dtype its data were written with (unsigned stays unsigned, integers stay integers)
            dch = dtype_changes(sc, cm, res)
            n_dtype_checked += 0 if 'err' in res else len(res.get('dtypes', []))
            if dch:
                cls = '+'.join(sorted(set(group_of(x.split(':')[0]) for x in dch)))
                dsig = 'C16:readspec:%s:%s:dtype-changed=%s:property' % ('topdir' if sc['kind'] == 'topdir' else 'std', cm['feature'], cls)
                if dsig not in seen:
                    seen.add(dsig)
                    spec_vio += 1
                    ctx.violation(dsig, 'readspec returns arrays that are not the stored ones: dtype differs from the file (%s) on %s' % ('; '.join(dch[:4]), cm['tag']),
                                  {'kind': 'failing-input', 'what': 'readspec', 'scenario': scen_rep, 'call': cm['call'], 'requests': cm['reqs'], 'znum': cm['znum'],
                                   'tag': cm['tag'], 'dtype_changes': dch, 'impl_result': {'names': res['names'], 'dtypes': res['dtypes']},
                                   'meaning': 'table columns written as unsigned 64/32/16-bit integers (TZEROn) and unsigned 32-bit pixel masks (BZERO) must come back '
                                              'with the dtype and the exact values of row fibre-1 of the file; a float64 detour rounds identifiers above 2^53'}, True)
            if cm['feature'] == 'holes':
                # files differing in what they hold / requests without a file: no claim that the call raises; a returned answer is judged
                # by the first sentence of the property (Model.rows_belong)
                okey = 'holes:%s:%s' % (cm['tag'], ('impl=' + res['err']) if 'err' in res else 'returned')
                dist[okey] = dist.get(okey, 0) + 1
                if v == 0:
                    continue
                spec_vio += 1
                nr = sorted(set(res.get('nrows', [])))
                sig = 'C16:readspec:std:holes:%s:returned-rows-do-not-belong:property' % cm['tag'].replace('holes-', '')
                if sig not in seen:
                    seen.add(sig)
                    ctx.violation(sig, 'readspec returned an answer whose rows do not belong to the requests (%d requests, arrays with %s rows) on %s' % (
                        len(cm['reqs']), nr, cm['tag']),
                        {'kind': 'failing-input', 'what': 'readspec', 'scenario': scen_rep, 'call': cm['call'], 'requests': cm['reqs'], 'znum': cm['znum'],
                         'tag': cm['tag'], 'impl_result': {'names': res['names'], 'nrows': res.get('nrows'), 'arrays': res['arrays'][:1] + res['arrays'][7:], 'bad': res['bad']},
                         'verdict': v, 'coq_case': term[:3000],
                         'meaning': 'the files of this tree differ in what they hold (metas: has_zbest / has_zall / has_photo / truncated) or a request has no file; '
                                    'the call may raise, but every array it RETURNS must have one row per request and row i must be row fibre_i-1 of the '
                                    'file of request i wherever that file holds the HDU / column (Model.rows_belong)'}, True)
                continue
            outcome = classify(sc, cm, res)
            key = '%s:%s:%s' % (sc['kind'], cm['tag'].split('=')[0], 'ok' if outcome == 'same' else outcome.split('=')[0] + ('=' + res['err'] if 'err' in res else ''))
            dist[key] = dist.get(key, 0) + 1
            if len(samples) < 3 and cm['tag'] == 'vector-scrambled':
                samples.append({'scenario': sc['kind'], 'files': [{kk: m[kk] for kk in ('plate', 'mjd', 'nfib', 'npix')} for m in sc['metas']],
                                'call': {kk: cm['call'][kk] for kk in ('plate', 'mjd', 'fiber')},
                                'kwargs': sorted(cm['call']['kwargs']), 'flux_first_column': [r[0] for r in res['arrays'][0]] if 'arrays' in res and res['arrays'] else res})
            # direct structural checks on the returned dict
            problems = []
            if 'err' not in res:
                m0 = sc['metas'][0]
                want = ['plugmap'] + (['tsobj'] if m0['has_photo'] else []) + \
                    (['zans'] if (m0['has_zall'] if cm['znum'] is not None else m0['has_zbest']) else [])
                if res.get('groups') != want:
                    problems.append('table groups %s, expected %s' % (res.get('groups'), want))
                if res.get('bad'):
                    problems.append('unreadable outputs: %s' % res['bad'])
            hazards = []
            if res.get('inputs_untouched') is False:
                hazards.append('inputs-modified')
            if res.get('aliases_input'):
                hazards.append('result-aliases-input')
            if res.get('aliases_earlier'):
                hazards.append('result-aliases-earlier-result')
            if res.get('earlier_changed'):
                hazards.append('earlier-result-changed')
            if hazards:
                hsig = 'C16:readspec:%s:%s:%s:property' % ('topdir' if sc['kind'] == 'topdir' else 'std', cm['feature'], '+'.join(hazards))
                if hsig not in seen:
                    seen.add(hsig)
                    spec_vio += 1
                    ctx.violation(hsig, 'readspec does not leave the caller\'s arrays / earlier results alone: %s on %s' % (', '.join(hazards), cm['tag']),
                                  {'kind': 'failing-input', 'what': 'readspec-hazard', 'call': cm['call'], 'requests': cm['reqs'], 'hazards': hazards,
                                   'detail': {kk: res.get(kk) for kk in ('inputs_untouched', 'aliases_input', 'aliases_earlier', 'earlier_changed')},
                                   'scenario': {'kind': sc['kind'], 'si': sc['si'], 'run2d': sc['run2d'], 'run1d': sc['run1d'], 'metas': sc['metas'],
                                                'trees': sc['trees']},
                                   'note': 'the arguments are rebuilt in the stated storage (call.store), snapshotted, and compared bit for bit after '
                                           'the call; result arrays are tested with np.shares_memory against the arguments and against the results '
                                           'of the two preceding calls of the same process, whose contents are compared with copies taken then'}, True)
            if v == 0 and not problems:
                continue
            if v & 1:
                model_dis += 1
            if v & 2:
                spec_vio += 1
            loc = 'topdir' if (sc['kind'] == 'topdir' and cm['feature'] != 'uint64') else 'std'
            sig = 'C16:readspec:%s:%s:%s:%s' % (loc, cm['feature'], outcome, 'property' if v & 2 else 'model')
            if sig in seen:
                continue
            seen.add(sig)
            rep = {'kind': 'failing-input' if v & 2 else 'broken-correspondence', 'what': 'readspec',
                   'scenario': {'kind': sc['kind'], 'si': sc['si'], 'run2d': sc['run2d'], 'run1d': sc['run1d'], 'metas': sc['metas'],
                                'trees': [{kk: (t[kk] if kk != 'files' else t['files']) for kk in t} for t in sc['trees']]},
                   'call': cm['call'], 'requests': cm['reqs'], 'znum': cm['znum'], 'tag': cm['tag'],
                   'impl_result': res if 'err' in res else {'names': res['names'], 'arrays': res['arrays'][:1] + res['arrays'][7:], 'bad': res['bad']},
                   'outcome': outcome, 'verdict': v, 'problems': problems,
                   'encoding': 'value = ((uid*1000 + fiber)*100 + hdu_or_column)*100 + pixel_or_component (realistic-size trees, kind bigz: '
                               '((uid*2048 + fiber)*100 + hdu_or_column)*256 + pixel_or_fit_number); loglam in units of 2^-20; '
                               'decoy tree (topdir scenarios) uses uid+100',
                   'meaning': 'verdict bit 2: the returned arrays differ from the request-by-request specification spec_readspec '
                              '(or the call raised although every request is valid); bit 1: the Coq model differs from the implementation'}
            if (k, cj) in seq_pos:
                grp, pos = seq_pos[(k, cj)]
                rep['history'] = {
                    'note': 'calls made one after the other in ONE process; the last one is the failing call; every call must be '
                            'answered from the tree / reduction it names (sub-scenario %s)' % sc.get('sub'),
                    'root': grp['top'], 'trees': grp['trees'],
                    'sequence': [{'sub': scenarios[grp['base'] + ks]['sub'], 'call': scenarios[grp['base'] + ks]['calls'][j]['call'],
                                  'requests': scenarios[grp['base'] + ks]['calls'][j]['reqs'], 'build_first': bf}
                                 for (ks, j, bf) in grp['seq'][:pos + 1]]}
            if v & 2 and outcome == 'impl=returned':
                rep['impl_result']['nrows'] = res.get('nrows')
                rep['meaning'] += ('; here a request has no file / no such row and the call RETURNED: the specification makes no claim that it raises, but '
                                   'every returned array must have one row per request and row i must be the row of request i wherever request i has '
                                   'a file (Model.partial_ok)')
                ctx.violation(sig, 'readspec returned an answer whose rows do not line up with the requests: %d requests, arrays with %s rows, on %s (%s)' % (
                    len(cm['reqs'] or []), sorted(set(res.get('nrows', []))), cm['tag'], sc['kind']), rep, True)
            elif v & 2:
                ctx.violation(sig, 'readspec output contradicts the specification: %s on %s (%s)' % (outcome, cm['tag'], sc['kind']), rep, True)
            else:
                rep['item'] = 'C16.Model.readspec_model'
                ctx.violation(sig, 'model and implementation disagree on %s: %s %s' % (cm['tag'], outcome, '; '.join(problems)), rep, False)
    # ---- paths: spec_path() directories and the files the calls opened (model tie, no separate specification)
    n_files = 0
    for k, fv in file_verdicts.items():
        for j, (v, term) in fv.items():
            n_files += 1
            if v == 0:
                continue
            model_dis += 1
            sc, cm = scenarios[k], scenarios[k]['calls'][j]
            sig = 'C16:files:%s:%s:model' % ('topdir' if sc['kind'] == 'topdir' else 'std', cm['feature'])
            if sig in seen:
                continue
            seen.add(sig)
            ctx.violation(sig, 'the spPlate files opened by readspec are not the ones the path model names (%s, %s)' % (cm['tag'], sc['kind']),
                          {'kind': 'broken-correspondence', 'item': 'C16.Model.opened_spplate', 'call': cm['call'], 'requests': cm['reqs'],
                           'opened': results[k][j].get('opened'), 'coq_case': term[:3000]}, False)
    for c, r, v, term in zip(sp_cases, sp_results, sp_verdicts, sp_terms):
        if v == 0:
            continue
        model_dis += 1
        sig = 'C16:spec_path:%s:%s:model' % ('path' if 'path' in c['kwargs'] else ('topdir' if 'topdir' in c['kwargs'] else 'env'),
                                             ('impl=' + r['err']) if 'err' in r else 'diff')
        if sig in seen:
            continue
        seen.add(sig)
        ctx.violation(sig, 'spec_path() differs from the path model', {'kind': 'broken-correspondence', 'item': 'C16.Model.spec_path_model',
                                                                      'case': c, 'impl_result': r, 'coq_case': term}, False)
    # ---- typed index expressions: NumPy's own evaluation against Typed.peval (semantics of the storage-type layer)
    typed_out = {}
    for c, r, v, term in zip(typed_cases, typed_results, typed_verdicts, typed_terms):
        kind = 'overflow' if r.get('err') == 'OverflowError' else ('error' if 'err' in r else
               ('inrange' if all(lo <= val <= hi for (_, (lo, hi), _), (_, val) in zip(TYPED_VARS, c['env'])) else 'wrap-or-far'))
        typed_out['%s:%s' % (c['name'], kind)] = typed_out.get('%s:%s' % (c['name'], kind), 0) + 1
        if v == 0:
            continue
        model_dis += 1
        sig = 'C16:typed:%s:%s:model' % (c['name'], ('impl=' + r['err']) if 'err' in r else 'diff')
        if sig in seen:
            continue
        seen.add(sig)
        ctx.violation(sig, 'NumPy evaluates a typed index expression of readspec differently from C16.Typed.peval',
                      {'kind': 'broken-correspondence', 'item': 'C16.Typed.peval', 'expression': c['coq'], 'env': c['env'],
                       'numpy_result': r, 'coq_case': term}, False)
    ctx.coverage['typed_cases_by_expression_and_kind'] = typed_out
    app_bad = 0
    for c, r, v, term in zip(app_cases, app_results, app_verdicts, app_terms):
        extra = []
        if 'ok' in r and not r['same_dtype']:
            extra.append('dtype changed')
        if 'ok' in r and not r['inputs_untouched']:
            extra.append('inputs modified')
        if 'ok' in r and r.get('aliases_input'):
            extra.append('result aliases an input')
        if v == 0 and not extra:
            continue
        app_bad += 1
        s = c['shift']
        sclass = 'none' if s is None else ('zero' if s == 0 else ('neg' if s < 0 else 'pos'))
        wclass = 'eq' if len(c['a'][0]) == len(c['b'][0]) else ('a-wider' if len(c['a'][0]) > len(c['b'][0]) else 'b-wider')
        out = ('impl=' + r['err']) if 'err' in r else 'diff'
        ss = c.get('shift_store') or 'int'
        skind = 'python' if ss == 'int' else ('unsigned' if ':u' in ss or ':>u' in ss else 'signed')
        sig = 'C16:spec_append:shift=%s(%s):%s:%s:%s' % (sclass, skind, wclass, out, 'property' if v & 2 else ('model' if v else 'hazard'))
        if sig in seen:
            continue
        seen.add(sig)
        rep = {'kind': 'failing-input' if (v & 2 or extra) else 'broken-correspondence', 'what': 'spec_append', 'case': c, 'impl_result': r,
               'coq_case': term, 'verdict': v, 'extra': extra}
        if v == 0 and extra:
            spec_vio += 1
            ctx.violation(sig, 'spec_append: %s (storages %s / %s)' % (', '.join(extra), c.get('a_store'), c.get('b_store')), rep, True)
        elif v & 2:
            spec_vio += 1
            ctx.violation(sig, 'spec_append output differs from "rows of a then rows of b at their offsets, zeros elsewhere"', rep, True)
        else:
            model_dis += 1
            rep['item'] = 'C16.Model.spec_append'
            ctx.violation(sig, 'spec_append: %s' % (', '.join(extra) or 'model and implementation disagree'), rep, False)

    # ---- append histories: a wrong or history-dependent answer is a failing input (history prefix, operation)
    for (hi, oi), v, term in zip(hist_ops, hist_verdicts, hist_terms):
        h, op, r = app_hist[hi], app_hist[hi]['ops'][oi], hist_results[hi][oi]
        extra = []
        if 'ok' in r:
            if not r['same_dtype']:
                extra.append('dtype changed')
            if r['pool_changed']:
                extra.append('caller-owned arrays or earlier results modified: %s' % r['pool_changed'])
            if r['aliases_pool']:
                extra.append('result shares memory with %s' % r['aliases_pool'])
        if r.get('err') == 'Skipped' or (v == 0 and not extra):
            continue
        s_ = op['shift']
        sclass = 'none' if s_ is None else ('zero' if s_ == 0 else ('neg' if s_ < 0 else 'pos'))
        out = ('impl=' + r['err']) if 'err' in r else ('diff' if v else 'hazard')
        sig = 'C16:spec_append:history:shift=%s:%s:%s' % (sclass, out, 'property' if (v & 2 or extra) else 'model')
        if sig in seen:
            continue
        seen.add(sig)
        spec_vio += 1 if (v & 2 or extra) else 0
        model_dis += 1 if v & 1 else 0
        ctx.violation(sig, 'spec_append in a sequence of calls on the same arrays: %s' % (', '.join(extra) or 'answer differs from the pure answer'),
                      {'kind': 'failing-input' if (v & 2 or extra) else 'broken-correspondence', 'what': 'spec_append-history',
                       'history': {'pool': h['pool'], 'ops': h['ops'][:oi + 1]}, 'expected_inputs': {'a': h['pure'][op['a']], 'b': h['pure'][op['b']]},
                       'impl_result': r, 'coq_case': term[:3000], 'verdict': v, 'extra': extra,
                       'note': 'the operations are run one after the other in ONE process on the same pool of arrays; the last one is the '
                               'failing operation; its answer must be spec_append of the values its inputs held when they were created'},
                      bool(v & 2 or extra))

    ctx.coverage.update({
        'evaluations': n_calls + len(app_cases) + len(sp_cases) + len(hist_ops) + len(typed_cases),
        'typed_expression_cases': len(typed_cases),
        'spec_append_history_ops': len(hist_ops), 'spec_append_histories': len(app_hist),
        'spec_path_calls': len(sp_cases), 'opened_file_lists_compared': n_files,
        'distinct_nontrivial': len(set(t for e in evals for t in e[2])) + len(set(app_terms)) + len(set(sp_terms)),
        'rule': 'one evaluation = one readspec call on a freshly written synthetic tree (every returned image, loglam and table '
                'column compared exactly, inside Coq, with the algorithmic model readspec_model and with the request-by-request '
                'specification readspec_S) or one spec_append call (compared with spec_append and spec_append_S); '
                'distinct = distinct Coq case terms',
        'returned_arrays_dtype_checked': n_dtype_checked,
        'readspec_calls': n_calls, 'requested_rows': n_rows, 'spec_append_calls': len(app_cases),
        'history_groups': len(groups), 'history_calls': sum(len(g['seq']) for g in groups),
        'scenarios': len(scenarios), 'scenario_kinds': {k: scenario_plan(ctx).count(k) for k in sorted(set(scenario_plan(ctx)))},
        'calls_by_kind_tag_outcome': dist,
        'model_disagreements': model_dis, 'spec_violations': spec_vio,
        'samples': samples + [{'spec_append': app_cases[0], 'impl': app_results[0]}],
    })


def replay(ctx, rep):
    if rep.get('what') == 'spec_append':
        out = C.run_impl('c16_impl.py', {'jobs': [{'kind': 'append', 'cases': [rep['case']]}]})
        print('case   :', rep['case'])
        print('impl   :', out['results'][0][0])
        print('before :', rep.get('impl_result'))
        return 0
    if rep.get('what') == 'spec_append-history':
        out = C.run_impl('c16_impl.py', {'jobs': [{'kind': 'append_history', 'histories': [rep['history']]}]})
        for nm, sp in rep['history']['pool'].items():
            print('array  : %s %s %s' % (nm, sp['store'], sp['rows']))
        for op, r in zip(rep['history']['ops'], out['results'][0][0]):
            print('op     : %s = spec_append(%s, %s, %s as %s) -> %s' % (op['out'], op['a'], op['b'], op['shift'], op['shift_store'], r))
        print('expected inputs of the last operation:', rep['expected_inputs'])
        print('pure answer:', spec_append_py(rep['expected_inputs']['a'], rep['expected_inputs']['b'], rep['history']['ops'][-1]['shift']))
        return 0
    if rep.get('what') not in ('readspec', 'readspec-hazard'):
        print('replay file has no input (kind=%s, item=%s)' % (rep.get('kind'), rep.get('item')))
        return 2
    if rep.get('history'):
        return replay_history(ctx, rep)
    sc = rep['scenario']
    root = os.path.join(ctx.work, 'replay')
    trees = []
    remap = {}
    for k, t in enumerate(sc['trees']):
        tt = dict(t)
        new_top = os.path.join(root, 'tree%d' % k)
        remap[t['top']] = new_top
        tt['top'] = new_top
        if 'platelist_dir' in tt:
            tt['platelist_dir'] = new_top
        tt['files'] = [file_arrays(m) for m in t['files']]
        trees.append(tt)
    call = rep['call']

    def fix(s):
        for old, new in remap.items():
            if isinstance(s, str) and s.startswith(old):
                return new + s[len(old):]
        return s
    call['kwargs'] = {k: fix(v) for k, v in call['kwargs'].items()}
    call['env'] = {k: fix(v) for k, v in call['env'].items()}
    out = C.run_impl('c16_impl.py', {'jobs': [{'kind': 'scenario', 'trees': trees, 'calls': [call]}]})
    res = out['results'][0][0]
    files = [file_arrays(m) for m in sc['trees'][0]['files']]
    reqs = [tuple(r) for r in rep['requests']] if rep.get('requests') else None
    try:
        sp = spec_py(files, reqs, rep.get('znum')) if reqs else None
    except IndexError:        # files that differ in what they hold (holes): no whole-call specification
        sp = None
    print('files  :', [(m['plate'], m['mjd'], 'nfib=%d' % m['nfib'], 'npix=%d' % m['npix'], 'uid=%d' % m['uid']) for m in sc['trees'][0]['files']])
    print('call   : readspec(plate=%s, mjd=%s, fiber=%s, **%s)  env=%s' % (call['plate'], call['mjd'], call['fiber'], call['kwargs'], call['env']))
    print('requests (plate, mjd, fiber):', reqs)
    if 'err' in res:
        print('impl   : raised', res['err'], res.get('msg'))
    else:
        for n, a in zip(res['names'], res['arrays']):
            exp = dict(zip(*sp)).get(n) if sp else None
            flag = '' if exp is None or exp == a else '   <-- differs from specification %s' % ([r[0] for r in exp],)
            if flag or n in ('flux', 'plugmap.FIBERID', 'zans.FIBERID'):
                print('impl   : %-16s first column %s%s' % (n, [r[0] if r else None for r in a], flag))
    if any(m.get('big') for m in sc['trees'][0]['files']):
        print('(realistic-size tree: value = ((uid*2048 + fiber)*100 + hdu_or_column)*256 + pixel_or_fit_number)')
    else:
        print('(value = ((uid*1000 + fiber)*100 + hdu)*100 + pixel)')
    return 0


def replay_history(ctx, rep):
    h = rep['history']
    old_root, new_root = h['root'], os.path.join(ctx.work, 'replay')

    def mv(x):
        return new_root + x[len(old_root):] if isinstance(x, str) and x.startswith(old_root) else x

    def tree(t):
        tt = dict(t)
        tt['top'] = mv(t['top'])
        tt['files'] = [file_arrays(m) for m in t['files']]
        return tt
    calls = []
    for st in h['sequence']:
        c = dict(st['call'])
        c['kwargs'] = {k: mv(v) for k, v in c['kwargs'].items()}
        c['env'] = {k: mv(v) for k, v in c['env'].items()}
        if st.get('build_first'):
            c['build_first'] = [tree(t) for t in st['build_first']]
        calls.append(c)
    out = C.run_impl('c16_impl.py', {'jobs': [{'kind': 'scenario', 'trees': [tree(t) for t in h['trees']], 'calls': calls}]})
    res = out['results'][0]
    print(h['note'])
    for t in h['trees']:
        print('tree   : %s run2d=%s  %s' % (mv(t['top']), t['run2d'], [(m['plate'], m['mjd'], 'uid=%d' % m['uid']) for m in t['files']]))
    for n, (st, c, r) in enumerate(zip(h['sequence'], calls, res)):
        if st.get('build_first'):
            for t in st['build_first']:
                print('  (new file appears in %s: %s)' % (mv(t['top']), [(m['plate'], m['mjd'], 'uid=%d' % m['uid']) for m in t['files']]))
        loc = {k: v for k, v in c['kwargs'].items()}
        envs = {k: v for k, v in c['env'].items() if k in ('RUN2D', 'BOSS_SPECTRO_REDUX', 'SPECTRO_REDUX')}
        got = ('raised %s' % r['err']) if 'err' in r else 'flux first column %s' % [row[0] for row in r['arrays'][0]]
        print('call %2d [%s]: readspec(plate=%s, mjd=%s, fiber=%s, **%s) env=%s\n         requests %s\n         -> %s' % (
            n + 1, st['sub'], c['plate'], c['mjd'], c['fiber'], loc, envs, st['requests'], got))
    files = [file_arrays(m) for m in rep['scenario']['metas']]
    reqs = [tuple(r) for r in rep['requests']]
    sp = spec_py(files, reqs, None)
    last = res[-1]
    if sp and 'err' not in last:
        exp = dict(zip(*sp))
        bad = [n for n, a in zip(last['names'], last['arrays']) if exp.get(n) != a]
        print('last call: expected flux first column %s ; outputs differing from the specification: %s' % (
            [r[0] for r in exp['flux']], bad))
    elif sp:
        print('last call: every request is valid (expected flux first column %s) but the call raised %s' % (
            [r[0] for r in dict(zip(*sp))['flux']], last['err']))
    print('(value = ((uid*1000 + fiber)*100 + hdu)*100 + pixel)')
    return 0
