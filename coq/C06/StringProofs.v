(* C06, strings: proofs about the byte-level string models of C06/Strings.v.
   Main results: int(str(n)) = n for every n >= 0 (parse_pyint_dec), the decimal digits of n read back as n
   (undec_digits_of), a (\d+) group followed by a non-digit captures exactly the printed number (take_digits_dec),
   and the other direction for canonical digit strings (digits_of_undec: printing the value of a digit string
   without leading zero gives that string back). *)
From Coq Require Import ZArith List Bool Lia ZifyBool.
Import ListNotations.
From PV Require Import C06.Strings.
Open Scope Z_scope.
Ltac Zify.zify_post_hook ::= Z.to_euclidean_division_equations.

Definition digit (d : Z) : Prop := 0 <= d <= 9.

Lemma pow10_succ f : 10 ^ Z.of_nat (S f) = 10 * 10 ^ Z.of_nat f.
Proof. rewrite Nat2Z.inj_succ, Z.pow_succ_r by lia. reflexivity. Qed.

Lemma dec_le_val f : forall n, 0 <= n < 10 ^ Z.of_nat f -> val_le (dec_le f n) = n.
Proof.
  induction f as [|f IH]; intros n H.
  - cbn in H. cbn. lia.
  - rewrite pow10_succ in H. cbn [dec_le val_le].
    destruct (Z.ltb_spec n 10) as [Hlt|Hge]; cbn [val_le].
    + lia.
    + rewrite IH by lia. lia.
Qed.

Lemma dec_le_digits f : forall n, 0 <= n -> Forall digit (dec_le f n).
Proof.
  induction f as [|f IH]; intros n H; cbn [dec_le]; [constructor|].
  constructor; [unfold digit; lia|]. destruct (n <? 10); [constructor | apply IH; lia].
Qed.

Lemma undec_app a l d : undec a (l ++ [d]) = undec a l * 10 + d.
Proof. revert a; induction l as [|x l IH]; intros a; cbn [app undec]; [reflexivity | apply IH]. Qed.

Lemma undec_rev l : undec 0 (rev l) = val_le l.
Proof.
  induction l as [|d r IH]; [reflexivity|]. cbn [rev val_le]. rewrite undec_app, IH. lia.
Qed.

Lemma fuel_enough n : 0 <= n -> n < 10 ^ Z.of_nat (S (Z.to_nat (Z.log2 n))).
Proof.
  intros H. rewrite Nat2Z.inj_succ, Z2Nat.id by apply Z.log2_nonneg.
  destruct (Z.eq_dec n 0) as [->|Hn]; [cbn; lia|].
  pose proof (Z.log2_spec n ltac:(lia)) as [_ Hs].
  assert (2 ^ Z.succ (Z.log2 n) <= 10 ^ Z.succ (Z.log2 n))
    by (apply Z.pow_le_mono_l; pose proof (Z.log2_nonneg n); lia).
  lia.
Qed.

Theorem undec_digits_of n : 0 <= n -> undec 0 (digits_of n) = n.
Proof.
  intros H. unfold digits_of. rewrite undec_rev. apply dec_le_val. split; [exact H | apply fuel_enough; exact H].
Qed.

Lemma digits_of_digits n : 0 <= n -> Forall digit (digits_of n).
Proof. intros H. unfold digits_of. apply Forall_rev. apply dec_le_digits. exact H. Qed.

Lemma digits_of_nonempty n : digits_of n <> [].
Proof.
  unfold digits_of. cbn [dec_le rev]. intros E. apply app_eq_nil in E. destruct E as [_ E]. discriminate E.
Qed.

(* ---- int(str) ---- *)

Lemma digit_char d : digit d -> is_digit (d + 48) = true /\ is_ws (d + 48) = false /\
  (d + 48 =? 43) = false /\ (d + 48 =? 45) = false /\ (d + 48 =? 95) = false /\ d + 48 - 48 = d.
Proof. unfold digit, is_digit, is_ws. intros H. repeat split; lia. Qed.

Lemma scan_digits_chars ds : forall acc flag, Forall digit ds ->
  scan_digits acc flag (chars ds) =
  match ds with [] => if flag then Some acc else None | _ => Some (undec acc ds) end.
Proof.
  induction ds as [|d r IH]; intros acc flag F; [reflexivity|].
  inversion F as [|? ? Hd Fr]; subst. destruct (digit_char d Hd) as (E1 & _ & _ & _ & _ & E6).
  cbn [chars map scan_digits]. rewrite E1, E6. fold (chars r). rewrite IH by exact Fr.
  destruct r; reflexivity.
Qed.

Lemma lstrip_chars ds : Forall digit ds -> lstrip (chars ds) = chars ds.
Proof.
  intros F. destruct ds as [|d r]; [reflexivity|]. inversion F as [|? ? Hd _]; subst.
  destruct (digit_char d Hd) as (_ & E2 & _). cbn [chars map lstrip]. rewrite E2. reflexivity.
Qed.

Lemma rev_chars ds : rev (chars ds) = chars (rev ds).
Proof. unfold chars. symmetry. apply map_rev. Qed.

Lemma strip_chars ds : Forall digit ds -> strip (chars ds) = chars ds.
Proof.
  intros F. unfold strip. rewrite lstrip_chars by exact F. rewrite rev_chars.
  rewrite lstrip_chars by (apply Forall_rev; exact F). rewrite rev_chars, rev_involutive. reflexivity.
Qed.

Lemma parse_pyint_chars ds : Forall digit ds -> ds <> [] -> parse_pyint (chars ds) = Some (undec 0 ds).
Proof.
  intros F Hne. unfold parse_pyint. rewrite strip_chars by exact F.
  destruct ds as [|d r]; [congruence|]. inversion F as [|? ? Hd Fr]; subst.
  destruct (digit_char d Hd) as (_ & _ & E3 & E4 & _). cbn [chars map]. rewrite E3, E4.
  exact (scan_digits_chars (d :: r) 0 false F).
Qed.

(* int('{:d}'.format(n)) = n *)
Theorem parse_pyint_dec n : 0 <= n -> parse_pyint (dec n) = Some n.
Proof.
  intros H. unfold dec. rewrite parse_pyint_chars by (try apply digits_of_digits; try apply digits_of_nonempty; exact H).
  rewrite undec_digits_of by exact H. reflexivity.
Qed.

(* ---- (\d+) groups ---- *)

Definition nodigit_head (s : list Z) : Prop := match s with [] => True | c :: _ => is_digit c = false end.

Lemma take_digits_chars ds rest : Forall digit ds -> nodigit_head rest ->
  take_digits (chars ds ++ rest) = (ds, rest).
Proof.
  intros F Hr. induction F as [|d r Hd Fr IH].
  - cbn [chars map app]. destruct rest as [|c t]; [reflexivity|]. cbn in Hr. cbn [take_digits]. rewrite Hr. reflexivity.
  - destruct (digit_char d Hd) as (E1 & _ & _ & _ & _ & E6).
    cbn [chars map app take_digits]. rewrite E1. fold (chars r). rewrite IH, E6. reflexivity.
Qed.

Theorem take_digits_dec n rest : 0 <= n -> nodigit_head rest -> take_digits (dec n ++ rest) = (digits_of n, rest).
Proof. intros H Hr. apply take_digits_chars; [apply digits_of_digits; exact H | exact Hr]. Qed.

Lemma strip_prefix_app l s : strip_prefix l (l ++ s) = Some s.
Proof. induction l as [|a l IH]; [reflexivity|]. cbn [app strip_prefix]. rewrite Z.eqb_refl. exact IH. Qed.

Lemma dec_signed_nonneg n : 0 <= n -> dec_signed n = dec n.
Proof. intros H. unfold dec_signed. destruct (Z.ltb_spec n 0); [lia | reflexivity]. Qed.

(* ---- the other direction: a digit string without leading zero is the printed form of its value ---- *)

Lemma val_le_nonneg l : Forall digit l -> 0 <= val_le l.
Proof. induction 1 as [|d r Hd _ IH]; cbn [val_le]; unfold digit in *; lia. Qed.

Lemma val_le_pos l : Forall digit l -> l <> [] -> last l 0 <> 0 -> 0 < val_le l.
Proof.
  induction 1 as [|d r Hd Fr IH]; intros Hne Hl; [congruence|].
  cbn [val_le]. destruct r as [|e r'].
  - cbn in Hl. unfold digit in Hd. cbn. lia.
  - assert (0 < val_le (e :: r')) by (apply IH; [discriminate | exact Hl]). unfold digit in Hd. lia.
Qed.

Lemma dec_le_val_le l : forall f, Forall digit l -> l <> [] -> (length l <= f)%nat ->
  (tl l <> [] -> last l 0 <> 0) -> dec_le f (val_le l) = l.
Proof.
  induction l as [|d r IH]; intros f F Hne Hf Hl; [congruence|].
  inversion F as [|? ? Hd Fr]; subst. destruct f as [|f]; [cbn in Hf; lia|].
  cbn [dec_le val_le]. pose proof (val_le_nonneg r Fr) as Hv. unfold digit in Hd.
  destruct r as [|e r'].
  - cbn [val_le]. replace (d + 10 * 0) with d by lia. destruct (Z.ltb_spec d 10); [|lia].
    f_equal. lia.
  - assert (Hp : 0 < val_le (e :: r')) by (apply val_le_pos; [exact Fr | discriminate | apply Hl; discriminate]).
    destruct (Z.ltb_spec (d + 10 * val_le (e :: r')) 10); [lia|].
    f_equal; [lia|].
    replace ((d + 10 * val_le (e :: r')) / 10) with (val_le (e :: r')) by lia.
    apply IH; [exact Fr | discriminate | cbn [length] in *; lia |].
    intros _. apply Hl. discriminate.
Qed.

Lemma pow2_le_val l : Forall digit l -> l <> [] -> last l 0 <> 0 -> 2 ^ (Z.of_nat (length l) - 1) <= val_le l.
Proof.
  induction 1 as [|d r Hd Fr IH]; intros Hne Hl; [congruence|].
  destruct r as [|e r'].
  - cbn in *. unfold digit in Hd. lia.
  - specialize (IH ltac:(discriminate) Hl). change (val_le (d :: e :: r')) with (d + 10 * val_le (e :: r')).
    change (length (d :: e :: r')) with (S (length (e :: r'))).
    rewrite Nat2Z.inj_succ. replace (Z.succ (Z.of_nat (length (e :: r'))) - 1) with (Z.succ (Z.of_nat (length (e :: r')) - 1)) by lia.
    rewrite Z.pow_succ_r by (cbn [length]; lia). unfold digit in Hd. lia.
Qed.

(* ds most significant first: either the single digit 0 or no leading zero *)
Definition canonical (ds : list Z) : Prop := Forall digit ds /\ ds <> [] /\ (tl ds <> [] -> hd 0 ds <> 0).

Lemma last_rev_hd (ds : list Z) : last (rev ds) 0 = hd 0 ds.
Proof. destruct ds as [|d r]; [reflexivity|]. cbn [rev hd]. apply last_last. Qed.

Theorem digits_of_undec ds : canonical ds -> digits_of (undec 0 ds) = ds.
Proof.
  intros (F & Hne & Hz). rewrite <- (rev_involutive ds) at 1. rewrite undec_rev.
  set (l := rev ds). assert (Fl : Forall digit l) by (apply Forall_rev; exact F).
  assert (Nl : l <> []) by (intros E; apply Hne; rewrite <- (rev_involutive ds); fold l; rewrite E; reflexivity).
  assert (Ll : tl l <> [] -> last l 0 <> 0).
  { intros Ht. unfold l. rewrite last_rev_hd. apply Hz. intros E. apply Ht.
    destruct ds as [|d [|e r]]; [congruence | reflexivity | discriminate E]. }
  unfold digits_of. rewrite <- (rev_involutive ds). fold l. f_equal.
  apply dec_le_val_le; try assumption.
  (* the fuel S (log2 value) covers the number of digits *)
  destruct (list_eq_dec Z.eq_dec (tl l) []) as [Et|Et].
  - destruct l as [|d [|e r]]; [congruence | cbn; lia | discriminate Et].
  - pose proof (pow2_le_val l Fl Nl (Ll Et)) as P.
    assert (Hlen : 0 <= Z.of_nat (length l) - 1) by (destruct l; [congruence | cbn [length]; lia]).
    assert (Z.of_nat (length l) - 1 <= Z.log2 (val_le l)).
    { apply Z.log2_le_pow2; [|exact P]. pose proof (Z.pow_pos_nonneg 2 (Z.of_nat (length l) - 1) ltac:(lia) Hlen). lia. }
    pose proof (Z.log2_nonneg (val_le l)). lia.
Qed.

Lemma chars_inj a b : chars a = chars b -> a = b.
Proof.
  revert b; induction a as [|x a IH]; intros [|y b] H; try discriminate H; [reflexivity|].
  cbn in H. inversion H. f_equal; [lia | apply IH; assumption].
Qed.
