(* C13: all proofs (re-exported); see LinAlgProofs, BasisProofs, ChebR, FitProofs, FitProofs2, FitGenProofs, TraceProofs, GJProofs, FitTotal. *)
From PV Require Export C13.LinAlgProofs C13.BasisProofs C13.ChebR C13.FitProofs C13.FitProofs2 C13.FitGenProofs C13.TraceProofs C13.GJProofs C13.FitTotal.
