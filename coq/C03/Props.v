(* placeholder; replaced below *)
From PV Require Import C03.Model.
