(* C17 -- rejection, mask interpolation, aesthetics, reflecting median, sky masking.
   Executable definitions ONLY (no proofs).

   For each routine there are two definitions:
     M  ("..._model")  a transliteration of what the Python does (loop for loop, state passing),
     S  ("..._spec")   the simplest executable statement of what the property demands
                       (dilation by existsb, nearest-neighbour search, reflected window median).
   S never mentions M.  Theorems relating them are in C17/Proofs*.v.

   Real numbers are exact rationals Q; square roots of the inverse variance are eliminated by
   squaring under sign conditions (sqrtmul_lt, justified in Proofs by sqrtmul_lt_correct). *)
From Coq Require Import ZArith QArith Qabs List Bool Lia.
Import ListNotations.
From PV Require Export C17.Base.
From PV Require Import Generated.Reject Generated.SkyMask Generated.MaskInterp.
Open Scope Q_scope.

(* The pieces named rej_..., sky_..., mi_... are GENERATED from the pydl source on every run by
   translate/c17.py (coq/Generated/Reject.v, SkyMask.v, MaskInterp.v): comparison operators and threshold
   expressions of every limit branch, the inmask / sticky products, the grow loop bounds and clamps, the
   qdone expression, skymask's flag tests, width arithmetic, smooth() arguments and `> 0` test, and the
   `const` rules of djs_maskinterp1.  M is assembled from them; S never mentions them. *)

(* ------------------------------------------------------------------ generic helpers *)

Definition zrange (lo : Z) (n : nat) : list Z := map (fun k => (lo + Z.of_nat k)%Z) (seq 0 n).

(* indices k+0, k+1, ... at which the list holds the wanted boolean (numpy .nonzero()[0]) *)
Fixpoint positions_from (k : nat) (m : list bool) (want : bool) : list nat :=
  match m with
  | [] => []
  | b :: r => if Bool.eqb b want then k :: positions_from (S k) r want else positions_from (S k) r want
  end.

(* ------------------------------------------------------------------ dilation (S) *)

(* |i - j| <= r on naturals *)
Definition near (r i j : nat) : bool := (i <=? j + r)%nat && (j <=? i + r)%nat.

(* some flagged sample lies within r of i *)
Definition dil_at (m : list bool) (r i : nat) : bool :=
  existsb (fun j => near r i j && nth j m false) (seq 0 (length m)).

Definition dilate_spec (m : list bool) (r : nat) : list bool := map (dil_at m r) (seq 0 (length m)).

(* ------------------------------------------------------------------ djs_reject *)

Inductive scale := Sig (s : Q) | Ivar (iv : Q).
Record point := mkP { p_data : Q; p_model : Q; p_scale : scale; p_in : bool; p_out : bool }.
Record ropts := mkO { o_lower : option Q; o_upper : option Q; o_maxdev : option Q; o_sticky : bool; o_grow : nat }.

(* M: the `badness` working array, accumulated branch by branch from the generated qbad tests and terms
   (the port turned IDL's maximum operator `> 0` into a comparison, so the sigma terms are 0/1) *)
Definition badness (o : ropts) (p : point) : Q :=
  let d := p_data p - p_model p in
  (match o_lower o with
   | None => 0
   | Some l =>
     match p_scale p with
     | Sig s => rej_lower_sig_term d l s (rej_lower_sig_qbad d l s)
     | Ivar iv => rej_lower_iv_term d l iv (rej_lower_iv_qbad d l iv)
     end
   end)
  + (match o_upper o with
     | None => 0
     | Some u =>
       match p_scale p with
       | Sig s => rej_upper_sig_term d u s (rej_upper_sig_qbad d u s)
       | Ivar iv => rej_upper_iv_term d u iv (rej_upper_iv_qbad d u iv)
       end
     end)
  + (match o_maxdev o with
     | None => 0
     | Some x => rej_maxdev_term d x (rej_maxdev_qbad d x)
     end).

(* badness *= inmask ; if sticky: badness *= outmask *)
Definition badness_masked (o : ropts) (p : point) : Q :=
  rej_products (badness o p) (p_in p) (p_out p) (o_sticky o).

(* newmask[idx] = 0 *)
Definition set_false (i : nat) (m : list bool) : list bool :=
  if (i <? length m)%nat then firstn i m ++ false :: skipn (S i) m else m.

(* numpy index -> list position: negative indices count from the end *)
Definition np_index (n i : Z) : nat := Z.to_nat (if (i <? 0)%Z then (n + i)%Z else i).

(* one value of k:  newmask[<left index>] = 0 ; newmask[<right index>] = 0  with the generated index
   expressions (np.maximum(irejects-k, 0), np.minimum(irejects+k, n-1)) *)
Definition grow_pass (n : nat) (k : Z) (rej : list nat) (m : list bool) : list bool :=
  let zn := Z.of_nat n in
  let m1 := fold_left (fun acc p => set_false (np_index zn (rej_grow_left (Z.of_nat p) k zn)) acc) rej m in
  fold_left (fun acc p => set_false (np_index zn (rej_grow_right (Z.of_nat p) k zn)) acc) rej m1.

(* if grow > 0: for k in range(klo, khi), around the points rejected before growing *)
Definition grow_model (g : nat) (m : list bool) : list bool :=
  let rej := positions_from 0 m false in
  let zg := Z.of_nat g in
  if rej_grow_guard zg
  then fold_left (fun acc k => grow_pass (length m) k rej acc)
                 (zrange (rej_grow_klo zg) (Z.to_nat (rej_grow_khi zg - rej_grow_klo zg))) m
  else m.

Definition reject_model (o : ropts) (pts : list point) : list bool * bool :=
  let newmask := map (fun p => rej_newmask (badness_masked o p)) pts in
  let grown := grow_model (o_grow o) newmask in
  let final := map (fun gp => rej_final (fst gp) (p_in (snd gp)) (p_out (snd gp)) (o_sticky o)) (combine grown pts) in
  (final, rej_qdone final (map p_out pts)).

(* S: which points are beyond the limits (documented rule), which are rejected, qdone *)
Definition beyond (o : ropts) (p : point) : bool :=
  let d := p_data p - p_model p in
  (match o_lower o with
   | None => false
   | Some l => match p_scale p with Sig s => Qltb d ((- l) * s) | Ivar iv => sqrtmul_lt d iv (- l) end
   end)
  || (match o_upper o with
      | None => false
      | Some u => match p_scale p with Sig s => Qltb (u * s) d | Ivar iv => sqrtmul_lt (- d) iv (- u) end
      end)
  || (match o_maxdev o with None => false | Some x => Qltb x (Qabs d) end).

Definition eligible (o : ropts) (p : point) : bool := p_in p && (negb (o_sticky o) || p_out p).
Definition bad_spec (o : ropts) (p : point) : bool := eligible o p && beyond o p.

Definition reject_spec (o : ropts) (pts : list point) : list bool * bool :=
  let bad := map (bad_spec o) pts in
  let nm := map (fun ip => eligible o (snd ip) && negb (dil_at bad (o_grow o) (fst ip)))
                (combine (seq 0 (length pts)) pts) in
  (nm, list_beq nm (map p_out pts)).

(* ---- calls that supply BOTH keywords (or neither).  The documentation: "If both sigma and invvar are set, invvar
   will be ignored"; the property: limits "in units of the supplied sigma or 1/sqrt(invvar)".
   A point2 carries the values of both keywords at that point (0 where the keyword is absent); the call says which
   keywords were given. *)
Record point2 := mkP2 { q_pt : point; q_sigma : Q; q_invvar : Q }.

Definition with_scale (p : point) (sc : scale) : point := mkP (p_data p) (p_model p) sc (p_in p) (p_out p).
Definition pick_scale (use_sigma : bool) (q : point2) : scale := if use_sigma then Sig (q_sigma q) else Ivar (q_invvar q).

(* M: every limit branch picks its scaling by the GENERATED test of the source (rej_lower_use_sigma, rej_upper_use_sigma:
   `sigma is not None`); sigma counts as given after the estimation block ran (rej_estimates_sigma) *)
Definition lower_term (o : ropts) (d : Q) (sc : scale) : Q :=
  match o_lower o with
  | None => 0
  | Some l =>
    match sc with
    | Sig s => rej_lower_sig_term d l s (rej_lower_sig_qbad d l s)
    | Ivar iv => rej_lower_iv_term d l iv (rej_lower_iv_qbad d l iv)
    end
  end.
Definition upper_term (o : ropts) (d : Q) (sc : scale) : Q :=
  match o_upper o with
  | None => 0
  | Some u =>
    match sc with
    | Sig s => rej_upper_sig_term d u s (rej_upper_sig_qbad d u s)
    | Ivar iv => rej_upper_iv_term d u iv (rej_upper_iv_qbad d u iv)
    end
  end.
Definition maxdev_term (o : ropts) (d : Q) : Q :=
  match o_maxdev o with None => 0 | Some x => rej_maxdev_term d x (rej_maxdev_qbad d x) end.

Definition badness2 (o : ropts) (p : point) (scl scu : scale) : Q :=
  let d := p_data p - p_model p in lower_term o d scl + upper_term o d scu + maxdev_term o d.

Definition sigma_set (sg ivg : bool) : bool := sg || rej_estimates_sigma sg ivg.

Definition reject_model2 (o : ropts) (sg ivg : bool) (qs : list point2) : list bool * bool :=
  let s' := sigma_set sg ivg in
  let newmask := map (fun q => rej_newmask (rej_products
                                (badness2 o (q_pt q) (pick_scale (rej_lower_use_sigma s' ivg) q) (pick_scale (rej_upper_use_sigma s' ivg) q))
                                (p_in (q_pt q)) (p_out (q_pt q)) (o_sticky o))) qs in
  let grown := grow_model (o_grow o) newmask in
  let final := map (fun gq => rej_final (fst gq) (p_in (q_pt (snd gq))) (p_out (q_pt (snd gq))) (o_sticky o)) (combine grown qs) in
  (final, rej_qdone final (map (fun q => p_out (q_pt q)) qs)).

(* S: the documented choice -- the supplied sigma sets the units whenever sigma is supplied (invvar is then ignored),
   1/sqrt(invvar) when only invvar is; with neither keyword only the absolute limit is inside the property
   (call2_ok), and then the scale is never looked at.  Independent of Generated. *)
Definition supplied_scale (sg : bool) (q : point2) : scale := if sg then Sig (q_sigma q) else Ivar (q_invvar q).
Definition resolve (sg : bool) (q : point2) : point := with_scale (q_pt q) (supplied_scale sg q).
Definition reject_spec2 (o : ropts) (sg ivg : bool) (qs : list point2) : list bool * bool :=
  reject_spec o (map (resolve sg) qs).
Definition call2_ok (o : ropts) (sg ivg : bool) : bool :=
  sg || ivg || (match o_lower o with None => true | Some _ => false end && match o_upper o with None => true | Some _ => false end).

(* preconditions under which M and S are proved equal (generator stays inside) *)
Definition scale_ok (sc : scale) : bool := match sc with Sig s => Qle_bool 0 s | Ivar iv => Qle_bool 0 iv end.
Definition opts_ok (o : ropts) : bool :=
  (match o_lower o with Some l => Qle_bool 0 l | None => true end)
  && (match o_upper o with Some u => Qle_bool 0 u | None => true end)
  && (match o_maxdev o with Some x => Qltb 0 x | None => true end).

(* ------------------------------------------------------------------ djs_maskinterp1 *)

(* numpy.interp(x, xp, fp) for increasing xp: clamped piecewise-linear interpolation *)
Fixpoint interp_from (x0 y0 : Q) (rest : list (Q * Q)) (x : Q) : Q :=
  match rest with
  | [] => y0
  | (x1, y1) :: rest' =>
    if Qltb x x1 then (y1 - y0) / (x1 - x0) * (x - x0) + y0 else interp_from x1 y1 rest' x
  end.

Definition interp (pts : list (Q * Q)) (x : Q) : Q :=
  match pts with
  | [] => 0
  | (x0, y0) :: rest => if Qle_bool x x0 then y0 else interp_from x0 y0 rest x
  end.

(* stable insertion sort of (x, y) pairs by x: xval.argsort() restricted to the good samples *)
Fixpoint insert_pt (p : Q * Q) (l : list (Q * Q)) : list (Q * Q) :=
  match l with
  | [] => [p]
  | q :: r => if Qltb (fst p) (fst q) then p :: l else q :: insert_pt p r
  end.
Fixpoint sort_pts (l : list (Q * Q)) : list (Q * Q) :=
  match l with [] => [] | p :: r => insert_pt p (sort_pts r) end.

(* the good samples as (x, y) pairs, in array order *)
Fixpoint good_pts (xs ys : list Q) (mask : list bool) : list (Q * Q) :=
  match xs, ys, mask with
  | x :: xs', y :: ys', m :: mask' => if m then good_pts xs' ys' mask' else (x, y) :: good_pts xs' ys' mask'
  | _, _, _ => []
  end.

Definition index_x (n : nat) : list Q := map qnat (seq 0 n).

(* M: djs_maskinterp1 (xval = None -> sample index is the abscissa, igood already increasing;
   xval given -> the good samples are sorted by x first).  `const` only re-assigns the values
   numpy.interp already clamps, so it does not appear. *)
Definition maskinterp1_model (ys : list Q) (mask : list bool) (xval : option (list Q)) : list Q :=
  if forallb negb mask then ys
  else
    let xs := match xval with Some xs => xs | None => index_x (length ys) end in
    let gp := good_pts xs ys mask in
    match gp with
    | [] => ys
    | [g] => map (fun _ : Q => snd g) ys
    | _ =>
      let table := match xval with Some _ => sort_pts gp | None => gp end in
      map (fun t : Q * (Q * bool) => if snd (snd t) then interp table (fst t) else fst (snd t)) (combine xs (combine ys mask))
    end.

(* S: nearest good neighbour on each side by exhaustive search (no ordering assumed) *)
Fixpoint pick_left (pts : list (Q * Q)) (x : Q) : option (Q * Q) :=
  match pts with
  | [] => None
  | p :: r =>
    let b := pick_left r x in
    if Qltb (fst p) x
    then match b with Some q => if Qltb (fst p) (fst q) then Some q else Some p | None => Some p end
    else b
  end.
Fixpoint pick_right (pts : list (Q * Q)) (x : Q) : option (Q * Q) :=
  match pts with
  | [] => None
  | p :: r =>
    let b := pick_right r x in
    if Qltb x (fst p)
    then match b with Some q => if Qltb (fst q) (fst p) then Some q else Some p | None => Some p end
    else b
  end.

Definition lin (xl yl xr yr x : Q) : Q := yl + (yr - yl) * ((x - xl) / (xr - xl)).

Definition interp_spec_at (pts : list (Q * Q)) (x yself : Q) : Q :=
  match pick_left pts x, pick_right pts x with
  | Some (xl, yl), Some (xr, yr) => lin xl yl xr yr x
  | Some (_, yl), None => yl
  | None, Some (_, yr) => yr
  | None, None => yself
  end.

Definition maskinterp1_spec (ys : list Q) (mask : list bool) (xval : option (list Q)) : list Q :=
  let xs := match xval with Some xs => xs | None => index_x (length ys) end in
  let gp := good_pts xs ys mask in
  map (fun t : Q * (Q * bool) => if snd (snd t) then interp_spec_at gp (fst t) (fst (snd t)) else fst (snd t))
      (combine xs (combine ys mask)).

(* n-D arrays (djs_maskinterp): the array is a flat list (C order) and `lines` lists, for every 1-D line
   along the chosen axis, the flat indices of its samples (pydl numbers axes the IDL way: axis = 0 is the
   fastest-varying, last numpy axis; the harness computes the index lists and cross-checks them with numpy).
   M: ynew = zeros; for each line: ynew[line] = djs_maskinterp1(yval[line], mask[line], xval[line]). *)
Definition gather {A} (d : A) (flat : list A) (line : list nat) : list A := map (fun k => nth k flat d) line.

Definition set_nth (k : nat) (v : Q) (l : list Q) : list Q :=
  if (k <? length l)%nat then firstn k l ++ v :: skipn (S k) l else l.

Fixpoint scatter (out : list Q) (line : list nat) (vals : list Q) : list Q :=
  match line, vals with
  | k :: line', v :: vals' => scatter (set_nth k v out) line' vals'
  | _, _ => out
  end.

(* the index lists of the lines of a C-ordered array of shape `shape` along numpy axis `ax`:
   element (o, k, i) -- outer block, position on the axis, inner block -- sits at ((o*len + k)*inner + i);
   lines are enumerated as numpy.moveaxis(idx, ax, -1).reshape(-1, len) does *)
Definition prod (l : list nat) : nat := fold_right Nat.mul 1%nat l.
Definition lines_of (shape : list nat) (ax : nat) : list (list nat) :=
  let outer := prod (firstn ax shape) in
  let len := nth ax shape O in
  let inner := prod (skipn (S ax) shape) in
  flat_map (fun o => map (fun i => map (fun k => ((o * len + k) * inner + i)%nat) (seq 0 len)) (seq 0 inner))
           (seq 0 outer).
(* pydl numbers axes the IDL way: axis k is numpy axis ndim-1-k *)
Definition lines_pydl (shape : list nat) (axis : nat) : list (list nat) := lines_of shape (length shape - 1 - axis).

Definition lines_eqb (a b : list (list nat)) : bool :=
  Nat.eqb (length a) (length b) &&
  forallb (fun p => Nat.eqb (length (fst p)) (length (snd p)) && forallb (fun q => Nat.eqb (fst q) (snd q)) (combine (fst p) (snd p)))
          (combine a b).

Definition line_model (ys : list Q) (mask : list bool) (xval : option (list Q)) (line : list nat) : list Q :=
  maskinterp1_model (gather 0 ys line) (gather false mask line) (option_map (fun xs => gather 0 xs line) xval).
Definition line_spec (ys : list Q) (mask : list bool) (xval : option (list Q)) (line : list nat) : list Q :=
  maskinterp1_spec (gather 0 ys line) (gather false mask line) (option_map (fun xs => gather 0 xs line) xval).

Definition maskinterp_nd_model (ys : list Q) (mask : list bool) (xval : option (list Q)) (lines : list (list nat)) : list Q :=
  fold_left (fun out line => scatter out line (line_model ys mask xval line)) lines (map (fun _ : Q => 0) ys).

(* S: the output at flat index k is sample p of the 1-D specification applied to the line through k *)
Fixpoint pos_in (k : nat) (line : list nat) : option nat :=
  match line with
  | [] => None
  | j :: r => if (k =? j)%nat then Some O else option_map S (pos_in k r)
  end.
Fixpoint find_line (k : nat) (lines : list (list nat)) : option (list nat * nat) :=
  match lines with
  | [] => None
  | l :: r => match pos_in k l with Some p => Some (l, p) | None => find_line k r end
  end.
Definition maskinterp_nd_spec (ys : list Q) (mask : list bool) (xval : option (list Q)) (lines : list (list nat)) : list Q :=
  map (fun k => match find_line k lines with
                | Some (l, p) => nth p (line_spec ys mask xval l) 0
                | None => 0
                end) (seq 0 (length ys)).

(* ---- the whole call djs_maskinterp(yval, mask, xval, axis): argument checks and the dispatch on (ndim, xval given,
   axis) are GENERATED (Generated/MaskInterp.v: nd_check_..., nd_axis_..., nd_table).  A leaf of the table says which
   dimensions the nested loops run over and where the loop variables and the `:` sit in the index; entry_lines
   enumerates the flat (C order) indices the leaf touches, loop iteration by loop iteration. *)
Definition nd_entry := (nat * bool * option Z * list nat * list (option nat) * bool)%type.
Definition e_ndim (e : nd_entry) : nat := fst (fst (fst (fst (fst e)))).
Definition e_hasx (e : nd_entry) : bool := snd (fst (fst (fst (fst e)))).
Definition e_axis (e : nd_entry) : option Z := snd (fst (fst (fst e))).
Definition e_dims (e : nd_entry) : list nat := snd (fst (fst e)).
Definition e_pat (e : nd_entry) : list (option nat) := snd (fst e).
Definition e_passx (e : nd_entry) : bool := snd e.

(* the first leaf (source order) under `ndim == n`, `xval is None` / else, whose axis test holds *)
Fixpoint nd_find (tbl : list nd_entry) (ndim : nat) (hasx : bool) (axis : Z) : option nd_entry :=
  match tbl with
  | [] => None
  | e :: r =>
    if Nat.eqb (e_ndim e) ndim && Bool.eqb (e_hasx e) hasx
       && match e_axis e with Some k => Z.eqb axis k | None => true end
    then Some e else nd_find r ndim hasx axis
  end.

(* values of the loop variables, outer loop first, in iteration order *)
Fixpoint loop_envs (shape dims : list nat) : list (list nat) :=
  match dims with
  | [] => [[]]
  | d :: r => flat_map (fun i => map (cons i) (loop_envs shape r)) (seq 0 (nth d shape O))
  end.

(* C-order flat index of a full index tuple *)
Fixpoint flat_index (shape idx : list nat) : nat :=
  match shape, idx with
  | _ :: sh, i :: r => (i * prod sh + flat_index sh r)%nat
  | _, _ => O
  end.

Fixpoint slice_pos (pat : list (option nat)) : nat :=
  match pat with Some _ :: r => S (slice_pos r) | _ => O end.

Definition entry_lines (shape : list nat) (e : nd_entry) : list (list nat) :=
  let len := nth (slice_pos (e_pat e)) shape O in
  map (fun env => map (fun k => flat_index shape (map (fun o : option nat => match o with Some j => nth j env O | None => k end) (e_pat e)))
                      (seq 0 len))
      (loop_envs shape (e_dims e)).

Definition shape_eqb (a b : list nat) : bool :=
  Nat.eqb (length a) (length b) && forallb (fun p => Nat.eqb (fst p) (snd p)) (combine a b).

(* NDErr = the call raises ValueError; NDOther = any other outcome that is not an array (never expected) *)
Inductive ndres := NDErr | NDOther | NDOk (l : list Q).

Definition maskinterp_call_model (ys : list Q) (mask : list bool) (xval : option (list Q))
    (shape mshape : list nat) (xshape : option (list nat)) (axis : option Z) : ndres :=
  if nd_check_mask_shape && negb (shape_eqb mshape shape) then NDErr
  else if nd_check_xval_shape && match xshape with Some xs => negb (shape_eqb xs shape) | None => false end then NDErr
  else
    let ndim := length shape in
    if Nat.eqb ndim 1 then NDOk (maskinterp1_model ys mask xval)
    else
      match axis with
      | None => if nd_axis_none_is_error then NDErr else NDOther
      | Some a =>
        if nd_axis_invalid a (Z.of_nat ndim) then NDErr
        else match nd_find nd_table ndim (match xval with Some _ => true | None => false end) a with
             | None => NDErr                                    (* else: raise ValueError('Unsupported number of dimensions.') *)
             | Some e => NDOk (maskinterp_nd_model ys mask (if e_passx e then xval else None) (entry_lines shape e))
             end
      end.

(* S for the whole call: arrays of one shape with 1 to 3 dimensions; a vector needs no axis; otherwise the axis must be
   one of 0 .. ndim-1 (pydl numbering) and every line along it is interpolated on its own; anything else is refused *)
Definition maskinterp_call_spec (ys : list Q) (mask : list bool) (xval : option (list Q))
    (shape mshape : list nat) (xshape : option (list nat)) (axis : option Z) : ndres :=
  if negb (shape_eqb mshape shape) || match xshape with Some xs => negb (shape_eqb xs shape) | None => false end then NDErr
  else
    let ndim := length shape in
    if Nat.eqb ndim 1 then NDOk (maskinterp1_spec ys mask xval)
    else if (2 <=? ndim)%nat && (ndim <=? 3)%nat then
      match axis with
      | Some a => if (0 <=? a)%Z && (a <? Z.of_nat ndim)%Z
                  then NDOk (maskinterp_nd_spec ys mask xval (lines_pydl shape (Z.to_nat a))) else NDErr
      | None => NDErr
      end
    else NDErr.

(* the generated dispatch reaches, for every shape with sides 0..3 of 2 or 3 dimensions, every axis and both xval
   variants, a leaf that passes xval on exactly when it is given and whose loops enumerate the lines of
   lines_pydl in the same order (all shapes: by the correspondence run, which compares the lines in every case) *)
Fixpoint shapes_upto (ndim side : nat) : list (list nat) :=
  match ndim with
  | O => [[]]
  | S n => flat_map (fun s => map (cons s) (shapes_upto n side)) (seq 0 (S side))
  end.
Definition nd_dispatch_ok_for (shape : list nat) (hasx : bool) (axis : nat) : bool :=
  match nd_find nd_table (length shape) hasx (Z.of_nat axis) with
  | Some e => Bool.eqb (e_passx e) hasx && lines_eqb (entry_lines shape e) (lines_pydl shape axis)
  | None => false
  end.
Definition nd_dispatch_check (side : nat) : bool :=
  forallb (fun ndim => forallb (fun shape => forallb (fun hasx => forallb (fun axis => nd_dispatch_ok_for shape hasx axis) (seq 0 ndim))
                                                     [false; true])
                               (shapes_upto ndim side))
          [2%nat; 3%nat].

(* ------------------------------------------------------------------ aesthetics *)

Fixpoint select {A} (keep : list bool) (l : list A) : list A :=
  match keep, l with
  | k :: keep', a :: l' => if k then a :: select keep' l' else select keep' l'
  | _, _ => []
  end.
Definition qsum (l : list Q) : Q := fold_right Qplus 0 l.

Inductive amethod := Traditional | Noconst | Mean | Nothing.

(* M, assembled from the GENERATED pieces of aesthetics() (Generated/MaskInterp.v, aes_...): the bad-pixel test,
   the all-bad shortcut (`if badpts.all(): return flux`), the any-bad guard, the mask expression handed to
   djs_maskinterp by traditional / noconst (`const` has no effect: C17_const_left_noop, C17_const_right_noop),
   the good-pixel test and the destination of the `mean` assignment *)
Definition aesthetics_model (meth : amethod) (flux iv : list Q) : list Q :=
  let bad := map aes_badpts iv in
  if aes_allbad_returns_input && forallb (fun b : bool => b) bad then flux
  else if existsb (fun b => b) bad then
    match meth with
    | Traditional => maskinterp1_model flux (map aes_trad_mask iv) None
    | Noconst => maskinterp1_model flux (map aes_noconst_mask iv) None
    | Mean =>
      let good := map aes_mean_good iv in
      let gs := select good flux in
      let mu := qsum gs / qnat (length gs) in
      map (fun fgb : Q * (bool * bool) => if aes_mean_dest (fst (snd fgb)) (snd (snd fgb)) then mu else fst fgb)
          (combine flux (combine good bad))
    | Nothing => flux
    end
  else flux.

(* the hand-written reference the theorems are proved about; C17_aesthetics_generated_is_reference states that
   the model assembled from the generated pieces IS this definition *)
Definition aesthetics_ref (meth : amethod) (flux iv : list Q) : list Q :=
  let bad := map (fun v => Qeq_bool v 0) iv in
  if forallb (fun b : bool => b) bad then flux
  else if existsb (fun b => b) bad then
    match meth with
    | Traditional | Noconst => maskinterp1_model flux bad None
    | Mean =>
      let good := map (fun v => Qltb 0 v) iv in
      let gs := select good flux in
      let mu := qsum gs / qnat (length gs) in
      map (fun fgb : Q * (bool * bool) => if negb (fst (snd fgb)) then mu else fst fgb) (combine flux (combine good bad))
    | Nothing => flux
    end
  else flux.

(* S: flux may differ from the input only where ivar = 0; there it is what the method prescribes (without any
   pixel of non-zero inverse variance there is nothing to base a value on: the spectrum is returned as it is) *)
Definition aesthetics_spec (meth : amethod) (flux iv : list Q) : list Q :=
  match meth with
  | Traditional | Noconst => maskinterp1_spec flux (map (fun v => Qeq_bool v 0) iv) None
  | Mean =>
    if forallb (fun v => Qeq_bool v 0) iv then flux
    else
      let gs := select (map (fun v => negb (Qeq_bool v 0)) iv) flux in
      map (fun fv : Q * Q => if Qeq_bool (snd fv) 0 then qsum gs / qnat (length gs) else fst fv) (combine flux iv)
  | Nothing => flux
  end.

(* ------------------------------------------------------------------ djs_median, boundary='reflect' *)
(* medians only select elements, so the samples are integers (dyadic floats scaled by the harness) *)

Open Scope Z_scope.

Fixpoint zinsert (a : Z) (l : list Z) : list Z :=
  match l with [] => [a] | b :: r => if a <=? b then a :: l else b :: zinsert a r end.
Fixpoint zsort (l : list Z) : list Z := match l with [] => [] | a :: r => zinsert a (zsort r) end.
Definition median_of (l : list Z) : Z := nth (Nat.div2 (length l)) (zsort l) 0.

(* element j of l, 0 outside (scipy.signal.medfilt pads with zeros) *)
Definition nthz (l : list Z) (j : Z) : Z := if j <? 0 then 0 else nth (Z.to_nat j) l 0.

(* pydl.median(array, width) for 1-D: medfilt(array, min(width, size)), edges restored *)
Definition pydl_median1 (arr : list Z) (width : Z) : list Z :=
  let n := Z.of_nat (length arr) in
  let kern := Z.min width n in
  let h := kern / 2 in
  let istart := (width - 1) / 2 in
  let iend := n - (width + 1) / 2 in
  map (fun i => if (i <? istart) || (iend <? i) then nthz arr i
                else median_of (map (fun j => nthz arr j) (zrange (i - h) (Z.to_nat kern))))
      (zrange 0 (length arr)).

(* MErr = the call raises ValueError; MOther = any other exception (never expected) *)
Inductive mres := MErr | MOther | MOk (l : list Z).

Definition median_reflect_model (xs : list Z) (width : Z) : mres :=
  if width =? 1 then MOk xs
  else
    let n := length xs in
    let pad := Z.to_nat ((width + 1) / 2) in          (* int(ceil(width/2.0)) *)
    (* bigarr[0:pad] = array[0:pad][::-1] broadcasts only when the slice has pad elements or one *)
    if (n <? pad)%nat && negb (n =? 1)%nat then MErr
    else if Z.even (Z.min width (Z.of_nat (n + 2 * pad))) then MErr   (* medfilt: kernel size must be odd *)
    else
      let lft := if (n <? pad)%nat then repeat (nth 0 xs 0) pad else rev (firstn pad xs) in
      let rgt := if (n <? pad)%nat then repeat (nth 0 xs 0) pad else rev (skipn (n - pad) xs) in
      let big := lft ++ xs ++ rgt in
      MOk (firstn n (skipn pad (pydl_median1 big width))).

(* S: symmetric reflection about the array ends (edge sample repeated), period 2n:
   ... x1 x0 | x0 x1 ... x(n-1) | x(n-1) x(n-2) ...   (reflect_single in Proofs: -1-j left, 2n-1-j right) *)
Definition reflect (n j : Z) : Z := let m := j mod (2 * n) in if m <? n then m else 2 * n - 1 - m.

Definition median_reflect_spec (xs : list Z) (width : Z) : list Z :=
  let n := Z.of_nat (length xs) in
  let h := (width - 1) / 2 in
  map (fun i => median_of (map (fun j => nth (Z.to_nat (reflect n j)) xs 0) (zrange (i - h) (Z.to_nat width))))
      (zrange 0 (length xs)).

(* S, total: width 1 returns the input; an even width is refused (scipy.signal.medfilt accepts odd kernels only)
   and so is an array with fewer than ceil(width/2) samples unless it has exactly one (numpy cannot broadcast the
   reversed end into the padding) -- both are ValueError; otherwise the reflected-window median *)
Definition median_reflect_total_spec (xs : list Z) (width : Z) : mres :=
  let n := length xs in
  let pad := Z.to_nat ((width + 1) / 2) in
  if width =? 1 then MOk xs
  else if Z.even width then MErr
  else if (n <? pad)%nat && negb (n =? 1)%nat then MErr
  else MOk (median_reflect_spec xs width).

Definition mres_eqb (a b : mres) : bool :=
  match a, b with
  | MErr, MErr => true
  | MOk x, MOk y => Nat.eqb (length x) (length y) && forallb (fun p => Z.eqb (fst p) (snd p)) (combine x y)
  | _, _ => false
  end.

(* 2-D (list of rows): medfilt2d over a width x width box of the reflected image *)
Definition median_reflect2_spec (rows : list (list Z)) (width : Z) : list (list Z) :=
  let nr := Z.of_nat (length rows) in
  let nc := Z.of_nat (length (hd [] rows)) in
  let h := (width - 1) / 2 in
  map (fun i =>
         map (fun j =>
                median_of (flat_map (fun a => map (fun b => nth (Z.to_nat (reflect nc b))
                                                               (nth (Z.to_nat (reflect nr a)) rows []) 0)
                                                  (zrange (j - h) (Z.to_nat width)))
                                    (zrange (i - h) (Z.to_nat width))))
             (zrange 0 (Z.to_nat nc)))
      (zrange 0 (length rows)).

(* M for the 2-D case.  element (i, j) of a list of rows, 0 outside (medfilt2d pads with zeros) *)
Definition nthz2 (rows : list (list Z)) (i j : Z) : Z := if i <? 0 then 0 else nthz (nth (Z.to_nat i) rows []) j.

(* pydl.median(array, width) for 2-D: medfilt2d(array, min(width, size)), border rows and columns restored *)
Definition pydl_median2 (arr : list (list Z)) (width : Z) : list (list Z) :=
  let nr := Z.of_nat (length arr) in
  let nc := Z.of_nat (length (hd [] arr)) in
  let kern := Z.min width (nr * nc) in
  let h := kern / 2 in
  let istart := (width - 1) / 2 in
  let iend0 := nr - (width + 1) / 2 in
  let iend1 := nc - (width + 1) / 2 in
  map (fun i =>
         map (fun j =>
                if (i <? istart) || (iend0 <? i) || ((j <? istart) || (iend1 <? j)) then nthz2 arr i j
                else median_of (flat_map (fun a => map (fun b => nthz2 arr a b) (zrange (j - h) (Z.to_nat kern)))
                                         (zrange (i - h) (Z.to_nat kern))))
             (zrange 0 (Z.to_nat nc)))
      (zrange 0 (length arr)).

Inductive m2res := M2Err | M2Other | M2Ok (rows : list (list Z)).

(* top/bottom rows reversed, left/right columns reversed, corners reversed both ways: every row of the
   row-padded image is padded in turn *)
Definition pad_reflect {A} (pad : nat) (l : list A) : list A :=
  rev (firstn pad l) ++ l ++ rev (skipn (length l - pad) l).

Definition median_reflect2_model (rows : list (list Z)) (width : Z) : m2res :=
  if width =? 1 then M2Ok rows
  else
    let nr := length rows in
    let nc := length (hd [] rows) in
    let pad := Z.to_nat ((width + 1) / 2) in
    let kern := Z.min width (Z.of_nat nr * Z.of_nat nc) in     (* median(bigarr, min(width, array.size)) *)
    if (nr <? pad)%nat || (nc <? pad)%nat then M2Err          (* (arrays with a single row/column broadcast; not modelled) *)
    else if Z.even kern then M2Err
    else
      let big := map (pad_reflect pad) (pad_reflect pad rows) in
      M2Ok (map (fun r => firstn nc (skipn pad r)) (firstn nr (skipn pad (pydl_median2 big kern)))).

Definition median_reflect2_total_spec (rows : list (list Z)) (width : Z) : m2res :=
  let pad := Z.to_nat ((width + 1) / 2) in
  if width =? 1 then M2Ok rows
  else if (length rows <? pad)%nat || (length (hd [] rows) <? pad)%nat then M2Err
  else if Z.even (Z.min width (Z.of_nat (length rows) * Z.of_nat (length (hd [] rows)))) then M2Err   (* the kernel is clipped to the image size *)
  else M2Ok (median_reflect2_spec rows width).

Definition rows_eqb (a b : list (list Z)) : bool :=
  Nat.eqb (length a) (length b) &&
  forallb (fun p => Nat.eqb (length (fst p)) (length (snd p)) && forallb (fun q => Z.eqb (fst q) (snd q)) (combine (fst p) (snd p)))
          (combine a b).
Definition m2res_eqb (a b : m2res) : bool :=
  match a, b with M2Err, M2Err => true | M2Ok x, M2Ok y => rows_eqb x y | _, _ => false end.

(* ------------------------------------------------------------------ skymask *)

Definition zsum (l : list Z) : Z := fold_right Z.add 0 l.

(* pydl.smooth(signal, owidth, edge_truncate) on an integer array: even widths are raised by one, widths
   below 3 return the input, the float quotient is truncated when it is stored back into the int32 array,
   and without edge_truncate the samples near the ends keep their values *)
Definition smooth_model (sig : list Z) (owidth : Z) (edge : bool) : list Z :=
  let width := if owidth mod 2 =? 0 then owidth + 1 else owidth in
  if width <? 3 then sig
  else
    let n := Z.of_nat (length sig) in
    let istart := (width - 1) / 2 in
    let iend := n - (width + 1) / 2 in
    let w2 := width / 2 in
    map (fun i =>
           if i <? istart then
             if edge then Z.quot (zsum (firstn (Z.to_nat (istart + i + 1)) sig) + (istart - i) * nth 0 sig 0) width
             else nth (Z.to_nat i) sig 0
           else if iend <? i then
             if edge then Z.quot (zsum (skipn (Z.to_nat (i - istart)) sig) + (i - iend) * nth (length sig - 1) sig 0) width
             else nth (Z.to_nat i) sig 0
           else
             Z.quot (zsum (firstn (Z.to_nat (2 * w2 + 1)) (skipn (Z.to_nat (i - w2)) sig))) width)
        (zrange 0 (length sig)).

(* M: flag tests, guard, width, smooth() arguments, `> 0` test and the final product are the generated pieces *)
Definition skymask_row_model (f1 f2 : Z) (ngrow : nat) (iv : list Q) (mask : option (list Z)) : list Q :=
  let bad0 := match mask with
              | Some ms => map (fun m => sky_flagged m f1 f2) ms
              | None => map (fun _ => false) iv
              end in
  let zg := Z.of_nat ngrow in
  let bad := if sky_grow_guard zg
             then let width := sky_width zg in
                  map sky_smooth_test
                      (smooth_model (map (fun b : bool => (if b then 1 else 0) * sky_smooth_scale width) bad0)
                                    (sky_smooth_width width) sky_smooth_edge)
             else bad0 in
  map (fun vb => sky_apply (fst vb) (snd vb)) (combine iv bad).

(* S: a pixel is flagged when the mask VALUE (signed or unsigned, as stored) has a bit in common
   with either flag; the inverse variance is zeroed within ngrow pixels of a flagged pixel *)
Definition flagged_spec (f1 f2 m : Z) : bool := negb (Z.land m f1 =? 0) || negb (Z.land m f2 =? 0).

Definition skymask_row_spec (f1 f2 : Z) (ngrow : nat) (iv : list Q) (mask : option (list Z)) : list Q :=
  let flagged := match mask with Some ms => map (flagged_spec f1 f2) ms | None => map (fun _ => false) iv end in
  map (fun ib : nat * Q => if dil_at flagged ngrow (fst ib) then 0%Q else snd ib) (combine (seq 0 (length iv)) iv).

(* ------------------------------------------------------------------ correspondence cases *)

Open Scope Q_scope.

Definition TOL : Q := 1 # 1000000000000.
Definition qclose (a b : Q) : bool := Qle_bool (Qabs (a - b)) (TOL * (1 + Qabs b)).
Definition qlist_close (a b : list Q) : bool :=
  Nat.eqb (length a) (length b) && forallb (fun p => qclose (fst p) (snd p)) (combine a b).
Definition zlist_eqb (a b : list Z) : bool :=
  Nat.eqb (length a) (length b) && forallb (fun p => Z.eqb (fst p) (snd p)) (combine a b).

Inductive rres := RErr | ROk (mask : list bool) (qdone : bool).
Inductive qres := QErr | QOk (l : list Q).

Definition rres_eqb (m : list bool * bool) (r : rres) : bool :=
  match r with RErr => false | ROk mk q => list_beq (fst m) mk && Bool.eqb (snd m) q end.
Definition qres_close (m : list Q) (r : qres) : bool :=
  match r with QErr => false | QOk l => qlist_close m l end.

Definition ndres_close (m r : ndres) : bool :=
  match m, r with NDErr, NDErr => true | NDOk a, NDOk b => qlist_close a b | _, _ => false end.

Inductive case :=
| CReject (o : ropts) (pts : list point) (expect : rres)
| CReject2 (o : ropts) (sg ivg : bool) (qs : list point2) (expect : rres)
| CInterp (ys : list Q) (mask : list bool) (xval : option (list Q)) (expect : qres)
| CInterpND (ys : list Q) (mask : list bool) (xval : option (list Q)) (shape : list nat) (axis : nat)
            (np_lines : list (list nat)) (expect : qres)
| CInterpCall (ys : list Q) (mask : list bool) (xval : option (list Q)) (shape mshape : list nat) (xshape : option (list nat))
              (axis : option Z) (expect : ndres)
| CAesth (meth : amethod) (flux iv : list Q) (expect : qres)
| CMedian (xs : list Z) (width : Z) (expect : mres)
| CMedian2 (rows : list (list Z)) (width : Z) (expect : m2res)
| CSky (f1 f2 : Z) (ngrow : nat) (iv : list Q) (mask : option (list Z)) (expect : qres).

Definition verdict (model_ok spec_ok : bool) : Z :=
  ((if model_ok then 0 else 1) + (if spec_ok then 0 else 2))%Z.

(* verdict: 0 = model = impl and spec satisfied; +1 model differs from impl; +2 impl contradicts S *)
Definition run_case (c : case) : Z :=
  match c with
  | CReject o pts expect => verdict (rres_eqb (reject_model o pts) expect) (rres_eqb (reject_spec o pts) expect)
  | CReject2 o sg ivg qs expect =>
      verdict (rres_eqb (reject_model2 o sg ivg qs) expect) (call2_ok o sg ivg && rres_eqb (reject_spec2 o sg ivg qs) expect)
  | CInterp ys mask xval expect =>
      verdict (qres_close (maskinterp1_model ys mask xval) expect) (qres_close (maskinterp1_spec ys mask xval) expect)
  | CInterpND ys mask xval shape axis np_lines expect =>
      (* the lines are derived here from (shape, axis) and must be the ones numpy.moveaxis reports *)
      let lines := lines_pydl shape axis in
      verdict (lines_eqb lines np_lines && qres_close (maskinterp_nd_model ys mask xval lines) expect)
              (qres_close (maskinterp_nd_spec ys mask xval lines) expect)
  | CInterpCall ys mask xval shape mshape xshape axis expect =>
      verdict (ndres_close (maskinterp_call_model ys mask xval shape mshape xshape axis) expect)
              (ndres_close (maskinterp_call_spec ys mask xval shape mshape xshape axis) expect)
  | CAesth meth flux iv expect =>
      verdict (qres_close (aesthetics_model meth flux iv) expect) (qres_close (aesthetics_spec meth flux iv) expect)
  | CMedian xs width expect =>
      verdict (mres_eqb (median_reflect_model xs width) expect) (mres_eqb (median_reflect_total_spec xs width) expect)
  | CMedian2 rows width expect =>
      verdict (m2res_eqb (median_reflect2_model rows width) expect) (m2res_eqb (median_reflect2_total_spec rows width) expect)
  | CSky f1 f2 ngrow iv mask expect =>
      verdict (qres_close (skymask_row_model f1 f2 ngrow iv mask) expect)
              (qres_close (skymask_row_spec f1 f2 ngrow iv mask) expect)
  end.

Definition run_cases (cs : list case) : list Z := map run_case cs.
