(* Proofs about the lower/upper row ranges of bspline.action (first_pos, last_pos, action_ranges
   of Eval.v): for a non-decreasing interval-index vector, rows lower..upper of segment s are exactly
   the points whose interval index is s + k - 1; the empty default (0, -1) selects nothing. *)
From Coq Require Import ZArith List Bool Arith Lia.
Import ListNotations.
From PV Require Import BSpline.Eval.
Local Open Scope nat_scope.

(* ------------------------------------------------------------------ first_pos *)
Lemma first_pos_spec : forall v idx p q,
  first_pos v idx p = Some q ->
  (p <= q)%nat /\ nth_error idx (q - p) = Some v /\
  forall j, (j < q - p)%nat -> nth_error idx j <> Some v.
Proof.
  intros v idx; induction idx as [|a r IH]; intros p q H; simpl in H.
  - discriminate.
  - destruct (Nat.eqb_spec a v) as [E|E].
    + injection H as <-. subst a. rewrite Nat.sub_diag. simpl.
      split; [lia|]. split; [reflexivity|]. intros j Hj; lia.
    + apply IH in H. destruct H as (Hle & Hn & Hb).
      replace (q - p) with (S (q - S p)) by lia. simpl.
      split; [lia|]. split; [exact Hn|].
      intros [|j] Hj; simpl.
      * intros X; injection X as X; contradiction.
      * apply Hb; lia.
Qed.

Lemma first_pos_none : forall v idx p, first_pos v idx p = None <-> ~ In v idx.
Proof.
  intros v idx; induction idx as [|a r IH]; intros p; simpl.
  - split; [intros _ []|reflexivity].
  - destruct (Nat.eqb_spec a v) as [E|E].
    + split; [discriminate|]. intros H; exfalso; apply H; left; exact E.
    + rewrite IH. split.
      * intros H [X|X]; [contradiction|exact (H X)].
      * intros H X; apply H; right; exact X.
Qed.

(* ------------------------------------------------------------------ last_pos *)
Lemma last_pos_gen : forall v idx p acc q,
  last_pos v idx p acc = Some q ->
  (acc = Some q /\ ~ In v idx) \/
  ((p <= q)%nat /\ nth_error idx (q - p) = Some v /\
   forall j, (q - p < j)%nat -> nth_error idx j <> Some v).
Proof.
  intros v idx; induction idx as [|a r IH]; intros p acc q H; simpl in H.
  - left; split; [exact H|intros []].
  - apply IH in H. destruct H as [(Hacc & Hnin)|(Hle & Hn & Ha)].
    + destruct (Nat.eqb_spec a v) as [E|E].
      * right. injection Hacc as <-. subst a. rewrite Nat.sub_diag. simpl.
        split; [lia|]. split; [reflexivity|].
        intros [|j] Hj; [lia|]. simpl. intros X. apply Hnin.
        eapply nth_error_In; exact X.
      * left. split; [exact Hacc|]. intros [X|X]; [contradiction|exact (Hnin X)].
    + right. replace (q - p) with (S (q - S p)) by lia. simpl.
      split; [lia|]. split; [exact Hn|].
      intros [|j] Hj; [lia|]. simpl. apply Ha; lia.
Qed.

Lemma last_pos_spec : forall v idx p q,
  last_pos v idx p None = Some q ->
  (p <= q)%nat /\ nth_error idx (q - p) = Some v /\
  forall j, (q - p < j)%nat -> nth_error idx j <> Some v.
Proof.
  intros v idx p q H. apply last_pos_gen in H.
  destruct H as [(X & _)|H]; [discriminate|exact H].
Qed.

Lemma last_pos_none_gen : forall v idx p acc,
  last_pos v idx p acc = None <-> acc = None /\ ~ In v idx.
Proof.
  intros v idx; induction idx as [|a r IH]; intros p acc; simpl.
  - split; [intros H; split; [exact H|intros []]|intros [H _]; exact H].
  - rewrite IH. destruct (Nat.eqb_spec a v) as [E|E].
    + split; [intros [X _]; discriminate|].
      intros [_ H]; exfalso; apply H; left; exact E.
    + split.
      * intros [Hacc H]; split; [exact Hacc|].
        intros [X|X]; [contradiction|exact (H X)].
      * intros [Hacc H]; split; [exact Hacc|]. intros X; apply H; right; exact X.
Qed.

Lemma last_pos_none : forall v idx p, last_pos v idx p None = None <-> ~ In v idx.
Proof.
  intros v idx p. rewrite last_pos_none_gen. split; [intros [_ H]; exact H|intros H; split; [reflexivity|exact H]].
Qed.

(* ------------------------------------------------------------------ action_ranges *)
Definition nondecr_nat (idx : list nat) :=
  forall i j a b, (i <= j)%nat -> nth_error idx i = Some a -> nth_error idx j = Some b -> (a <= b)%nat.

Lemma action_ranges_length : forall idx k nseg, length (action_ranges idx k nseg) = nseg.
Proof. intros. unfold action_ranges. rewrite map_length, seq_length. reflexivity. Qed.

Lemma action_ranges_nth : forall idx k nseg s d, (s < nseg)%nat ->
  nth s (action_ranges idx k nseg) d =
  (match first_pos (s + (k - 1)) idx 0 with Some p => Z.of_nat p | None => 0%Z end,
   match last_pos (s + (k - 1)) idx 0 None with Some p => Z.of_nat p | None => (-1)%Z end).
Proof.
  intros idx k nseg s d Hs. unfold action_ranges.
  set (f := fun s0 : nat => _).
  rewrite (nth_indep _ d (f 0%nat)) by (rewrite map_length, seq_length; exact Hs).
  rewrite map_nth. rewrite seq_nth by exact Hs. reflexivity.
Qed.

Theorem action_ranges_spec : forall idx k nseg s,
  nondecr_nat idx -> (s < nseg)%nat ->
  let v := (s + (k - 1))%nat in
  let '(lo, hi) := nth s (action_ranges idx k nseg) (0%Z, (-1)%Z) in
  forall p, (p < length idx)%nat ->
    (nth_error idx p = Some v <-> (lo <= Z.of_nat p <= hi)%Z).
Proof.
  intros idx k nseg s Hmono Hs v.
  rewrite (action_ranges_nth idx k nseg s _ Hs). fold v.
  destruct (first_pos v idx 0) as [lo|] eqn:Hf; destruct (last_pos v idx 0 None) as [hi|] eqn:Hl.
  - apply first_pos_spec in Hf. apply last_pos_spec in Hl.
    rewrite Nat.sub_0_r in Hf, Hl.
    destruct Hf as (_ & Hflo & Hfb). destruct Hl as (_ & Hlhi & Hla).
    intros p Hp. split.
    + intros H. split.
      * destruct (le_lt_dec lo p) as [L|L]; [lia|]. exfalso. exact (Hfb p L H).
      * destruct (le_lt_dec p hi) as [L|L]; [lia|]. exfalso. exact (Hla p L H).
    + intros [H1 H2]. apply Nat2Z.inj_le in H1. apply Nat2Z.inj_le in H2.
      destruct (nth_error idx p) as [b|] eqn:Hb.
      * pose proof (Hmono lo p v b H1 Hflo Hb).
        pose proof (Hmono p hi b v H2 Hb Hlhi).
        f_equal; lia.
      * apply nth_error_None in Hb. lia.
  - exfalso. apply last_pos_none in Hl. apply first_pos_spec in Hf.
    destruct Hf as (_ & Hn & _). apply Hl. eapply nth_error_In; exact Hn.
  - exfalso. apply first_pos_none in Hf. apply last_pos_spec in Hl.
    destruct Hl as (_ & Hn & _). apply Hf. eapply nth_error_In; exact Hn.
  - apply first_pos_none in Hf. intros p Hp. split.
    + intros H. exfalso. apply Hf. eapply nth_error_In; exact H.
    + intros [H1 H2]. lia.
Qed.

Print Assumptions action_ranges_spec.
