(* C15: every HMF coefficient update (row of astep_ref) and component update (column of gstep_ref) is the exact weighted
   least-squares optimum given the other factor; badness never increases in an a-step. *)
From Coq Require Import QArith Qabs Lqa List Bool Lia ZArith.
From PV Require Import Lib.WLS C13.LinAlg C13.LinAlgProofs C15.Model C15.Chi2Proofs.
Import ListNotations.
Open Scope Q_scope.

(* ------------------------------------------------------------------ list plumbing *)
Lemma opt_all_nth {A : Type} (l : list (option A)) : forall r i v,
  opt_all l = Some r -> nth_error r i = Some v -> nth_error l i = Some (Some v).
Proof.
  induction l as [|o l IH]; intros r i v H Hn; simpl in H.
  - inversion H; subst. destruct i; discriminate.
  - destruct o as [a|]; [|discriminate]. destruct (opt_all l) as [r'|] eqn:E; [|discriminate].
    inversion H; subst. destruct i as [|i]; simpl in *; [inversion Hn; reflexivity|].
    apply (IH r' i v eq_refl Hn).
Qed.

Lemma opt_all_length {A : Type} (l : list (option A)) : forall r, opt_all l = Some r -> length r = length l.
Proof.
  induction l as [|o l IH]; intros r H; simpl in H.
  - inversion H; reflexivity.
  - destruct o; [|discriminate]. destruct (opt_all l) as [r'|]; [|discriminate]. inversion H; subst. simpl. f_equal. apply IH. reflexivity.
Qed.

Lemma nth_error_map2 {A B C : Type} (f : A -> B -> C) : forall u v i a b,
  nth_error u i = Some a -> nth_error v i = Some b -> nth_error (map2 f u v) i = Some (f a b).
Proof.
  induction u as [|x u IH]; intros [|y v] [|i] a b Ha Hb; simpl in *; try discriminate.
  - inversion Ha; inversion Hb; reflexivity.
  - apply IH; assumption.
Qed.

Lemma col_length j A : length (col j A) = length A.
Proof. unfold col. apply map_length. Qed.
Lemma transpose_rows A : rows_len (length A) (transpose A).
Proof.
  unfold rows_len, transpose. apply Forall_forall. intros r Hr. apply in_map_iff in Hr.
  destruct Hr as [j [E _]]. subst. apply col_length.
Qed.

(* ------------------------------------------------------------------ astep_ref *)
Lemma hmf_row_data_wf g wi si : Forall (fun v => 0 <= v) wi -> wf (length g) (hmf_row_data g wi si).
Proof. intros H. unfold hmf_row_data. apply wf_combine; [apply transpose_rows | exact H]. Qed.

(* astep_optimal_rowwise: for fixed g, row i of astep_ref minimises sum_j w_ij (s_ij - (x g)_j)^2 over all x *)
Theorem astep_optimal_rowwise s w g a' i si wi ai :
  astep_ref s w g = Some a' ->
  nth_error s i = Some si -> nth_error w i = Some wi -> nth_error a' i = Some ai ->
  Forall (fun v => 0 <= v) wi ->
  length ai = length g /\
  (forall d, gdot (hmf_row_data g wi si) ai d == 0) /\
  forall z, length z = length g -> chi2 (hmf_row_data g wi si) ai <= chi2 (hmf_row_data g wi si) z.
Proof.
  unfold astep_ref. intros H Hs Hw Ha Hpos.
  pose proof (opt_all_nth _ _ _ _ H Ha) as Hn.
  rewrite (nth_error_map2 _ s w i si wi Hs Hw) in Hn. inversion Hn as [E]; clear Hn.
  pose proof (hmf_row_data_wf g wi si Hpos) as HD.
  destruct (wls_solve_optimal _ _ _ HD E) as [L O]. split; [exact L|]. split; [|exact O].
  intros d. apply (wls_solve_gradient (length g)); [apply wf_wfl; exact HD | exact E].
Qed.

(* ------------------------------------------------------------------ gstep_ref *)
Lemma gstep_cols s w a g eps g' : gstep_ref s w a g eps = Some g' ->
  exists cols, opt_all (map (gstep_col_ref s w a g eps (ncols a) (ncols s)) (seq 0 (ncols s))) = Some cols /\ g' = transpose cols.
Proof.
  unfold gstep_ref. destruct (opt_all _) as [cols|]; [|discriminate]. intros H; inversion H; subst. exists cols. split; reflexivity.
Qed.

Lemma gdot_app D1 D2 x d : gdot (D1 ++ D2) x d == gdot D1 x d + gdot D2 x d.
Proof. induction D1 as [|[[r w] y] D1 IH]; simpl; [ring|]. rewrite IH. ring. Qed.

Lemma wf_app m D1 D2 : wf m D1 -> wf m D2 -> wf m (D1 ++ D2).
Proof. unfold wf. intros. apply Forall_app. split; assumption. Qed.

(* --- sums over index ranges *)
Lemma vsum_map_ext {A : Type} (f h : A -> Q) l : (forall k, In k l -> f k == h k) -> vsum (map f l) == vsum (map h l).
Proof.
  unfold vsum. induction l as [|a l IH]; intros H; simpl; [reflexivity|].
  rewrite (H a (or_introl eq_refl)), IH; [reflexivity|]. intros k Hk. apply H. right. exact Hk.
Qed.
Lemma vsum_map_add {A : Type} (f h : A -> Q) l : vsum (map f l) + vsum (map h l) == vsum (map (fun k => f k + h k) l).
Proof. unfold vsum. induction l as [|a l IH]; simpl; [ring|]. rewrite <- IH. ring. Qed.
Lemma vsum_map_scale {A : Type} c (f : A -> Q) l : c * vsum (map f l) == vsum (map (fun k => c * f k) l).
Proof. unfold vsum. induction l as [|a l IH]; simpl; [ring|]. rewrite <- IH. ring. Qed.

Lemma dot_as_sum x : forall d, length d = length x ->
  dot x d == vsum (map (fun k => nth k x 0 * nth k d 0) (seq 0 (length x))).
Proof.
  induction x as [|a x IH]; intros [|b d] H; simpl in *; try discriminate; [reflexivity|].
  unfold vsum in *. simpl. rewrite <- seq_shift, map_map. simpl. rewrite <- IH by lia. reflexivity.
Qed.

Lemma nth_map_seq (c : nat -> Q) K k : (k < K)%nat -> nth k (map c (seq 0 K)) 0 = c k.
Proof.
  intros H. rewrite (nth_indep _ 0 (c O)) by (rewrite map_length, seq_length; exact H).
  rewrite map_nth. rewrite seq_nth by exact H. reflexivity.
Qed.

Lemma dot_map_seq (c : nat -> Q) K d : length d = K ->
  dot (map c (seq 0 K)) d == vsum (map (fun k => c k * nth k d 0) (seq 0 K)).
Proof.
  intros H. rewrite dot_as_sum by (rewrite map_length, seq_length; exact H).
  rewrite map_length, seq_length. apply vsum_map_ext. intros k Hk. apply in_seq in Hk.
  rewrite nth_map_seq by lia. reflexivity.
Qed.

Lemma dot_unit_zero s x : forall t, (s < t)%nat ->
  dot (map (fun j => if Nat.eqb s j then 1 else 0) (seq t (length x))) x == 0.
Proof.
  induction x as [|b x IH]; intros t Ht; simpl; [reflexivity|].
  destruct (Nat.eqb_spec s t); [lia|]. rewrite IH by lia. ring.
Qed.

Lemma dot_unit_gen i x : forall s, (s <= i)%nat -> (i < s + length x)%nat ->
  dot (map (fun j => if Nat.eqb i j then 1 else 0) (seq s (length x))) x == nth (i - s) x 0.
Proof.
  induction x as [|a x IH]; intros s H1 H2; simpl in *; [lia|].
  destruct (Nat.eqb_spec i s) as [E|E].
  - subst. rewrite Nat.sub_diag.
    pose proof (dot_unit_zero s x (S s) (Nat.lt_succ_diag_r s)) as Z.
    rewrite Z. ring.
  - rewrite IH by lia. replace (i - s)%nat with (S (i - S s)) by lia. simpl. ring.
Qed.

Lemma dot_unit K k x : (k < K)%nat -> length x = K -> dot (unit_vec K k) x == nth k x 0.
Proof.
  intros H L. unfold unit_vec. subst K. rewrite (dot_unit_gen k x O) by lia. rewrite Nat.sub_0_r. reflexivity.
Qed.

Lemma gdot_map_seq (u : nat -> vec) (e : Q) (c : nat -> Q) l x d :
  gdot (map (fun k => (u k, e, c k)) l) x d == vsum (map (fun k => e * (dot (u k) x - c k) * dot (u k) d) l).
Proof. unfold vsum. induction l as [|k l IH]; simpl; [reflexivity|]. rewrite IH. ring. Qed.

(* one block of penalty observations: eps * |x - c|^2 contributes e (x - c) . d to the gradient *)
Lemma gdot_pen_block K e (c : nat -> Q) x d : length x = K -> length d = K ->
  gdot (map (fun k => (unit_vec K k, e, c k)) (seq 0 K)) x d == e * dot x d - e * dot (map c (seq 0 K)) d.
Proof.
  intros Lx Ld. rewrite gdot_map_seq.
  rewrite (dot_as_sum x d) by congruence. rewrite Lx. rewrite (dot_map_seq c K d Ld).
  rewrite !vsum_map_scale.
  assert (E : forall a b, a - b == a + (-1) * b) by (intros; ring). rewrite E. rewrite vsum_map_scale, vsum_map_add.
  apply vsum_map_ext. intros k Hk. apply in_seq in Hk.
  rewrite !dot_unit by (try lia; assumption). ring.
Qed.

Lemma mat_vec_scaled_identity K c x d : length x = K -> length d = K ->
  dot (mat_vec (map (vscale c) (identity K)) x) d == c * dot x d.
Proof.
  intros Lx Ld. unfold mat_vec, identity. rewrite !map_map.
  rewrite (dot_map_seq (fun k => dot (vscale c (unit_vec K k)) x) K d Ld).
  rewrite (dot_as_sum x d) by congruence. rewrite Lx, vsum_map_scale.
  apply vsum_map_ext. intros k Hk. apply in_seq in Hk.
  rewrite dot_vscale_l, dot_unit by (try lia; assumption). ring.
Qed.

Lemma gdot_pen K e g L x d : length x = K -> length d = K ->
  gdot (flat_map (fun n => map (fun k => (unit_vec K k, e, gat g k n)) (seq 0 K)) L) x d
  == e * inject_Z (Z.of_nat (length L)) * dot x d - dot (map (fun k => e * vsum (map (gat g k) L)) (seq 0 K)) d.
Proof.
  intros Lx Ld. induction L as [|n L IH].
  - simpl. rewrite (dot_map_seq _ K d Ld).
    assert (Z : vsum (map (fun k => e * vsum (map (gat g k) []) * nth k d 0) (seq 0 K)) == 0).
    { unfold vsum at 1. induction (seq 0 K) as [|k l IHl]; simpl; [reflexivity|]. rewrite IHl. unfold vsum. simpl. ring. }
    rewrite Z. unfold inject_Z. ring.
  - simpl flat_map. rewrite gdot_app, IH. rewrite (gdot_pen_block K e (fun k => gat g k n) x d Lx Ld).
    assert (El : inject_Z (Z.of_nat (length (n :: L))) == 1 + inject_Z (Z.of_nat (length L))).
    { simpl length. rewrite Nat2Z.inj_succ, <- Z.add_1_l, inject_Z_plus. reflexivity. }
    assert (S2 : dot (map (fun k => e * vsum (map (gat g k) (n :: L))) (seq 0 K)) d
                 == e * dot (map (fun k => gat g k n) (seq 0 K)) d + dot (map (fun k => e * vsum (map (gat g k) L)) (seq 0 K)) d).
    { rewrite !(dot_map_seq _ K d Ld). rewrite vsum_map_scale, vsum_map_add. apply vsum_map_ext.
      intros k _. unfold vsum. simpl. ring. }
    rewrite S2, El. ring.
Qed.

Lemma identity_shape K c : length (map (vscale c) (identity K)) = K /\ rows_len K (map (vscale c) (identity K)).
Proof.
  unfold identity, rows_len. split; [rewrite !map_length, seq_length; reflexivity|].
  apply Forall_forall. intros r Hr. apply in_map_iff in Hr. destruct Hr as [u [E Hu]]. subst.
  apply in_map_iff in Hu. destruct Hu as [k [E _]]. subst.
  rewrite vscale_length. unfold unit_vec. rewrite map_length, seq_length. reflexivity.
Qed.

Lemma pen_data_wf K e g M j : 0 <= e -> wf K (pen_data K e g M j).
Proof.
  intros He. unfold wf, pen_data. apply Forall_forall. intros o Ho. apply in_flat_map in Ho.
  destruct Ho as [n [_ Ho]]. apply in_map_iff in Ho. destruct Ho as [k [E _]]. subst. simpl. split; [|exact He].
  unfold unit_vec. rewrite map_length, seq_length. reflexivity.
Qed.

Lemma hmf_col_data_wf a wj sj : rows_len (ncols a) a -> Forall (fun v => 0 <= v) wj -> wf (ncols a) (hmf_col_data a wj sj).
Proof. intros H1 H2. unfold hmf_col_data. apply wf_combine; assumption. Qed.

Lemma eps_active_pos eps e : eps_active eps = Some e -> 0 < e.
Proof.
  unfold eps_active. destruct eps as [e0|]; [|discriminate]. unfold Qlt_bool.
  destruct (Qle_bool e0 0) eqn:E; simpl; [discriminate|]. intros H; inversion H; subst.
  destruct (Qlt_le_dec 0 e); [assumption|]. apply Qle_bool_iff in q. congruence.
Qed.

(* the objective one column update minimises: data chi-square of column j plus eps times the squared distance to
   the OLD values of the neighbouring columns (exactly what the code solves) *)
Definition gstep_objective (s w a g : mat) (eps : option Q) (j : nat) : list obs :=
  hmf_col_data a (col j w) (col j s)
  ++ match eps_active eps with Some e => pen_data (ncols a) e g (ncols s) j | None => [] end.

(* gstep_optimal_colwise *)
Theorem gstep_col_optimal s w a g eps j x :
  gstep_col_ref s w a g eps (ncols a) (ncols s) j = Some x ->
  rows_len (ncols a) a -> Forall (fun v => 0 <= v) (col j w) ->
  length x = ncols a /\
  (forall d, length d = ncols a -> gdot (gstep_objective s w a g eps j) x d == 0) /\
  forall z, length z = ncols a -> chi2 (gstep_objective s w a g eps j) x <= chi2 (gstep_objective s w a g eps j) z.
Proof.
  intros H Ha Hw. unfold gstep_col_ref in H. unfold gstep_objective.
  set (K := ncols a) in *. set (M := ncols s) in *.
  set (D := hmf_col_data a (col j w) (col j s)) in *.
  pose proof (hmf_col_data_wf a (col j w) (col j s) Ha Hw) as HD. fold K D in HD.
  pose proof (wf_wfl K D HD) as HL.
  destruct (eps_active eps) as [e|] eqn:Ee.
  - (* with smoothing *)
    pose proof (eps_active_pos eps e Ee) as He.
    apply solve_checked_sound in H. destruct H as [Hv Lx].
    destruct (normal_mat_shape K D HL) as [LN RN].
    destruct (identity_shape K (e * inject_Z (Z.of_nat (length (nbrs M j))))) as [LI RI].
    assert (Lx' : length x = K).
    { rewrite Lx. unfold mred. rewrite map_length, madd_length; congruence. }
    assert (Hg : forall d, length d = K -> gdot (D ++ pen_data K e g M j) x d == 0).
    { intros d Ld. rewrite gdot_app. rewrite (gdot_normal K D x d HL).
      unfold pen_data. rewrite (gdot_pen K e g (nbrs M j) x d Lx' Ld).
      assert (Hv2 : veq (mat_vec (madd (normal_mat K D) (map (vscale (e * inject_Z (Z.of_nat (length (nbrs M j))))) (identity K))) x)
                        (vadd (normal_rhs K D) (map (fun k => e * vsum (map (gat g k) (nbrs M j))) (seq 0 K)))).
      { eapply veq_trans; [|apply vred_veq]. eapply veq_trans; [|exact Hv]. apply veq_sym, mat_vec_meq, mred_meq. }
      pose proof (dot_veq _ _ d d Hv2 (veq_refl d)) as Hd.
      rewrite mat_vec_madd in Hd; [| congruence | apply rows_len_Forall2 with (m := K); [congruence | exact RN | exact RI]].
      rewrite dot_vadd_l in Hd by (rewrite normal_rhs_length by exact HL; rewrite map_length, seq_length; reflexivity).
      rewrite (mat_vec_scaled_identity K _ x d Lx' Ld) in Hd. lra. }
    split; [exact Lx'|]. split; [exact Hg|].
    assert (HW : wf K (D ++ pen_data K e g M j)) by (apply wf_app; [exact HD | apply pen_data_wf; lra]).
    intros z Lz.
    assert (Hopt : chi2 (D ++ pen_data K e g M j) x <= chi2 (D ++ pen_data K e g M j) (vadd x (vsub z x))).
    { apply (normal_eq_optimal K _ x HW Lx'); [exact Hg | rewrite vsub_length; congruence]. }
    rewrite (chi2_veq _ _ z (vadd_vsub x z ltac:(congruence))) in Hopt. exact Hopt.
  - (* no smoothing: plain weighted least squares of column j *)
    rewrite app_nil_r. fold (wls_solve K D) in H.
    destruct (wls_solve_optimal K D x HD H) as [L O]. split; [exact L|]. split; [|exact O].
    intros d _. apply (wls_solve_gradient K D x HL H).
Qed.

(* every column gstep_ref assembles is such an optimum *)
Theorem gstep_optimal_colwise s w a g eps g' :
  gstep_ref s w a g eps = Some g' -> rows_len (ncols a) a -> Forall (Forall (fun v => 0 <= v)) w ->
  exists cols, g' = transpose cols /\ length cols = ncols s /\
    forall j x, nth_error cols j = Some x ->
      length x = ncols a /\
      forall z, length z = ncols a -> chi2 (gstep_objective s w a g eps j) x <= chi2 (gstep_objective s w a g eps j) z.
Proof.
  intros H Ha Hw. destruct (gstep_cols _ _ _ _ _ _ H) as [cols [Hc Hg]]. exists cols. split; [exact Hg|].
  assert (Lc : length cols = ncols s).
  { rewrite (opt_all_length _ _ Hc), map_length, seq_length. reflexivity. }
  split; [exact Lc|].
  intros j x Hx. pose proof (opt_all_nth _ _ _ _ Hc Hx) as Hn.
  rewrite nth_error_map in Hn. destruct (nth_error (seq 0 (ncols s)) j) as [j'|] eqn:Ej; [|discriminate].
  assert (j' = j).
  { assert (j < length (seq 0 (ncols s)))%nat by (apply nth_error_Some; congruence).
    rewrite seq_length in H0. apply nth_error_nth with (d := O) in Ej. rewrite seq_nth in Ej by exact H0. simpl in Ej. congruence. }
  subst j'. simpl in Hn. inversion Hn as [E]; clear Hn.
  assert (Hwj : Forall (fun v => 0 <= v) (col j w)).
  { unfold col. apply Forall_forall. intros v Hv. apply in_map_iff in Hv. destruct Hv as [r [Er Hr]]. subst.
    rewrite Forall_forall in Hw. specialize (Hw r Hr). rewrite Forall_forall in Hw.
    destruct (nth_in_or_default j r 0) as [Hin|Hd]; [apply Hw; exact Hin | rewrite Hd; lra]. }
  destruct (gstep_col_optimal s w a g eps j x E Ha Hwj) as [L [_ O]]. split; assumption.
Qed.
