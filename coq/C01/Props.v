(* C01 -- yanny: tables and header pairs written to a file read back unchanged.
   Property theorems only; each is closed by `exact` and followed by Print Assumptions.
   Models: Yanny/Render.v (writer `render_checked`, specification `sem`, domain `doc_ok`, `str_ok`, `elt_ok`),
   Yanny/Parse.v (reader).  Floats are TEXT in the model (numpy's formatting is an oracle checked by the harness). *)
From Coq Require Import String.
From Coq Require Import NArith ZArith List Bool.
Import ListNotations.
From PV Require Import Yanny.Bytes Yanny.BytesFacts Yanny.Types Yanny.Parse Yanny.Render
  Yanny.TokenFacts Yanny.RowFacts Yanny.TypeFacts Yanny.DocFacts Yanny.RoundTrip C01.Model C01.Proofs.
Open Scope N_scope.

(* a protected string followed by any run of blanks and further text is read back as the string *)
Theorem C01_protect_token_roundtrip : forall s w rest,
  str_ok s = true -> w <> [] -> all_ws w = true -> head_not_ws rest ->
  get_token (protect s ++ w ++ rest) = Some (s, rest).
Proof. exact protect_token_roundtrip. Qed.
Print Assumptions C01_protect_token_roundtrip.

(* ... and at the end of a line *)
Theorem C01_protect_token_roundtrip_eol : forall s, str_ok s = true -> get_token (protect s) = Some (s, []).
Proof. exact protect_token_roundtrip_eol. Qed.
Print Assumptions C01_protect_token_roundtrip_eol.

(* a string array: the brace token is isolated, then split into exactly the elements *)
Theorem C01_array_roundtrip : forall xs w rest,
  forallb elt_ok xs = true -> all_ws w = true -> head_not_ws rest ->
  let data := join [SP] (map protect xs) in
  get_token (render_array (map STok xs) ++ w ++ rest) = Some (data, rest) /\
  split_array (S (length data)) data = Some xs.
Proof. exact array_roundtrip. Qed.
Print Assumptions C01_array_roundtrip.

(* quote parity: trailing_comment leaves every rendered row of a well-formed table intact *)
Theorem C01_row_comment_free : forall es t r,
  forallb enum_ok es = true -> table_ok es t = true -> In r (t_rows t) ->
  trailing_comment (render_row_line (upper (t_name t)) r) = render_row_line (upper (t_name t)) r.
Proof. exact row_comment_free_doc. Qed.
Print Assumptions C01_row_comment_free.

(* integers: decimal text and back, no range loss in the declared width, never quoted *)
Theorem C01_int_cell_roundtrip : forall t z, In t [TShort; TInt; TLong] -> int_range t z = true ->
  parse_Z (show_Z z) = Some z /\ conv_sval (np_of_int t) (SInt z) = Some (SInt z) /\ render_sval (SInt z) = show_Z z.
Proof. exact int_cell_roundtrip. Qed.
Print Assumptions C01_int_cell_roundtrip.

(* the cells of a rendered row come back, given each cell fits the kind of its column *)
Theorem C01_row_cells_roundtrip : forall cols r, row_fits cols r = true ->
  parse_cells cols (join [SP] (map render_cell r)) = Some r.
Proof. exact parse_cells_render. Qed.
Print Assumptions C01_row_cells_roundtrip.

(* a whole data line of a well-formed table: survives strip / trailing_comment / the double-brace rewrite,
   dispatches on the upper-cased table name, and appends exactly its cells to that table *)
Theorem C01_row_roundtrip : forall es t r sy st,
  forallb enum_ok es = true -> table_ok es t = true -> In r (t_rows t) ->
  assoc (upper (t_name t)) sy = Some (tcols_of es (t_cols t)) ->
  process_line sy st (render_row_line (upper (t_name t)) r)
  = Some (mkst (st_pairs st) (assoc_app (upper (t_name t)) r (st_rows st))).
Proof. exact row_roundtrip. Qed.
Print Assumptions C01_row_roundtrip.

(* the declaration the writer emits for a column classifies as the column's kind and array-ness *)
Theorem C01_column_type_roundtrip : forall es c, col_names_ok es -> wkind es c <> None ->
  classify (typ_of es c) = kind_of (c_type c) /\ isarray (typ_of es c) = is_arr c.
Proof. exact typ_of_facts. Qed.
Print Assumptions C01_column_type_roundtrip.

(* unsupported scalar types are refused: no text is produced at all *)
Theorem C01_unsupported_refused : forall d t c code,
  In t (d_tables d) -> In c (t_cols t) -> c_type c = TUnsup code -> lookup code dtmap = None ->
  render_checked d = None.
Proof. exact unsupported_refused. Qed.
Print Assumptions C01_unsupported_refused.

Theorem C01_unsupported_codes :
  forallb (fun code => match lookup code dtmap with None => true | Some _ => false end)
    (map bs ["u1"; "u2"; "u4"; "u8"; "i1"; "b1"; "f2"; "f16"; "c8"; "c16"; "c32"; "O"; "M8[ns]"; "m8[ns]"]%string) = true.
Proof. exact unsupported_codes. Qed.
Print Assumptions C01_unsupported_codes.

(* THE PROPERTY, for every document of the domain doc_ok (any number of tables, zero-row tables, enum
   columns, scalar and array columns, header pairs): the writer produces a file, and reading that file --
   through a text-mode read or a binary file object -- returns exactly the document's meaning sem d:
   pairs in order with their text, the typedef texts, upper-cased table names in order, every column with
   its declared type text / numpy kind / array length, every row in order with every cell.
   Floats are carried as TEXT (numpy formatting and float() are oracles checked on every run by the harness). *)
Theorem C01_file_roundtrip : forall d, doc_ok d = true ->
  exists b p, render_checked d = Some b /\ sem d = Some p /\ parse b = Some p /\ parse_binary b = Some p.
Proof. exact file_roundtrip. Qed.
Print Assumptions C01_file_roundtrip.

(* non-vacuity: a two-table document (one name a prefix of the other, a string with # and blanks, an
   empty string, an array column, a zero-row table) lies in the domain, and the theorem's conclusion computes *)
Definition example_doc : doc :=
  mkdoc [bs "c"%string] [(bs "k"%string, bs "v w"%string)] []
    [mktable (bs "FOO"%string) [mkcol (bs "x"%string) TInt None; mkcol (bs "s"%string) (TChar 5) (Some 2)]
       [[Sc (SInt (-7)%Z); Ar [STok (bs "a #b"%string); STok []]]];
     mktable (bs "foobar"%string) [mkcol (bs "foo"%string) TDouble None] []].
Example C01_example_in_domain : doc_ok example_doc = true.
Proof. vm_compute. reflexivity. Qed.
Example C01_example_roundtrip :
  match render_checked example_doc with Some b => parse b = sem example_doc | None => False end.
Proof. vm_compute. reflexivity. Qed.

(* ---- tie of the hand-written scanners to the literals of the CURRENT source (Generated/YannyLits.v is
   regenerated from yanny.py on every run by translate/c01.py) ---- *)
From PV Require Import Generated.YannyLits C01.Lits.

(* the source uses exactly the regular expressions the scanners of Yanny/Parse.v were written for *)
Theorem C01_source_regexes_are_the_scanners : yanny_regexes = scanner_regexes.
Proof. exact regexes_are_the_scanners. Qed.
Print Assumptions C01_source_regexes_are_the_scanners.

(* ... and the same type-name tables, integer/float classes and quoting condition *)
Theorem C01_source_tables_are_the_scanners :
  yanny_dtmap_write = scanner_dtmap_write /\ yanny_dtmap_read = scanner_dtmap_read /\
  yanny_int_types = scanner_int_types /\ yanny_float_types = scanner_float_types /\
  yanny_protect_condition = scanner_protect_condition.
Proof. exact tables_are_the_scanners. Qed.
Print Assumptions C01_source_tables_are_the_scanners.

Theorem C01_source_type_names_are_keywords :
  map (fun p => bs (snd p)) yanny_dtmap_write = [KW_SHORT; KW_INT; KW_LONG; KW_FLOAT; KW_DOUBLE] /\
  map (fun p => bs (fst p)) yanny_dtmap_read = [KW_SHORT; KW_INT; KW_LONG; KW_FLOAT; KW_DOUBLE] /\
  map bs yanny_int_types = [KW_SHORT; KW_INT; KW_LONG] /\ map bs yanny_float_types = [KW_FLOAT; KW_DOUBLE].
Proof. exact type_names_are_keywords. Qed.
Print Assumptions C01_source_type_names_are_keywords.

(* ---- the float oracle as explicit hypotheses (C01/Floats.v, Section FloatOracle) ----
   show_f = str(np.float32 / np.float64), parse_f = np.float32(float(.)) / float(.).  The two facts the harness validates
   on every run are premises here, so every statement about float VALUES shows what it assumes of numpy. *)
From PV Require Import C01.Floats.

(* oracle hypothesis 1 (the printed text is a bare token) is exactly what puts a float cell inside the domain doc_ok *)
Theorem C01_float_cells_in_domain : forall (F : Type) (show_f : btype -> F -> bytes),
  (forall t x, bare_ok (show_f t x) = true) ->
  forall es c inarr x, c_type c = TFloat \/ c_type c = TDouble ->
  sval_ok es c inarr (txt_sval F show_f (c_type c) (VFlt F x)) = true.
Proof. exact float_cell_in_domain. Qed.
Print Assumptions C01_float_cells_in_domain.

(* oracle hypothesis 2 (reading the printed text gives the value back): a document of integer, string and floating-point
   VALUES, written with show_f and read back with parse_f, returns every table with its original values *)
Theorem C01_file_roundtrip_floats : forall (F : Type) (show_f : btype -> F -> bytes) (parse_f : btype -> bytes -> option F),
  (forall t x, parse_f t (show_f t x) = Some x) ->
  forall d : vdoc F, doc_ok (txt_doc F show_f d) = true -> forallb (vtable_typed F) (vd_tables F d) = true ->
  exists b p, render_checked (txt_doc F show_f d) = Some b /\ parse b = Some p /\ parse_binary b = Some p /\
              pd_pairs p = vd_pairs F d /\
              omap (val_table F parse_f) (pd_tables p) = Some (map (vt_rows F) (vd_tables F d)).
Proof. exact file_roundtrip_floats. Qed.
Print Assumptions C01_file_roundtrip_floats.
