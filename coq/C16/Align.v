(* C16 -- align=True: the rounding rule of the pixel shift and its composition with spec_append never move a spectrum
   relative to its own wavelength solution when the COEFF0 values lie on a common grid of step COEFF1. *)
From Coq Require Import ZArith List Bool Arith Lia ZifyBool QArith Qround.
From PV Require Import C16.Model C16.Proofs C16.AlignModel.
Import ListNotations.
Ltac Zify.zify_post_hook ::= Z.to_euclidean_division_equations.

Open Scope Z_scope.

(* ---- the rounding rule *)

(* ps is the integer nearest to (c0 - min0)/c1, ties rounded up *)
Lemma pixshift_rounding c0 min0 c1 : 0 < c1 ->
  let ps := pixshift_of c0 min0 c1 in 2 * ps * c1 <= 2 * (c0 - min0) + c1 < 2 * (ps + 1) * c1.
Proof.
  intros H. cbv zeta. unfold pixshift_of.
  pose proof (Z.div_mod (2 * (c0 - min0) + c1) (2 * c1) ltac:(lia)) as E.
  pose proof (Z.mod_pos_bound (2 * (c0 - min0) + c1) (2 * c1) ltac:(lia)) as B.
  set (q := (2 * (c0 - min0) + c1) / (2 * c1)) in *. set (r := (2 * (c0 - min0) + c1) mod (2 * c1)) in *. nia.
Qed.

Lemma pixshift_unique c0 min0 c1 q : 0 < c1 -> 2 * q * c1 <= 2 * (c0 - min0) + c1 < 2 * (q + 1) * c1 -> pixshift_of c0 min0 c1 = q.
Proof.
  intros H Hq. unfold pixshift_of. symmetry. apply (Z.div_unique _ _ q (2 * (c0 - min0) + c1 - 2 * c1 * q)); nia.
Qed.

(* on the common grid the shift is exactly the difference of the grid indices *)
Lemma pixshift_on_grid g k m c1 : 0 < c1 -> pixshift_of (g + k * c1) (g + m * c1) c1 = k - m.
Proof. intros H. apply pixshift_unique; [exact H|]. nia. Qed.

(* the source's np.floor((c0 - min0)/c1 + 0.5), over the rationals, is pixshift_of *)
Lemma floor_half_up_eq x y : 0 < y -> floor_half_up x y = (2 * x + y) / (2 * y).
Proof.
  intros Hy. unfold floor_half_up.
  assert (E : (inject_Z x / inject_Z y + (1 # 2) == (2 * x + y) # (Z.to_pos (2 * y)))%Q).
  { unfold Qeq, Qplus, Qdiv, Qmult, Qinv, inject_Z. destruct y as [|py|py]; try lia. cbn [Qnum Qden Z.to_pos]. lia. }
  rewrite (Qfloor_comp _ _ E). unfold Qfloor. cbn [Qnum Qden]. rewrite Z2Pos.id by lia. reflexivity.
Qed.

Lemma pixshift_is_floor_half_up c0 min0 c1 : 0 < c1 -> pixshift_of c0 min0 c1 = floor_half_up (c0 - min0) c1.
Proof. intros H. rewrite floor_half_up_eq by exact H. reflexivity. Qed.

(* ---- list facts *)

Lemma fold_min_repeat x n a : Z.min a x = x -> fold_left Z.min (repeat x n) a = Z.min a x \/ n = 0%nat.
Proof. intros H. destruct n; [right; reflexivity|left]. revert a H. induction n as [|n IH]; intros a H; cbn; [reflexivity|].
  cbn in IH. rewrite IH; lia. Qed.

Lemma list_min_repeat d x n : (0 < n)%nat -> list_min_Z d (repeat x n) = x.
Proof.
  intros H. destruct n as [|n]; [lia|]. cbn [repeat list_min_Z]. clear H.
  induction n as [|n IH]; cbn; [reflexivity|]. rewrite Z.min_id. exact IH.
Qed.

Open Scope nat_scope.

Lemma place_place n off w w' r : off + length r <= w -> n + w <= w' -> place n w' (place off w r) = place (n + off) w' r.
Proof.
  intros H1 H2. unfold place. rewrite !app_length, !repeat_length.
  rewrite repeat_app, <- !app_assoc. f_equal. f_equal. f_equal.
  rewrite <- repeat_app. f_equal. lia.
Qed.

Definition fits_in (W : nat) (e : entry) : Prop := e_off e + length (e_row e) <= W.

Lemma rows_of_width entries W : entries <> [] -> (forall e, In e entries -> fits_in W e) -> width (rows_of entries W) = W.
Proof.
  destruct entries as [|e es]; intros Hne H; [congruence|]. cbn. apply place_length. apply (H e). left; reflexivity.
Qed.

Lemma rows_of_replace n entries W W' : (forall e, In e entries -> fits_in W e) -> n + W <= W' ->
  map (place n W') (rows_of entries W) = rows_of (map (fun e => (n + e_off e, e_row e, e_c0 e)) entries) W'.
Proof.
  intros H Hw. unfold rows_of. rewrite !map_map. apply map_ext_in. intros e He. cbn [e_off e_row fst snd].
  apply place_place; [apply (H e He)|exact Hw].
Qed.

Lemma rows_of_block off c0 (b : img) W : map (place off W) b = rows_of (map (fun r => (off, r, c0)) b) W.
Proof. unfold rows_of. rewrite map_map. reflexivity. Qed.

Lemma rows_of_app a b W : rows_of (a ++ b) W = rows_of a W ++ rows_of b W.
Proof. apply map_app. Qed.

Open Scope Z_scope.

(* ---- the invariant of the accumulation *)

(* every stored row fits, sits at the column whose wavelength (origin + c1*column) is its own COEFF0, and some row
   starts at column 0 (the origin is the smallest COEFF0) *)
Definition aligned (c1 origin : Z) (W : nat) (entries : list entry) : Prop :=
  entries <> [] /\
  (forall e, In e entries -> fits_in W e /\ origin + c1 * Z.of_nat (e_off e) = e_c0 e) /\
  (exists e, In e entries /\ e_off e = 0%nat).

Definition wf_block (bk : img * Z) : Prop := rect (fst bk) /\ fst bk <> [].

Lemma align_step_inv c1 g m W entries b k :
  0 < c1 -> aligned c1 (g + m * c1) W entries -> wf_block (b, k) ->
  exists W' m' entries',
    align_step c1 (rows_of entries W, repeat (g + m * c1) (length entries)) (b, g + k * c1)
    = (rows_of entries' W', repeat (g + m' * c1) (length entries')) /\
    map (fun e => (e_row e, e_c0 e)) entries' = map (fun e => (e_row e, e_c0 e)) entries ++ map (fun r => (r, g + k * c1)) b /\
    aligned c1 (g + m' * c1) W' entries'.
Proof.
  intros Hc (Hne & Hall & (e0 & He0 & Hoff0)) (Hrect & Hbne). cbn [fst] in Hrect, Hbne.
  assert (Hn : (0 < length entries)%nat) by (destruct entries; [congruence|cbn; lia]).
  assert (Hfit : forall e, In e entries -> fits_in W e) by (intros e He; apply (Hall e He)).
  unfold align_step. rewrite (list_min_repeat 0 _ _ Hn), pixshift_on_grid by exact Hc.
  unfold spec_append. rewrite (rows_of_width entries W Hne Hfit).
  destruct (0 <? k - m) eqn:Eps.
  - (* the new block starts later: it is moved to the right by ps pixels *)
    assert (N1 : nadd1_of (k - m) = 0%nat) by (unfold nadd1_of; destruct (k - m <? 0) eqn:E; [lia|reflexivity]).
    assert (N2 : nadd2_of (k - m) = Z.to_nat (k - m)) by (unfold nadd2_of; rewrite Eps; reflexivity).
    rewrite N1, N2. set (n2 := Z.to_nat (k - m)). set (W' := Nat.max (W + 0) (width b + n2)).
    exists W', m, (entries ++ map (fun r => (n2, r, g + k * c1)) b). split; [|split].
    + f_equal.
      * rewrite (rows_of_replace 0 entries W W' Hfit) by (unfold W'; lia).
        rewrite (rows_of_block n2 (g + k * c1) b W'), rows_of_app. f_equal.
        unfold rows_of. rewrite map_map. apply map_ext. intros [[o r] c]. reflexivity.
      * rewrite app_length, map_length, repeat_app. f_equal. f_equal. nia.
    + rewrite map_app, map_map. reflexivity.
    + split; [|split].
      * destruct entries; [congruence|discriminate].
      * intros e He. apply in_app_or in He. destruct He as [He|He].
        -- destruct (Hall e He) as [F Wv]. split; [unfold fits_in in *; unfold W'; lia|exact Wv].
        -- apply in_map_iff in He. destruct He as (r & <- & Hr). cbn [e_off e_row e_c0 fst snd]. split.
           ++ unfold fits_in. cbn [e_off e_row fst snd]. rewrite (Hrect r Hr). unfold W'. lia.
           ++ unfold n2. rewrite Z2Nat.id by lia. nia.
      * exists e0. split; [apply in_or_app; left; exact He0|exact Hoff0].
  - (* the new block starts first (or at the same wavelength): everything stored so far moves right by -ps *)
    assert (N1 : nadd1_of (k - m) = Z.to_nat (m - k)).
    { unfold nadd1_of. destruct (k - m <? 0) eqn:E; [f_equal; lia|]. assert (k - m = 0) by lia. replace (m - k) with 0 by lia. reflexivity. }
    assert (N2 : nadd2_of (k - m) = 0%nat) by (unfold nadd2_of; rewrite Eps; reflexivity).
    rewrite N1, N2. set (n1 := Z.to_nat (m - k)). set (W' := Nat.max (W + n1) (width b + 0)).
    destruct b as [|r0 b']; [congruence|].
    exists W', k, (map (fun e => ((n1 + e_off e)%nat, e_row e, e_c0 e)) entries ++ map (fun r => (0%nat, r, g + k * c1)) (r0 :: b')).
    split; [|split].
    + f_equal.
      * rewrite (rows_of_replace n1 entries W W' Hfit) by (unfold W'; lia).
        rewrite (rows_of_block 0 (g + k * c1) (r0 :: b') W'), rows_of_app. reflexivity.
      * rewrite app_length, !map_length, repeat_app. f_equal.
        clear. induction (length entries) as [|n IH]; cbn [repeat map]; [reflexivity|]. f_equal; [nia|exact IH].
    + rewrite map_app, !map_map. reflexivity.
    + split; [|split].
      * discriminate || (destruct entries; [congruence|discriminate]).
      * intros e He. apply in_app_or in He. destruct He as [He|He].
        -- apply in_map_iff in He. destruct He as (e' & <- & He'). destruct (Hall e' He') as [F Wv].
           cbn [e_off e_row e_c0 fst snd]. split.
           ++ unfold fits_in in *. cbn [e_off e_row fst snd]. unfold W'. lia.
           ++ rewrite Nat2Z.inj_add. unfold n1. rewrite Z2Nat.id by lia. nia.
        -- apply in_map_iff in He. destruct He as (r & <- & Hr). cbn [e_off e_row e_c0 fst snd]. split.
           ++ unfold fits_in. cbn [e_off e_row fst snd]. rewrite (Hrect r Hr). unfold W'. lia.
           ++ cbn. lia.
      * exists (0%nat, r0, g + k * c1). split; [|reflexivity]. apply in_or_app. right. left. reflexivity.
Qed.

Lemma align_fold_inv c1 g : 0 < c1 -> forall bs m W entries,
  aligned c1 (g + m * c1) W entries -> (forall bk, In bk bs -> wf_block bk) ->
  exists W' m' entries',
    fold_left (align_step c1) (map (fun bk => (fst bk, g + snd bk * c1)) bs) (rows_of entries W, repeat (g + m * c1) (length entries))
    = (rows_of entries' W', repeat (g + m' * c1) (length entries')) /\
    map (fun e => (e_row e, e_c0 e)) entries'
    = map (fun e => (e_row e, e_c0 e)) entries ++ rows_with_c0 (map (fun bk => (fst bk, g + snd bk * c1)) bs) /\
    aligned c1 (g + m' * c1) W' entries'.
Proof.
  intros Hc. induction bs as [|[b k] bs IH]; intros m W entries Hal Hwf.
  - exists W, m, entries. cbn. rewrite app_nil_r. auto.
  - cbn [map fold_left fst snd].
    destruct (align_step_inv c1 g m W entries b k Hc Hal (Hwf (b, k) (or_introl eq_refl))) as (W1 & m1 & e1 & E1 & R1 & A1).
    rewrite E1.
    destruct (IH m1 W1 e1 A1 (fun bk H => Hwf bk (or_intror H))) as (W2 & m2 & e2 & E2 & R2 & A2).
    exists W2, m2, e2. split; [exact E2|]. split; [|exact A2].
    rewrite R2, R1. unfold rows_with_c0. cbn [map concat fst snd]. rewrite <- app_assoc. reflexivity.
Qed.

(* THE THEOREM: for any set of COEFF0 values on the common grid g + k*c1 (any order, repetitions), the aligned
   accumulation stores the rows of the blocks in order, row e at a column offset e_off with
        origin + c1 * e_off = COEFF0 of its own file,
   where origin is the single value recorded in allcoeff0 for every row (it becomes loglam[0] of the result), and some
   row has offset 0.  Hence pixel p of every spectrum lies in the column whose wavelength origin + c1*column is the
   pixel's own wavelength COEFF0 + c1*p: nothing is shifted relative to its own wavelength solution. *)
Theorem align_chain_unshifted c1 g (blocks : list (img * Z)) :
  0 < c1 -> blocks <> [] -> (forall bk, In bk blocks -> wf_block bk) ->
  exists W m entries,
    align_chain c1 (map (fun bk => (fst bk, g + snd bk * c1)) blocks)
    = Some (rows_of entries W, repeat (g + m * c1) (length entries)) /\
    map (fun e => (e_row e, e_c0 e)) entries = rows_with_c0 (map (fun bk => (fst bk, g + snd bk * c1)) blocks) /\
    aligned c1 (g + m * c1) W entries.
Proof.
  intros Hc Hne Hwf. destruct blocks as [|[b0 k0] bs]; [congruence|]. cbn [map align_chain fst snd].
  destruct (Hwf (b0, k0) (or_introl eq_refl)) as [Hrect Hb0]. cbn [fst] in Hrect, Hb0.
  set (en0 := map (fun r => (0%nat, r, g + k0 * c1)) b0).
  assert (A0 : aligned c1 (g + k0 * c1) (width b0) en0).
  { split; [|split].
    - unfold en0. destruct b0; [congruence|discriminate].
    - intros e He. apply in_map_iff in He. destruct He as (r & <- & Hr). cbn [e_off e_row e_c0 fst snd]. split.
      + unfold fits_in. cbn [e_off e_row fst snd]. rewrite (Hrect r Hr). lia.
      + cbn. lia.
    - destruct b0 as [|r0 b0']; [congruence|]. exists (0%nat, r0, g + k0 * c1). split; [left; reflexivity|reflexivity]. }
  assert (R0 : rows_of en0 (width b0) = b0).
  { unfold rows_of, en0. rewrite map_map. cbn [e_off e_row fst snd]. rewrite <- (map_id b0) at 2. apply map_ext_in.
    intros r Hr. rewrite place0_pad. rewrite <- (Hrect r Hr). apply pad_exact. }
  assert (L0 : @length entry en0 = length b0) by (unfold en0; apply map_length).
  destruct (align_fold_inv c1 g Hc bs k0 (width b0) en0 A0 (fun bk H => Hwf bk (or_intror H))) as (W & m & en & E & R & A).
  rewrite R0, L0 in E. exists W, m, en. split; [rewrite E; reflexivity|]. split; [|exact A].
  rewrite R. unfold rows_with_c0, en0. cbn [map concat fst snd]. rewrite map_map. reflexivity.
Qed.

(* pixel level: where pixel p of stored row i ends up, that the column's wavelength is the pixel's own, and that the
   rest of the row is zero *)
Theorem aligned_pixels c1 origin W entries i e :
  aligned c1 origin W entries -> nth_error entries i = Some e ->
  exists o, nth_error (rows_of entries W) i = Some o /\ length o = W /\
    (forall p v, nth_error (e_row e) p = Some v ->
       nth_error o (e_off e + p) = Some v /\ origin + c1 * Z.of_nat (e_off e + p) = e_c0 e + c1 * Z.of_nat p) /\
    (forall j, (j < W)%nat -> (j < e_off e \/ e_off e + length (e_row e) <= j)%nat -> nth_error o j = Some 0).
Proof.
  intros (_ & Hall & _) Hi. destruct (Hall e (nth_error_In _ _ Hi)) as [F Wv].
  exists (place (e_off e) W (e_row e)). split; [unfold rows_of; apply (map_nth_error (fun e0 : entry => place (e_off e0) W (e_row e0)) i entries Hi)|].
  split; [apply place_length; exact F|]. split.
  - intros p v Hp. split; [apply place_data; exact Hp|]. rewrite Nat2Z.inj_add. nia.
  - intros j Hj Hz. apply place_zero; assumption.
Qed.

Example align_chain_example :
  align_chain 2 [([[1; 2; 3]], 10); ([[4; 5]; [6; 7]], 6); ([[8; 9; 10]], 14)]
  = Some ([[0; 0; 1; 2; 3; 0; 0]; [4; 5; 0; 0; 0; 0; 0]; [6; 7; 0; 0; 0; 0; 0]; [0; 0; 0; 0; 8; 9; 10]], [6; 6; 6; 6]).
Proof. vm_compute. reflexivity. Qed.
