(* C03 -- proofs, part 2: the invariant tying object, file and history content, and its preservation. *)
From Coq Require Import String.
From Coq Require Import NArith ZArith List Bool Lia.
Import ListNotations.
From PV Require Import Yanny.Bytes Yanny.BytesFacts Yanny.Types Yanny.Parse Yanny.Render
  Yanny.TokenFacts Yanny.RowFacts Yanny.TypeFacts Yanny.DocFacts Yanny.LayoutFacts Yanny.ScanFacts Yanny.StructFacts
  Yanny.EnumFacts Yanny.DtypeFacts Yanny.FileFacts Yanny.RoundTrip C03.Model C03.Proofs.
Open Scope N_scope.

Definition set_comments (d : doc) (c : list bytes) : doc := mkdoc c (d_pairs d) (d_enums d) (d_tables d).

Lemma sem_set_comments d c : sem (set_comments d c) = sem d.
Proof. reflexivity. Qed.

(* the strong invariant: the contents are a list of well-formed items that carries the document's typedefs
   and drives the line loop to the document's pairs and rows; the file holds the contents; the object holds
   the document's meaning *)
Definition SInv0 (fs : fsys) (o : obj) (d : doc) : Prop :=
  doc_ok d = true /\ exists tws its st',
    map fst tws = d_tables d /\ tws_ok (d_enums d) tws /\ Forall item_good its /\ its <> [] /\
    map item_td_text (filter (item_is_td KW_STRUCT) its) = struct_texts (d_enums d) tws /\
    map item_td_text (filter (item_is_td KW_ENUM) its) = map render_enum (d_enums d) /\
    process_lines (sy_of (d_enums d) tws) (st_init (sy_of (d_enums d) tws)) (map item_line its) = Some st' /\
    loop_result d st' /\
    o_contents o = items_text its /\ fs_get fs (o_file o) = Some (o_contents o) /\ sem d = Some (o_state o) /\ o_file o <> [].
(* comments are layout, not content *)
Definition SInv (fs : fsys) (o : obj) (d : doc) : Prop := exists c, SInv0 fs o (set_comments d c).

Lemma loop_with_blank sy st ls st' : process_lines sy st ls = Some st' -> process_lines sy st (ls ++ [[]]) = Some st'.
Proof. intros H. rewrite process_lines_app, H. reflexivity. Qed.

Lemma loop_without_blank sy st ls st' : process_lines sy st (ls ++ [[]]) = Some st' -> process_lines sy st ls = Some st'.
Proof.
  rewrite process_lines_app. destruct (process_lines sy st ls) as [s|]; [|discriminate]. cbn [process_lines].
  unfold process_line. cbn [skip_line]. now intros H.
Qed.

(* the property's invariant follows from the strong one *)
Theorem SInv0_Inv fs o d : SInv0 fs o d ->
  fs_get fs (o_file o) = Some (o_contents o) /\ parse (o_contents o) = Some (o_state o) /\ sem d = Some (o_state o).
Proof.
  intros [Hd [tws [its [st' [Et [Hok [Hg [Hne [F1 [F2 [PL [LR [Ec [Ef [Es Hn]]]]]]]]]]]]]]].
  split; [exact Ef|]. split; [|exact Es].
  destruct (parse_items d tws its st' Hd Et Hok Hg Hne F1 F2 (loop_with_blank _ _ _ _ PL) LR) as [p [S1 [S2 _]]].
  rewrite Ec, S2. congruence.
Qed.

(* ---------------------------------------------------------------- the initial object *)
Theorem init_SInv d p0 raw : doc_ok d = true -> p0 <> [] ->
  exists fs o, init_state d p0 raw = Some (fs, o) /\ SInv0 fs o d /\ o_file o = p0.
Proof.
  intros Hd Hp. destruct (doc_ok_parts d Hd) as [Hc [Hcn [Hpp [Hdk [Hes [Hde [Ht Hdn]]]]]]].
  destruct (tws_exist _ _ Hes Ht) as [tws [Et Hok]].
  pose proof (render_items d tws Hcn Hes Et Hok) as HR.
  destruct (canonical_line_loop d tws Hd Et Hok) as [st' [PL LR]].
  pose proof (items_all_good d tws Hd Et Hok) as Hg.
  assert (Hne : items_of d tws <> []) by (unfold items_of; discriminate).
  destruct (parse_items d tws (items_of d tws) st' Hd Et Hok Hg Hne (items_structs d tws) (items_enums d tws Hes) PL LR) as [p [S1 [S2 _]]].
  unfold init_state. rewrite HR, S2.
  eexists. eexists. split; [reflexivity|]. split; [|reflexivity].
  split; [exact Hd|]. exists tws, (items_of d tws), st'. cbn [o_contents o_file o_state fs_get]. rewrite beq_refl.
  repeat split; auto.
  - apply items_structs.
  - now apply items_enums.
  - now apply loop_without_blank.
  - destruct LR. assumption.
  - now destruct LR.
Qed.

(* ---------------------------------------------------------------- write(): the object renders itself *)
Lemma rows_text_sem es ts : forall tabs, omap (sem_table es) ts = Some tabs ->
  concat (map (fun t => concat (map (render_row (pt_name t)) (pt_rows t))) tabs) = concat (map render_rows ts).
Proof.
  induction ts as [|t ts IH]; intros tabs H.
  - inversion H. reflexivity.
  - cbn [omap] in H. unfold sem_table at 1 in H. destruct (omap (sem_col es) (t_cols t)) as [cols|]; [|discriminate].
    cbn [option_map] in H. destruct (omap (sem_table es) ts) as [tabs'|]; [|discriminate]. inversion H; subst.
    cbn [map concat pt_name pt_rows]. rewrite (IH tabs' eq_refl). reflexivity.
Qed.

Lemma render_obj_sem d p : sem d = Some p -> render_checked d = Some (render_obj (d_comments d) p).
Proof.
  unfold sem, render_checked. destruct (omap (render_struct (d_enums d)) (d_tables d)) as [structs|]; [|discriminate].
  destruct (omap (sem_table (d_enums d)) (d_tables d)) as [tabs|] eqn:E; [|discriminate].
  intros H. inversion H; subst. unfold render_obj. cbn [pd_pairs pd_enums pd_structs pd_tables].
  now rewrite (rows_text_sem _ _ _ E).
Qed.

Definition cmts_ok (c : list bytes) : bool := forallb comment_ok c && match c with [] => false | _ => true end.

Lemma doc_ok_set_comments d c0 c : doc_ok (set_comments d c0) = true -> cmts_ok c = true -> doc_ok (set_comments d c) = true.
Proof.
  unfold doc_ok, cmts_ok. cbn [set_comments d_comments d_pairs d_enums d_tables]. intros H Hc.
  apply andb_true_iff in Hc as [C1 C2].
  repeat match type of H with _ && _ = true => let H' := fresh "H" in apply andb_true_iff in H as [H H'] end.
  rewrite C1, C2. cbn [andb]. repeat (apply andb_true_iff; split); auto.
Qed.

Theorem write_preserves fs o d p cmts : SInv fs o d -> p <> [] -> fs_get fs p = None -> cmts_ok cmts = true ->
  exists fs' o', do_write fs o (Some p) cmts = (fs', o', Ok) /\ SInv fs' o' d /\ o_state o' = o_state o /\ o_file o' = p /\
                 fs_get fs' (o_file o) = fs_get fs (o_file o).
Proof.
  intros [c0 [Hd0 [tws0 [its0 [st0 [Et0 [Hok0 [_ [_ [_ [_ [_ [_ [_ [Ef0 [Es0 Hn0]]]]]]]]]]]]]]]] Hp Hf Hc.
  set (dc := set_comments d cmts).
  assert (Hd : doc_ok dc = true) by (now apply (doc_ok_set_comments d c0)).
  assert (Es : sem dc = Some (o_state o)) by exact Es0.
  destruct (doc_ok_parts dc Hd) as [_ [Hcn [_ [_ [Hes [_ [Ht _]]]]]]].
  destruct (tws_exist _ _ Hes Ht) as [tws [Et Hok]].
  pose proof (render_items dc tws Hcn Hes Et Hok) as HR.
  pose proof (render_obj_sem dc (o_state o) Es) as HO.
  assert (HRe : render_obj cmts (o_state o) = items_text (items_of dc tws)).
  { change (d_comments dc) with cmts in HO. rewrite HO in HR. congruence. }
  destruct (canonical_line_loop dc tws Hd Et Hok) as [st' [PL LR]].
  pose proof (items_all_good dc tws Hd Et Hok) as Hg.
  assert (Hne : items_of dc tws <> []) by (unfold items_of; discriminate).
  destruct (parse_items dc tws (items_of dc tws) st' Hd Et Hok Hg Hne (items_structs dc tws) (items_enums dc tws Hes) PL LR) as [q [S1 [S2 _]]].
  assert (Eq : q = o_state o) by congruence. subst q.
  unfold do_write. destruct p as [|x p']; [congruence|]. rewrite Hf. rewrite HRe, S2.
  eexists. eexists. split; [reflexivity|]. split; [|split; [reflexivity|split; [reflexivity|]]].
  - exists cmts. split; [exact Hd|]. exists tws, (items_of dc tws), st'. cbn [o_contents o_file o_state].
    rewrite fs_get_set_same.
    repeat split; auto; try discriminate; try (apply items_structs); try (now apply items_enums);
      try (now apply loop_without_blank); try (now destruct LR); try (now rewrite HRe).
  - apply fs_get_set_other. apply beq_neq. intros E. rewrite E in Ef0. congruence.
Qed.
