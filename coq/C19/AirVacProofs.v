(* C19 -- analytic theorems about the GENERATED air <-> vacuum expressions, over R. *)
From Coq Require Import Reals Lra Lia.
From Interval Require Import Tactic.
From PV Require Import Generated.AstroConsts C19.Model.
Open Scope R_scope.

Notation sg := airtovac_sigma2_R.
Notation g := airtovac_fact_R.

(* vactoair uses the same refractivity expressions as airtovac *)
Lemma vactoair_fact_same : forall s, vactoair_fact_R s = g s.
Proof. reflexivity. Qed.
Lemma vactoair_sigma2_same : forall v, vactoair_sigma2_R v = sg v.
Proof. reflexivity. Qed.

Lemma sg_range : forall x, 2000 <= x -> 0 < sg x <= 25.
Proof.
  intros x H. unfold airtovac_sigma2_R.
  assert (P : 0 < 10000 / x <= 5).
  { split. apply Rdiv_lt_0_compat; lra.
    apply Rmult_le_reg_r with x. lra. unfold Rdiv. rewrite Rmult_assoc, Rinv_l by lra. lra. }
  split; nra.
Qed.

Lemma div_between : forall c lo hi d, 0 < c -> 0 < lo -> lo <= d -> d <= hi -> c / hi <= c / d <= c / lo.
Proof.
  intros c lo hi d Hc Hlo H1 H2. unfold Rdiv. split; apply Rmult_le_compat_l; try lra; apply Rinv_le_contravar; lra.
Qed.

(* the Ciddor factor exceeds 1 wherever sigma^2 <= 26 (lambda >= 1961 A) *)
Lemma g_range : forall s, 0 <= s <= 26 -> 1 + 27 / 100000 <= g s <= 1 + 4 / 10000.
Proof.
  intros s H. unfold airtovac_fact_R.
  pose proof (div_between (1158421 / 20000000) (476037 / 2000 - 26) (476037 / 2000) (476037 / 2000 - s)) as A.
  pose proof (div_between (167917 / 100000000) (28681 / 500 - 26) (28681 / 500) (28681 / 500 - s)) as B.
  assert (A' := A ltac:(lra) ltac:(lra) ltac:(lra) ltac:(lra)).
  assert (B' := B ltac:(lra) ltac:(lra) ltac:(lra) ltac:(lra)).
  clear A B.
  assert (E1 : 1158421 / 20000000 / (476037 / 2000) = 1158421 / 4760370000) by (field).
  assert (E2 : 1158421 / 20000000 / (476037 / 2000 - 26) = 1158421 / 4240370000) by (field).
  assert (E3 : 167917 / 100000000 / (28681 / 500) = 167917 / 5736200000) by (field).
  assert (E4 : 167917 / 100000000 / (28681 / 500 - 26) = 167917 / 3136200000) by (field).
  rewrite E1, E2 in A'. rewrite E3, E4 in B'. lra.
Qed.

Lemma sg_scale : forall a k, a <> 0 -> k <> 0 -> sg (a * k) = sg a / (k * k).
Proof. intros. unfold airtovac_sigma2_R. field. split; assumption. Qed.

(* difference quotient of the factor *)
Definition Qd (s t : R) : R :=
  (1158421 / 20000000) / ((476037 / 2000 - s) * (476037 / 2000 - t)) +
  (167917 / 100000000) / ((28681 / 500 - s) * (28681 / 500 - t)).

Lemma g_diff : forall s t, 0 <= s <= 26 -> 0 <= t <= 26 -> g s - g t = (s - t) * Qd s t.
Proof. intros s t Hs Ht. unfold airtovac_fact_R, Qd. field. repeat split; lra. Qed.

Lemma airtovac_R_above : forall a, 2000 <= a -> airtovac_R a = a * g (sg (a * g (sg a))).
Proof.
  intros a H. unfold airtovac_R. destruct (airtovac_guard_R_dec a) as [G|G].
  - unfold airtovac_guard_R in G. lra.
  - reflexivity.
Qed.

Lemma vactoair_R_above : forall v, 2000 <= v -> vactoair_R v = v / g (sg v).
Proof.
  intros v H. unfold vactoair_R. destruct (vactoair_guard_R_dec v) as [G|G].
  - unfold vactoair_guard_R in G. lra.
  - reflexivity.
Qed.

Lemma below_2000_unchanged : forall a, a < 2000 -> airtovac_R a = a /\ vactoair_R a = a.
Proof.
  intros a H. unfold airtovac_R, vactoair_R.
  destruct (airtovac_guard_R_dec a) as [G|G]; destruct (vactoair_guard_R_dec a) as [G'|G'];
    unfold airtovac_guard_R, vactoair_guard_R in *; try lra; split; reflexivity.
Qed.

(* ranges along the iteration *)
Lemma chain_ranges : forall a, 2000 <= a ->
  let s0 := sg a in let g0 := g s0 in let v1 := a * g0 in let s1 := sg v1 in let g1 := g s1 in
  (0 < s0 <= 25) /\ (1 + 27 / 100000 <= g0 <= 1 + 4 / 10000) /\ 2000 <= v1 /\ (0 < s1 <= 25) /\
  (1 + 27 / 100000 <= g1 <= 1 + 4 / 10000) /\ 2000 <= a * g1.
Proof.
  intros a H s0 g0 v1 s1 g1.
  assert (S0 : 0 < s0 <= 25) by (apply sg_range; exact H).
  assert (G0 : 1 + 27 / 100000 <= g0 <= 1 + 4 / 10000) by (apply g_range; lra).
  assert (V1 : 2000 <= v1) by (unfold v1; nra).
  assert (S1 : 0 < s1 <= 25) by (apply sg_range; exact V1).
  assert (G1 : 1 + 27 / 100000 <= g1 <= 1 + 4 / 10000) by (apply g_range; lra).
  repeat split; try lra. nra.
Qed.

Lemma vacuum_gt_air : forall a, 2000 <= a -> a < airtovac_R a /\ vactoair_R a < a.
Proof.
  intros a H. rewrite airtovac_R_above, vactoair_R_above by exact H.
  destruct (chain_ranges a H) as (S0 & G0 & V1 & S1 & G1 & V2). cbv zeta in *.
  split. nra.
  apply Rmult_lt_reg_r with (g (sg a)). lra.
  unfold Rdiv. rewrite Rmult_assoc, Rinv_l by lra. nra.
Qed.

(* closed form of the round-trip error: no cancellation left, so Interval can bound it *)
Lemma roundtrip_closed_form : forall a s0 g0 s1 g1 s2 g2 Q10 Q12,
  a <> 0 -> g0 <> 0 -> g1 <> 0 -> g2 <> 0 ->
  s1 = s0 / (g0 * g0) -> s2 = s0 / (g1 * g1) ->
  g1 - g0 = (s1 - s0) * Q10 -> g1 - g2 = (s1 - s2) * Q12 ->
  a * g1 / g2 - a = a * s0 * s0 * (1 - g0 * g0) * Q10 * Q12 * (g1 + g0) / (g0 * g0 * g0 * g0 * g1 * g1 * g2).
Proof.
  intros a s0 g0 s1 g1 s2 g2 Q10 Q12 Ha H0 H1 H2 E1 E2 D10 D12.
  replace (a * g1 / g2 - a) with (a * (g1 - g2) / g2) by (field; assumption).
  rewrite D12, E1, E2.
  replace (s0 / (g0 * g0) - s0 / (g1 * g1)) with (s0 * (g1 - g0) * (g1 + g0) / (g0 * g0 * g1 * g1))
    by (field; split; assumption).
  rewrite D10, E1. field. repeat split; assumption.
Qed.

(* explicit round-trip error as a function of a alone *)
Definition err_av (a : R) : R :=
  let s0 := sg a in let g0 := g s0 in let s1 := s0 / (g0 * g0) in let g1 := g s1 in
  let s2 := s0 / (g1 * g1) in let g2 := g s2 in
  a * s0 * s0 * (1 - g0 * g0) * Qd s1 s0 * Qd s1 s2 * (g1 + g0) / (g0 * g0 * g0 * g0 * g1 * g1 * g2).

Lemma err_av_bound : forall a, 2000 <= a <= 300000 -> Rabs (err_av a) <= 1 / 1000000.
Proof.
  intros a H. unfold err_av, Qd, airtovac_fact_R, airtovac_sigma2_R.
  interval with (i_bisect a, i_prec 50).
Qed.

Lemma vactoair_airtovac_err : forall a, 2000 <= a -> vactoair_R (airtovac_R a) - a = err_av a.
Proof.
  intros a H.
  destruct (chain_ranges a H) as (S0 & G0 & V1 & S1 & G1 & V2). cbv zeta in *.
  rewrite airtovac_R_above by exact H. rewrite vactoair_R_above by exact V2.
  assert (E1 : sg (a * g (sg a)) = sg a / (g (sg a) * g (sg a))) by (apply sg_scale; lra).
  rewrite E1 in *.
  set (s0 := sg a) in *. set (g0 := g s0) in *. set (s1 := s0 / (g0 * g0)) in *. set (g1 := g s1) in *.
  assert (E2 : sg (a * g1) = s0 / (g1 * g1)) by (apply sg_scale; lra).
  rewrite E2. set (s2 := s0 / (g1 * g1)).
  assert (S2 : 0 <= s2 <= 26).
  { unfold s2. split.
    - apply Rmult_le_pos. lra. left. apply Rinv_0_lt_compat. nra.
    - apply Rmult_le_reg_r with (g1 * g1). nra. unfold Rdiv. rewrite Rmult_assoc, Rinv_l by nra. nra. }
  unfold err_av. fold s0 g0 s1 g1 s2. cbv zeta. fold s0. fold g0. fold s1. fold g1. fold s2.
  apply (roundtrip_closed_form a s0 g0 s1 g1 s2 (g s2) (Qd s1 s0) (Qd s1 s2)); try lra; try reflexivity.
  - assert (1 <= g s2) by (generalize (g_range s2 S2); lra). lra.
  - apply g_diff; lra.
  - apply g_diff; lra.
Qed.

(* vactoair(airtovac(a)) = a to better than 1e-6 A for 2000 A <= a <= 30 um *)
Lemma vactoair_airtovac : forall a, 2000 <= a <= 300000 -> Rabs (vactoair_R (airtovac_R a) - a) <= 1 / 1000000.
Proof. intros a H. rewrite vactoair_airtovac_err by lra. apply err_av_bound. exact H. Qed.

(* ---- the other direction: airtovac(vactoair(v)) ---- *)
Lemma roundtrip_closed_form2 : forall a s0 g0 s1 g1 sv gv Q1 Q2,
  g0 <> 0 -> gv <> 0 ->
  s1 = s0 / (g0 * g0) -> sv = s0 / (gv * gv) ->
  g1 - gv = (s1 - sv) * Q1 -> gv - g0 = (sv - s0) * Q2 ->
  a * g1 - a * gv = a * s0 * s0 * (1 - gv * gv) * Q2 * Q1 * (gv + g0) / (g0 * g0 * gv * gv * gv * gv).
Proof.
  intros a s0 g0 s1 g1 sv gv Q1 Q2 H0 Hv E1 Ev D1 D2.
  replace (a * g1 - a * gv) with (a * (g1 - gv)) by ring.
  rewrite D1, E1, Ev.
  replace (s0 / (g0 * g0) - s0 / (gv * gv)) with (s0 * (gv - g0) * (gv + g0) / (g0 * g0 * gv * gv))
    by (field; split; assumption).
  rewrite D2, Ev. field. split; assumption.
Qed.

Definition err_va (v : R) : R :=
  let sv := sg v in let gv := g sv in let a := v / gv in
  let s0 := sg a in let g0 := g s0 in let s1 := s0 / (g0 * g0) in
  a * s0 * s0 * (1 - gv * gv) * Qd sv s0 * Qd s1 sv * (gv + g0) / (g0 * g0 * gv * gv * gv * gv).

Lemma err_va_bound : forall v, 2000 <= v <= 300000 -> Rabs (err_va v) <= 1 / 1000000.
Proof.
  intros v H. unfold err_va, Qd, airtovac_fact_R, airtovac_sigma2_R.
  interval with (i_bisect v, i_prec 50).
Qed.

Lemma airtovac_vactoair_err : forall v, 2000 <= v -> 2000 <= vactoair_R v ->
  airtovac_R (vactoair_R v) - v = err_va v.
Proof.
  intros v Hv Ha.
  rewrite vactoair_R_above in * by exact Hv.
  assert (Sv : 0 < sg v <= 25) by (apply sg_range; exact Hv).
  assert (Gv : 1 + 27 / 100000 <= g (sg v) <= 1 + 4 / 10000) by (apply g_range; lra).
  set (sv := sg v) in *. set (gv := g sv) in *. set (a := v / gv) in *.
  assert (Va : v = a * gv) by (unfold a; field; lra).
  destruct (chain_ranges a Ha) as (S0 & G0 & V1 & S1 & G1 & V2). cbv zeta in *.
  rewrite airtovac_R_above by exact Ha.
  assert (E1 : sg (a * g (sg a)) = sg a / (g (sg a) * g (sg a))) by (apply sg_scale; lra).
  rewrite E1 in *.
  assert (Ev : sv = sg a / (gv * gv)).
  { unfold sv. rewrite Va at 1. apply sg_scale; lra. }
  unfold err_va. fold sv. cbv zeta. fold sv. fold gv. fold a.
  set (s0 := sg a) in *. set (g0 := g s0) in *. set (s1 := s0 / (g0 * g0)) in *.
  rewrite Va at 1.
  apply (roundtrip_closed_form2 a s0 g0 s1 (g s1) sv gv (Qd s1 sv) (Qd sv s0)); try lra; try reflexivity.
  - apply g_diff; lra.
  - apply g_diff; lra.
Qed.

(* airtovac(vactoair(v)) = v to better than 1e-6 A wherever vactoair(v) >= 2000 A (v up to 30 um) *)
Lemma airtovac_vactoair : forall v, 2000 <= vactoair_R v -> v <= 300000 ->
  Rabs (airtovac_R (vactoair_R v) - v) <= 1 / 1000000.
Proof.
  intros v Ha Hmax.
  assert (Hv : 2000 <= v).
  { destruct (Rlt_le_dec v 2000) as [L|L]; [|exact L].
    destruct (below_2000_unchanged v L) as [_ E]. rewrite E in Ha. lra. }
  rewrite airtovac_vactoair_err by assumption. apply err_va_bound. lra.
Qed.

Lemma mutual_inverse :
  (forall a, 2000 <= a <= 300000 -> Rabs (vactoair_R (airtovac_R a) - a) <= 1 / 1000000) /\
  (forall v, 2000 <= vactoair_R v -> v <= 300000 -> Rabs (airtovac_R (vactoair_R v) - v) <= 1 / 1000000).
Proof. split. exact vactoair_airtovac. exact airtovac_vactoair. Qed.
