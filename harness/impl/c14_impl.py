"""Runs pydl.smooth / median / uniq / rebin of the repository under test on a list of calls (stdin JSON).

Floats travel as JSON numbers (Python's repr round-trips doubles exactly; float32 results are widened
to the double with the same value)."""
import json
import sys

import numpy as np

import pydl
from pydl import smooth, median, uniq, rebin


def err(e):
    return {'err': type(e).__name__, 'msg': str(e)[:160]}


def arr_out(r):
    return {'ok': np.asarray(r).tolist(), 'dtype': str(np.asarray(r).dtype), 'shape': list(np.asarray(r).shape),
            'is_ndarray': isinstance(r, np.ndarray)}


def call(c):
    f = c['f']
    try:
        if f == 'smooth':
            x = np.array(c['x'], dtype=c.get('dtype', 'f8'))
            x0 = x.copy()
            r = smooth(x, c['w'], edge_truncate=c['et']) if c['et'] is not None else smooth(x, c['w'])
            o = arr_out(r)
            o['input_unchanged'] = bool(np.array_equal(x, x0))
            return o
        if f == 'median':
            x = np.array(c['x'], dtype='f8')
            r = median(x, even=True) if c['even'] else median(x)
            return {'ok': float(r), 'ndim0': bool(np.ndim(r) == 0)}
        if f == 'median_axis':
            x = np.array(c['x'], dtype='f8')
            return arr_out(median(x, axis=c['axis']))
        if f == 'medfilt':
            x = np.array(c['x'], dtype=c.get('dtype', 'f8'))
            x0 = x.copy()
            o = arr_out(median(x, width=c['w']))
            o['input_unchanged'] = bool(np.array_equal(x, x0))
            return o
        if f == 'uniq':
            x = np.array(c['x'], dtype=c['dtype'])
            if c.get('idx') is None:
                r = uniq(x)
            else:
                r = uniq(x, np.array(c['idx'], dtype=c.get('idx_dtype', 'i8')))
            o = arr_out(r)
            o['ok'] = [int(v) for v in np.asarray(r).ravel()]
            return o
        if f == 'rebin':
            x = np.array(c['x'], dtype=c['dtype'])
            x0 = x.copy()
            r = rebin(x, tuple(c['d']), sample=True) if c['sample'] else rebin(x, tuple(c['d']))
            o = arr_out(r)
            o['input_unchanged'] = bool(np.array_equal(x, x0))
            return o
        return {'err': 'BadCall'}
    except Exception as e:  # noqa: BLE001 - the error class is the observation
        return err(e)


def main():
    calls = json.load(sys.stdin)
    with np.errstate(all='ignore'):
        out = {'pydl_file': pydl.__file__, 'numpy': np.__version__, 'results': [call(c) for c in calls]}
    json.dump(out, sys.stdout)


if __name__ == '__main__':
    main()
