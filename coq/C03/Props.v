(* C03 -- yanny: object and file never diverge over write/append histories.
   Property theorems only; each is closed by `exact` and followed by Print Assumptions.
   Models: C03/Model.v (file system `fsys`, object `obj`, operations `op`, `step` mirroring yanny.write() and
   yanny.append(), specification `spec_doc` = the original document followed by every appended pair and row),
   Yanny/Parse.v (reader), Yanny/Render.v (writer, `sem`, `doc_ok`).
   Domain: C03/Append.v (`aok` admissible append dictionaries, `clock_ok`, `op_ok`, `hist_ok`, decidable `hist_okb`);
   invariants: C03/Invariant.v (`SInv`, the inductive strengthening) and C03/Append.v (`Inv`, the property's invariant).
   Floats are TEXT in the model (the formatting of numbers is an oracle checked by the harness). *)
From Coq Require Import String.
From Coq Require Import NArith ZArith List Bool.
Import ListNotations.
From PV Require Import Yanny.Bytes Yanny.BytesFacts Yanny.Types Yanny.Parse Yanny.Render
  C03.Model C03.Proofs C03.Invariant C03.Append C03.Examples.
Open Scope N_scope.

(* ------------------------------------------------------------------ refusals change nothing *)

(* write() onto the object's own, existing file is refused; file system and object are unchanged *)
Theorem C03_write_over_existing_refused : forall fs o cmts old,
  o_file o <> [] -> fs_get fs (o_file o) = Some old ->
  step (fs, o) (WriteOverExisting cmts) = (fs, o, Refused).
Proof. exact write_over_own_file_refused. Qed.
Print Assumptions C03_write_over_existing_refused.

(* write(newfile) onto any existing file is refused BEFORE anything is rendered or stored *)
Theorem C03_write_to_existing_refused : forall fs o p cmts old,
  p <> [] -> fs_get fs p = Some old ->
  step (fs, o) (WriteCopy p cmts) = (fs, o, Refused) /\ step (fs, o) (WriteNew p cmts) = (fs, o, Refused).
Proof. exact write_copy_to_existing_refused. Qed.
Print Assumptions C03_write_to_existing_refused.

(* append() when the object's file does not exist: refused (or warned / value error), nothing changes *)
Theorem C03_append_to_missing_refused : forall fs o p d clock,
  fs_get fs p = None ->
  exists out, step (fs, o) (AppendToMissing p d clock) = (fs, o, out) /\ out <> Ok.
Proof. exact append_to_missing_refused. Qed.
Print Assumptions C03_append_to_missing_refused.

(* append({}) warns and changes nothing *)
Theorem C03_append_empty_warns : forall fs o clock,
  o_file o <> [] -> step (fs, o) (AppendEmpty clock) = (fs, o, Warned).
Proof. exact append_empty_warns. Qed.
Print Assumptions C03_append_empty_warns.

(* every operation, on every state: an outcome other than Ok (or a crash of the re-parse) leaves file system and object EQUAL *)
Theorem C03_refusals_change_nothing : forall s x fs' o' out,
  step s x = (fs', o', out) -> out = Refused \/ out = Warned \/ out = ValueErr \/ out = Unmodelled ->
  (fs', o') = s.
Proof. exact not_ok_changes_nothing. Qed.
Print Assumptions C03_refusals_change_nothing.

(* ------------------------------------------------------------------ what a successful operation touches *)

(* a successful append only extends: the earlier bytes are a prefix of the file and of the object's contents,
   something was added, the file name is kept, no other file changes *)
Theorem C03_append_prefix : forall fs o d clock fs' o',
  do_append fs o d clock = (fs', o', Ok) ->
  exists old new, fs_get fs (o_file o) = Some old /\ new <> [] /\
    fs_get fs' (o_file o) = Some (old ++ new) /\ o_contents o' = o_contents o ++ new /\ o_file o' = o_file o /\
    (forall q, beq q (o_file o) = false -> fs_get fs' q = fs_get fs q).
Proof. exact append_prefix. Qed.
Print Assumptions C03_append_prefix.

(* a successful write creates exactly its target (which did not exist), holding the object's new contents *)
Theorem C03_write_creates_only_target : forall fs o nf cmts fs' o',
  do_write fs o nf cmts = (fs', o', Ok) ->
  fs_get fs (o_file o') = None /\ fs_get fs' (o_file o') = Some (o_contents o') /\
  (forall q, beq q (o_file o') = false -> fs_get fs' q = fs_get fs q).
Proof. exact write_creates_only_target. Qed.
Print Assumptions C03_write_creates_only_target.

(* ------------------------------------------------------------------ what append() writes *)

(* the header pairs append() emits are exactly the specification's new pairs (table keys and 'symbols' skipped) *)
Theorem C03_append_pairs_text : forall d p a,
  sem d = Some p -> forallb (entry_ok d) a = true ->
  append_pairs p a = Some (concat (map render_pair (spec_pairs d a))).
Proof. exact append_pairs_spec. Qed.
Print Assumptions C03_append_pairs_text.

(* the rows append() emits are, table by table in the file's table order, the rows given under the upper-case
   name or, preferred when present, under the lower-case name *)
Theorem C03_append_rows_text : forall d a,
  forallb (entry_ok d) a = true -> forall ts, incl ts (d_tables d) ->
  append_rows (map (fun t => upper (t_name t)) ts) a
  = Some (concat (map (fun t => concat (map (render_row (upper (t_name t))) (spec_rows a (upper (t_name t))))) ts)).
Proof. exact append_rows_spec. Qed.
Print Assumptions C03_append_rows_text.

(* appending an admissible dictionary keeps the document inside the writer's domain *)
Theorem C03_append_stays_in_domain : forall d a, doc_ok d = true -> aok d a = true -> doc_ok (spec_append d a) = true.
Proof. exact doc_ok_append. Qed.
Print Assumptions C03_append_stays_in_domain.

(* in a state satisfying the strong invariant, append() adds exactly: the marker line with the clock, the new
   pairs, the new rows; the re-parse succeeds and yields the specification's document *)
Theorem C03_append_adds_text : forall fs o d a clock,
  SInv fs o d -> aok d a = true -> clock_ok clock = true -> new_body d a <> [] ->
  exists fs' p',
    do_append fs o a clock =
      (fs', mkobj (o_file o) (o_contents o ++ S_APPENDED ++ clock ++ [46; NL] ++ new_body d a) (o_raw o) p', Ok) /\
    parse (o_contents o ++ S_APPENDED ++ clock ++ [46; NL] ++ new_body d a) = Some p' /\
    sem (spec_append d a) = Some p'.
Proof. exact append_adds_text. Qed.
Print Assumptions C03_append_adds_text.

(* PARSING IS COMPOSITIONAL OVER APPEND: reading old ++ appended text gives the old document with the new pairs
   after the old pairs and the new rows after the old rows of their tables *)
Theorem C03_parse_append_compositional : forall fs o d a clock,
  SInv fs o d -> aok d a = true -> clock_ok clock = true -> new_body d a <> [] ->
  parse (o_contents o) = sem d /\
  parse (o_contents o ++ S_APPENDED ++ clock ++ [46; NL] ++ new_body d a) = sem (spec_append d a) /\
  sem (spec_append d a) <> None.
Proof. exact parse_append_compositional. Qed.
Print Assumptions C03_parse_append_compositional.

(* ------------------------------------------------------------------ the invariant *)

(* the strong invariant implies the property's invariant: the file named by the object holds exactly the object's
   contents, and reading those contents gives the object's tables and pairs (which are the document d) *)
Theorem C03_strong_invariant_implies_Inv : forall fs o d,
  SInv fs o d ->
  (fs_get fs (o_file o) = Some (o_contents o) /\ parse (o_contents o) = Some (o_state o)) /\ sem d = Some (o_state o).
Proof. exact SInv_Inv. Qed.
Print Assumptions C03_strong_invariant_implies_Inv.

(* writing any document of the writer's domain to a new file establishes it *)
Theorem C03_init_establishes_invariant : forall d p0 raw,
  doc_ok d = true -> p0 <> [] ->
  exists fs o, init_state d p0 raw = Some (fs, o) /\ SInv fs o d /\ o_file o = p0.
Proof. exact init_SInv'. Qed.
Print Assumptions C03_init_establishes_invariant.

(* write(newfile) to a fresh path: Ok, invariant kept for the SAME document, the object now names the new file,
   tables and pairs are unchanged, the old file is untouched *)
Theorem C03_write_preserves_Inv : forall fs o d p cmts,
  SInv fs o d -> p <> [] -> fs_get fs p = None -> cmts_ok cmts = true ->
  exists fs' o', do_write fs o (Some p) cmts = (fs', o', Ok) /\ SInv fs' o' d /\ o_state o' = o_state o /\ o_file o' = p /\
                 fs_get fs' (o_file o) = fs_get fs (o_file o).
Proof. exact write_preserves. Qed.
Print Assumptions C03_write_preserves_Inv.

(* append(a): Ok with the invariant for the extended document, or Warned with nothing changed (and then the
   extended document is the document) *)
Theorem C03_append_preserves_Inv : forall fs o d a clock,
  SInv fs o d -> aok d a = true -> clock_ok clock = true ->
  exists fs' o' out, do_append fs o a clock = (fs', o', out) /\ SInv fs' o' (spec_append d a) /\ o_file o' = o_file o /\
    ((out = Ok /\ exists new, new <> [] /\ o_contents o' = o_contents o ++ new /\ fs_get fs' (o_file o) = Some (o_contents o ++ new)) \/
     (out = Warned /\ fs' = fs /\ o' = o)).
Proof. exact append_preserves. Qed.
Print Assumptions C03_append_preserves_Inv.

(* EVERY operation preserves the invariant, with the specification's document, and has the expected outcome *)
Theorem C03_step_preserves_Inv : forall fs o d x,
  SInv fs o d -> op_ok fs d x ->
  exists fs' o' out, step (fs, o) x = (fs', o', out) /\ SInv fs' o' (spec_op d x) /\ outcome_expected x out.
Proof. exact step_preserves_Inv. Qed.
Print Assumptions C03_step_preserves_Inv.

(* ... hence every finite admissible history does *)
Theorem C03_reachable_SInv : forall ops fs o d,
  SInv fs o d -> hist_ok (fs, o) d ops ->
  let '(fs', o') := run (fs, o) ops in SInv fs' o' (spec_doc d ops).
Proof. exact reachable_Inv. Qed.
Print Assumptions C03_reachable_SInv.

(* THE PROPERTY: after any admissible history from a written document, the invariant Inv holds *)
Theorem C03_reachable_Inv : forall d0 p0 raw ops s,
  doc_ok d0 = true -> p0 <> [] -> init_state d0 p0 raw = Some s -> hist_ok s d0 ops ->
  let '(fs', o') := run s ops in Inv fs' o'.
Proof. exact reachable_Inv_plain. Qed.
Print Assumptions C03_reachable_Inv.

(* ... and tables and pairs are the original ones followed by every appended row / pair, in order *)
Theorem C03_history_content : forall d0 p0 raw ops s,
  doc_ok d0 = true -> p0 <> [] -> init_state d0 p0 raw = Some s -> hist_ok s d0 ops ->
  let '(fs', o') := run s ops in
  fs_get fs' (o_file o') = Some (o_contents o') /\ parse (o_contents o') = Some (o_state o') /\
  sem (spec_doc d0 ops) = Some (o_state o').
Proof. exact history_content. Qed.
Print Assumptions C03_history_content.

(* the domain is decidable: the harness evaluates hist_okb on every history it runs *)
Theorem C03_domain_check_sound : forall ops s d, hist_okb s d ops = true -> hist_ok s d ops.
Proof. exact hist_okb_sound. Qed.
Print Assumptions C03_domain_check_sound.

Theorem C03_in_domain_history : forall d0 p0 raw steps,
  in_domain (CHist d0 p0 raw steps) = true ->
  exists s, init_state d0 p0 raw = Some s /\
  let '(fs', o') := run s (map fst steps) in
  fs_get fs' (o_file o') = Some (o_contents o') /\ parse (o_contents o') = Some (o_state o') /\
  sem (spec_doc d0 (map fst steps)) = Some (o_state o').
Proof. exact in_domain_history. Qed.
Print Assumptions C03_in_domain_history.

(* ------------------------------------------------------------------ non-vacuity: a concrete history of nine operations *)
Theorem C03_example_in_domain : in_domain ex_case = true.
Proof. exact example_in_domain. Qed.
Print Assumptions C03_example_in_domain.

Theorem C03_example_content : spec_doc ex_doc ex_ops = ex_final.
Proof. exact example_history_content. Qed.
Print Assumptions C03_example_content.

Theorem C03_example_outcomes :
  match init_state ex_doc (bs "f.par"%string) false with
  | Some s => outcomes s ex_ops = [Ok; Ok; Ok; Refused; Refused; Warned; Ok; Refused; Ok]
  | None => False
  end.
Proof. exact example_outcomes. Qed.
Print Assumptions C03_example_outcomes.

(* keywords are a dictionary: a history that re-states keywords (existing ones, ones appended earlier, upper-case twins)
   is inside the domain; a re-stated key keeps its place and takes the last value, in the object and in the specification *)
Theorem C03_example_repeated_keys :
  in_domain ex_case2 = true /\
  d_pairs (spec_doc ex_doc ex_ops2) = [(bs "k"%string, bs "last"%string); (bs "K"%string, bs "again"%string)] /\
  match init_state ex_doc (bs "f.par"%string) false with
  | Some s => outcomes s ex_ops2 = [Ok; Ok; Ok; Ok; Ok] /\
              let '(fs, o) := run s ex_ops2 in
              pd_pairs (o_state o) = [(bs "k"%string, bs "last"%string); (bs "K"%string, bs "again"%string)]
  | None => False
  end.
Proof. exact example_repeated_keys. Qed.
Print Assumptions C03_example_repeated_keys.

(* ---- wave 3: the directory may already hold other files of any content (zero bytes, a lone newline, blanks, another
   yanny file, garbage ...); the invariant never looks at them, and write() refuses every existing name whatever it holds
   (C03_write_to_existing_refused has no premise on the content) ---- *)
Theorem C03_other_files_do_not_matter : forall fs o d extra, SInv fs o d -> SInv (fs ++ extra) o d.
Proof. exact SInv_extra. Qed.
Print Assumptions C03_other_files_do_not_matter.

Theorem C03_in_domain_history_with_other_files : forall d0 p0 raw extra steps,
  in_domain (CHistX d0 p0 raw extra steps) = true ->
  exists fs o, init_state d0 p0 raw = Some (fs, o) /\
  let '(fs', o') := run (fs ++ extra, o) (map fst steps) in
  fs_get fs' (o_file o') = Some (o_contents o') /\ parse (o_contents o') = Some (o_state o') /\
  sem (spec_doc d0 (map fst steps)) = Some (o_state o').
Proof. exact in_domain_historyX. Qed.
Print Assumptions C03_in_domain_history_with_other_files.

(* ---- tie of the hand-written scanners to the literals of the CURRENT source (Generated/YannyLits.v is regenerated
   from yanny.py on every run by translate/c01.py; the scanners and their attribution: C01/Lits.v) ---- *)
From PV Require Import Generated.YannyLits C01.Lits.

Theorem C03_source_regexes_are_the_scanners : yanny_regexes = scanner_regexes.
Proof. exact regexes_are_the_scanners. Qed.
Print Assumptions C03_source_regexes_are_the_scanners.

Theorem C03_source_tables_are_the_scanners :
  yanny_dtmap_write = scanner_dtmap_write /\ yanny_dtmap_read = scanner_dtmap_read /\
  yanny_int_types = scanner_int_types /\ yanny_float_types = scanner_float_types /\
  yanny_protect_condition = scanner_protect_condition.
Proof. exact tables_are_the_scanners. Qed.
Print Assumptions C03_source_tables_are_the_scanners.

(* ------------------------------------------------------------------ round 5 *)
From PV Require Import C03.SkelLang Generated.YannyOps C03.SkelSem C03.Skel C03.Total.

(* ---- the control skeleton of yanny.write() / yanny.append(), regenerated from yanny.py on every run by translate/c03.py
   (Generated/YannyOps.v: every statement of the two methods in source order -- file-name decision, existence check,
   refusal, rendering loops, open-and-write, where self._contents / self.filename are assigned, the re-parse; the skipped
   keys `key.upper() in self.tables() or key == 'symbols'`, lower- before upper-case table key, the `len(contents) > 0`
   decision, the marker line, the W_OK check, the warning), is the one the model was written for ... ---- *)
Theorem C03_source_write_skeleton : write_skel = ref_write_skel.
Proof. exact write_skel_is_ref. Qed.
Print Assumptions C03_source_write_skeleton.

(* (append_fix: whether the source terminates an unterminated last line before the marker; read off the skeleton) *)
Theorem C03_source_append_skeleton : append_skel = ref_append_skel append_fix.
Proof. exact append_skel_is_ref. Qed.
Print Assumptions C03_source_append_skeleton.

(* ... and EXECUTING the source's skeleton (SkelSem: statement by statement, a raise leaves what was modified before it
   modified) IS the model's do_write / do_append, for every file system, object and argument *)
Theorem C03_source_write_is_model : forall fs o nf cmts,
  nf <> Some [] -> run_write write_skel fs o nf cmts = do_write fs o nf cmts.
Proof. exact source_write_is_model. Qed.
Print Assumptions C03_source_write_is_model.

Theorem C03_source_append_is_model : forall fs o d clock,
  run_append append_skel fs o d clock = do_append fs o d clock.
Proof. exact source_append_is_model. Qed.
Print Assumptions C03_source_append_is_model.

(* read off the source's skeleton: write() onto an existing name returns file system and object (self.filename included)
   as they were; an append() that does not succeed does too *)
Theorem C03_source_write_refusal_changes_nothing : forall fs o p cmts old,
  p <> [] -> fs_get fs p = Some old -> run_write write_skel fs o (Some p) cmts = (fs, o, Refused).
Proof. exact source_write_refusal_changes_nothing. Qed.
Print Assumptions C03_source_write_refusal_changes_nothing.

Theorem C03_source_append_not_ok_changes_nothing : forall fs o d clock fs' o' out,
  run_append append_skel fs o d clock = (fs', o', out) -> out = Refused \/ out = Warned \/ out = ValueErr \/ out = Unmodelled ->
  (fs', o') = (fs, o).
Proof. exact source_append_not_ok_changes_nothing. Qed.
Print Assumptions C03_source_append_not_ok_changes_nothing.

(* ---- the invariant for EVERY state and EVERY operation (no domain of documents, no admissibility of the arguments):
   unless the re-parse raises, object and file do not diverge ---- *)
Theorem C03_invariant_every_state : forall fs o x fs' o' out,
  Inv fs o -> op_sane fs x -> step (fs, o) x = (fs', o', out) -> out <> Crashed -> Inv fs' o'.
Proof. exact step_keeps_Inv. Qed.
Print Assumptions C03_invariant_every_state.

(* ... after every prefix of every operation list along which no re-parse raises (decidable: trace_okb) *)
Theorem C03_invariant_every_history : forall ops fs o, Inv fs o -> trace_ok (fs, o) ops ->
  forall k, let '(fs', o') := run (fs, o) (firstn k ops) in Inv fs' o'.
Proof. exact run_keeps_Inv. Qed.
Print Assumptions C03_invariant_every_history.

(* histories that start from ANY text the reader accepts (hand-written: char x[] columns whose width grows with the
   appended rows, no final newline, trailing comments, CRLF ...) *)
Theorem C03_text_history_Inv : forall text p0 raw init steps,
  text_domain (CText text p0 raw init steps) = true ->
  exists fs o, init_text text p0 raw = Some (fs, o) /\
  forall k, let '(fs', o') := run (fs, o) (firstn k (map fst steps)) in Inv fs' o'.
Proof. exact text_history_Inv. Qed.
Print Assumptions C03_text_history_Inv.

(* the strong theorem at every prefix: invariant AND content (original + appended so far) after each step *)
Theorem C03_every_prefix_content : forall d0 p0 raw ops s,
  doc_ok d0 = true -> p0 <> [] -> init_state d0 p0 raw = Some s -> hist_ok s d0 ops ->
  forall k, let '(fs', o') := run s (firstn k ops) in
  Inv fs' o' /\ sem (spec_doc d0 (firstn k ops)) = Some (o_state o').
Proof. exact every_prefix_content. Qed.
Print Assumptions C03_every_prefix_content.

(* non-vacuity: a hand-written file with `char s[]`, a trailing comment on its last line and no final newline; a longer
   value is appended (numpy width 1 -> 6), the file is copied, an overwrite is refused, a pair is appended, re-read *)
Theorem C03_example_text_seed_in_domain : text_domain tx_case = true.
Proof. exact tx_in_domain. Qed.
Print Assumptions C03_example_text_seed_in_domain.

Theorem C03_example_unsized_width_growth :
  match init_text tx_text (bs "f.par"%string) false with
  | Some s => col_widths (o_state (snd s)) = [NI4; NS 1] /\
              let '(fs, o) := run s tx_ops in
              col_widths (o_state o) = [NI4; NS 6] /\ o_file o = bs "g.par"%string /\
              pd_pairs (o_state o) = [(bs "k"%string, bs "v"%string); (bs "j"%string, bs "1"%string)] /\
              pd_pairs (o_state (snd (run s (firstn 1 tx_ops)))) = [(bs "k"%string, if append_fix then bs "v"%string else bs "v # note"%string)]
  | None => False
  end.
Proof. exact tx_widths. Qed.
Print Assumptions C03_example_unsized_width_growth.

(* ---------------------------------------------------------------- round 6: the `comments` option in all its forms *)
From PV Require Import C03.SkelLang C03.SkelSem C03.Skel C03.CommentsModel C03.Comments.
From PV Require Generated.YannyOps.
(* write(comments=<list / tuple>) over the header text of C03.CommentsModel IS Model.do_write *)
Theorem C03_write_comments_list_is_write : forall fs o nf l, do_write_c fs o nf (CmtList l) = do_write fs o nf l.
Proof. exact write_c_list. Qed.
Print Assumptions C03_write_comments_list_is_write.

(* EXECUTING the source's write() skeleton with ONE string as comments (the isinstance / startswith / endswith branch of
   the generated Generated/YannyOps.write_skel) is the model: the string verbatim, "# " in front unless it starts with
   '#', one newline at the end unless it has one *)
Theorem C03_source_write_str_is_model : forall fs o nf s, nf <> Some [] ->
  run_write_c YannyOps.write_skel fs o nf (CmtStr s) = do_write_c fs o nf (CmtStr s).
Proof. exact source_write_str_is_model. Qed.
Print Assumptions C03_source_write_str_is_model.

(* a one-line string without a '#' of its own, HOWEVER LONG, is written exactly like the one-element list *)
Theorem C03_write_str_one_line_is_list : forall fs o nf s,
  starts_withb [HASH] s = false -> ends_with [NL] (HASH :: SP :: s) = false ->
  do_write_c fs o nf (CmtStr s) = do_write fs o nf [s].
Proof. exact write_str_one_line. Qed.
Print Assumptions C03_write_str_one_line_is_list.

(* ... so the write keeps invariant and content: the comment text never becomes a pair or a row *)
Theorem C03_write_str_preserves : forall fs o d p s, SInv fs o d -> p <> [] -> fs_get fs p = None -> comment_ok s = true ->
  starts_withb [HASH] s = false -> ends_with [NL] (HASH :: SP :: s) = false ->
  exists fs' o', do_write_c fs o (Some p) (CmtStr s) = (fs', o', Ok) /\ SInv fs' o' d /\ o_state o' = o_state o /\ o_file o' = p /\
                 fs_get fs' (o_file o) = fs_get fs (o_file o).
Proof. exact write_str_preserves. Qed.
Print Assumptions C03_write_str_preserves.

(* a write onto an existing name is refused and changes nothing, whatever form the comments have *)
Theorem C03_write_any_comments_refused : forall fs o p c old, p <> [] -> fs_get fs p = Some old ->
  do_write_c fs o (Some p) c = (fs, o, Refused).
Proof. exact write_c_existing_refused. Qed.
Print Assumptions C03_write_any_comments_refused.

(* non-vacuity: the text of each form; the default header consists of comment lines only *)
Example C03_example_comment_forms :
  comment_text (CmtStr (bs "abc"%string)) = bs "# abc
"%string /\ comment_text (CmtStr (bs "#abc"%string)) = bs "#abc
"%string /\ comment_text (CmtStr (bs "a
# b
"%string)) = bs "# a
# b
"%string /\ comment_text (CmtStr []) = bs "# 
"%string /\ comment_text (CmtList [bs "a"%string; bs "b"%string]) = bs "# a
# b
"%string.
Proof. exact str_forms. Qed.
Example C03_example_default_header_is_comments :
  header_text_ok (comment_text (CmtNone (bs "f1.par"%string) (bs "2026-10-01 00:00:07 UTC"%string))) = true.
Proof. exact none_header_is_comments. Qed.
