(* C04 -- the discrete half of `coverage`, over exact rationals, with the bounds as data:
   dec_coverage / ra_coverage (the walks of getbounds visit every slice / cell that can hold a point within the
   margin), cell_index_valid / cell_index_slice (floor binning lands in the cell that contains the point) and
   pad_covers / dec_pad_covers (get_in_bounds: bounds built from list 1 with padding contain every list-1 point). *)
From Coq Require Import ZArith QArith Qround List Bool Arith Lia Lqa.
Import ListNotations.
From PV Require Import C04.Model C04.Proofs.
Close Scope Z_scope. Open Scope Q_scope.

Definition mono (B : list Q) (n : nat) : Prop := forall i j, (i <= j)%nat -> (j <= n)%nat -> qbnd B i <= qbnd B j.

Lemma Qlt_bool_false : forall a b, Qlt_bool a b = false <-> b <= a.
Proof.
  intros a b. unfold Qlt_bool. rewrite negb_false_iff. apply Qle_bool_iff.
Qed.

(* ------------------------------------------------------------------ the declination walk *)
Lemma dec_down_spec : forall B dec m c,
  (dec_down B dec m c <= c)%nat /\ (dec_down B dec m c = O \/ m <= dec - qbnd B (dec_down B dec m c)).
Proof.
  induction c as [|c IH]; simpl; [split; [lia|left; reflexivity]|].
  destruct (Qlt_bool (dec - qbnd B (S c)) m) eqn:E.
  - destruct IH as [H1 H2]. split; [lia|exact H2].
  - split; [lia|right]. apply Qlt_bool_false. exact E.
Qed.

Lemma dec_up_spec : forall B dec m nDec fuel c, (nDec <= fuel + S c)%nat -> (c < nDec)%nat ->
  let r := dec_up B dec m nDec fuel c in
  (c <= r)%nat /\ (r < nDec)%nat /\ (S r = nDec \/ m <= qbnd B (S r) - dec).
Proof.
  induction fuel as [|fuel IH]; intros c Hf Hc r; subst r; simpl.
  - split; [lia|]. split; [exact Hc|left; lia].
  - destruct (Qlt_bool (qbnd B (S c) - dec) m) eqn:E; simpl.
    + destruct (S c <? nDec)%nat eqn:E2.
      * apply Nat.ltb_lt in E2. destruct (IH (S c) ltac:(lia) E2) as [H1 [H2 H3]].
        split; [lia|]. split; [exact H2|exact H3].
      * apply Nat.ltb_ge in E2. split; [lia|]. split; [exact Hc|left; lia].
    + split; [lia|]. split; [exact Hc|right]. apply Qlt_bool_false. exact E.
Qed.

(* dec_coverage: every slice that holds a declination within m of dec is inside [decChunkMin, decChunkMax] *)
Theorem dec_coverage : forall B nDec dec m c0 s d',
  mono B nDec -> (c0 < nDec)%nat -> (s < nDec)%nat ->
  qbnd B s <= d' <= qbnd B (S s) -> dec - d' < m -> d' - dec < m ->
  (dec_down B dec m c0 <= s <= dec_up B dec m nDec nDec c0)%nat.
Proof.
  intros B nDec dec m c0 s d' Hmono Hc0 Hs [Hd1 Hd2] Hlo Hhi.
  destruct (dec_down_spec B dec m c0) as [D1 D2].
  destruct (dec_up_spec B dec m nDec nDec c0 ltac:(lia) Hc0) as [U1 [U2 U3]]. cbv zeta in *.
  split.
  - destruct (le_lt_dec (dec_down B dec m c0) s) as [H|H]; [exact H|]. exfalso.
    destruct D2 as [D2|D2]; [lia|].
    assert (qbnd B (S s) <= qbnd B (dec_down B dec m c0)) by (apply Hmono; lia). lra.
  - destruct (le_lt_dec s (dec_up B dec m nDec nDec c0)) as [H|H]; [exact H|]. exfalso.
    destruct U3 as [U3|U3]; [lia|].
    assert (qbnd B (S (dec_up B dec m nDec nDec c0)) <= qbnd B s) by (apply Hmono; lia). lra.
Qed.

(* ------------------------------------------------------------------ the right-ascension walk (inside one slice) *)
Lemma ra_down_spec : forall B ra mg c,
  (-1 <= ra_down B ra mg c <= Z.of_nat c)%Z /\
  (ra_down B ra mg c = (-1)%Z \/ mg <= ra - qbnd B (Z.to_nat (ra_down B ra mg c))).
Proof.
  induction c as [|c IH]; cbn [ra_down].
  - destruct (Qlt_bool (ra - qbnd B 0) mg) eqn:E; [split; [lia|left; reflexivity]|].
    split; [lia|right]. apply Qlt_bool_false. exact E.
  - destruct (Qlt_bool (ra - qbnd B (S c)) mg) eqn:E.
    + destruct IH as [H1 H2]. split; [lia|exact H2].
    + split; [lia|right]. rewrite Nat2Z.id. apply Qlt_bool_false. exact E.
Qed.

Lemma ra_up_spec : forall B ra mg n fuel c, (n <= fuel + c)%nat -> (c <= n)%nat ->
  let r := ra_up B ra mg n fuel c in
  (Z.of_nat c <= r <= Z.of_nat n)%Z /\ (r = Z.of_nat n \/ mg <= qbnd B (S (Z.to_nat r)) - ra).
Proof.
  induction fuel as [|fuel IH]; intros c Hf Hc r; subst r; cbn [ra_up].
  - split; [lia|left; f_equal; lia].
  - destruct (c <? n)%nat eqn:E2; simpl.
    + apply Nat.ltb_lt in E2. destruct (Qlt_bool (qbnd B (S c) - ra) mg) eqn:E.
      * destruct (IH (S c) ltac:(lia) ltac:(lia)) as [H1 H2]. split; [lia|exact H2].
      * split; [lia|right]. rewrite Nat2Z.id. apply Qlt_bool_false. exact E.
    + apply Nat.ltb_ge in E2. split; [lia|left; f_equal; lia].
Qed.

(* every cell of the slice that holds a right ascension within mg of ra (no wrap) is inside [raChunkMin, raChunkMax] *)
Theorem ra_coverage : forall B n ra mg c0 s ra',
  mono B n -> (c0 < n)%nat -> (s < n)%nat ->
  qbnd B s <= ra' <= qbnd B (S s) -> ra - ra' < mg -> ra' - ra < mg ->
  (ra_down B ra mg c0 <= Z.of_nat s <= ra_up B ra mg n n c0)%Z.
Proof.
  intros B n ra mg c0 s ra' Hmono Hc0 Hs [Hd1 Hd2] Hlo Hhi.
  destruct (ra_down_spec B ra mg c0) as [D1 D2].
  destruct (ra_up_spec B ra mg n n c0 ltac:(lia) ltac:(lia)) as [U1 U2]. cbv zeta in *.
  split.
  - destruct (Z_le_gt_dec (ra_down B ra mg c0) (Z.of_nat s)) as [H|H]; [exact H|]. exfalso.
    destruct D2 as [D2|D2]; [lia|].
    assert (qbnd B (S s) <= qbnd B (Z.to_nat (ra_down B ra mg c0))) by (apply Hmono; lia). lra.
  - destruct (Z_le_gt_dec (Z.of_nat s) (ra_up B ra mg n n c0)) as [H|H]; [exact H|]. exfalso.
    destruct U2 as [U2|U2]; [lia|].
    assert (qbnd B (S (Z.to_nat (ra_up B ra mg n n c0))) <= qbnd B s) by (apply Hmono; lia). lra.
Qed.

(* across the seam: a point in the first (last) cell of a slice spanning 0..360 whose RA differs by less than mg
   modulo 360 is reached through the single wrap cell nRa (resp. -1) *)
Theorem ra_coverage_seam_up : forall B n ra mg c0 ra',
  mono B n -> (c0 < n)%nat -> qbnd B c0 <= ra <= qbnd B n ->
  ra' + (qbnd B n - qbnd B 0) - ra < mg -> qbnd B 0 <= ra' ->
  ra_up B ra mg n n c0 = Z.of_nat n.
Proof.
  intros B n ra mg c0 ra' Hmono Hc0 [Hr1 Hr2] Hw Hra'.
  destruct (ra_up_spec B ra mg n n c0 ltac:(lia) ltac:(lia)) as [U1 U2]. cbv zeta in *.
  destruct U2 as [U2|U2]; [exact U2|].
  destruct (Z.eq_dec (ra_up B ra mg n n c0) (Z.of_nat n)) as [E|E]; [exact E|]. exfalso.
  assert (qbnd B (S (Z.to_nat (ra_up B ra mg n n c0))) <= qbnd B n) by (apply Hmono; lia). lra.
Qed.

Theorem ra_coverage_seam_down : forall B n ra mg c0 ra',
  mono B n -> (c0 < n)%nat -> qbnd B 0 <= ra ->
  ra + (qbnd B n - qbnd B 0) - ra' < mg -> ra' <= qbnd B n ->
  ra_down B ra mg c0 = (-1)%Z.
Proof.
  intros B n ra mg c0 ra' Hmono Hc0 Hr1 Hw Hra'.
  destruct (ra_down_spec B ra mg c0) as [D1 D2].
  destruct D2 as [D2|D2]; [exact D2|]. exfalso.
  assert (qbnd B 0 <= qbnd B (Z.to_nat (ra_down B ra mg c0))) by (apply Hmono; lia).
  assert (qbnd B 0 <= qbnd B n) by (apply Hmono; lia). lra.
Qed.

(* ------------------------------------------------------------------ floor binning *)
Lemma inject_nat_pos : forall n, (0 < n)%nat -> 0 < inject_Z (Z.of_nat n).
Proof. intros n Hn. replace 0 with (inject_Z 0) by reflexivity. rewrite <- Zlt_Qlt. lia. Qed.

Theorem cell_index_valid : forall x lo hi n, lo < hi -> (0 < n)%nat -> lo <= x < hi ->
  (0 <= cell_index x lo hi n < Z.of_nat n)%Z.
Proof.
  intros x lo hi n Hlh Hn [Hx1 Hx2]. unfold cell_index.
  pose proof (inject_nat_pos n Hn) as Hnp.
  set (t := (x - lo) * inject_Z (Z.of_nat n) / (hi - lo)).
  assert (Ht0 : 0 <= t).
  { unfold t. apply Qle_shift_div_l; [lra|]. rewrite Qmult_0_l. apply Qmult_le_0_compat; lra. }
  assert (Ht1 : t < inject_Z (Z.of_nat n)).
  { unfold t. apply Qlt_shift_div_r; [lra|]. rewrite (Qmult_comm (inject_Z (Z.of_nat n))).
    apply Qmult_lt_r; [exact Hnp|lra]. }
  split.
  - replace 0%Z with (Qfloor 0) by reflexivity. apply Qfloor_resp_le. exact Ht0.
  - pose proof (Qfloor_le t) as Hf. rewrite Zlt_Qlt. lra.
Qed.

(* for equally spaced bounds the index computed by floor is the cell that contains x *)
Theorem cell_index_slice : forall x lo hi n, lo < hi -> (0 < n)%nat -> lo <= x < hi ->
  let k := Z.to_nat (cell_index x lo hi n) in
  ebnd lo hi n k <= x < ebnd lo hi n (S k).
Proof.
  intros x lo hi n Hlh Hn Hx k.
  destruct (cell_index_valid x lo hi n Hlh Hn Hx) as [Hk0 Hk1].
  pose proof (inject_nat_pos n Hn) as Hnp.
  set (t := (x - lo) * inject_Z (Z.of_nat n) / (hi - lo)).
  assert (Hkt : inject_Z (Z.of_nat k) <= t) by (unfold k; rewrite Z2Nat.id by exact Hk0; apply Qfloor_le).
  assert (Htk : t < inject_Z (Z.of_nat (S k))).
  { unfold k. rewrite Nat2Z.inj_succ, Z2Nat.id by exact Hk0. unfold Z.succ. apply Qlt_floor. }
  assert (Ht : t * (hi - lo) == (x - lo) * inject_Z (Z.of_nat n)).
  { unfold t. field. lra. }
  unfold ebnd. split.
  - assert (H1 : (hi - lo) * inject_Z (Z.of_nat k) / inject_Z (Z.of_nat n) <= x - lo).
    { apply Qle_shift_div_r; [exact Hnp|]. rewrite <- Ht. rewrite (Qmult_comm (hi - lo)).
      apply Qmult_le_compat_r; [exact Hkt|lra]. }
    lra.
  - assert (H1 : x - lo < (hi - lo) * inject_Z (Z.of_nat (S k)) / inject_Z (Z.of_nat n)).
    { apply Qlt_shift_div_l; [exact Hnp|]. rewrite <- Ht. rewrite (Qmult_comm (hi - lo)).
      apply Qmult_lt_r; [lra|exact Htk]. }
    lra.
Qed.

(* ------------------------------------------------------------------ padding of the bounds (chunks.__init__) *)
(* nDec = 3 + floor(range/w) cells of width w, centred: at least one whole cell beyond each end of [a, b] *)
Theorem pad_covers : forall a b w, 0 < w -> a <= b ->
  pad_lo a b w + w <= a /\ b + w <= pad_hi a b w /\ (3 <= pad_n a b w)%nat.
Proof.
  intros a b w Hw Hab. unfold pad_hi, pad_lo, pad_n.
  set (f := Qfloor ((b - a) / w)).
  assert (Hf0 : (0 <= f)%Z).
  { unfold f. replace 0%Z with (Qfloor 0) by reflexivity. apply Qfloor_resp_le.
    apply Qle_shift_div_l; [exact Hw|lra]. }
  assert (Hn : inject_Z (Z.of_nat (3 + Z.to_nat f)) == 3 + inject_Z f).
  { rewrite Nat2Z.inj_add, Z2Nat.id by exact Hf0. rewrite inject_Z_plus. reflexivity. }
  assert (Hlt : (b - a) / w < inject_Z f + 1).
  { pose proof (Qlt_floor ((b - a) / w)) as H. fold f in H. rewrite inject_Z_plus in H. exact H. }
  assert (Hr : b - a < (inject_Z f + 1) * w).
  { assert (E : (b - a) / w * w == b - a) by (field; lra).
    rewrite <- E. apply (proj2 (Qmult_lt_r _ _ w Hw)). exact Hlt. }
  split; [|split; [|lia]]; rewrite Hn; lra.
Qed.

(* get_in_bounds, declination: every list-1 declination lies inside [decBounds[0], decBounds[nDec]) (clamped and pinned) *)
Theorem dec_pad_covers : forall a b w dec, 0 < w -> a <= dec <= b -> -(90) < dec < 90 ->
  dec_lo a b w <= dec < dec_hi a b w.
Proof.
  intros a b w dec Hw [Ha Hb] [Hm Hp]. destruct (pad_covers a b w Hw ltac:(lra)) as [H1 [H2 _]].
  unfold dec_lo, dec_hi.
  destruct (Qlt_bool (pad_lo a b w) (- (90) + 3 * w)); destruct (Qlt_bool (90 - 3 * w) (pad_hi a b w)); lra.
Qed.

(* get_in_bounds, right ascension in a slice that does not embrace 0/360 (w = minSize / cosDecMin) *)
Theorem ra_pad_covers : forall a b w ra, 0 < w -> a <= ra <= b -> pad_lo a b w <= ra < pad_hi a b w.
Proof. intros a b w ra Hw [Ha Hb]. destruct (pad_covers a b w Hw ltac:(lra)) as [H1 [H2 _]]. lra. Qed.

(* ------------------------------------------------------------------ from the two margin facts to `coverage` (no wrap) *)
Close Scope Q_scope.

Lemma gb_rows_nth : forall raB ra mg k i rows, gb_rows raB ra mg i k = Some rows ->
  forall j, (j < k)%nat ->
    let B := nth (i + j) raB [] in
    let n := (length B - 1)%nat in
    let r0 := cell_index ra (qbnd B 0) (qbnd B n) n in
    (0 <= r0 <= Z.of_nat n - 1)%Z /\
    nth_error rows j = Some (ra_down B ra mg (Z.to_nat r0), ra_up B ra mg n n (Z.to_nat r0)).
Proof.
  induction k as [|k IH]; intros i rows H j Hj; [lia|].
  cbn [gb_rows] in H.
  set (B0 := nth i raB []) in *. set (n0 := (length B0 - 1)%nat) in *.
  set (r00 := cell_index ra (qbnd B0 0) (qbnd B0 n0) n0) in *.
  destruct ((r00 <? 0)%Z || (Z.of_nat n0 - 1 <? r00)%Z) eqn:E; [discriminate|].
  apply orb_false_iff in E. destruct E as [E1 E2]. apply Z.ltb_ge in E1. apply Z.ltb_ge in E2.
  destruct (gb_rows raB ra mg (S i) k) as [rest|] eqn:Er; [|discriminate].
  inversion H; subst rows. clear H. destruct j as [|j].
  - cbv zeta. rewrite Nat.add_0_r. fold B0. fold n0. fold r00. cbn [nth_error]. split; [lia|reflexivity].
  - cbv zeta. replace (i + S j)%nat with (S i + j)%nat by lia. cbn [nth_error]. apply (IH (S i) rest Er j). lia.
Qed.

Lemma In_rows_cells : forall nRa ext rows d0 j lo hi c,
  nth_error rows j = Some (lo, hi) -> In c (row_cells nRa ext (d0 + Z.of_nat j) lo hi) ->
  In c (rows_cells nRa ext d0 rows).
Proof.
  induction rows as [|[l h] rows IH]; intros d0 j lo hi c Hn Hc; [destruct j; discriminate|].
  cbn [rows_cells]. apply in_app_iff. destruct j as [|j].
  - cbn [nth_error] in Hn. inversion Hn; subst. left. rewrite Z.add_0_r in Hc. exact Hc.
  - right. cbn [nth_error] in Hn. apply (IH (d0 + 1)%Z j lo hi c Hn).
    replace (d0 + 1 + Z.of_nat j)%Z with (d0 + Z.of_nat (S j))%Z by lia. exact Hc.
Qed.

Lemma In_row_cells_plain : forall nRa d lo hi r,
  (lo <= r <= hi)%Z -> (0 <= r <= nRa d - 1)%Z -> In (d, r) (row_cells nRa 0 d lo hi).
Proof.
  intros nRa d lo hi r Hr Hn. unfold row_cells. apply in_flat_map. exists r. split.
  - apply In_zrange. lia.
  - assert (Hw : wrap (nRa d) r = r).
    { unfold wrap. destruct (r <? 0)%Z eqn:E1; [apply Z.ltb_lt in E1; lia|].
      destruct (nRa d - 1 <? r)%Z eqn:E2; [apply Z.ltb_lt in E2; lia|reflexivity]. }
    cbv zeta. rewrite Hw. unfold in_range.
    assert (E : ((0 <=? r)%Z && (r <=? nRa d - 1)%Z) = true) by (apply andb_true_iff; split; apply Z.leb_le; lia).
    rewrite E. left. reflexivity.
Qed.

Definition nRa_of_bounds (raB : list (list Q)) (d : Z) : Z := Z.of_nat (length (nth (Z.to_nat d) raB []) - 1).

(* If the exact walks succeed for the list-2 point (ra, dec), then every cell (s, r) of the grid that holds a point
   (ra1, dec1) with |dec1 - dec| < m and |ra1 - ra| < mg (no wrap) is among the cells the point is entered in.
   With C04_dec_margin_covers / C04_ra_margin_covers supplying the two inequalities this is `coverage` for exact
   arithmetic away from the 0/360 seam. *)
Theorem coverage_exact_nowrap : forall decB raB ra dec m mg b s r dec1 ra1,
  let nDec := (length decB - 1)%nat in
  let B := nth s raB [] in
  let n := (length B - 1)%nat in
  mono decB nDec -> mono B n ->
  getbounds_model decB raB ra dec m mg = Some b ->
  (s < nDec)%nat -> (qbnd decB s <= dec1 <= qbnd decB (S s))%Q -> (dec - dec1 < m)%Q -> (dec1 - dec < m)%Q ->
  (r < n)%nat -> (qbnd B r <= ra1 <= qbnd B (S r))%Q -> (ra - ra1 < mg)%Q -> (ra1 - ra < mg)%Q ->
  In (Z.of_nat s, Z.of_nat r) (fill_cells (nRa_of_bounds raB) b).
Proof.
  intros decB raB ra dec m mg b s r dec1 ra1 nDec B n Hmd Hmr Hgb Hs Hd1 Hd2 Hd3 Hr Hr1 Hr2 Hr3.
  unfold getbounds_model in Hgb. fold nDec in Hgb.
  set (c0 := cell_index dec (qbnd decB 0) (qbnd decB nDec) nDec) in *.
  destruct ((c0 <? 0)%Z || (Z.of_nat nDec - 1 <? c0)%Z) eqn:E; [discriminate|].
  apply orb_false_iff in E. destruct E as [E1 E2]. apply Z.ltb_ge in E1. apply Z.ltb_ge in E2.
  set (dmin := dec_down decB dec m (Z.to_nat c0)) in *.
  set (dmax := dec_up decB dec m nDec nDec (Z.to_nat c0)) in *.
  destruct (gb_rows raB ra mg dmin (S dmax - dmin)) as [rows|] eqn:Eg; [|discriminate].
  inversion Hgb; subst b. clear Hgb.
  assert (Hrange : (dmin <= s <= dmax)%nat).
  { apply (dec_coverage decB nDec dec m (Z.to_nat c0) s dec1); auto. lia. }
  destruct (gb_rows_nth raB ra mg _ dmin rows Eg (s - dmin)%nat ltac:(lia)) as [Hr0 Hnth].
  replace (dmin + (s - dmin))%nat with s in * by lia. fold B n in Hr0, Hnth.
  set (r0 := cell_index ra (qbnd B 0) (qbnd B n) n) in *.
  assert (Hcov : (ra_down B ra mg (Z.to_nat r0) <= Z.of_nat r <= ra_up B ra mg n n (Z.to_nat r0))%Z).
  { apply (ra_coverage B n ra mg (Z.to_nat r0) r ra1); auto. lia. }
  unfold fill_cells. cbn [fst snd].
  apply (In_rows_cells (nRa_of_bounds raB) 0 rows (Z.of_nat dmin) (s - dmin)%nat _ _ _ Hnth).
  replace (Z.of_nat dmin + Z.of_nat (s - dmin))%Z with (Z.of_nat s) by lia.
  apply In_row_cells_plain; [exact Hcov|].
  unfold nRa_of_bounds. rewrite Nat2Z.id. fold B n. lia.
Qed.
