"""C18 -- Great-circle distance and SDSS great-circle coordinates are geometrically exact.

Shape of the check (see notes/C18.md):
  translate : pydl source -> coq/Generated/Gcirc.v, coq/Generated/Coord.v  (translate/c18.py)
  prove     : coq/C18/Props.v  (theorems about the GENERATED expressions, over Coq Reals)
  correspond: * certified enclosures: for every case a Coq lemma  |S(inputs) - r| <= tol  with r the exact rational
                of the double the implementation returned, proved by the Interval tactic against the hand-written
                specification S (C18/Spec.v; independent of Generated/, so it still builds when a proof breaks);
              * direct behavioural checks on the real code (symmetry, zero, range, never NaN, unit conventions agree,
                frame round trips, separations preserved, nu = 0 great circle, angles <-> vectors round trips).
"""
import math
import os
import re
import time
from concurrent.futures import ThreadPoolExecutor
from decimal import Decimal as D, getcontext
from fractions import Fraction as F

from harness import common as C
from translate import c18 as T

ID = 'C18'
PROPS_V = 'C18/Props.v'
COQCHK = 'norec'   # closure rests on Reals (and Interval): full coqchk takes tens of minutes
LEVEL = 'proof'
PROVE_TIMEOUT = 900
TRUSTED = [
    'translate/c18.py: Python ast -> Gallina over R for gcirc, munu_to_radec, radec_to_munu, stripe_to_eta/incl, '
    'angles_to_x, x_to_angles (np.sin/cos/sqrt/arcsin/arccos/arctan2/deg2rad/rad2deg read as the real functions; '
    '`X.to(u.radian).value` read as the angle X in radians; float literals read as their decimal text)',
    'Coq Reals (axioms ClassicalDedekindReals.sig_forall_dec, sig_not_dec, FunctionalExtensionality.functional_extensionality_dep, '
    'Classical_Prop.classic) and the coq-interval tactic (kernel-checked enclosures)',
    'astropy frame machinery (Angle/Quantity unit conversion, transform_to, frame attribute handling) is exercised, not modelled',
    'C18/Spec.v atan2 is the textbook two-argument arctangent (numpy.arctan2 away from the origin); used only in C18_angles_x_inverse',
    'harness-side float arithmetic in the direct behavioural checks (tolerances stated in notes/C18.md)',
]
ASSUMPTIONS = [
    'accuracy statement, taken literally: |gcirc - exact| <= 1e-6*|gcirc| from 1 micro-arcsecond (2.8e-10 deg) to 180 deg in all three '
    'conventions; the only absolute floor is 1e-13 arcsec (4.85e-19 rad for units=0), for exact zeros. "exact" is the great-circle '
    'distance of the points whose coordinates are exactly the doubles passed in',
    'two input families fail the literal 1e-6 below ~1e-6 deg and are open known findings (generated on every run, fixed members first): '
    '(a) a point at exactly +-90 deg in the degree/hour conventions (deg2rad(90) is 6.1e-17 rad short of pi/2: up to 2.5e-11 arcsec '
    'absolute), (b) right ascensions a full turn apart (sin(pi + x) loses x below 1e-16 rad), all three conventions; the regular polar '
    'class uses near-pole points 90 - 2^-k deg below 1e-6 deg and RA wraps only from 1e-6 deg on',
    'frame round trips / isometry are decided with tolerance 2e-7 rad (1e-6 relative on separations, floor 5e-8 rad): arcsin near '
    '+-1 limits what doubles can return at the poles of either system',
    'node is the frame default (95 deg); radec_to_munu does not propagate a non-default node (outside the property)',
    'angles <-> vectors: open domain (polar angle at least 1e-4 deg from 0 and 180); azimuth compared modulo 360; unit vectors within '
    '1e-3 .. 1e-12 rad of a pole must come back finite, in range and to 5e-8 (arccos loses half of its digits there); x_to_angles '
    'divides by the SQUARED norm, so it is only meaningful for unit vectors (C18_x_to_angles_scale_invariant_refuted) -- non-unit and '
    'zero vectors are outside the property',
    'never-NaN / range / symmetry / agreement with the float64 vector formula (1e-6 relative + 1e-8 arcsec) are decided on ~9 million '
    'pairs per run next to the antipode, coincidence, 90 deg, RA differences of -4 .. 4 half turns, both poles and the equator, with '
    'displacements over the decades 1e-16 .. 1e-1 deg, three conventions, array and scalar calls (volume scans in the implementation '
    'process); certified enclosures cover 180 - 1e-12 .. 180 - 1e-3 deg (a rotating third of the decades in the quick tier)',
    'frame enclosures within 0.1 deg of a pole of the target system are certified to 5e-8 instead of 1e-10 (arcsin conditioning)',
]

NODE = 95.0

# ----------------------------------------------------------------------------
# high-precision reference (uncertified; used for statistics and to classify a failed enclosure)
# ----------------------------------------------------------------------------
getcontext().prec = 60


def _hp_eps():
    return D(10) ** -(getcontext().prec + 6)


def _atan_small(x):
    s = t = x
    x2 = x * x
    n = 1
    eps = _hp_eps()
    while abs(t) > eps and n < 4000:
        t = -t * x2
        n += 2
        s += t / n
    return s


def hp_atan(x):
    x = D(x)
    k = 0
    while abs(x) > D('0.05'):
        x = x / (1 + (1 + x * x).sqrt())
        k += 1
    return _atan_small(x) * (2 ** k)


_PI_CACHE = {}


def hp_pi():
    """pi at the precision of the current decimal context"""
    p = getcontext().prec
    if p not in _PI_CACHE:
        _PI_CACHE[p] = 4 * (4 * hp_atan(D(1) / 5) - hp_atan(D(1) / 239))
    return _PI_CACHE[p]


HP_PI = hp_pi()


def hp_sin(x):
    x = D(x)
    pi = hp_pi()
    x = x - (x / (2 * pi)).to_integral_value() * (2 * pi)
    s = t = x
    x2 = x * x
    n = 1
    eps = _hp_eps()
    while abs(t) > eps and n < 4000:
        n += 2
        t = -t * x2 / ((n - 1) * n)
        s += t
    return s


def hp_cos(x):
    return hp_sin(D(x) + hp_pi() / 2)


def hp_hav(units, ra1, dec1, ra2, dec2):
    """(haversine h, 1 - h) of the two points; 1 - h is computed as cos^2(ddec/2) - cos d1 cos d2 sin^2(dra/2) so that it keeps
    its relative accuracy next to the antipode"""
    f = [D(x) for x in (ra1, dec1, ra2, dec2)]
    if units == 1:
        f = [f[0] * 15, f[1], f[2] * 15, f[3]]
    if units > 0:
        f = [x * hp_pi() / 180 for x in f]
    a1, d1, a2, d2 = f
    cc = hp_cos(d1) * hp_cos(d2) * hp_sin((a2 - a1) / 2) ** 2
    return hp_sin((d2 - d1) / 2) ** 2 + cc, hp_cos((d2 - d1) / 2) ** 2 - cc


def hp_gcirc(units, ra1, dec1, ra2, dec2):
    h, _ = hp_hav(units, ra1, dec1, ra2, dec2)
    if h >= 1:
        d = hp_pi()
    elif h <= 0:
        d = D(0)
    else:
        d = 2 * hp_atan(h.sqrt() / (1 - h).sqrt())
    return d if units == 0 else d * 180 / hp_pi() * 3600


def antipode_bits(units, pts):
    """-log2(1 - h) rounded up (how close the haversine is to 1), None when 1 - h is zero to 150 digits (exactly antipodal);
    decides the precision the Interval tactic needs to separate h from 1"""
    from decimal import localcontext
    with localcontext() as lc:
        lc.prec = 170
        _, om = hp_hav(units, *pts)
        if om <= D(10) ** -150:
            return None
        return int(-om.ln() / D(2).ln()) + 1


# ----------------------------------------------------------------------------
# literals and enclosure runner
# ----------------------------------------------------------------------------

def rlit(x):
    fr = F(x)
    n, d = fr.numerator, fr.denominator
    s = str(n) if n >= 0 else '(-%d)' % (-n)
    return s if d == 1 else '(%s / %d)' % (s, d)


HEADER = ('From Coq Require Import Reals ZArith Lra Lia.\nFrom Interval Require Import Tactic.\n'
          'From PV Require Import C18.Spec C18.SpecProofs.\nOpen Scope R_scope.\n')


def run_lemmas(ctx, lemmas, tag, nshards=None):
    """lemmas: list of Coq texts (each a complete `Lemma ... Qed.`).  Returns (list of bool (proved), seconds).
    coqc stops at the first error of a file: the failing lemma is found from the reported line, marked, and the
    lemmas after it are run again (those before it were already checked)."""
    if not lemmas:
        return [], 0.0
    nshards = nshards or min(C.NPROC, max(1, len(lemmas) // 4))
    groups = [list(range(k, len(lemmas), nshards)) for k in range(nshards)]
    groups = [g for g in groups if g]
    nhead = HEADER.count('\n')
    ok = [True] * len(lemmas)
    retries = {}
    t0 = time.time()
    rnd = 0
    while groups:
        files, starts = [], []
        for k, g in enumerate(groups):
            p = os.path.join(ctx.work, '%s_%02d_%03d.v' % (tag, rnd, k))
            line = nhead + 1
            st = []
            with open(p, 'w') as f:
                f.write(HEADER)
                for i in g:
                    st.append(line)
                    f.write(lemmas[i] + '\n')
                    line += lemmas[i].count('\n') + 1
            files.append(p)
            starts.append(st)
        with ThreadPoolExecutor(max_workers=C.NPROC) as ex:
            outs = list(ex.map(lambda p: C.coqc_file(p, 900), files))
        nxt = []
        for (rc, out), g, st in zip(outs, groups, starts):
            if rc == 0:
                continue
            m = re.search(r'line (\d+), characters', out)
            if not m and retries.get(tuple(g), 0) < 2:
                # coqc died without pointing at a sentence (killed, out of memory, timeout on an overloaded machine): that says
                # nothing about any lemma -- run the same group again (twice at most) before blaming its first lemma
                retries[tuple(g)] = retries.get(tuple(g), 0) + 1
                nxt.append(g)
                continue
            j = 0
            if m:
                ln = int(m.group(1))
                j = max(k for k in range(len(g)) if st[k] <= ln) if ln >= st[0] else 0
            ok[g[j]] = False
            if g[j + 1:]:
                nxt.append(g[j + 1:])
        groups = nxt
        rnd += 1
    return ok, time.time() - t0


# ----------------------------------------------------------------------------
# translate
# ----------------------------------------------------------------------------

def committed_text(name):
    """the committed version of coq/Generated/<name> (what the unmodified repository generates), if git has one"""
    import subprocess
    try:
        p = subprocess.run(['git', '-C', C.VERIF, 'show', 'HEAD:coq/Generated/' + name], stdout=subprocess.PIPE,
                           stderr=subprocess.DEVNULL, text=True, timeout=30)
        return p.stdout if p.returncode == 0 and p.stdout.strip() else None
    except Exception:  # noqa: BLE001
        return None


def translate(ctx):
    texts, info = T.generate(C.REPO)
    for name, text in texts.items():
        if text is not None:
            info.setdefault('changed', {})[name] = C.write_if_changed(os.path.join(C.COQ, 'Generated', name), text)
        else:
            # unrecognised source: do not leave a file generated from some other tree in place -- fall back to the
            # committed file (else keep what is there); the correspondence run alone then ties model to code
            info.setdefault('kept', []).append(name)
            old = committed_text(name)
            if old is not None:
                info.setdefault('restored_committed', {})[name] = C.write_if_changed(os.path.join(C.COQ, 'Generated', name), old)
    if not info['recognised']:
        info['note'] = ('source shape not recognised for %s; the previous generated file is kept and the correspondence '
                        'run alone ties model to code' % info.get('kept'))
    return {'C18': info}


# ----------------------------------------------------------------------------
# running jobs; process-global state
# ----------------------------------------------------------------------------

def run_jobs(ctx, jobs, nb=None):
    """jobs over nb implementation processes (fresh interpreters); every process ends with a `globals` job: the state recorded
    before `import pydl`, after it, and after all calls of that process.  Returns the results in job order."""
    nb = max(1, min(nb or C.NPROC, len(jobs)))
    outs = C.run_impl_parallel('c18_impl.py', [jobs[k::nb] + [{'op': 'globals'}] for k in range(nb)])
    results = [None] * len(jobs)
    for k, o in enumerate(outs):
        for j, r in enumerate(o['results'][:-1]):
            results[k + j * nb] = r
        check_globals(ctx, o['results'][-1], [j_['op'] for j_ in jobs[k::nb]])
    ctx.coverage.setdefault('pydl_file', outs[0]['pydl_file'])
    return results


def check_globals(ctx, g, ops):
    """importing pydl and calling the anchored functions must leave the process-global state alone (np.geterr, warnings.filters,
    print options, decimal context, global random streams, os.environ): later NaN / warning behaviour of the caller depends on it"""
    st = ctx.coverage.setdefault('global_state_checks', {'processes': 0, 'keys': sorted(g.get('before_import', {}))})
    st['processes'] += 1
    if 'err' in g:
        ctx.violation('C18:globals:impl-error', 'global state snapshot failed: %s' % g, {'kind': 'broken-correspondence', 'item': 'globals op'}, False)
        return
    for phase, a, b in (('import', g['before_import'], g['after_import']), ('call', g['runner'], g['after_calls'])):
        for k in a:
            if a[k] != b[k]:
                ctx.violation('C18:globals:%s:%s' % (phase, k),
                              '%s changed by %s: %r -> %r' % (k, 'importing pydl (import pydl; from pydl.goddard.astro import gcirc; '
                                                              'pydl.pydlutils.coord, .mangle)' if phase == 'import' else
                                                              'calling %s' % sorted(set(ops)), a[k], b[k]),
                              {'kind': 'side-effect', 'item': 'process-global state %s' % k, 'phase': phase, 'before': a[k], 'after': b[k],
                               'ops': sorted(set(ops))}, False)


# ----------------------------------------------------------------------------
# geometry helpers (floats; harness side)
# ----------------------------------------------------------------------------

def vec_deg(lon, lat):
    lo, la = math.radians(lon), math.radians(lat)
    return (math.cos(la) * math.cos(lo), math.cos(la) * math.sin(lo), math.sin(la))


def chord_sep(p, q):
    c = math.sqrt(sum((a - b) ** 2 for a, b in zip(p, q)))
    return 2.0 * math.asin(min(1.0, c / 2.0))


def destination(ra, dec, pa, sep):
    """point at angular distance sep (deg) from (ra, dec) towards position angle pa (rad)"""
    s, d = math.radians(sep), math.radians(dec)
    sd2 = math.sin(d) * math.cos(s) + math.cos(d) * math.sin(s) * math.cos(pa)
    sd2 = max(-1.0, min(1.0, sd2))
    d2 = math.asin(sd2)
    ra2 = ra + math.degrees(math.atan2(math.sin(pa) * math.sin(s) * math.cos(d), math.cos(s) - math.sin(d) * sd2))
    return ra2, math.degrees(d2)


def isnum(x):
    return isinstance(x, (int, float)) and x == x and abs(x) != math.inf


def incl_doc(stripe):
    """documented inclination (exact rational)"""
    eta = F(5, 2) * stripe - F(115, 2)
    if stripe > 46:
        eta -= 180
    return eta + F(65, 2)


# ----------------------------------------------------------------------------
# gcirc
# ----------------------------------------------------------------------------

# separations in degrees: 1 micro-arcsecond (2.8e-10 deg) ... antipodal
SEPS = [2.8e-10, 1e-9, 1e-8, 1e-7, 1e-6, 1e-5, 1e-4, 1e-3, 1e-2, 1e-1, 1.0, 10.0, 100.0, 179.0, 180 - 1e-3, 180 - 1e-6]
# the accuracy statement is purely relative (1e-6); the floor only serves exact zeros and is negligible at 1 micro-arcsecond:
# 1e-13 arcsec (units 1, 2) = 4.85e-19 rad (units 0)
FLOOR = {0: F(485, 10 ** 21), 1: F(1, 10 ** 13), 2: F(1, 10 ** 13)}
MIRROR_SEPS = [10.0 ** -k for k in range(12, 2, -1)]      # distance from the antipode, degrees
QUAD_SEPS = [90.0 - 1e-9, 90.0 - 1e-5, 90.0, 90.0 + 1e-7, 90.0 + 1e-3]
SMALL_SEP = 1e-6     # below this: no RA wrap by 360 deg, no point exactly at a pole (see ASSUMPTIONS)
TOP = {0: math.pi, 1: 648000.0, 2: 648000.0}
# volume scans in the implementation's process (harness/impl/c18_impl.py near_scan)
CALL_MODES = ['scalar', 'npfloat64', '0d', '1elem', 'list', 'mixed']
NEAR_KINDS = ['near-antipodal', 'near-coincident', 'near-quadrature', 'ra-multiples', 'near-pole', 'near-equator']


# fixed members of the two open-finding families: (class, units, [ra1, dec1, ra2, dec2])
FAMILY_CASES = [
    ('exact-pole', 2, [10.0, 90.0, 190.0, 90.0 - 2.0 ** -32]),
    ('exact-pole', 1, [1.0, 90.0, 13.0, 90.0 - 2.0 ** -32]),
    ('exact-pole', 2, [33.5, -90.0, 213.5, -90.0 + 2.0 ** -30]),
    ('exact-pole', 1, [2.25, -90.0, 14.25, -90.0 + 2.0 ** -30]),
    ('full-turn', 2, [10.3, 20.0, 10.3 + 360 + 2.0 ** -30, 20.0]),
    ('full-turn', 1, [1.3, 20.0, 1.3 + 24 + 2.0 ** -34, 20.0]),
    ('full-turn', 0, [1.1, 0.25, 1.1 + 2 * math.pi + 2.0 ** -38, 0.25]),
]
FAMILY_SIG = {'exact-pole': 'C18:gcirc:accuracy:exact-pole:degree-hour-conventions',
              'full-turn': 'C18:gcirc:accuracy:ra-offset-full-turn'}


def to_units(base, units):
    ra1, dec1, ra2, dec2 = base
    if units == 2:
        return [ra1, dec1, ra2, dec2]
    if units == 1:
        return [ra1 / 15.0, dec1, ra2 / 15.0, dec2]
    return [math.radians(x) for x in base]


def gen_gcirc(ctx):
    rng = ctx.rng
    cases = []   # dict(kind, units, pts, base_id, sep)
    reps = ctx.n(1, 6)
    bid = 0
    for si, sep in enumerate(SEPS):
        # quick tier: every separation with a generic pair, poles and equator alternate; thorough: all three
        classes = ('generic', 'polar', 'equator') if ctx.thorough else ('generic', ('polar', 'equator')[(si + ctx.seed) % 2])
        for cls in classes:
            for _ in range(reps * (2 if sep <= 1e-8 else 1)):
                if cls == 'generic':
                    ra, dec = C.dyadic(rng, 0, 360, 8), C.dyadic(rng, -80, 80, 8)
                elif cls == 'polar':
                    if sep >= SMALL_SEP:
                        ra, dec = C.dyadic(rng, 0, 360, 4), rng.choice([90.0, -90.0])
                    else:
                        # deg2rad(90) is not pi/2: at the exact pole the degree conventions cannot do better than 2.5e-11 arcsec
                        ra, dec = C.dyadic(rng, 0, 360, 4), rng.choice([1.0, -1.0]) * (90.0 - 2.0 ** -rng.randint(8, 14))
                else:
                    ra, dec = C.dyadic(rng, 0, 360, 8), rng.choice([0.0, 0.0, C.dyadic(rng, -1, 1, 10)])
                pa = rng.uniform(0, 2 * math.pi)
                ra2, dec2 = destination(ra, dec, pa, sep)
                if sep >= SMALL_SEP and rng.random() < 0.3:
                    ra2 += rng.choice([360.0, -360.0])    # RA wrap must not matter
                base = [ra, dec, ra2, dec2]
                for units in (0, 1, 2):
                    cases.append({'kind': 'generic', 'cls': cls, 'units': units, 'pts': to_units(base, units),
                                  'base': bid, 'sep': sep})
                bid += 1
    # ---- every small-separation family mirrored at the antipode: q at distance `ms` from p, then the antipode of q, with the RA
    # difference close to 180 * m degrees (m = 1, -1, 3, -3); distance from the antipode over the decades 1e-12 .. 1e-3 deg.
    # Quick tier: every third decade (rotating with the seed), thorough: all.  The Interval precision follows from how close the
    # haversine is to 1 (antipode_bits); the pair is regenerated when it is exactly antipodal (the displacement rounded away).
    for mi, ms in enumerate(MIRROR_SEPS):
        if not ctx.thorough and (mi + ctx.seed) % 3 != 0:
            continue
        for cls in ('generic', 'polar', 'equator'):
            for _ in range(reps):
                for _attempt in range(20):
                    if cls == 'generic':
                        ra, dec = C.dyadic(rng, 0, 360, 8), C.dyadic(rng, -80, 80, 8)
                    elif cls == 'polar':
                        ra = C.dyadic(rng, 0, 360, 4)
                        dec = rng.choice([1.0, -1.0]) * rng.choice([90.0, 90.0 - 2.0 ** -rng.randint(8, 14)])
                    else:
                        ra, dec = C.dyadic(rng, 0, 360, 8), rng.choice([0.0, 0.0, C.dyadic(rng, -1, 1, 10)])
                    ra2, dec2 = destination(ra, dec, rng.uniform(0, 2 * math.pi), ms)
                    base = [ra, dec, ra2 + 180.0 * rng.choice([1, 1, -1, 3, -3]), -dec2]
                    tuples = {u: to_units(base, u) for u in (0, 1, 2)}
                    bits = {u: antipode_bits(u, tuples[u]) for u in (0, 1, 2)}
                    if all(b is not None for b in bits.values()):
                        break
                else:
                    continue
                for units in (0, 1, 2):
                    cases.append({'kind': 'generic', 'cls': 'antipode-mirror', 'sub': cls, 'units': units, 'pts': tuples[units],
                                  'base': bid, 'sep': 180.0 - ms, 'prec': max(220, bits[units] + 120)})
                bid += 1
    # ---- separations next to 90 degrees (haversine next to 1/2)
    quads = QUAD_SEPS if ctx.thorough else [QUAD_SEPS[(ctx.seed + k) % len(QUAD_SEPS)] for k in (0, 2)]
    for qs in quads:
        for _ in range(reps):
            ra, dec = C.dyadic(rng, 0, 360, 8), rng.choice([C.dyadic(rng, -80, 80, 8), 0.0, 90.0, -90.0])
            ra2, dec2 = destination(ra, dec, rng.uniform(0, 2 * math.pi), qs)
            base = [ra, dec, ra2 + rng.choice([0.0, 0.0, 360.0, -360.0]), dec2]
            for units in (0, 1, 2):
                cases.append({'kind': 'generic', 'cls': 'quadrature', 'units': units, 'pts': to_units(base, units), 'base': bid, 'sep': qs})
            bid += 1
    # Two input families on which no double-precision evaluation of degree/hour (resp. full-turn) coordinates reaches 1e-6
    # relative below ~1e-6 deg.  They are genuine shortfalls against the letter of the property (open known findings), so
    # they are generated: first a fixed list (the same inputs for every seed, so the replay is deterministic), then random ones.
    for cls, units, pts in FAMILY_CASES:
        cases.append({'kind': 'generic', 'cls': cls, 'units': units, 'pts': list(pts), 'base': bid,
                      'sep': float(hp_gcirc(units, *pts)) * (180 / math.pi if units == 0 else 1 / 3600.0)})
        bid += 1
    for _ in range(ctx.n(2, 10)):
        sep = rng.choice([2.8e-10, 1e-9, 1e-8, 1e-7])
        # a point at exactly +-90 deg, second point `sep` away at a very different right ascension
        sg = rng.choice([1.0, -1.0])
        base = [C.dyadic(rng, 0, 180, 4), sg * 90.0, C.dyadic(rng, 0, 180, 4) + 180.0, sg * (90.0 - sep)]
        for units in (1, 2):
            cases.append({'kind': 'generic', 'cls': 'exact-pole', 'units': units, 'pts': to_units(base, units), 'base': bid, 'sep': sep})
        bid += 1
        # right ascensions a full turn apart
        ra, dec = C.dyadic(rng, 0, 360, 8) + 0.3, C.dyadic(rng, -80, 80, 8)
        ra2, dec2 = destination(ra, dec, rng.uniform(0, 2 * math.pi), sep)
        base = [ra, dec, ra2 + rng.choice([360.0, -360.0]), dec2]
        for units in (0, 1, 2):
            cases.append({'kind': 'generic', 'cls': 'full-turn', 'units': units, 'pts': to_units(base, units), 'base': bid, 'sep': sep})
        bid += 1
    # coincident pairs, all conventions
    for _ in range(ctx.n(4, 30)):
        ra, dec = C.dyadic(rng, 0, 360, 10), rng.choice([C.dyadic(rng, -90, 90, 10), 90.0, -90.0, 0.0])
        for units in (0, 1, 2):
            p = to_units([ra, dec, ra, dec], units)
            cases.append({'kind': 'coincident', 'cls': 'coincident', 'units': units, 'pts': [p[0], p[1], p[0], p[1]],
                          'base': bid, 'sep': 0.0})
        bid += 1
    # exactly antipodal pairs (representable only in the hour/degree conventions)
    for _ in range(ctx.n(6, 40)):
        dec = rng.choice([C.dyadic(rng, -90, 90, 10), 90.0, -90.0, 0.0, C.dyadic(rng, -90, 90, 3)])
        for units in (1, 2):
            ra = C.dyadic(rng, 0, 12, 10) if units == 1 else C.dyadic(rng, 0, 180, 10)
            half = 12.0 if units == 1 else 180.0
            cases.append({'kind': 'antipodal', 'cls': 'antipodal', 'units': units, 'pts': [ra, dec, ra + half, -dec],
                          'base': bid, 'sep': 180.0})
            bid += 1
    return cases


def gcirc_tol(units, r):
    return F(1, 10 ** 6) * abs(F(r)) + FLOOR[units]


def gcirc_lemma(name, c, r, negate=False):
    u = c['units']
    a, d, a2, d2 = [rlit(x) for x in c['pts']]
    tol = rlit(gcirc_tol(u, r))
    rel = '>' if negate else '<='
    stmt = 'Rabs (gcirc_S %d %s %s %s %s - %s) %s %s' % (u, a, d, a2, d2, rlit(r), rel, tol)
    if c['kind'] == 'coincident':
        prf = 'rewrite gcirc_S_refl by lia. interval.'
    elif c['kind'] == 'antipodal':
        prf = 'rewrite (gcirc_S_antipodal %d %s %s %s %s) by (try lia; cbn [Z.eqb Pos.eqb]; lra). interval.' % (u, a, d, a2, d2)
    else:
        prec = c.get('prec') or (220 if c['sep'] > 179.5 else 100)
        prf = ('unfold gcirc_S, gcirc_rad. rewrite asin_sqrt_atan.\n'
               '  2:{ split; [apply hav_range | unfold hav, deg; interval with (i_prec %d)]. }\n'
               '  unfold atan_form, hav, arcsec_of_rad, deg. interval with (i_prec %d).' % (prec, prec))
    return 'Lemma %s : %s.\nProof. %s Qed.' % (name, stmt, prf)


def check_gcirc(ctx, have_spec, esc=1):
    """esc > 1: the translator found a code path of gcirc that the generated model does not describe (a branch on the argument
    type, a delegation to a helper): the scalar calling conventions then get `esc` times the volume"""
    cases = gen_gcirc(ctx)
    # jobs: one per (units, mode) chunk; also the swapped pairs for symmetry
    jobs, where = [], []
    by = {}
    for i, c in enumerate(cases):
        by.setdefault(c['units'], []).append(i)
    for units, idxs in by.items():
        # the certified cases go through every calling convention that holds exactly the float64 numbers: one array call for a
        # third of them, the others one call per pair as Python floats, np.float64 scalars, 0-d arrays, 1-element arrays,
        # 1-element lists, mixed types (the assignment rotates with the seed)
        third = len(idxs) // 3
        parts = [('array', idxs[:third])]
        rest = idxs[third:]
        for m, mode in enumerate(CALL_MODES):
            sub = rest[(m + ctx.seed) % len(CALL_MODES)::len(CALL_MODES)]
            if sub:
                parts.append((mode, sub))
        for mode, part in parts:
            jobs.append({'op': 'gcirc', 'units': units, 'mode': mode, 'pts': [cases[i]['pts'] for i in part],
                         'default_units': False})
            where.append(('fwd', part))
            jobs.append({'op': 'gcirc', 'units': units, 'mode': mode,
                         'pts': [[cases[i]['pts'][2], cases[i]['pts'][3], cases[i]['pts'][0], cases[i]['pts'][1]] for i in part],
                         'default_units': units == 2})
            where.append(('swap', part))
    # the same calls without the runner's np.errstate / warning filter (the process-global state as `import pydl` left it): the answers
    # must not depend on it
    for units, idxs in by.items():
        sel = [i for i in idxs if cases[i]['cls'] in ('antipodal', 'coincident', 'antipode-mirror', 'polar', 'quadrature')][:60] + idxs[:20]
        for mode in ('array', 'scalar'):
            jobs.append({'op': 'gcirc', 'units': units, 'mode': mode, 'pts': [cases[i]['pts'] for i in sel], 'default_units': False, 'plain': True})
            where.append(('plain', sel))
    for units in (3, 5, -1):
        jobs.append({'op': 'gcirc_bad_units', 'units': units})
        where.append(('bad', units))
    nscan = ctx.n(50000, 400000)
    for units in (0, 1, 2):
        for kind in ('antipodal', 'antipodal-grid', 'coincident', 'poles'):
            jobs.append({'op': 'gcirc_nan_scan', 'units': units, 'kind': kind, 'n': nscan, 'seed': ctx.rng.getrandbits(32)})
            where.append(('scan', (units, kind)))
    # volume scans around the configurations where the haversine argument is close to 0, 1/2 and 1 and the RA difference close to
    # a multiple of half a turn: displacements over the decades 1e-16 .. 1e-1 deg, all three conventions, array and scalar calls
    for units in (0, 1, 2):
        for kind in NEAR_KINDS:
            nn = ctx.n(1000000, 4000000) if kind == 'near-antipodal' else ctx.n(400000, 2000000)
            # several jobs per kind: the pieces run in different processes
            for _ in range(2 if kind == 'near-antipodal' else 1):
                jobs.append({'op': 'gcirc_near_scan', 'units': units, 'kind': kind, 'n': nn // (2 if kind == 'near-antipodal' else 1),
                             'seed': ctx.rng.getrandbits(32),
                             # pairs per scalar calling convention: rounding-critical ones (largest / smallest haversine sum) + random
                             'n_hard': ctx.n(450, 2000) * esc if kind in ('near-antipodal', 'ra-multiples', 'near-pole') else ctx.n(90, 600) * esc,
                             'n_random': ctx.n(150, 1000) * esc})
                where.append(('near', (units, kind)))
    # caller-side histories: arrays changed in place between calls, one array object for several arguments, result array written to
    for units in (0, 1, 2):
        pts = []
        for _ in range(ctx.n(40, 400)):
            ra, dec = C.dyadic(ctx.rng, 0, 359, 6), C.dyadic(ctx.rng, -80, 80, 6)
            ra2, dec2 = destination(ra, dec, ctx.rng.uniform(0, 6.28), ctx.rng.choice([1e-6, 1e-2, 1.0, 90.0, 179.0]))
            pts.append(to_units([ra, dec, ra2, dec2], units))
        jobs.append({'op': 'gcirc_inplace', 'units': units, 'pts': pts, 'shift': [ctx.rng.choice([0.5, 1.0, -0.25]), ctx.rng.choice([0.5, -1.0, 0.75])]})
        where.append(('inplace', units))
    jobs.append({'op': 'gcirc_units_types', 'pts': [[1.25, -20.5, 2.5, 30.0], [0.5, 1.0, 3.5, -1.0], [3.0, 0.25, 3.0, 0.25]]})
    where.append(('units-types', None))
    results = run_jobs(ctx, jobs)
    fwd, swp = {}, {}
    plain = []
    scanned = 0
    near_stats = {}
    near_seen = set()
    for (kind, what), job, r in zip(where, jobs, results):
        if 'err' in r:
            ctx.violation('C18:gcirc:impl-error:%s' % r['err'], 'gcirc raised %s on %s' % (r['err'], job['op']),
                          {'kind': 'failing-input', 'job': job, 'impl_result': r}, True)
            continue
        if kind in ('fwd', 'swap'):
            for i, v in zip(what, r['d']):
                (fwd if kind == 'fwd' else swp)[i] = v
        elif kind == 'plain':
            plain.append((job, what, r['d']))
        elif kind == 'bad':
            if r['raised'] != 'ValueError':
                ctx.violation('C18:gcirc:bad-units', 'gcirc(units=%s) did not raise ValueError (%s)' % (what, r['raised']),
                              {'kind': 'failing-input', 'job': job, 'impl_result': r}, True)
        elif kind == 'inplace':
            scanned += 5 * len(job['pts'])
            probs = []
            if r['second'] != r['second_fresh'] or r['third'] != r['second_fresh']:
                probs.append('after the caller changed its arrays in place (ra1 += %r; dec2[:] *= %r) / wrote into the returned array, '
                             'gcirc answers %r / %r; fresh copies of the same numbers give %r'
                             % (job['shift'][0], job['shift'][1], r['second'][:2], r['third'][:2], r['second_fresh'][:2]))
            if not r['first_result_unchanged']:
                probs.append('the array returned by the first call changed when the arguments were changed in place')
            if any(v != 0.0 for v in r['same_object']):
                probs.append('gcirc(ra, dec, ra, dec) with the same array objects is not 0: %r' % r['same_object'][:3])
            if r['ra_is_dec'] != r['ra_is_dec_fresh']:
                probs.append('one array object for RA and Dec of a point: %r, copies give %r' % (r['ra_is_dec'][:2], r['ra_is_dec_fresh'][:2]))
            if probs:
                ctx.violation('C18:gcirc:caller-arrays:units=%d' % what, '; '.join(probs),
                              {'kind': 'failing-input', 'units': what, 'input': {'pts': job['pts'][:3], 'shift': job['shift']},
                               'impl_result': {k_: (v[:3] if isinstance(v, list) else v) for k_, v in r.items()}, 'job': job}, True)
        elif kind == 'units-types':
            for how, dd in r['differences'].items():
                ctx.violation('C18:gcirc:units-argument-type', 'gcirc(..., units=%s) = %r, units as a Python int gives %r' % (how, dd['got'], dd['int_units']),
                              {'kind': 'failing-input', 'input': {'pts': job['pts'], 'units': how}, 'got': dd['got'], 'expected': dd['int_units']}, True)
                break
        elif kind == 'near':
            scanned += 2 * r['n'] + r['scalar_calls']
            crit = ctx.coverage.setdefault('gcirc_rounding_critical_pairs', {})
            crit['units=%d %s' % what] = crit.get('units=%d %s' % what, 0) + r.get('critical_above_one', 0)
            st = near_stats.setdefault('units=%d %s' % what, {'pairs': 0, 'failures': 0})
            st['pairs'] += r['n']
            st['failures'] += sum(r['counts'].values())
            st['reference_range_deg'] = [min(r['min_ref_deg'], st.get('reference_range_deg', [999, 0])[0]),
                                         max(r['max_ref_deg'], st.get('reference_range_deg', [999, 0])[1])]
            if not r['input_unchanged']:
                ctx.violation('C18:gcirc:input-modified', 'gcirc modified its arguments (scan %s, units=%d)' % (what[1], what[0]),
                              {'kind': 'failing-input', 'job': job}, True)
            cst = ctx.coverage.setdefault('gcirc_scalar_conventions', {})
            for cv, c in r.get('conventions', {}).items():
                e = cst.setdefault(cv, {'calls': 0, 'failures': 0})
                e['calls'] += c['calls']
                e['failures'] += sum(c['counts'].values())
                for fault, ex in c['examples'].items():
                    ref = ex['reference_deg']
                    regime = 'near-antipodal' if ref > 179.9 else 'near-coincident' if ref < 0.1 else 'general'
                    sig = 'C18:gcirc:%s:%s:units=%d:call=%s' % (fault, regime, what[0], cv)
                    if sig in near_seen:
                        continue
                    near_seen.add(sig)
                    ctx.violation(sig, 'gcirc(%s, units=%d) called with %s arguments %s; the two points are %.15g deg apart (vector formula); '
                                  '%d of %d such calls of the %s scan fail this way (the array call of the same pairs: %s)'
                                  % (', '.join(repr(v) for v in ex['input']), what[0], cv,
                                     ('raised %s(%r)' % (fault[7:], ex['gcirc'])) if fault.startswith('raises-') else 'returned %r' % (ex['gcirc'],),
                                     ref, c['counts'][fault], c['calls'], what[1], r['counts']),
                                  {'kind': 'failing-input', 'units': what[0], 'input': ex['input'], 'calling_convention': cv,
                                   'argument_types': ex.get('argument_types'), 'gcirc': ex['gcirc'], 'reference_deg': ref, 'fault': fault,
                                   'scan': what[1], 'counts': c['counts'], 'array_call': ex.get('array_call'),
                                   'job': job}, True)
            for fault, ex in r['examples'].items():
                # signature = what failed, in which regime of separation (not which scan produced it), which convention
                ref = ex['reference_deg']
                regime = 'near-antipodal' if ref > 179.9 else 'near-coincident' if ref < 0.1 else 'general'
                sig = 'C18:gcirc:%s:%s:units=%d' % ('nan' if fault == 'scalar' and not isnum(ex['gcirc']) else fault, regime, what[0])
                if sig in near_seen:
                    continue
                near_seen.add(sig)
                ctx.violation(sig, 'gcirc%r (units=%d) = %r; the two points are %.15g deg apart (vector formula); %d of %d pairs of the '
                              '%s scan fail this way' % (tuple(ex['input']), what[0], ex['gcirc'], ref, r['counts'][fault], r['n'], what[1]),
                              {'kind': 'failing-input', 'units': what[0], 'input': ex['input'], 'gcirc': ex['gcirc'],
                               'swapped': ex.get('swapped'), 'reference_deg': ref, 'fault': fault, 'scan': what[1],
                               'counts': r['counts'], 'job': job}, True)
        else:
            scanned += r['n']
            if r['nonfinite'] or r['out_of_range'] or r['nonzero_coincident']:
                ctx.violation('C18:gcirc:scan:%s:units=%d' % (what[1], what[0]),
                              'gcirc volume scan (%s, units=%d): %d non-finite, %d out of [0,180deg], %d non-zero coincident'
                              % (what[1], what[0], r['nonfinite'], r['out_of_range'], r['nonzero_coincident']),
                              {'kind': 'failing-input', 'job': job, 'impl_result': r,
                               'input': r.get('example')}, True)
    for job, sel, vals in plain:
        for i, v in zip(sel, vals):
            if i in fwd and v != fwd[i] and not (isnum(v) and isnum(fwd[i]) and abs(v - fwd[i]) <= 1e-6 * abs(v)):
                ctx.violation('C18:gcirc:depends-on-global-state:units=%d' % job['units'],
                              'gcirc%r (units=%d, %s call) = %r under the process-global numpy/warnings state left by `import pydl`, %r inside '
                              'np.errstate(all="ignore")' % (tuple(cases[i]['pts']), job['units'], job['mode'], v, fwd[i]),
                              {'kind': 'failing-input', 'units': job['units'], 'input': cases[i]['pts'], 'gcirc': v, 'with_errstate_ignore': fwd[i]}, True)
                break
    # ---- direct behavioural checks
    nviol = 0
    stats = {}
    lemmas, lemma_case = [], []
    by_base = {}
    for i, c in enumerate(cases):
        r = fwd.get(i)
        s = swp.get(i)
        if r is None:
            continue
        u = c['units']

        def bad(sig, why):
            ctx.violation('C18:gcirc:%s:units=%d' % (sig, u), why,
                          {'kind': 'failing-input', 'units': u, 'input': c['pts'], 'case': c, 'gcirc': r, 'swapped': s}, True)
        if not isnum(r) or not isnum(s):
            bad('nan', 'gcirc returned a non-finite distance %r for %r (%s)' % (r, c['pts'], c['kind']))
            continue
        tol = float(gcirc_tol(u, r))
        if r < 0 or r > TOP[u] * (1 + 1e-12):
            bad('range', 'gcirc = %r outside [0, 180 deg]' % r)
        if abs(r - s) > tol:
            bad('symmetry', 'gcirc(p,q) = %r but gcirc(q,p) = %r' % (r, s))
        if c['kind'] == 'coincident' and r != 0.0:
            bad('refl', 'gcirc(p,p) = %r, not 0' % r)
        by_base.setdefault(c['base'], {})[u] = (r, c)
        # reference statistics
        if c['kind'] == 'generic':
            ref = hp_gcirc(u, *c['pts'])
            if ref > 0:
                rel = float(abs(D(r) - ref) / ref)
                key = 'units=%d sep=%g' % (u, c['sep'])
                stats[key] = max(stats.get(key, 0.0), rel)
        lemmas.append(gcirc_lemma('g%d' % i, c, r))
        lemma_case.append(i)
    # the three conventions agree on the same physical pair
    scale = {0: 648000.0 / math.pi, 1: 1.0, 2: 1.0}
    for b, d in by_base.items():
        if len(d) < 2:
            continue
        vals = {u: d[u][0] * scale[u] for u in d}
        ref = vals.get(2, next(iter(vals.values())))
        for u, v in vals.items():
            # near-antipodal pairs: a one-ulp change of an input (ra/15, deg2rad) moves the result by ~sqrt(eps)
            # the three input tuples are conversions of one another (ra/15, deg2rad), i.e. they differ by up to an ulp of each
            # coordinate (2e-10 arcsec); accuracy proper is decided per convention by the enclosures
            floor = 1e-9 if d[u][1]['sep'] < 179.5 else 2e-2
            if abs(v - ref) > 1e-6 * abs(ref) + floor:
                ctx.violation('C18:gcirc:units-disagree', 'units=%d gives %r arcsec, units=2 gives %r arcsec for the same pair' % (u, v, ref),
                              {'kind': 'failing-input', 'input': {str(k): d[k][1]['pts'] for k in d},
                               'gcirc': {str(k): d[k][0] for k in d}}, True)
                break
    # ---- certified enclosures
    encl_fail = 0
    secs = 0.0
    if have_spec and lemmas:
        ok, secs = run_lemmas(ctx, lemmas, 'gcirc')
        failed = [k for k, v in enumerate(ok) if not v]
        if failed:
            neg = [gcirc_lemma('n%d' % lemma_case[k], cases[lemma_case[k]], fwd[lemma_case[k]], negate=True) for k in failed]
            nok, s2 = run_lemmas(ctx, neg, 'gcircneg', nshards=min(C.NPROC, len(neg)))
            secs += s2
            seen = set()
            for k, certified in zip(failed, nok):
                i = lemma_case[k]
                c = cases[i]
                encl_fail += 1
                ref = hp_gcirc(c['units'], *c['pts'])
                if certified and c['cls'] in FAMILY_SIG and c['sep'] < SMALL_SEP:
                    # the two documented families only; every other accuracy failure keeps its own signature
                    sig = FAMILY_SIG[c['cls']]
                elif certified and c['units'] in (1, 2) and c['sep'] < SMALL_SEP:
                    # relative accuracy lost below ~1e-7 deg in the degree/hour conventions (fixed in /repo by 220340f)
                    sig = 'C18:gcirc:accuracy:small-separation:degree-hour-conventions'
                else:
                    sig = 'C18:gcirc:enclosure:units=%d:%s' % (c['units'], 'property' if certified else 'unproved')
                if sig in seen:
                    continue
                seen.add(sig)
                rep = {'units': c['units'], 'input': c['pts'], 'case': c, 'gcirc': fwd[i], 'reference_60_digits': str(ref),
                       'tolerance': float(gcirc_tol(c['units'], fwd[i])), 'coq_lemma': lemmas[k]}
                if certified:
                    rep['kind'] = 'failing-input'
                    rep['certified'] = 'Coq/Interval proved |S(input) - gcirc| > tol'
                    rep['relative_error'] = float(abs(D(fwd[i]) - ref) / ref) if ref > 0 else None
                    ctx.violation(sig, 'gcirc differs from the exact great-circle distance by more than 1e-6 relative '
                                  '(%r vs %s, relative error %.2e, units=%d, separation ~%.3g deg)'
                                  % (fwd[i], '%.15e' % ref, rep['relative_error'] or 0.0, c['units'], c['sep']), rep, True)
                else:
                    rep['kind'] = 'broken-correspondence'
                    rep['item'] = 'enclosure |gcirc_S - impl| <= tol could be neither proved nor refuted'
                    ctx.violation(sig, 'enclosure for gcirc case not provable (units=%d, sep~%g deg)' % (c['units'], c['sep']), rep, False)
    return {'cases': cases, 'results': fwd, 'n_lemmas': len(lemmas), 'enclosure_failures': encl_fail, 'coq_s': secs,
            'near_stats': near_stats, 'scanned': scanned, 'stats': stats, 'sample_lemma': lemmas[0] if lemmas else None, 'nviol': nviol}


# ----------------------------------------------------------------------------
# mu/nu frames
# ----------------------------------------------------------------------------

def sky_grid(ctx, stripe):
    rng = ctx.rng
    inc = float(incl_doc(stripe))
    pts = [(0.0, 0.0), (95.0, 0.0), (275.0, 0.0), (5.0, 45.0), (185.0, -45.0), (0.0, 90.0), (123.0, 90.0), (0.0, -90.0),
           (311.5, -90.0), (95.0, 89.999), (359.5, -89.9999), (10.0, 32.5), (200.0, -60.0)]
    # grid points 13, 14 are the poles of the stripe system (appended below); after the random points: longitudes outside [0, 360)
    # (C18_radec_roundtrip_mod_turn: the round trip holds for every RA, modulo one turn)
    wraps = [(-100.5, 10.0), (725.25, -30.0), (360.0, 0.0), (-360.0, 45.0), (455.0, 0.0)]
    # poles of the stripe system: direction (0, -sin i, cos i) in the node frame, and its antipode
    i = math.radians(inc)
    for sg in (1.0, -1.0):
        v = (0.0, -math.sin(i) * sg, math.cos(i) * sg)
        pts.append(((math.degrees(math.atan2(v[1], v[0])) + NODE) % 360.0, math.degrees(math.asin(max(-1, min(1, v[2]))))))
    for _ in range(ctx.n(14, 60)):
        pts.append((C.dyadic(rng, 0, 360, 6), C.dyadic(rng, -90, 90, 6)))
    pts += wraps
    # close pairs for the isometry check
    for _ in range(ctx.n(4, 20)):
        ra, dec = C.dyadic(rng, 0, 360, 6), C.dyadic(rng, -85, 85, 6)
        pts.append((ra, dec))
        pts.append(destination(ra, dec, rng.uniform(0, 6.28), rng.choice([1e-4, 1e-2, 1.0])))
    return pts


def munu_grid(ctx):
    rng = ctx.rng
    pts = [(95.0, 0.0), (0.0, 0.0), (185.0, 0.0), (275.0, 0.0), (5.0, 0.0), (10.0, 90.0), (200.0, -90.0), (60.0, 1.25), (300.0, -1.25),
           # mu outside [0, 360): C18_munu_roundtrip_mod_turn
           (-100.5, 10.0), (725.25, -30.0), (360.0, 0.0), (-265.0, 0.0), (455.0, 0.0)]
    for _ in range(ctx.n(12, 50)):
        pts.append((C.dyadic(rng, 0, 360, 6), rng.choice([0.0, C.dyadic(rng, -90, 90, 6), C.dyadic(rng, -2, 2, 8)])))
    for _ in range(ctx.n(3, 12)):
        mu, nu = C.dyadic(rng, 0, 360, 6), C.dyadic(rng, -85, 85, 6)
        pts.append((mu, nu))
        pts.append(destination(mu, nu, rng.uniform(0, 6.28), rng.choice([1e-4, 1e-2, 1.0])))
    return pts


def munu_lemma(name, direction, stripe, lon, lat, lon1, lat1, tol='(1 / 10000000000)'):
    inc = rlit(incl_doc(stripe))
    spec = 'radec_to_munu_S' if direction == 'r2m' else 'munu_to_radec_S'
    stmt = ('vdist_le (%s (deg %s) (deg %s) (deg %s) (deg 95)) (vec (deg %s) (deg %s - deg 95)) %s'
            % (spec, rlit(lon), rlit(lat), inc, rlit(lat1), rlit(lon1), tol))
    prf = ('cbv beta iota zeta delta [vdist_le radec_to_munu_S munu_to_radec_S rotx vec deg]. '
           'repeat split; interval with (i_prec 80).')
    return 'Lemma %s : %s.\nProof. %s Qed.' % (name, stmt, prf)


DERIVED_ROUTES = ['direct', 'replicate_without_data', 'replicate', 'realize_frame', 'skycoord-replicate',
                  'skycoord-frame-replicate_without_data', 'skycoord-from-derived-frame', 'skycoord-by-name', 'copy', 'deepcopy', 'pickle',
                  'pickle-direct', 'getitem', 'reshape', 'frame-copy', 'transform-result', 'transform-result-replicate',
                  'replicate-twice', 'replicate-same-stripe', 'skycoord-pickle', 'skycoord-getitem']


def spec_rotation(direction, stripe, lon, lat):
    """float evaluation of the specification: unit vector (node frame) of the image of (lon, lat) under the rotation by -incl (r2m) /
    +incl (m2r) about the node"""
    i = math.radians(float(incl_doc(stripe)))
    x, y, z = vec_deg(lon - NODE, lat)
    sg = -1.0 if direction == 'r2m' else 1.0
    return (x, y * math.cos(i) - sg * z * math.sin(i), sg * y * math.sin(i) + z * math.cos(i))


def check_derived(job, r, viol, stats):
    """the relations of the property on frames obtained from other frames (judged against the documented inclination of the
    frame's OWN stripe, not against another frame object)"""
    st, s0 = job['stripe'], job['base_stripe']
    n = 0
    for route, res in r['routes'].items():
        e = stats.setdefault(route, {'frames': 0, 'failures': 0})
        e['frames'] += 1
        how = '%s (stripe %d from an object of stripe %d)' % (route, st, s0)
        rep0 = {'kind': 'failing-input', 'input': {'stripe': st, 'base_stripe': s0, 'route': route}, 'route': route}
        bad = []
        if 'err' in res:
            viol('C18:munu:derived-frame:impl-error:%s' % res['err'], 'frame obtained by %s: %s: %s' % (how, res['err'], res.get('msg')),
                 dict(rep0, impl_result=res), True)
            e['failures'] += 1
            continue
        if res['stripe_out'] != st or res.get('stripe_result', st) != st:
            bad.append(('stripe', 'frame.stripe = %r, stripe of the transform result %r, expected %d' % (res['stripe_out'], res.get('stripe_result'), st)))
        for key in ('incl', 'incl_without_data', 'incl_result'):
            if key in res and (not isnum(res[key]) or F(res[key]) != incl_doc(st)):
                bad.append(('incl', '%s = %r deg but stripe_to_incl(%d) = %s deg' % ({'incl': 'frame.incl', 'incl_without_data':
                            'frame.replicate_without_data().incl', 'incl_result': 'incl of the transform result'}[key], res[key], st, incl_doc(st))))
                break
        if res.get('node') != NODE:
            bad.append(('node', 'frame.node = %r, expected 95' % (res.get('node'),)))
        for direction, lon, lat in (('r2m', job['lon'], job['lat']), ('m2r', job['mu'], job['nu'])):
            d = res[direction]
            for k in range(len(lon)):
                n += 1
                vals = (d['lon1'][k], d['lat1'][k], d['lon2'][k], d['lat2'][k])
                io = {'stripe': st, 'base_stripe': s0, 'route': route, 'direction': direction, 'lon': lon[k], 'lat': lat[k]}
                if not all(isnum(v) for v in vals):
                    bad.append(('nan', '%s of (%r, %r) gives a non-finite coordinate %r' % (direction, lon[k], lat[k], vals), io, vals))
                    break
                rt = chord_sep(vec_deg(lon[k], lat[k]), vec_deg(vals[2], vals[3]))
                if rt > 2e-7:
                    bad.append(('roundtrip', '%s: (%r, %r) -> (%r, %r) -> (%r, %r), off by %.3g rad'
                                % ('ICRS -> (mu,nu) -> ICRS' if direction == 'r2m' else '(mu,nu) -> ICRS -> (mu,nu)', lon[k], lat[k], *vals, rt), io, vals))
                    break
                want, got = spec_rotation(direction, st, lon[k], lat[k]), vec_deg(vals[0] - NODE, vals[1])
                diff = max(abs(a - b) for a, b in zip(want, got))
                if diff > (1e-8 if abs(vals[1]) < 89.9 else 1e-7):
                    bad.append(('rotation', '%s(%r, %r) = (%r, %r) is not the rotation by %sstripe_to_incl(%d) = %s deg about the node '
                                '(unit vectors differ by %.3g)' % ('radec_to_munu' if direction == 'r2m' else 'munu_to_radec', lon[k], lat[k],
                                                                   vals[0], vals[1], '-' if direction == 'r2m' else '+', st, incl_doc(st), diff), io, vals))
                    break
                if direction == 'm2r' and lat[k] == 0.0:
                    i = math.radians(float(incl_doc(st)))
                    off = abs(-got[1] * math.sin(i) + got[2] * math.cos(i))
                    if off > 1e-9:
                        bad.append(('nu0-circle', 'nu = 0, mu = %r maps to (%r, %r), %.3g off the great circle of inclination %s deg'
                                    % (lon[k], vals[0], vals[1], off, incl_doc(st)), io, vals))
                        break
        own = res.get('own')
        if own:
            for k in range(len(own['mu'])):
                want, got = spec_rotation('m2r', st, own['mu'][k], own['nu'][k]), vec_deg(own['ra'][k] - NODE, own['dec'][k])
                if not all(isnum(v) for v in (own['ra'][k], own['dec'][k])) or max(abs(a - b) for a, b in zip(want, got)) > 1e-8:
                    bad.append(('rotation', 'the object\'s own coordinates (mu, nu) = (%r, %r) transform to (%r, %r): not the rotation by '
                                '+stripe_to_incl(%d)' % (own['mu'][k], own['nu'][k], own['ra'][k], own['dec'][k], st),
                                {'stripe': st, 'base_stripe': s0, 'route': route, 'direction': 'own', 'lon': own['mu'][k], 'lat': own['nu'][k]},
                                (own['ra'][k], own['dec'][k])))
                    break
        if bad:
            e['failures'] += 1
        for b in bad:
            rep = dict(rep0, impl_result={k_: res[k_] for k_ in res if k_ not in ('r2m', 'm2r')})
            if len(b) > 2:
                rep['input'] = b[2]
                rep['output'] = b[3]
            viol('C18:munu:derived-frame:%s' % b[0], 'frame obtained by %s: %s' % (how, b[1]), rep, True)
    return n


def check_munu(ctx, have_spec):
    rng = ctx.rng
    stripes = list(range(0, 91)) if not ctx.thorough else list(range(0, 100))
    jobs, meta = [], []
    for st in stripes:
        g = sky_grid(ctx, st)
        jobs.append({'op': 'r2m2r', 'stripe': st, 'lon': [p[0] for p in g], 'lat': [p[1] for p in g]})
        meta.append(('r2m', st))
        g = munu_grid(ctx)
        jobs.append({'op': 'm2r2m', 'stripe': st, 'lon': [p[0] for p in g], 'lat': [p[1] for p in g]})
        meta.append(('m2r', st))
    jobs.append({'op': 'stripe', 'stripes': list(range(-5, 120))})
    meta.append(('stripe', None))
    # the stripe number as the numeric types a caller may hold it in (unsigned types wrap if the formula subtracts first)
    for ty, rng_ in (('int64', range(-5, 120)), ('int16', range(-5, 120)), ('uint8', range(0, 120)), ('uint16', range(0, 120)),
                     ('float', range(-5, 120)), ('float64', range(0, 120))):
        jobs.append({'op': 'stripe', 'stripes': list(rng_), 'type': ty, 'frame': True})
        meta.append(('stripe', None))
    # ---- derived frames (class H): a frame obtained from another frame / coordinate / SkyCoord by replicate(stripe=...),
    # replicate_without_data, realize_frame, copies, pickling, slicing, as the result of a transform ... must satisfy the same
    # relations as SDSSMuNu(stripe=s).  Every stripe gets a rotating subset of the routes (all routes in the thorough tier); the
    # base object has a stripe of a different inclination.
    nroutes = len(DERIVED_ROUTES)
    per = nroutes if ctx.thorough else 5
    for st in stripes:
        s0 = rng.choice([x for x in (10, 0, 25, 45, 47, 61, 82, 86, rng.randrange(0, 91)) if incl_doc(x) != incl_doc(st)])
        routes = ['direct'] + [DERIVED_ROUTES[1 + (st * per + q + ctx.seed) % (nroutes - 1)] for q in range(per)]
        g = [(95.0, 0.0), (0.0, 90.0), (5.0, 45.0), (275.0, -30.0)] + [(C.dyadic(rng, 0, 360, 6), C.dyadic(rng, -90, 90, 6)) for _ in range(4)]
        mg = [(95.0, 0.0), (5.0, 0.0), (185.0, 0.0), (C.dyadic(rng, 0, 360, 6), 0.0), (C.dyadic(rng, 0, 360, 6), C.dyadic(rng, -90, 90, 6)),
              (300.0, -1.25)]
        jobs.append({'op': 'derived', 'base_stripe': s0, 'stripe': st, 'routes': sorted(set(routes), key=routes.index),
                     'lon': [p[0] for p in g], 'lat': [p[1] for p in g], 'mu': [p[0] for p in mg], 'nu': [p[1] for p in mg]})
        meta.append(('derived', st))
    results = run_jobs(ctx, jobs)
    seen = set()

    def viol(sig, why, rep, found=True):
        if sig in seen:
            return
        seen.add(sig)
        ctx.violation(sig, why, rep, found)
    npoints = 0
    derived_stats = {}
    worst_rt = 0.0
    worst_iso = 0.0
    encl = []      # (direction, stripe, lon, lat, lon1, lat1)
    encl_stripes = set([0, 9, 10, 25, 45, 46, 47, 61, 82, 86] + [rng.randrange(0, 91) for _ in range(ctx.n(2, 20))])
    for (kind, st), job, r in zip(meta, jobs, results):
        if 'err' in r:
            viol('C18:munu:impl-error:%s:%s' % (kind, r['err']), '%s raised %s: %s' % (job['op'], r['err'], r.get('msg')),
                 {'kind': 'failing-input', 'job': {k: job[k] for k in job if k not in ('lon', 'lat')},
                  'input': {'stripe': st, 'lon': job.get('lon', [])[:3], 'lat': job.get('lat', [])[:3]}, 'impl_result': r}, True)
            continue
        if kind == 'derived':
            npoints += check_derived(job, r, viol, derived_stats)
            continue
        if kind == 'stripe':
            ty = job.get('type', 'int')
            for s, eta, inc in zip(job['stripes'], r['eta'], r['incl']):
                if not isnum(inc) or F(inc) != incl_doc(s) or not isnum(eta) or F(eta) != incl_doc(s) - F(65, 2):
                    viol('C18:stripe:incl' if ty == 'int' else 'C18:stripe:incl:type=%s' % ty,
                         'stripe_to_incl(%s(%d)) = %r (eta %r), documented %s' % (ty, s, inc, eta, incl_doc(s)),
                         {'kind': 'failing-input', 'input': {'stripe': s, 'type': ty}, 'impl': inc, 'eta': eta}, True)
            for s, inc in zip(job['stripes'], r.get('frame_incl', [])):
                if not isnum(inc) or F(inc) != incl_doc(s):
                    viol('C18:stripe:frame-incl:type=%s' % ty, 'SDSSMuNu(stripe=%s(%d)).incl = %r, documented %s' % (ty, s, inc, incl_doc(s)),
                         {'kind': 'failing-input', 'input': {'stripe': s, 'type': ty}, 'impl': inc}, True)
            continue
        if not isnum(r.get('incl')) or F(r['incl']) != incl_doc(st) or r.get('node') != NODE or r.get('stripe_out', st) != st:
            viol('C18:munu:frame-attributes', 'frame attributes: stripe %r incl %r node %r (expected %d, %s, 95)'
                 % (r.get('stripe_out'), r.get('incl'), r.get('node'), st, incl_doc(st)),
                 {'kind': 'failing-input', 'input': {'stripe': st}, 'impl_result': {k: r.get(k) for k in ('incl', 'node', 'stripe_out')}}, True)
        lon, lat = job['lon'], job['lat']
        n = len(lon)
        npoints += n
        vin, vmid, vout = [], [], []
        for k in range(n):
            vals = (r['lon1'][k], r['lat1'][k], r['lon2'][k], r['lat2'][k])
            if not all(isnum(v) for v in vals):
                viol('C18:munu:pole-nan',
                     '%s round trip returns a non-finite coordinate: stripe %d, (%r, %r) -> (%r, %r) -> (%r, %r)'
                     % ('ICRS->munu->ICRS' if kind == 'r2m' else 'munu->ICRS->munu', st, lon[k], lat[k], *vals),
                     {'kind': 'failing-input', 'direction': kind, 'input': {'stripe': st, 'lon': lon[k], 'lat': lat[k]},
                      'forward': vals[:2], 'back': vals[2:]}, True)
                vin.append(None)
                vmid.append(None)
                vout.append(None)
                continue
            a, b, c = vec_deg(lon[k], lat[k]), vec_deg(vals[0], vals[1]), vec_deg(vals[2], vals[3])
            vin.append(a)
            vmid.append(b)
            vout.append(c)
            rt = chord_sep(a, c)
            worst_rt = max(worst_rt, rt)
            if rt > 2e-7:
                viol('C18:munu:%s:roundtrip' % kind,
                     'round trip does not return the starting point: stripe %d, (%r, %r) -> (%r, %r) -> (%r, %r), off by %.3g rad'
                     % (st, lon[k], lat[k], *vals, rt),
                     {'kind': 'failing-input', 'direction': kind, 'input': {'stripe': st, 'lon': lon[k], 'lat': lat[k]},
                      'forward': vals[:2], 'back': vals[2:], 'separation_rad': rt}, True)
            if kind == 'm2r' and lat[k] == 0.0:
                # nu = 0 lies on the great circle with normal (0, -sin i, cos i) in the node frame
                i = math.radians(float(incl_doc(st)))
                bn = vec_deg(vals[0] - NODE, vals[1])
                off = abs(-bn[1] * math.sin(i) + bn[2] * math.cos(i))
                if off > 1e-9:
                    viol('C18:munu:nu0-circle', 'nu = 0 is off the stripe great circle by %.3g (stripe %d, mu %r -> ra %r dec %r)'
                         % (off, st, lon[k], vals[0], vals[1]),
                         {'kind': 'failing-input', 'input': {'stripe': st, 'mu': lon[k], 'nu': 0.0}, 'radec': vals[:2]}, True)
                if lon[k] == NODE and chord_sep(vec_deg(vals[0], vals[1]), vec_deg(NODE, 0.0)) > 1e-9:
                    viol('C18:munu:node', 'mu = node, nu = 0 maps to (%r, %r), not to RA 95 Dec 0 (stripe %d)' % (vals[0], vals[1], st),
                         {'kind': 'failing-input', 'input': {'stripe': st, 'mu': NODE, 'nu': 0.0}, 'radec': vals[:2]}, True)
        # separations preserved (consecutive points of the grid)
        for k in range(n - 1):
            if vin[k] is None or vin[k + 1] is None:
                continue
            s0, s1 = chord_sep(vin[k], vin[k + 1]), chord_sep(vmid[k], vmid[k + 1])
            worst_iso = max(worst_iso, abs(s0 - s1))
            if abs(s0 - s1) > 1e-6 * s0 + 5e-8:
                viol('C18:munu:%s:isometry' % kind,
                     'separation not preserved: stripe %d, points (%r,%r),(%r,%r) are %.9g rad apart, images %.9g rad'
                     % (st, lon[k], lat[k], lon[k + 1], lat[k + 1], s0, s1),
                     {'kind': 'failing-input', 'direction': kind,
                      'input': {'stripe': st, 'lon': [lon[k], lon[k + 1]], 'lat': [lat[k], lat[k + 1]]},
                      'images': [[r['lon1'][k], r['lat1'][k]], [r['lon1'][k + 1], r['lat1'][k + 1]]]}, True)
        if st in encl_stripes:
            cand = [k for k in range(n) if vin[k] is not None]
            # r2m: one of the two poles of the stripe system (grid points 13, 14: the latitude returned is +-90 deg) is always certified
            poles = [k for k in (13 + st % 2,) if kind == 'r2m' and k in cand]
            for k in cand[:1] + poles + rng.sample(cand, min(len(cand), ctx.n(1, 10))):
                encl.append((kind, st, lon[k], lat[k], r['lon1'][k], r['lat1'][k]))
    # The returned latitude is arcsin(z): within 0.1 deg of a pole of the TARGET system arcsin loses half of its digits (an ulp of
    # z = 1 - 1e-16 is 1.5e-8 rad of latitude), so there the certified tolerance is 5e-8 (still below the 2e-7 rad at which the
    # direct round-trip check decides); everywhere else 1e-10.
    lemmas = [munu_lemma('m%d' % k, *e, tol='(1 / 10000000000)' if abs(e[5]) < 89.9 else '(5 / 100000000)') for k, e in enumerate(encl)]
    # the documented inclination used in the lemmas is Spec.incl_doc
    chk = ['Lemma incl_%d : Qeq_bool (incl_doc %d) %s = true.\nProof. vm_compute. reflexivity. Qed.' % (s, s, C.qlit(incl_doc(s)))
           for s in sorted(encl_stripes)]
    secs = 0.0
    nfail = 0
    if have_spec:
        ok, secs = run_lemmas(ctx, lemmas, 'munu')
        ok2, s2 = run_lemmas(ctx, ['From Coq Require Import QArith.\n' + '\n'.join(chk)], 'incl', nshards=1)
        if not all(ok2):
            viol('C18:harness:incl_doc', 'harness incl_doc disagrees with Spec.incl_doc', {'kind': 'broken-correspondence', 'item': 'incl_doc'}, False)
        for k, good in enumerate(ok):
            if good:
                continue
            nfail += 1
            kind, st, lon, lat, lon1, lat1 = encl[k]
            # float evaluation of the specification decides whether this is a real difference
            i = math.radians(float(incl_doc(st)))
            x, y, z = vec_deg(lon - NODE, lat)
            sg = -1.0 if kind == 'r2m' else 1.0
            want = (x, y * math.cos(i) - sg * z * math.sin(i), sg * y * math.sin(i) + z * math.cos(i))
            got = vec_deg(lon1 - NODE, lat1)
            diff = max(abs(a - b) for a, b in zip(want, got))
            real = diff > (1e-8 if abs(lat1) < 89.9 else 1e-7)
            viol('C18:munu:%s:vector:%s' % (kind, 'property' if real else 'unproved'),
                 '%s: stripe %d (%r, %r) -> (%r, %r) is not the rotation by %s incl about the node (unit vectors differ by %.3g)'
                 % ('radec_to_munu' if kind == 'r2m' else 'munu_to_radec', st, lon, lat, lon1, lat1, '-' if kind == 'r2m' else '+', diff),
                 {'kind': 'failing-input' if real else 'broken-correspondence', 'item': 'enclosure vdist_le', 'direction': kind,
                  'input': {'stripe': st, 'lon': lon, 'lat': lat}, 'output': [lon1, lat1], 'expected_vector': want,
                  'observed_vector': got, 'coq_lemma': lemmas[k]}, real)
    ctx.coverage['munu_derived_frames'] = derived_stats
    return {'points': npoints, 'n_lemmas': len(lemmas), 'enclosure_failures': nfail, 'coq_s': secs, 'stripes': len(stripes),
            'worst_roundtrip_rad': worst_rt, 'worst_isometry_rad': worst_iso, 'sample_lemma': lemmas[0] if lemmas else None,
            'sample': {'job': {'op': jobs[0]['op'], 'stripe': jobs[0]['stripe'], 'lon': jobs[0]['lon'][:4], 'lat': jobs[0]['lat'][:4]},
                       'impl': {k: (v[:4] if isinstance(v, list) else v) for k, v in results[0].items()}}}


# ----------------------------------------------------------------------------
# angles <-> unit vectors
# ----------------------------------------------------------------------------

def angles_lemma(name, lat, phi, theta, x, tol='(1 / 1000000000000)'):
    stmt = 'vdist_le (angles_to_x_S %s %s %s) (%s, %s, %s) %s' % ('true' if lat else 'false', rlit(phi), rlit(theta),
                                                                 rlit(x[0]), rlit(x[1]), rlit(x[2]), tol)
    prf = 'cbv beta iota zeta delta [vdist_le angles_to_x_S vec deg]. repeat split; interval with (i_prec 80).'
    return 'Lemma %s : %s.\nProof. %s Qed.' % (name, stmt, prf)


def check_angles(ctx, have_spec):
    rng = ctx.rng
    jobs = []
    for lat in (False, True):
        for _ in range(ctx.n(4, 30)):
            pts = []
            for _ in range(ctx.n(40, 200)):
                phi = rng.choice([C.dyadic(rng, -720, 720, 6), C.dyadic(rng, 0, 360, 6), 0.0, 180.0, -180.0, 360.0, 90.0, 270.0])
                th = rng.choice([C.dyadic(rng, 0.5, 179.5, 6), C.dyadic(rng, 0.5, 179.5, 6), 1e-4, 180 - 1e-4, 90.0, 1e-2, 45.0])
                pts.append([phi, 90.0 - th if lat else th])
            jobs.append({'op': 'angles', 'latitude': lat, 'pts': pts})
        # vectors -> angles -> vectors
        xs = []
        for _ in range(ctx.n(60, 400)):
            v = [rng.gauss(0, 1) for _ in range(3)]
            nrm = math.sqrt(sum(t * t for t in v))
            xs.append([t / nrm for t in v])
        jobs.append({'op': 'x2a', 'latitude': lat, 'x': xs})
        # unit vectors 1e-3 .. 1e-12 rad from either pole (normalised in double precision) and the poles themselves: the arccos
        # argument is within an ulp of +-1 (C18_x_to_angles_defined_on_unit: legal in exact arithmetic); arccos loses half of its
        # digits there, so the vector comes back to 5e-8 only
        xs = [[0.0, 0.0, 1.0], [0.0, 0.0, -1.0]]
        for _ in range(ctx.n(60, 400)):
            sc = 10.0 ** rng.uniform(-12, -3)
            v = [rng.gauss(0, 1) * sc, rng.gauss(0, 1) * sc, rng.choice([1.0, -1.0])]
            nrm = math.sqrt(sum(t * t for t in v))
            xs.append([t / nrm for t in v])
        jobs.append({'op': 'x2a', 'latitude': lat, 'x': xs, 'near_pole': True})
    # the latitude flag as truthy / falsy objects that are not the literals True / False; same object to both functions
    for flag, lat in (('np.True_', True), ('np.False_', False), ('1', True), ('0', False), ('cmp-true', True), ('cmp-false', False),
                      ('np.bool-array-element', True)):
        pts = []
        for _ in range(ctx.n(12, 60)):
            phi = rng.choice([C.dyadic(rng, -720, 720, 6), 0.0, 180.0, 90.0])
            th = rng.choice([C.dyadic(rng, 0.5, 179.5, 6), 45.0, 1e-2, 120.0])
            pts.append([phi, 90.0 - th if lat else th])
        jobs.append({'op': 'angles', 'latitude': lat, 'flag': flag, 'pts': pts})
        xs = []
        for _ in range(ctx.n(12, 60)):
            v = [rng.gauss(0, 1) for _ in range(3)]
            nrm = math.sqrt(sum(t * t for t in v))
            xs.append([t / nrm for t in v])
        jobs.append({'op': 'x2a', 'latitude': lat, 'flag': flag, 'x': xs})
    out = run_jobs(ctx, jobs, nb=2)
    seen = set()

    def viol(sig, why, rep, found=True):
        if sig not in seen:
            seen.add(sig)
            ctx.violation(sig, why, rep, found)
    n = 0
    encl = []
    for job, r in zip(jobs, out):
        lat = job['latitude']
        flag = job.get('flag')
        tag = ('flag=%s' % flag) if flag else ('lat=%s' % lat)
        if 'err' in r:
            viol('C18:angles:impl-error:%s' % r['err'], '%s raised %s' % (job['op'], r['err']),
                 {'kind': 'failing-input', 'input': {'latitude': lat, 'first': (job.get('pts') or job.get('x'))[:2]}, 'impl_result': r}, True)
            continue
        if job['op'] == 'angles':
            if not r['input_unchanged']:
                viol('C18:angles:input-modified', 'angles_to_x modified its input', {'kind': 'failing-input', 'input': job['pts'][:2]}, True)
            if not r.get('x_unchanged', True) or not r.get('second_call_same', True):
                viol('C18:angles:x_to_angles-modifies-input',
                     'x_to_angles overwrote the vectors it was given (latitude=%s): %r became %r' % (lat, r['x'][:2], r.get('x_after')),
                     {'kind': 'failing-input', 'input': {'latitude': lat, 'x': r['x'][:2]}, 'x_after_call': r.get('x_after'),
                      'second_call_same': r.get('second_call_same')}, True)
            for p, x, b in zip(job['pts'], r['x'], r['back']):
                n += 1
                rep = {'kind': 'failing-input', 'input': {'latitude': lat, 'flag': flag, 'phi_theta': p}, 'x': x, 'back': b}
                if not all(isnum(t) for t in list(x) + list(b)):
                    viol('C18:angles:nan:%s' % tag, 'angles_to_x/x_to_angles produce a non-finite value for %r: x=%r back=%r' % (p, x, b), rep, True)
                    continue
                if abs(sum(t * t for t in x) - 1.0) > 1e-12:
                    viol('C18:angles:unit', 'angles_to_x(%r) is not a unit vector: %r' % (p, x), rep, True)
                dphi = (b[0] - p[0] + 180.0) % 360.0 - 180.0
                if abs(dphi) > 1e-8 or abs(b[1] - p[1]) > 1e-6 * abs(p[1]) + 1e-8:
                    viol('C18:angles:roundtrip:%s' % tag, 'x_to_angles(angles_to_x(%r)) = %r (latitude=%s)' % (p, b, flag or lat), rep, True)
                if sum(1 for e in encl if e[0] == lat) < ctx.n(8, 60) and rng.random() < 0.2:
                    encl.append((lat, p[0], p[1], x))
        else:
            if not r.get('x_unchanged', True) or not r.get('second_call_same', True) or not r.get('angles_unchanged', True):
                viol('C18:angles:x_to_angles-modifies-input' if not r.get('x_unchanged', True) or not r.get('second_call_same', True)
                     else 'C18:angles:input-modified',
                     'x_to_angles/angles_to_x overwrote their argument (latitude=%s): vectors %r became %r; second call same: %s'
                     % (lat, job['x'][:2], r.get('x_after'), r.get('second_call_same')),
                     {'kind': 'failing-input', 'input': {'latitude': lat, 'x': job['x'][:2]}, 'x_after_call': r.get('x_after'),
                      'second_call_same': r.get('second_call_same'), 'angles_unchanged': r.get('angles_unchanged')}, True)
            xtol = 5e-8 if job.get('near_pole') else 1e-9
            for x, a, b in zip(job['x'], r['a'], r['back']):
                n += 1
                # C18_x_to_angles_ranges: azimuth in [-180, 180], polar angle in [0, 180] / latitude in [-90, 90], both flag branches
                if all(isnum(t) for t in a) and not (-180.0 <= a[0] <= 180.0 and ((-90.0 <= a[1] <= 90.0) if lat else (0.0 <= a[1] <= 180.0))):
                    viol('C18:angles:range:%s' % tag, 'x_to_angles(%r, latitude=%s) = %r is outside the documented ranges' % (x, flag or lat, a),
                         {'kind': 'failing-input', 'input': {'latitude': lat, 'flag': flag, 'x': x}, 'angles': a}, True)
                if not all(isnum(t) for t in list(a) + list(b)) or max(abs(s - t) for s, t in zip(x, b)) > xtol:
                    viol('C18:angles:x-roundtrip:%s' % tag, 'angles_to_x(x_to_angles(%r)) = %r via %r (latitude=%s)' % (x, b, a, flag or lat),
                         {'kind': 'failing-input', 'input': {'latitude': lat, 'flag': flag, 'x': x}, 'angles': a, 'back': b}, True)
    lemmas = [angles_lemma('a%d' % k, *e) for k, e in enumerate(encl)]
    secs, nfail = 0.0, 0
    if have_spec:
        ok, secs = run_lemmas(ctx, lemmas, 'angles', nshards=min(8, max(1, len(lemmas) // 4)))
        for k, good in enumerate(ok):
            if not good:
                nfail += 1
                lat, phi, th, x = encl[k]
                ph, t = math.radians(phi), math.radians(90.0 - th if lat else th)
                want = (math.cos(ph) * math.sin(t), math.sin(ph) * math.sin(t), math.cos(t))
                real = max(abs(a - b) for a, b in zip(want, x)) > 1e-9
                viol('C18:angles:vector:%s' % ('property' if real else 'unproved'),
                     'angles_to_x(%r, latitude=%s) = %r is not the documented unit vector %r' % ([phi, th], lat, x, want),
                     {'kind': 'failing-input' if real else 'broken-correspondence', 'item': 'enclosure angles_to_x_S',
                      'input': {'latitude': lat, 'phi_theta': [phi, th]}, 'x': x, 'expected': want, 'coq_lemma': lemmas[k]}, real)
    return {'points': n, 'n_lemmas': len(lemmas), 'enclosure_failures': nfail, 'coq_s': secs}


# ----------------------------------------------------------------------------

# ----------------------------------------------------------------------------
# storage types, caller-owned arrays, multi-call histories
# ----------------------------------------------------------------------------

GC_STORAGES = ['f4', 'i8', 'i4', 'i2', 'u2', '>f8', '>f4', '>i4', 'noncontig', 'reversed', '2d-column', '2d-fortran', '2d-transposed', 'readonly',
               'list', 'pyint', 'npint32', 'npuint16', 'npfloat32', 'quantity']
INT_STORAGES = ('i8', 'i4', 'i2', 'u2', '>i4', 'pyint', 'npint32', 'npuint16')
UNSIGNED = ('u2', 'npuint16')


def same_results(a, b):
    """equality of two impl results (floats bit-identical, 'nan' strings equal)"""
    return a == b


def check_storage_history(ctx, viol):
    rng = ctx.rng
    jobs = []
    # ---- gcirc: the same numbers in other storage types must give the float64 answer
    for units in (0, 1, 2):
        for st in GC_STORAGES:
            if st == 'quantity' and units != 2:
                continue
            pts = []
            for _ in range(ctx.n(6, 24)):
                if st in INT_STORAGES:
                    lo = 0 if st in UNSIGNED else -1
                    if units == 2:
                        p = [rng.randint(0, 359), rng.randint(0 if st in UNSIGNED else -90, 90), rng.randint(0, 359), rng.randint(0 if st in UNSIGNED else -90, 90)]
                    elif units == 1:
                        p = [rng.randint(0, 23), rng.randint(0 if st in UNSIGNED else -90, 90), rng.randint(0, 23), rng.randint(0 if st in UNSIGNED else -90, 90)]
                    else:
                        p = [rng.randint(0, 6), rng.randint(lo, 1), rng.randint(0, 6), rng.randint(lo, 1)]
                    if p[0] == p[2] and p[1] == p[3]:
                        p[2] = (p[2] + 1) % 6
                else:
                    ra, dec = C.dyadic(rng, 0, 359, 6), C.dyadic(rng, -80, 80, 6)
                    ra2, dec2 = destination(ra, dec, rng.uniform(0, 6.28), rng.choice([1e-3, 1e-2, 1.0, 30.0, 100.0]))
                    if rng.random() < 0.3:
                        ra2, dec2 = (ra + 359.0) % 360.0, dec + 1.0     # large RA difference
                    p = to_units([ra, dec, ra2, dec2], units)
                pts.append(p)
            jobs.append({'op': 'gcirc_storage', 'units': units, 'storage': st, 'pts': pts})
    # ---- angles <-> vectors
    for lat in (False, True):
        for st in ('f4', '>f8', '>f4', 'i4', 'i8', 'noncontig', 'fortran', 'transposed', 'reversed', 'reversed-columns', 'rows-strided', 'readonly'):
            pts = []
            for _ in range(ctx.n(8, 30)):
                if st in ('i4', 'i8'):
                    th = rng.randint(1, 179)
                    pts.append([rng.randint(-360, 360), 90 - th if lat else th])
                else:
                    th = C.dyadic(rng, 0.5, 179.5, 6)
                    pts.append([C.dyadic(rng, -360, 360, 6), 90.0 - th if lat else th])
            jobs.append({'op': 'angles_storage', 'latitude': lat, 'storage': st, 'pts': pts})
    # ---- frames
    for st in ('f4', '>f8', 'i4', 'noncontig', 'reversed', 'readonly'):
        for stripe in (rng.choice([0, 9, 25, 61]), rng.choice([45, 47, 82, 86])):
            n = ctx.n(8, 30)
            if st == 'i4':
                lon, lat_ = [rng.randint(0, 359) for _ in range(n)], [rng.randint(-89, 89) for _ in range(n)]
            else:
                lon, lat_ = [C.dyadic(rng, 0, 359, 6) for _ in range(n)], [C.dyadic(rng, -89, 89, 6) for _ in range(n)]
            jobs.append({'op': rng.choice(['r2m2r', 'm2r2m']), 'stripe': stripe, 'lon': lon, 'lat': lat_, 'storage': st})
    # ---- a multi-call history in one process, and every call of it alone in a fresh process
    hist = []
    g = [[10.25, 20.5, 13.0, 25.75], [200.5, -45.0, 190.25, -40.5], [0.0, 0.0, 359.0, 1.0]]
    for stripe in (10, 45, 82):
        hist.append({'op': 'r2m2r', 'stripe': stripe, 'lon': [0.0, 95.0, 200.5, 311.25], 'lat': [90.0, 0.0, -45.5, 12.25]})
        hist.append({'op': 'm2r2m', 'stripe': stripe, 'lon': [95.0, 10.5, 275.0], 'lat': [0.0, 33.25, -80.0]})
        hist.append({'op': 'gcirc', 'units': rng.choice([0, 1, 2]), 'mode': 'array', 'pts': g, 'default_units': False})
        hist.append({'op': 'angles', 'latitude': bool(stripe % 2), 'pts': [[10.0, 20.0], [200.0, 45.0]]})
        hist.append({'op': 'stripe', 'stripes': [stripe, 10, 82], 'type': rng.choice(['int', 'uint8', 'float']), 'frame': True})
    rng.shuffle(hist)
    hist = hist + hist[:4]          # some calls twice
    payloads = [[{'op': 'history', 'calls': hist}]] + [[c] for c in hist] + [jobs[k::4] for k in range(4)]
    outs = C.run_impl_parallel('c18_impl.py', payloads)
    whole = outs[0]['results'][0]
    if 'err' in whole:
        viol('C18:history:impl-error', 'history run raised %s' % whole, {'kind': 'failing-input', 'history': hist}, True)
    else:
        for k, (c, r_hist, o) in enumerate(zip(hist, whole['results'], outs[1:1 + len(hist)])):
            r_alone = o['results'][0]
            if r_hist != r_alone:
                viol('C18:history:%s' % c['op'], 'call #%d (%s) answers differently after %d earlier calls in the same process than alone'
                     % (k, c['op'], k), {'kind': 'failing-input', 'input': {'history': hist[:k], 'call': c}, 'in_history': r_hist,
                                         'alone': r_alone}, True)
    results = [None] * len(jobs)
    for k, o in enumerate(outs[1 + len(hist):]):
        for i, r in enumerate(o['results']):
            results[k + i * 4] = r
    nvals = 0
    for job, r in zip(jobs, results):
        op, st = job['op'], job['storage']
        rep0 = {'kind': 'failing-input', 'input': {k: job[k] for k in job if k != 'op'}, 'op': op, 'impl_result': r}
        if 'err' in r:
            viol('C18:%s:storage-type' % op.split('_')[0], '%s raised %s for %s input: %s' % (op, r['err'], st, r.get('msg')), rep0, True)
            continue
        if not r.get('input_unchanged', True):
            viol('C18:%s:input-modified' % op.split('_')[0], '%s modified its %s input' % (op, st), rep0, True)
        if r.get('aliases_input'):
            viol('C18:%s:result-aliases-input' % op.split('_')[0], 'the result of %s shares memory with its %s input' % (op, st), rep0, True)
        if op == 'gcirc_storage':
            for p, d, ref in zip(job['pts'], r['d'], r['ref']):
                nvals += 1
                if not isnum(d) or not isnum(ref) or abs(d - ref) > 1e-6 * abs(ref) + 1e-13:
                    viol('C18:gcirc:storage-type', 'gcirc of %r stored as %s (units=%d) = %r, the same numbers as float64 give %r'
                         % (p, st, job['units'], d, ref), dict(rep0, point=p, got=d, float64_answer=ref), True)
                    break
        elif op == 'angles_storage':
            tol = 3e-5 if 'f4' in st else 1e-9
            if not r.get('xs_unchanged', True):
                viol('C18:angles:input-modified', 'x_to_angles modified its %s (N, 3) input' % st, rep0, True)
            for p, bs, br in zip(job['pts'], r.get('back_stored', []), r['back_ref']):
                # the (N, 3) vectors in this storage type / memory layout through x_to_angles: the float64 answer
                if (not all(isnum(t) for t in bs) or abs((bs[0] - br[0] + 180.0) % 360.0 - 180.0) > tol * 60 or abs(bs[1] - br[1]) > tol * 60):
                    viol('C18:angles:storage-type', 'x_to_angles of the unit vector of %r stored as %s (latitude=%s) = %r; as contiguous float64: %r'
                         % (p, st, job['latitude'], bs, br), dict(rep0, point=p), True)
                    break
            for p, x, xr, b, br in zip(job['pts'], r['x'], r['x_ref'], r['back'], r['back_ref']):
                nvals += 1
                bad = (not all(isnum(t) for t in x + b) or max(abs(s_ - t) for s_, t in zip(x, xr)) > tol or
                       abs((b[0] - br[0] + 180.0) % 360.0 - 180.0) > tol * 60 or abs(b[1] - br[1]) > tol * 60)
                if bad:
                    viol('C18:angles:storage-type', 'angles_to_x / x_to_angles of %r stored as %s (latitude=%s): x = %r, back = %r; as float64: x = %r, back = %r'
                         % (p, st, job['latitude'], x, b, xr, br), dict(rep0, point=p), True)
                    break
        else:
            tol = 3e-6 if st == 'f4' else 2e-7
            for k in range(len(job['lon'])):
                nvals += 1
                vals = (r['lon1'][k], r['lat1'][k], r['lon2'][k], r['lat2'][k])
                if not all(isnum(v) for v in vals) or chord_sep(vec_deg(job['lon'][k], job['lat'][k]), vec_deg(vals[2], vals[3])) > tol:
                    viol('C18:munu:storage-type', '%s with %s coordinates: stripe %d, (%r, %r) -> (%r, %r) -> (%r, %r)'
                         % (op, st, job['stripe'], job['lon'][k], job['lat'][k], *vals), rep0, True)
                    break
    return {'values': nvals, 'history_calls': len(hist), 'storage_jobs': len(jobs)}


def correspond(ctx, proof_ok=True):
    ok, log = C.coq_make(['C18/SpecProofs.vo'])
    have_spec = ok
    if not ok:
        ctx.violation('C18:spec-build', 'C18/SpecProofs.v does not build', {'kind': 'broken-proof', 'item': 'C18/SpecProofs.v',
                                                                           'log_tail': log[-2000:]}, False)
    # code paths of the anchored functions that the generated model does not describe (a branch on the argument type, a
    # delegation to a helper ...): the theorems then speak about one of several paths only -- reported, and the calling-convention
    # families get more volume
    try:
        paths = T.generate(C.REPO)[1].get('unmodelled_paths', [])
    except Exception as e:  # noqa: BLE001
        paths = ['translator failed: %s: %s' % (type(e).__name__, e)]
    ctx.coverage['unmodelled_code_paths'] = paths
    for pth in paths:
        ctx.violation('C18:translate:unmodelled-code-path:%s' % pth.split(':')[0],
                      'the generated model does not describe every code path a call can take: %s' % pth,
                      {'kind': 'broken-correspondence', 'item': 'coq/Generated (translate/c18.py): %s' % pth}, False)
    g = check_gcirc(ctx, have_spec, esc=4 if paths else 1)
    m = check_munu(ctx, have_spec)
    a = check_angles(ctx, have_spec)
    seen_sh = set()

    def viol_sh(sig, why, rep, found=True):
        if sig not in seen_sh:
            seen_sh.add(sig)
            ctx.violation(sig, why, rep, found)
    sh = check_storage_history(ctx, viol_sh)
    nl = g['n_lemmas'] + m['n_lemmas'] + a['n_lemmas']
    ctx.coverage.update({
        'evaluations': len(g['results']) * 2 + g['scanned'] + 2 * m['points'] + 2 * a['points'],
        'distinct_nontrivial': nl,
        'rule': 'one evaluation = one call of gcirc (incl. the swapped call and the volume NaN scan), one point through one frame '
                'transform (ICRS->SDSSMuNu or back), or one angle pair/vector through angles_to_x/x_to_angles; distinct_nontrivial '
                '= number of Coq enclosure lemmas |S(input) - impl(input)| <= tol proved by Interval (gcirc %d, frames %d, angles %d)'
                % (g['n_lemmas'], m['n_lemmas'], a['n_lemmas']),
        'enclosure_lemmas': nl,
        'enclosure_failures': g['enclosure_failures'] + m['enclosure_failures'] + a['enclosure_failures'],
        'coq_eval_s': round(g['coq_s'] + m['coq_s'] + a['coq_s'], 1),
        'gcirc_cases': len(g['cases']),
        'gcirc_nan_scan_pairs': g['scanned'],
        'gcirc_near_scans': g['near_stats'],
        'gcirc_max_rel_err': {k: float('%.3g' % v) for k, v in sorted(g['stats'].items())},
        'gcirc_case_kinds': {k: sum(1 for c in g['cases'] if c['cls'] == k) for k in ('generic', 'polar', 'equator', 'coincident', 'antipodal', 'exact-pole', 'full-turn',
                                                                                           'antipode-mirror', 'quadrature')},
        'munu_stripes': m['stripes'], 'munu_points': m['points'],
        'munu_worst_roundtrip_rad': m['worst_roundtrip_rad'], 'munu_worst_isometry_rad': m['worst_isometry_rad'],
        'angles_points': a['points'],
        'storage_type_values': sh['values'], 'storage_type_jobs': sh['storage_jobs'], 'history_calls': sh['history_calls'],
        'samples': [{'gcirc_case': g['cases'][0], 'impl': g['results'].get(0), 'coq_lemma': g['sample_lemma']},
                    {'munu': m['sample'], 'coq_lemma': m['sample_lemma']}],
    })


def replay(ctx, rep):
    inp = rep.get('input')
    print('signature:', rep.get('signature'))
    print('summary  :', rep.get('summary'))
    if inp is None:
        print('no concrete input in this replay (kind=%s, item=%s)' % (rep.get('kind'), rep.get('item')))
        return 2
    sig = rep.get('signature', '')
    if ':derived-frame:' in sig and isinstance(inp, dict):
        lon, lat = [inp.get('lon', 10.0)], [inp.get('lat', 5.0)]
        own = inp.get('direction') in ('m2r', 'own')
        out = C.run_impl('c18_impl.py', [{'op': 'derived', 'base_stripe': inp['base_stripe'], 'stripe': inp['stripe'],
                                         'routes': ['direct', inp['route']], 'lon': [10.0] if own else lon, 'lat': [5.0] if own else lat,
                                         'mu': lon if own else [95.0], 'nu': lat if own else [0.0]}])
        for route, res in out['results'][0]['routes'].items():
            print(route, '->', res)
        print('documented inclination of stripe %d: %s deg' % (inp['stripe'], incl_doc(inp['stripe'])))
        return 0
    if ':gcirc:' in sig and rep.get('calling_convention') and isinstance(inp, list):
        import subprocess
        code = ('import sys, json, numpy as np\nsys.path.insert(0, %r)\nimport c18_impl as m\n'
                'print(json.dumps(m.scalar_conventions(%d, [%r], [%r])))'
                % (os.path.join(C.VERIF, 'harness', 'impl'), rep['units'], inp, rep['calling_convention']))
        pr = subprocess.run([C.PY, '-c', code], env=C.impl_env(), stdout=subprocess.PIPE, stderr=subprocess.DEVNULL, text=True, timeout=300)
        print('gcirc%r units=%d as %s ->' % (tuple(inp), rep['units'], rep['calling_convention']), pr.stdout.strip())
        print('reference (60 digits):', hp_gcirc(rep['units'], *inp))
        print('before:', rep.get('gcirc'))
        return 0
    if ':gcirc:' in sig and 'units' in rep and isinstance(inp, list):
        out = C.run_impl('c18_impl.py', [{'op': 'gcirc', 'units': rep['units'], 'mode': 'scalar', 'pts': [inp]}])
        r = out['results'][0]
        print('gcirc%r units=%d ->' % (tuple(inp), rep['units']), r)
        print('reference (60 digits):', hp_gcirc(rep['units'], *inp))
        print('before:', rep.get('gcirc'))
        return 0
    if ':munu:' in sig and isinstance(inp, dict) and 'stripe' in inp:
        lon = inp.get('lon', inp.get('mu'))
        lat = inp.get('lat', inp.get('nu'))
        lon = lon if isinstance(lon, list) else [lon]
        lat = lat if isinstance(lat, list) else [lat]
        op = 'm2r2m' if rep.get('direction') == 'm2r' or 'mu' in inp else 'r2m2r'
        out = C.run_impl('c18_impl.py', [{'op': op, 'stripe': inp['stripe'], 'lon': lon, 'lat': lat}])
        print(op, 'stripe', inp['stripe'], 'start', list(zip(lon, lat)))
        print('  ->', out['results'][0])
        print('before:', rep.get('forward'), rep.get('back'))
        return 0
    if ':stripe:' in sig and isinstance(inp, dict) and 'stripe' in inp:
        out = C.run_impl('c18_impl.py', [{'op': 'stripe', 'stripes': [inp['stripe']], 'type': inp.get('type', 'int'), 'frame': True}])
        print('stripe', inp, '->', out['results'][0])
        return 0
    if ':angles:' in sig and isinstance(inp, dict):
        extra = {'flag': inp['flag']} if inp.get('flag') else {}
        if 'phi_theta' in inp:
            out = C.run_impl('c18_impl.py', [dict({'op': 'angles', 'latitude': inp['latitude'], 'pts': [inp['phi_theta']]}, **extra)])
        else:
            out = C.run_impl('c18_impl.py', [dict({'op': 'x2a', 'latitude': inp['latitude'], 'x': [inp['x']]}, **extra)])
        print('input', inp, '->', out['results'][0])
        return 0
    print('input:', inp)
    return 0
