(* C19 -- np.interp stays within the samples; djs_maskinterp1 (generated good / bad tests and dispatch) does not look at the
   values of bad pixels and stays within the good ones; the filter response curves (generated tables) are within [0, 1];
   the band sum does not depend on the pixel order. *)
From Coq Require Import QArith List Bool ZArith Qabs Lqa Lia.
Import ListNotations.
From PV Require Import C19.Spec Generated.AstroConsts C19.Model C19.WmeanProofs.
Open Scope Q_scope.

(* ---------- np.interp ---------- *)
Definition vals_within (lo hi : Q) (l : list (Q * Q)) : Prop := forall p, In p l -> lo <= snd p <= hi.

Lemma Qle_bool_false_lt : forall a b, Qle_bool a b = false -> b < a.
Proof. intros a b H. apply Qnot_le_lt. intro C. apply Qle_bool_iff in C. rewrite C in H. discriminate. Qed.

Lemma convex_within : forall lo hi y0 y1 t, lo <= y0 <= hi -> lo <= y1 <= hi -> 0 <= t <= 1 ->
  lo <= y0 + (y1 - y0) * t <= hi.
Proof. intros lo hi y0 y1 t H0 H1 Ht. split; nra. Qed.

Lemma frac_unit : forall x x0 x1, x0 <= x -> x < x1 -> 0 <= (x - x0) / (x1 - x0) <= 1.
Proof.
  intros x x0 x1 H0 H1. assert (P : 0 < x1 - x0) by lra. split.
  - apply Qle_shift_div_l. exact P. lra.
  - apply Qle_shift_div_r. exact P. lra.
Qed.

Lemma interp_seg_bounds : forall lo hi x l x0 y0, x0 <= x -> lo <= y0 <= hi -> vals_within lo hi l ->
  lo <= interp_seg x x0 y0 l <= hi.
Proof.
  intros lo hi x l. induction l as [|[x1 y1] t IH]; intros x0 y0 Hx Hy Hl; cbn [interp_seg].
  - exact Hy.
  - assert (H1 : lo <= y1 <= hi) by (apply (Hl (x1, y1)); left; reflexivity).
    assert (Ht : vals_within lo hi t) by (intros p I; apply Hl; right; exact I).
    destruct (Qle_bool x1 x) eqn:E.
    + apply Qle_bool_iff in E. apply IH; assumption.
    + apply Qle_bool_false_lt in E. apply convex_within; try assumption. apply frac_unit; assumption.
Qed.

(* whatever the abscissae: the interpolated value lies within the range of the sample values *)
Lemma np_interp_bounds : forall lo hi x l, l <> [] -> vals_within lo hi l -> lo <= np_interp x l <= hi.
Proof.
  intros lo hi x l Hn Hl. destruct l as [|[x0 y0] t]; [contradiction|]. cbn [np_interp].
  assert (H0 : lo <= y0 <= hi) by (apply (Hl (x0, y0)); left; reflexivity).
  destruct (Qle_bool x x0) eqn:E; [exact H0|].
  apply Qle_bool_false_lt in E. apply interp_seg_bounds; [lra | exact H0 |].
  intros p I. apply Hl. right. exact I.
Qed.

(* ---------- the generated good / bad tests ---------- *)
(* every pixel is either a sample (good) or a pixel to be filled (bad): the two tests of the source partition the mask values *)
Lemma mask_partition : forall m, maskinterp_bad m = negb (maskinterp_good m).
Proof. intro m. unfold maskinterp_bad, maskinterp_good. reflexivity. Qed.

(* ... and bad means "not zero", the documented meaning (Spec.bad_S): -1, a sign bit, 1/2 are bad *)
Lemma mask_bad_is_spec : forall m, maskinterp_bad m = bad_S m.
Proof. intro m. unfold maskinterp_bad, bad_S. reflexivity. Qed.

Lemma mask_good_is_spec : forall m, maskinterp_good m = negb (bad_S m).
Proof. intro m. rewrite <- mask_bad_is_spec, mask_partition. destruct (maskinterp_good m); reflexivity. Qed.

Lemma mask_bad_iff : forall m, maskinterp_bad m = true <-> ~ m == 0.
Proof.
  intro m. rewrite mask_bad_is_spec. unfold bad_S. split.
  - intros H E. apply Qeq_bool_iff in E. rewrite E in H. discriminate.
  - intro H. destruct (Qeq_bool m 0) eqn:E; [|reflexivity]. apply Qeq_bool_iff in E. contradiction.
Qed.

(* ---------- rows that agree on the good pixels ---------- *)
Definition agree_m (p p' : Q * Q) : Prop := snd p = snd p' /\ (bad_S (snd p) = false -> fst p = fst p').
Definition has_good (l : list (Q * Q)) : Prop := exists p, In p l /\ bad_S (snd p) = false.
Definition all_bad (l : list (Q * Q)) : Prop := forall p, In p l -> bad_S (snd p) = true.

Lemma good_samples_agree : forall l l', Forall2 agree_m l l' -> forall i, good_samples i l = good_samples i l'.
Proof.
  intros l l' H. induction H as [|[v m] [v' m'] t t' [A B] _ IH]; intro i; [reflexivity|].
  cbn in A, B. subst m'. cbn [good_samples]. rewrite mask_good_is_spec.
  destruct (bad_S m) eqn:E; cbn [negb].
  - apply IH.
  - rewrite (B eq_refl), IH. reflexivity.
Qed.

Lemma fill_from_agree : forall l l', Forall2 agree_m l l' -> forall s i, fill_from s i l = fill_from s i l'.
Proof.
  intros l l' H. induction H as [|[v m] [v' m'] t t' [A B] _ IH]; intros s i; [reflexivity|].
  cbn in A, B. subst m'. cbn [fill_from]. rewrite IH, mask_bad_is_spec.
  destruct (bad_S m) eqn:E; [reflexivity|]. rewrite (B eq_refl). reflexivity.
Qed.

Lemma all_good_agree : forall l l', Forall2 agree_m l l' ->
  forallb (fun p : Q * Q => maskinterp_good (snd p)) l = forallb (fun p : Q * Q => maskinterp_good (snd p)) l'.
Proof.
  intros l l' H. induction H as [|[v m] [v' m'] t t' [A B] _ IH]; [reflexivity|].
  cbn in A. subst m'. cbn [forallb snd]. rewrite IH. reflexivity.
Qed.

Lemma all_good_values_agree : forall l l', Forall2 agree_m l l' ->
  forallb (fun p : Q * Q => maskinterp_good (snd p)) l = true -> map fst l = map fst l'.
Proof.
  intros l l' H. induction H as [|[v m] [v' m'] t t' [A B] _ IH]; intro G; [reflexivity|].
  cbn in A, B. subst m'. cbn [forallb snd] in G. apply andb_true_iff in G. destruct G as [G1 G2].
  cbn [map fst]. rewrite (IH G2). rewrite mask_good_is_spec in G1.
  destruct (bad_S m); [discriminate|]. rewrite (B eq_refl). reflexivity.
Qed.

Lemma map_const_agree : forall (l l' : list (Q * Q)) (c : Q), Forall2 agree_m l l' ->
  map (fun _ => c) l = map (fun _ => c) l'.
Proof. intros l l' c H. induction H; [reflexivity|]. cbn. rewrite IHForall2. reflexivity. Qed.

Lemma good_samples_nonempty : forall l i, has_good l -> good_samples i l <> [].
Proof.
  induction l as [|[v m] t IH]; intros i [p [I G]]; [contradiction|].
  cbn [good_samples]. rewrite mask_good_is_spec. destruct (bad_S m) eqn:E; cbn [negb]; [|discriminate].
  destruct I as [I|I].
  - subst p. cbn in G. rewrite E in G. discriminate.
  - apply IH. exists p. split; assumption.
Qed.

(* the interpolated row does not depend on the values stored in bad pixels -- for every mask value that is not zero,
   whatever its sign or width -- as long as the row has a good pixel *)
Lemma mi_row_indep : forall l l', Forall2 agree_m l l' -> has_good l -> mi_row l = mi_row l'.
Proof.
  intros l l' H G. unfold mi_row.
  rewrite <- (good_samples_agree _ _ H 0%Z), <- (all_good_agree _ _ H).
  pose proof (good_samples_nonempty l 0%Z G) as N.
  destruct (good_samples 0 l) as [|[i0 v0] s] eqn:Es; [contradiction|].
  unfold maskinterp_dispatch.
  destruct (forallb (fun p : Q * Q => maskinterp_good (snd p)) l) eqn:A.
  - apply all_good_values_agree; assumption.
  - destruct (Z.eqb (Z.of_nat (length ((i0, v0) :: s))) 0) eqn:E0.
    { cbn [length] in E0. apply Z.eqb_eq in E0. lia. }
    destruct (Z.eqb (Z.of_nat (length ((i0, v0) :: s))) 1) eqn:E1.
    + apply map_const_agree. exact H.
    + apply fill_from_agree. exact H.
Qed.

(* the hypothesis "has a good pixel" is needed: a row without any good pixel is handed back as it is *)
Lemma mi_row_all_bad_refuted : exists l l', Forall2 agree_m l l' /\ all_bad l /\ mi_row l <> mi_row l'.
Proof.
  exists [(1, -1 # 1)], [(2, -1 # 1)]. split; [|split].
  - constructor; [|constructor]. split; [reflexivity|]. cbn. discriminate.
  - intros p [E|[]]. subst p. reflexivity.
  - vm_compute. discriminate.
Qed.

Lemma mi_row_all_bad_is_input : forall l, all_bad l -> mi_row l = map fst l.
Proof.
  intros l H. unfold mi_row.
  assert (S : forall i, good_samples i l = []).
  { induction l as [|[v m] t IH]; intro i; [reflexivity|]. cbn [good_samples]. rewrite mask_good_is_spec.
    pose proof (H (v, m) (or_introl eq_refl)) as Hb. cbn [snd] in Hb. rewrite Hb. cbn [negb]. apply IH. intros p I. apply H. right. exact I. }
  rewrite S. unfold maskinterp_dispatch. cbn [length Z.of_nat Z.eqb].
  destruct (forallb (fun p : Q * Q => maskinterp_good (snd p)) l); reflexivity.
Qed.

(* ---------- the interpolated row stays within the range of the good values ---------- *)
Definition good_within (lo hi : Q) (l : list (Q * Q)) : Prop := forall p, In p l -> bad_S (snd p) = false -> lo <= fst p <= hi.

Lemma good_samples_within : forall lo hi l i, good_within lo hi l -> vals_within lo hi (good_samples i l).
Proof.
  intros lo hi l. induction l as [|[v m] t IH]; intros i H p I; [contradiction|].
  assert (Ht : good_within lo hi t) by (intros q J; apply H; right; exact J).
  cbn [good_samples] in I. rewrite mask_good_is_spec in I. destruct (bad_S m) eqn:E; cbn [negb] in I.
  - exact (IH _ Ht p I).
  - destruct I as [I|I]; [|exact (IH _ Ht p I)]. subst p. cbn [snd].
    apply (H (v, m) (or_introl eq_refl)). exact E.
Qed.

Lemma fill_from_within : forall lo hi s l i, s <> [] -> vals_within lo hi s -> good_within lo hi l ->
  forall x, In x (fill_from s i l) -> lo <= x <= hi.
Proof.
  intros lo hi s l. induction l as [|[v m] t IH]; intros i Hs Hv Hl x I; [contradiction|].
  cbn [fill_from] in I. destruct I as [I|I].
  - subst x. rewrite mask_bad_is_spec. destruct (bad_S m) eqn:E.
    + apply np_interp_bounds; assumption.
    + apply (Hl (v, m) (or_introl eq_refl)). exact E.
  - apply (IH (i + 1)%Z Hs Hv); [|exact I]. intros q J. apply Hl. right. exact J.
Qed.

Lemma mi_row_bounds : forall lo hi l, has_good l -> good_within lo hi l -> forall x, In x (mi_row l) -> lo <= x <= hi.
Proof.
  intros lo hi l G H x I. unfold mi_row in I.
  pose proof (good_samples_nonempty l 0%Z G) as N.
  pose proof (good_samples_within lo hi l 0%Z H) as W.
  destruct (good_samples 0 l) as [|[i0 v0] s] eqn:Es; [contradiction|].
  unfold maskinterp_dispatch in I.
  destruct (forallb (fun p : Q * Q => maskinterp_good (snd p)) l) eqn:A.
  - apply in_map_iff in I. destruct I as [p [E J]]. subst x. apply H. exact J.
    rewrite forallb_forall in A. specialize (A p J). rewrite mask_good_is_spec in A.
    destruct (bad_S (snd p)); [discriminate|reflexivity].
  - destruct (Z.eqb (Z.of_nat (length ((i0, v0) :: s))) 0) eqn:E0.
    { cbn [length] in E0. apply Z.eqb_eq in E0. lia. }
    destruct (Z.eqb (Z.of_nat (length ((i0, v0) :: s))) 1) eqn:E1.
    + apply in_map_iff in I. destruct I as [p [E J]]. subst x. apply (W (i0, v0)). left. reflexivity.
    + apply (fill_from_within lo hi ((i0, v0) :: s) l 0%Z); [discriminate | exact W | exact H | exact I].
Qed.

(* ---------- one (trace, band) with a mask ---------- *)
Lemma filter_trace_mask_indep : forall ws l l', Forall2 agree_m l l' -> has_good l -> filter_trace ws l = filter_trace ws l'.
Proof. intros ws l l' H G. unfold filter_trace. rewrite (mi_row_indep _ _ H G). reflexivity. Qed.

Lemma filter_trace_bounds : forall lo hi ws l, (forall w, In w ws -> 0 <= w) -> has_good l -> good_within lo hi l ->
  0 < sumw (combine ws (mi_row l)) -> lo <= filter_trace ws l <= hi.
Proof.
  intros lo hi ws l Hw G H S. unfold filter_trace. apply filter_band_bounds; [| |exact S].
  - intros w f I. apply Hw. exact (in_combine_l _ _ _ _ I).
  - intros w f I. apply (mi_row_bounds lo hi l G H). exact (in_combine_r _ _ _ _ I).
Qed.

(* a spectrum that is c on every good pixel gives c, whatever is stored in the bad ones *)
Lemma filter_trace_const : forall c ws l, (forall w, In w ws -> 0 <= w) -> has_good l -> good_within c c l ->
  0 < sumw (combine ws (mi_row l)) -> filter_trace ws l == c.
Proof.
  intros c ws l Hw G H S. destruct (filter_trace_bounds c c ws l Hw G H S) as [A B]. apply Qle_antisym; assumption.
Qed.

(* ---------- pixel order ---------- *)
Lemma sumw_app : forall a b, sumw (a ++ b) == sumw a + sumw b.
Proof. induction a as [|[w f] t IH]; intro b; cbn [app sumw]. ring. rewrite IH. ring. Qed.
Lemma sumwf_app : forall a b, sumwf (a ++ b) == sumwf a + sumwf b.
Proof. induction a as [|[w f] t IH]; intro b; cbn [app sumwf]. ring. rewrite IH. ring. Qed.
Lemma sumw_rev : forall l, sumw (rev l) == sumw l.
Proof. induction l as [|[w f] t IH]; cbn [rev sumw]. reflexivity. rewrite sumw_app, IH. cbn [sumw]. ring. Qed.
Lemma sumwf_rev : forall l, sumwf (rev l) == sumwf l.
Proof. induction l as [|[w f] t IH]; cbn [rev sumwf]. reflexivity. rewrite sumwf_app, IH. cbn [sumwf]. ring. Qed.

Lemma filter_norm_compat2 : forall x y s t, x == y -> s == t -> filter_norm x s == filter_norm y t.
Proof.
  intros x y s t H1 H2. unfold filter_norm.
  assert (E : Qle_bool s (0 # 1) = Qle_bool t (0 # 1)).
  { destruct (Qle_bool s (0 # 1)) eqn:A; destruct (Qle_bool t (0 # 1)) eqn:B; try reflexivity.
    - apply Qle_bool_iff in A. rewrite H2 in A. apply Qle_bool_iff in A. rewrite A in B. discriminate.
    - apply Qle_bool_iff in B. rewrite <- H2 in B. apply Qle_bool_iff in B. rewrite B in A. discriminate. }
  rewrite E, H1, H2. reflexivity.
Qed.

(* a spectrum stored red to blue gives the same band value as the same spectrum stored blue to red *)
Lemma filter_band_rev : forall l, filter_band (rev l) == filter_band l.
Proof. intro l. unfold filter_band. apply filter_norm_compat2. apply sumwf_rev. apply sumw_rev. Qed.

(* ---------- the response curves ---------- *)
Definition within_b (lo hi : Q) (l : list (Q * Q)) : bool := forallb (fun p : Q * Q => Qle_bool lo (snd p) && Qle_bool (snd p) hi) l.
Lemma within_b_sound : forall lo hi l, within_b lo hi l = true -> vals_within lo hi l.
Proof.
  intros lo hi l H p I. unfold within_b in H. rewrite forallb_forall in H. specialize (H p I).
  apply andb_true_iff in H. destruct H as [A B]. apply Qle_bool_iff in A. apply Qle_bool_iff in B. split; assumption.
Qed.

Lemma curves_within : forallb (within_b 0 1) filter_curves = true.
Proof. vm_compute. reflexivity. Qed.

Lemma curves_nonempty : forallb (fun c : list (Q * Q) => negb (Nat.eqb (length c) 0)) filter_curves = true.
Proof. vm_compute. reflexivity. Qed.

(* at every wavelength (inside, between and outside the tabulated points) each band's response is within [0, 1] *)
Lemma response_range : forall b lam, 0 <= filter_response b lam <= 1.
Proof.
  intros b lam. unfold filter_response.
  destruct (nth_in_or_default b filter_curves []) as [I|E].
  - pose proof curves_within as W. pose proof curves_nonempty as N. rewrite forallb_forall in W, N.
    apply np_interp_bounds.
    + specialize (N _ I). destruct (nth b filter_curves []); [discriminate|discriminate].
    + apply within_b_sound. apply W. exact I.
  - rewrite E. cbn. lra.
Qed.

Lemma resp_tr_nonneg : forall b l, resp_nonneg (resp_tr b l).
Proof.
  intros b l t I. unfold resp_tr in I. apply in_map_iff in I. destruct I as [u [E _]]. subst t. cbn [fst snd].
  apply response_range.
Qed.

Lemma resp_tr_within : forall b lo hi l, flux_within3 lo hi l -> flux_within3 lo hi (resp_tr b l).
Proof.
  intros b lo hi l H t I. unfold resp_tr in I. apply in_map_iff in I. destruct I as [u [E J]]. subst t. cbn [snd].
  apply H. exact J.
Qed.

(* band value from (fitted d(log lambda), wavelength, flux): no hypothesis on the response is left *)
Lemma filter_thru_lam_bounds : forall b lo hi l, flux_within3 lo hi l -> 0 < sumw (band_pairs (resp_tr b l)) ->
  lo <= filter_thru_lam b l <= hi.
Proof.
  intros b lo hi l H S. unfold filter_thru_lam. apply filter_thru_band_bounds; [apply resp_tr_nonneg | apply resp_tr_within; exact H | exact S].
Qed.

Lemma filter_thru_lam_no_overlap : forall b l, sumw (band_pairs (resp_tr b l)) <= 0 -> filter_thru_lam b l == 0.
Proof. intros b l S. unfold filter_thru_lam. apply filter_thru_band_no_overlap; [apply resp_tr_nonneg | exact S]. Qed.

(* ---------- soundness of the row checker S ---------- *)
Lemma fill_rows_sound : forall l r lo hi tol, fill_rows l r lo hi tol = true ->
  Forall2 (fun (p : Q * Q) (x : Q) => if bad_S (snd p) then lo - tol <= x <= hi + tol else x == fst p) l r.
Proof.
  induction l as [|[v m] t IH]; intros r lo hi tol H; destruct r as [|x u]; cbn [fill_rows] in H; try discriminate.
  - constructor.
  - apply andb_true_iff in H. destruct H as [A B]. constructor; [|apply IH; exact B]. cbn [fst snd].
    destruct (bad_S m).
    + apply andb_true_iff in A. destruct A as [A1 A2]. apply Qle_bool_iff in A1. apply Qle_bool_iff in A2. split; assumption.
    + apply Qeq_bool_iff. exact A.
Qed.

(* the run-time row checker accepts r only if every good pixel kept its value and every bad pixel was replaced by a value
   within the range of the good ones (rows without a good pixel: nothing is demanded) *)
Lemma fill_ok_sound : forall l r tol g0 gs, fill_ok l r tol = true -> good_vals l = g0 :: gs ->
  Forall2 (fun (p : Q * Q) (x : Q) =>
             if bad_S (snd p) then lmin gs g0 - tol <= x <= lmax gs g0 + tol else x == fst p) l r.
Proof. intros l r tol g0 gs H E. unfold fill_ok in H. rewrite E in H. apply fill_rows_sound. exact H. Qed.
