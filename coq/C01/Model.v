(* C01 -- yanny: tables and header pairs written to a file read back unchanged.
   The models live in Yanny/ (shared with C02, C03): Render.v (writer model `render_checked`, spec `sem`,
   domain `doc_ok`) and Parse.v (reader model `parse`).  This file only adds the case type of the
   correspondence run.  DEFINITIONS ONLY. *)
From Coq Require Import NArith ZArith List Bool.
Import ListNotations.
From PV Require Import Yanny.Bytes Yanny.Types Yanny.Parse Yanny.Render.
Open Scope N_scope.

Inductive case :=
  (* a document, the bytes the real writer produced (None: it raised), what the real reader returned for
     that file (None: it raised) *)
  | CWrite (d : doc) (file : option bytes) (impl : option pdoc)
  (* a document with an unsupported column type; did the real writer refuse (raise, no file)? *)
  | CRefuse (d : doc) (refused : bool).

(* verdict: +1 model differs from implementation (+8 the writer model, +16 the reader model),
            +2 the implementation's result contradicts the specification sem (failing input),
            +4 the generated document is outside doc_ok (generator error) *)
Definition run_case (c : case) : Z :=
  match c with
  | CWrite d file impl =>
      let m_render := opt_eqb beq (render_checked d) file in
      let m_parse := match file with
                     | Some f => opt_eqb pdoc_eqb (parse f) impl
                     | None => match impl with None => true | Some _ => false end
                     end in
      let spec := match sem d with Some p => opt_eqb pdoc_eqb impl (Some p) | None => false end in
      ((if m_render && m_parse then 0 else 1) + (if m_render then 0 else 8) + (if m_parse then 0 else 16)
       + (if spec then 0 else 2) + (if doc_ok d then 0 else 4))%Z
  | CRefuse d refused =>
      let m := match render_checked d with None => refused | Some _ => negb refused end in
      ((if m then 0 else 1) + (if refused then 0 else 2))%Z
  end.
Definition run_cases (l : list case) : list Z := map run_case l.
