(* C18 -- the generated model M equals the specification S; algebraic laws proved directly on the
   GENERATED component formulas (a sign flipped in the source breaks these proofs). *)
From Coq Require Import Reals ZArith QArith Qreals Lra Lia Nsatz List.
From PV Require Import C18.Spec C18.SpecProofs Generated.Gcirc Generated.Coord C18.Model.
Import ListNotations.
Open Scope R_scope.

(* ------------------------------------------------------------------ gcirc *)
(* Two source shapes are supported by the same scripts: radians first, then differences (original), and differences in
   the caller's unit first, then radians (repaired).  align_sin proves the arguments of corresponding sines equal. *)

Ltac align_sin :=
  repeat match goal with
  | |- ?L = ?R =>
    match L with context [sin ?a] =>
      match R with context [sin ?b] =>
        tryif constr_eq a b then fail else
        (let H := fresh in assert (H : a = b) by (unfold deg; field); rewrite H; clear H)
      end
    end
  end.

Lemma gcirc_valid_units_doc : gcirc_valid_units = [0%Z; 1%Z; 2%Z].
Proof. reflexivity. Qed.

Lemma gcirc_h_is_hav : forall units ra1 dec1 ra2 dec2, In units gcirc_valid_units ->
  gcirc_h units ra1 dec1 ra2 dec2 = hav_S units ra1 dec1 ra2 dec2.
Proof.
  intros units ra1 dec1 ra2 dec2 H. rewrite gcirc_valid_units_doc in H.
  destruct H as [<-|[<-|[<-|[]]]]; unfold gcirc_h, gcirc_in, gcirc_sindis2, hav_S, hav, deg; cbn [Z.eqb Pos.eqb];
    cbv zeta; align_sin; ring.
Qed.

Lemma hav_S_is_chord : forall units ra1 dec1 ra2 dec2, In units gcirc_valid_units ->
  hav_S units ra1 dec1 ra2 dec2 = (1 - dot (pt_S units ra1 dec1) (pt_S units ra2 dec2)) / 2.
Proof.
  intros units ra1 dec1 ra2 dec2 H. rewrite gcirc_valid_units_doc in H.
  destruct H as [<-|[<-|[<-|[]]]]; unfold hav_S, pt_S; apply hav_is_chord.
Qed.

Lemma gcirc_h_is_chord : forall units ra1 dec1 ra2 dec2, In units gcirc_valid_units ->
  gcirc_h units ra1 dec1 ra2 dec2 = (1 - dot (pt_S units ra1 dec1) (pt_S units ra2 dec2)) / 2.
Proof. intros. rewrite gcirc_h_is_hav by assumption. apply hav_S_is_chord. assumption. Qed.

(* the asin argument is legal for every real input: no NaN in exact arithmetic *)
Lemma gcirc_h_range : forall units ra1 dec1 ra2 dec2, In units gcirc_valid_units ->
  0 <= gcirc_h units ra1 dec1 ra2 dec2 <= 1.
Proof.
  intros units ra1 dec1 ra2 dec2 H. rewrite gcirc_h_is_hav by assumption. rewrite gcirc_valid_units_doc in H.
  destruct H as [<-|[<-|[<-|[]]]]; unfold hav_S; apply hav_range.
Qed.

(* the same for EVERY value of units (an invalid one makes the source raise; the generated gcirc_in then holds zeros) *)
Lemma gcirc_h_range_all : forall units ra1 dec1 ra2 dec2, 0 <= gcirc_h units ra1 dec1 ra2 dec2 <= 1.
Proof.
  intros units ra1 dec1 ra2 dec2.
  destruct (Z.eq_dec units 0) as [->|n0]; [apply gcirc_h_range; rewrite gcirc_valid_units_doc; cbn; tauto|].
  destruct (Z.eq_dec units 1) as [->|n1]; [apply gcirc_h_range; rewrite gcirc_valid_units_doc; cbn; tauto|].
  destruct (Z.eq_dec units 2) as [->|n2]; [apply gcirc_h_range; rewrite gcirc_valid_units_doc; cbn; tauto|].
  unfold gcirc_h, gcirc_in.
  rewrite (proj2 (Z.eqb_neq units 0) n0), (proj2 (Z.eqb_neq units 1) n1), (proj2 (Z.eqb_neq units 2) n2).
  unfold gcirc_sindis2; cbv zeta. replace (0 / 2) with 0 by field. rewrite sin_0. lra.
Qed.

(* Two shapes of the last step are supported: `2*arcsin(sindis)` and, guarded against rounding, `2*arcsin(np.minimum(sindis, 1.0))`
   (fixes/C18-gcirc-antipodal-nan.diff).  The guard is the identity on the exact value because the square-root argument never
   exceeds 1 (gcirc_h_range_all): that is what the `try rewrite Rmin_left` step proves. *)
Lemma gcirc_gen_eq : forall units ra1 dec1 ra2 dec2,
  gcirc_gen units ra1 dec1 ra2 dec2 = gcirc_out units (2 * asin (sqrt (gcirc_h units ra1 dec1 ra2 dec2))).
Proof.
  intros. pose proof (gcirc_h_range_all units ra1 dec1 ra2 dec2) as Hr. revert Hr.
  unfold gcirc_gen, gcirc_h. destruct (gcirc_in units ra1 dec1 ra2 dec2) as [[[p1 p2] p3] p4].
  unfold gcirc_dis, gcirc_sindis2; cbv zeta. intros Hr.
  try (rewrite Rmin_left by (rewrite <- sqrt_1; apply sqrt_le_1_alt; apply Hr)).
  reflexivity.
Qed.

Lemma gcirc_gen_is_S : forall units ra1 dec1 ra2 dec2, In units gcirc_valid_units ->
  gcirc_gen units ra1 dec1 ra2 dec2 = gcirc_S units ra1 dec1 ra2 dec2.
Proof.
  intros units ra1 dec1 ra2 dec2 H. rewrite gcirc_gen_eq, gcirc_h_is_hav by assumption.
  rewrite gcirc_valid_units_doc in H.
  destruct H as [<-|[<-|[<-|[]]]]; unfold gcirc_out, hav_S, gcirc_S, gcirc_rad, arcsec_of_rad; cbn [Z.eqb Pos.eqb];
    reflexivity.
Qed.

Lemma gcirc_gen_sym : forall units ra1 dec1 ra2 dec2, In units gcirc_valid_units ->
  gcirc_gen units ra1 dec1 ra2 dec2 = gcirc_gen units ra2 dec2 ra1 dec1.
Proof.
  intros. rewrite !gcirc_gen_is_S by assumption. rewrite gcirc_valid_units_doc in H.
  destruct H as [<-|[<-|[<-|[]]]]; unfold gcirc_S; rewrite gcirc_sym; reflexivity.
Qed.

Lemma gcirc_gen_refl_zero : forall units ra dec, In units gcirc_valid_units -> gcirc_gen units ra dec ra dec = 0.
Proof.
  intros. rewrite gcirc_gen_is_S by assumption. rewrite gcirc_valid_units_doc in H.
  destruct H as [<-|[<-|[<-|[]]]]; unfold gcirc_S, arcsec_of_rad; rewrite gcirc_refl_zero; try reflexivity;
    unfold Rdiv; ring.
Qed.

(* 0 <= result <= 180 degrees (PI rad, 648000 arcsec) *)
Lemma gcirc_gen_range : forall units ra1 dec1 ra2 dec2, In units gcirc_valid_units ->
  0 <= gcirc_gen units ra1 dec1 ra2 dec2 <= (if (units =? 0)%Z then PI else 648000).
Proof.
  intros. rewrite gcirc_gen_is_S by assumption. rewrite gcirc_valid_units_doc in H.
  assert (Z0 : arcsec_of_rad 0 = 0) by (unfold arcsec_of_rad, Rdiv; ring).
  destruct H as [<-|[<-|[<-|[]]]]; cbn [Z.eqb Pos.eqb]; unfold gcirc_S.
  - apply gcirc_range.
  - rewrite <- arcsec_PI, <- Z0. split; apply arcsec_mono; apply gcirc_range.
  - rewrite <- arcsec_PI, <- Z0. split; apply arcsec_mono; apply gcirc_range.
Qed.

(* the three conventions describe the same distance *)
Lemma gcirc_gen_units_agree : forall ra1 dec1 ra2 dec2,
  gcirc_gen 2 ra1 dec1 ra2 dec2 = arcsec_of_rad (gcirc_gen 0 (deg ra1) (deg dec1) (deg ra2) (deg dec2)) /\
  gcirc_gen 1 ra1 dec1 ra2 dec2 = gcirc_gen 2 (15 * ra1) dec1 (15 * ra2) dec2.
Proof.
  intros. rewrite !gcirc_gen_is_S by (rewrite gcirc_valid_units_doc; simpl; tauto).
  split; reflexivity.
Qed.

Lemma gcirc_gen_is_vector_formula : forall ra1 dec1 ra2 dec2,
  gcirc_gen 0 ra1 dec1 ra2 dec2 = acos (dot (vec dec1 ra1) (vec dec2 ra2)).
Proof.
  intros. rewrite gcirc_gen_is_S by (rewrite gcirc_valid_units_doc; simpl; tauto).
  unfold gcirc_S. apply gcirc_is_vector_formula.
Qed.

(* ------------------------------------------------------------------ mu/nu rotations *)

Lemma m2r_vec_is_S : forall mu nu incl node, m2r_vec mu nu incl node = munu_to_radec_S mu nu incl node.
Proof.
  intros. unfold m2r_vec, m2r_poly, munu_to_radec_S, rotx, vec. apply pair3_eq; ring.
Qed.

Lemma r2m_vec_is_S : forall ra dec incl node, r2m_vec ra dec incl node = radec_to_munu_S ra dec incl node.
Proof.
  intros. unfold r2m_vec, r2m_poly, radec_to_munu_S, rotx, vec. rewrite cos_neg, sin_neg.
  apply pair3_eq; ring.
Qed.

(* Round trip on the generated polynomials, by nsatz from sin^2 + cos^2 = 1.
   (ra, dec) is ANY pair of angles representing the vector munu_to_radec produced. *)
Lemma munu_radec_inverse : forall mu nu incl node ra dec,
  vec dec (ra - node) = m2r_vec mu nu incl node ->
  r2m_vec ra dec incl node = vec nu (mu - node).
Proof.
  intros mu nu incl node ra dec H.
  unfold vec, m2r_vec, m2r_poly in H. unfold r2m_vec, r2m_poly, vec.
  injection H as Hx Hy Hz.
  pose proof (sc1 incl) as Hi.
  revert Hx Hy Hz Hi.
  generalize (sin incl) (cos incl) (sin (mu - node)) (cos (mu - node)) (sin nu) (cos nu)
             (sin (ra - node)) (cos (ra - node)) (sin dec) (cos dec).
  intros si ci sm cm sn cn sr cr sd cd Hx Hy Hz Hi.
  apply pair3_eq; nsatz.
Qed.

Lemma radec_munu_inverse : forall ra dec incl node mu nu,
  vec nu (mu - node) = r2m_vec ra dec incl node ->
  m2r_vec mu nu incl node = vec dec (ra - node).
Proof.
  intros ra dec incl node mu nu H.
  unfold vec, r2m_vec, r2m_poly in H. unfold m2r_vec, m2r_poly, vec.
  injection H as Hx Hy Hz.
  pose proof (sc1 incl) as Hi.
  revert Hx Hy Hz Hi.
  generalize (sin incl) (cos incl) (sin (mu - node)) (cos (mu - node)) (sin nu) (cos nu)
             (sin (ra - node)) (cos (ra - node)) (sin dec) (cos dec).
  intros si ci sm cm sn cn sr cr sd cd Hx Hy Hz Hi.
  apply pair3_eq; nsatz.
Qed.

(* separations are preserved: the transform is an isometry of the sphere *)
Lemma m2r_preserves_dot : forall mu1 nu1 mu2 nu2 incl node,
  dot (m2r_vec mu1 nu1 incl node) (m2r_vec mu2 nu2 incl node) = dot (vec nu1 (mu1 - node)) (vec nu2 (mu2 - node)).
Proof.
  intros. unfold m2r_vec, m2r_poly, vec, dot.
  pose proof (sc1 incl) as Hi. revert Hi.
  generalize (sin incl) (cos incl) (sin (mu1 - node)) (cos (mu1 - node)) (sin nu1) (cos nu1)
             (sin (mu2 - node)) (cos (mu2 - node)) (sin nu2) (cos nu2).
  intros. nsatz.
Qed.

Lemma r2m_preserves_dot : forall ra1 dec1 ra2 dec2 incl node,
  dot (r2m_vec ra1 dec1 incl node) (r2m_vec ra2 dec2 incl node) = dot (vec dec1 (ra1 - node)) (vec dec2 (ra2 - node)).
Proof.
  intros. unfold r2m_vec, r2m_poly, vec, dot.
  pose proof (sc1 incl) as Hi. revert Hi.
  generalize (sin incl) (cos incl) (sin (ra1 - node)) (cos (ra1 - node)) (sin dec1) (cos dec1)
             (sin (ra2 - node)) (cos (ra2 - node)) (sin dec2) (cos dec2).
  intros. nsatz.
Qed.

(* the outputs are unit vectors, so arcsin(z) is legal in exact arithmetic *)
Lemma m2r_unit : forall mu nu incl node, dot (m2r_vec mu nu incl node) (m2r_vec mu nu incl node) = 1.
Proof. intros. rewrite m2r_preserves_dot. apply vec_unit. Qed.

Lemma r2m_unit : forall ra dec incl node, dot (r2m_vec ra dec incl node) (r2m_vec ra dec incl node) = 1.
Proof. intros. rewrite r2m_preserves_dot. apply vec_unit. Qed.

Lemma unit_z_range : forall x y z, dot (x, y, z) (x, y, z) = 1 -> -1 <= z <= 1.
Proof. intros x y z H. unfold dot in H. split; nra. Qed.


Lemma clip_id : forall z, -1 <= z <= 1 -> Rmax (-1) (Rmin z 1) = z.
Proof. intros z [H0 H1]. rewrite Rmin_left by lra. apply Rmax_right. lra. Qed.

(* the latitude the source returns is arcsin of a number in [-1, 1] (with or without the rounding guard np.clip) *)
Lemma m2r_lat_legal : forall mu nu incl node,
  let v := m2r_vec mu nu incl node in m2r_lat v = asin (snd v) /\ -1 <= snd v <= 1.
Proof.
  intros. pose proof (m2r_unit mu nu incl node) as U. fold v in U. destruct v as [[x y] z].
  pose proof (unit_z_range _ _ _ U) as Z. cbn [snd]. split; [|exact Z].
  unfold m2r_lat. first [reflexivity | rewrite (clip_id _ Z); reflexivity].
Qed.

Lemma r2m_lat_legal : forall ra dec incl node,
  let v := r2m_vec ra dec incl node in r2m_lat v = asin (snd v) /\ -1 <= snd v <= 1.
Proof.
  intros. pose proof (r2m_unit ra dec incl node) as U. fold v in U. destruct v as [[x y] z].
  pose proof (unit_z_range _ _ _ U) as Z. cbn [snd]. split; [|exact Z].
  unfold r2m_lat. first [reflexivity | rewrite (clip_id _ Z); reflexivity].
Qed.

Lemma latitude_legal : forall a b incl node,
  (let v := m2r_vec a b incl node in m2r_lat v = asin (snd v) /\ -1 <= snd v <= 1) /\
  (let v := r2m_vec a b incl node in r2m_lat v = asin (snd v) /\ -1 <= snd v <= 1).
Proof. intros. split. apply m2r_lat_legal. apply r2m_lat_legal. Qed.

(* nu = 0 is the great circle of inclination incl through the node *)
Lemma nu0_great_circle : forall mu incl node,
  dot (m2r_vec mu 0 incl node) (gc_normal incl) = 0 /\ m2r_vec node 0 incl node = vec 0 0.
Proof.
  intros. rewrite !m2r_vec_is_S. split. apply nu0_in_plane. apply nu0_through_node.
Qed.

(* ------------------------------------------------------------------ stripes *)

Lemma incl_of_stripe : forall s, (stripe_to_incl_gen s == incl_doc s)%Q.
Proof.
  intro s. unfold stripe_to_incl_gen, stripe_to_eta_gen, incl_doc.
  destruct (46 <? s)%Z eqn:E1; destruct (s <=? 46)%Z eqn:E2; try lia; ring.
Qed.

Lemma incl_stripe_10_82 : (stripe_to_incl_gen 10 == 0)%Q /\ (stripe_to_incl_gen 82 == 0)%Q.
Proof. split; reflexivity. Qed.

Lemma node_is_95 : (sdss_node_default_deg == 95)%Q.
Proof. reflexivity. Qed.
