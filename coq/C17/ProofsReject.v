(* C17: djs_reject.  The badness bookkeeping of the model decides the documented limits (S), the
   index-assignment growth loop is dilation, qdone is list equality. *)
From Coq Require Import ZArith QArith Qabs List Bool Lia Lqa.
Import ListNotations.
From PV Require Import Generated.Reject C17.Model C17.ProofsDilate.
Open Scope Q_scope.

(* ---------------------------------------------------------------- boolean order tests on Q *)

Lemma Qltb_iff : forall a b, Qltb a b = true <-> a < b.
Proof.
  intros. unfold Qltb. rewrite negb_true_iff. split.
  - intros H. apply Qnot_le_lt. intros L. apply Qle_bool_iff in L. congruence.
  - intros H. destruct (Qle_bool b a) eqn:E; [|reflexivity].
    apply Qle_bool_iff in E. exfalso. apply (Qlt_not_le _ _ H E).
Qed.

Lemma Qltb_false_iff : forall a b, Qltb a b = false <-> b <= a.
Proof.
  intros. unfold Qltb. rewrite negb_false_iff. apply Qle_bool_iff.
Qed.

Lemma b2q_nonneg : forall b, 0 <= b2q b.
Proof. intros [|]; cbn; lra. Qed.

Lemma b2q_zero : forall b, b2q b == 0 <-> b = false.
Proof. intros [|]; cbn; split; intros H; try reflexivity; try discriminate. Qed.

Lemma b2q_and : forall a b, b2q a * b2q b == b2q (a && b).
Proof. intros [|] [|]; cbn; ring. Qed.

(* ---------------------------------------------------------------- square-root elimination *)

Lemma mul_nonpos : forall d s, d <= 0 -> 0 <= s -> d * s <= 0.
Proof.
  intros d s Hd Hs. assert (0 <= (- d) * s) by (apply Qmult_le_0_compat; lra).
  assert (E : d * s == - ((- d) * s)) by ring. rewrite E. lra.
Qed.

(* with s = sqrt(iv):  d * s < c  is decided by sqrtmul_lt d iv c *)
Lemma sqrtmul_lt_correct : forall d iv c s, 0 <= s -> s * s == iv ->
  (sqrtmul_lt d iv c = true <-> d * s < c).
Proof.
  intros d iv c s Hs Hiv. unfold sqrtmul_lt.
  assert (Hsq : d * d * iv == (d * s) * (d * s)) by (rewrite <- Hiv; ring).
  assert (Sneg : d <= 0 -> d * s <= 0) by (intros; apply mul_nonpos; assumption).
  assert (Spos : 0 <= d -> 0 <= d * s) by (intros; apply Qmult_le_0_compat; assumption).
  destruct (Qltb 0 c) eqn:Ec.
  - apply Qltb_iff in Ec. rewrite orb_true_iff, Qle_bool_iff, Qltb_iff, Hsq.
    revert Sneg Spos. generalize (d * s). intros t Sneg Spos. split.
    + intros [H|H].
      * specialize (Sneg H). lra.
      * destruct (Qlt_le_dec t c); [assumption|]. exfalso. nra.
    + intros H. destruct (Qlt_le_dec 0 d) as [P|N]; [right | left; exact N].
      assert (0 <= t) by (apply Spos; lra). nra.
  - apply Qltb_false_iff in Ec. rewrite andb_true_iff, !Qltb_iff, Hsq.
    revert Sneg Spos. generalize (d * s). intros t Sneg Spos. split.
    + intros [H1 H2]. assert (t <= 0) by (apply Sneg; lra).
      destruct (Qlt_le_dec t c); [assumption|]. exfalso. nra.
    + intros H. assert (Hd : d < 0).
      { destruct (Qlt_le_dec d 0); [assumption|]. assert (0 <= t) by (apply Spos; assumption). lra. }
      split; [assumption|]. nra.
Qed.

(* ---------------------------------------------------------------- badness = 0  <->  not beyond the limits *)

(* sigma + (sigma == 0) *)
Definition sig1 (s : Q) : Q := s + b2q (Qeq_bool s 0).

Lemma Qltb_compat : forall a a' b b', a == a' -> b == b' -> Qltb a b = Qltb a' b'.
Proof.
  intros a a' b b' Ha Hb. apply eq_true_iff_eq. rewrite !Qltb_iff, Ha, Hb. reflexivity.
Qed.
Lemma Qle_bool_compat : forall a a' b b', a == a' -> b == b' -> Qle_bool a b = Qle_bool a' b'.
Proof.
  intros a a' b b' Ha Hb. apply eq_true_iff_eq. rewrite !Qle_bool_iff, Ha, Hb. reflexivity.
Qed.

(* sqrtmul_lt respects == (the generated terms carry `- - d`, `- 0`) *)
Lemma sqrtmul_lt_compat : forall d d' iv c c', d == d' -> c == c' -> sqrtmul_lt d iv c = sqrtmul_lt d' iv c'.
Proof.
  intros d d' iv c c' Hd Hc. unfold sqrtmul_lt.
  rewrite (Qltb_compat 0 0 c c') by (assumption || reflexivity).
  rewrite (Qle_bool_compat d d' 0 0) by (assumption || reflexivity).
  rewrite (Qltb_compat (d * d * iv) (d' * d' * iv) (c * c) (c' * c')) by (rewrite ?Hd, ?Hc; reflexivity).
  rewrite (Qltb_compat d d' 0 0) by (assumption || reflexivity).
  rewrite (Qltb_compat (c * c) (c' * c') (d * d * iv) (d' * d' * iv)) by (rewrite ?Hd, ?Hc; reflexivity).
  reflexivity.
Qed.

Lemma sig1_pos : forall s, 0 <= s -> 0 < sig1 s.
Proof.
  intros s Hs. unfold sig1. destruct (Qeq_bool s 0) eqn:E; cbn.
  - apply Qeq_bool_iff in E. lra.
  - apply Qeq_bool_neq in E. lra.
Qed.

Lemma div_pos : forall a b, 0 < a -> 0 < b -> 0 < a / b.
Proof. intros a b Ha Hb. apply Qlt_shift_div_l; [assumption | lra]. Qed.

Lemma sig_lower_and : forall l s d, 0 <= l -> 0 <= s ->
  Qltb 0 ((- d) / sig1 s) && Qltb d ((- l) * s) = Qltb d ((- l) * s).
Proof.
  intros l s d Hl Hs. destruct (Qltb d ((- l) * s)) eqn:B; [|apply andb_false_r].
  rewrite andb_true_r. apply Qltb_iff. apply Qltb_iff in B.
  assert ((- l) * s <= 0) by (apply mul_nonpos; lra).
  apply div_pos; [lra | apply sig1_pos, Hs].
Qed.

Lemma sig_upper_and : forall u s d, 0 <= u -> 0 <= s ->
  Qltb 0 (d / sig1 s) && Qltb (u * s) d = Qltb (u * s) d.
Proof.
  intros u s d Hu Hs. destruct (Qltb (u * s) d) eqn:B; [|apply andb_false_r].
  rewrite andb_true_r. apply Qltb_iff. apply Qltb_iff in B.
  assert (0 <= u * s) by (apply Qmult_le_0_compat; assumption).
  apply div_pos; [lra | apply sig1_pos, Hs].
Qed.

Lemma ivar_and : forall l iv d, 0 <= l ->
  sqrtmul_lt d iv 0 && sqrtmul_lt d iv (- l) = sqrtmul_lt d iv (- l).
Proof.
  intros l iv d Hl. unfold sqrtmul_lt.
  assert (E0 : Qltb 0 0 = false) by reflexivity. rewrite E0.
  assert (E1 : Qltb 0 (- l) = false) by (apply Qltb_false_iff; lra). rewrite E1.
  destruct (Qltb d 0); [|reflexivity]. cbn [andb].
  destruct (Qltb (- l * - l) (d * d * iv)) eqn:B; [|apply andb_false_r].
  rewrite andb_true_r. apply Qltb_iff. apply Qltb_iff in B.
  assert (0 <= (- l) * (- l)) by nra. lra.
Qed.

Definition cond_l (o : ropts) (p : point) : bool :=
  let d := p_data p - p_model p in
  match o_lower o with
  | None => false
  | Some l => match p_scale p with Sig s => Qltb d ((- l) * s) | Ivar iv => sqrtmul_lt d iv (- l) end
  end.
Definition cond_u (o : ropts) (p : point) : bool :=
  let d := p_data p - p_model p in
  match o_upper o with
  | None => false
  | Some u => match p_scale p with Sig s => Qltb (u * s) d | Ivar iv => sqrtmul_lt (- d) iv (- u) end
  end.
Definition cond_m (o : ropts) (p : point) : bool :=
  match o_maxdev o with None => false | Some x => Qltb x (Qabs (p_data p - p_model p)) end.

Definition term_l (o : ropts) (p : point) : Q :=
  let d := p_data p - p_model p in
  match o_lower o with
  | None => 0
  | Some l =>
    match p_scale p with
    | Sig s => rej_lower_sig_term d l s (rej_lower_sig_qbad d l s)
    | Ivar iv => rej_lower_iv_term d l iv (rej_lower_iv_qbad d l iv)
    end
  end.
Definition term_u (o : ropts) (p : point) : Q :=
  let d := p_data p - p_model p in
  match o_upper o with
  | None => 0
  | Some u =>
    match p_scale p with
    | Sig s => rej_upper_sig_term d u s (rej_upper_sig_qbad d u s)
    | Ivar iv => rej_upper_iv_term d u iv (rej_upper_iv_qbad d u iv)
    end
  end.
Definition term_m (o : ropts) (p : point) : Q :=
  let d := p_data p - p_model p in
  match o_maxdev o with None => 0 | Some x => rej_maxdev_term d x (rej_maxdev_qbad d x) end.

Lemma badness_terms : forall o p, badness o p = term_l o p + term_u o p + term_m o p.
Proof. reflexivity. Qed.
Lemma beyond_conds : forall o p, beyond o p = cond_l o p || cond_u o p || cond_m o p.
Proof. reflexivity. Qed.

(* the GENERATED comparisons are the canonical ones, up to ring rearrangement of their operands
   (a changed operator -- `<=` for `<` -- makes these fail) *)
Ltac gen_cmp := first [ reflexivity
                      | apply Qltb_compat; first [reflexivity | ring]
                      | apply sqrtmul_lt_compat; first [reflexivity | ring] ].
Lemma gen_lower_sig_qbad : forall d l s, rej_lower_sig_qbad d l s = Qltb d ((- l) * s).
Proof. intros. unfold rej_lower_sig_qbad. gen_cmp. Qed.
Lemma gen_upper_sig_qbad : forall d u s, rej_upper_sig_qbad d u s = Qltb (u * s) d.
Proof. intros. unfold rej_upper_sig_qbad. gen_cmp. Qed.
Lemma gen_lower_iv_qbad : forall d l iv, rej_lower_iv_qbad d l iv = sqrtmul_lt d iv (- l).
Proof. intros. unfold rej_lower_iv_qbad. gen_cmp. Qed.
Lemma gen_upper_iv_qbad : forall d u iv, rej_upper_iv_qbad d u iv = sqrtmul_lt (- d) iv (- u).
Proof. intros. unfold rej_upper_iv_qbad. gen_cmp. Qed.
Lemma gen_maxdev_qbad : forall d x, rej_maxdev_qbad d x = Qltb x (Qabs d).
Proof. intros. unfold rej_maxdev_qbad. gen_cmp. Qed.
Lemma gen_lower_iv_pos : forall d l iv q, rej_lower_iv_term d l iv q = b2q (sqrtmul_lt d iv 0) * b2q q.
Proof. intros. unfold rej_lower_iv_term. first [reflexivity | do 2 f_equal; apply sqrtmul_lt_compat; ring]. Qed.
Lemma gen_upper_iv_pos : forall d u iv q, rej_upper_iv_term d u iv q = b2q (sqrtmul_lt (- d) iv 0) * b2q q.
Proof. intros. unfold rej_upper_iv_term. first [reflexivity | do 2 f_equal; apply sqrtmul_lt_compat; ring]. Qed.

Lemma opts_ok_inv : forall o, opts_ok o = true ->
  (forall l, o_lower o = Some l -> 0 <= l) /\ (forall u, o_upper o = Some u -> 0 <= u) /\
  (forall x, o_maxdev o = Some x -> 0 < x).
Proof.
  intros o H. unfold opts_ok in H. apply andb_true_iff in H as [H H3]. apply andb_true_iff in H as [H1 H2].
  repeat split; intros v E; rewrite E in *.
  - apply Qle_bool_iff, H1.
  - apply Qle_bool_iff, H2.
  - apply Qltb_iff, H3.
Qed.

Lemma term_l_ok : forall o p, opts_ok o = true -> scale_ok (p_scale p) = true ->
  term_l o p == b2q (cond_l o p).
Proof.
  intros o p Ho Hs. destruct (opts_ok_inv o Ho) as (Hl & _ & _).
  unfold term_l, cond_l. destruct (o_lower o) as [l|]; [|reflexivity]. specialize (Hl l eq_refl).
  destruct (p_scale p) as [s|iv]; cbn in Hs.
  - apply Qle_bool_iff in Hs. rewrite gen_lower_sig_qbad. unfold rej_lower_sig_term.
    change (s + b2q (Qeq_bool s 0)) with (sig1 s).
    rewrite b2q_and, sig_lower_and by assumption. reflexivity.
  - rewrite gen_lower_iv_qbad, gen_lower_iv_pos.
    rewrite b2q_and, ivar_and by assumption. reflexivity.
Qed.

Lemma term_u_ok : forall o p, opts_ok o = true -> scale_ok (p_scale p) = true ->
  term_u o p == b2q (cond_u o p).
Proof.
  intros o p Ho Hs. destruct (opts_ok_inv o Ho) as (_ & Hu & _).
  unfold term_u, cond_u. destruct (o_upper o) as [u|]; [|reflexivity]. specialize (Hu u eq_refl).
  destruct (p_scale p) as [s|iv]; cbn in Hs.
  - apply Qle_bool_iff in Hs. rewrite gen_upper_sig_qbad. unfold rej_upper_sig_term.
    change (s + b2q (Qeq_bool s 0)) with (sig1 s).
    rewrite b2q_and, sig_upper_and by assumption. reflexivity.
  - rewrite gen_upper_iv_qbad, gen_upper_iv_pos.
    rewrite b2q_and, ivar_and by assumption. reflexivity.
Qed.

Lemma term_m_ok : forall o p, opts_ok o = true ->
  0 <= term_m o p /\ (term_m o p == 0 <-> cond_m o p = false).
Proof.
  intros o p Ho. destruct (opts_ok_inv o Ho) as (_ & _ & Hx).
  unfold term_m, cond_m. destruct (o_maxdev o) as [x|]; rewrite ?gen_maxdev_qbad; unfold rej_maxdev_term; [|split; [lra | split; [reflexivity | intros; reflexivity]]].
  specialize (Hx x eq_refl). destruct (Qltb x (Qabs (p_data p - p_model p))) eqn:B; cbn [b2q].
  - apply Qltb_iff in B. assert (P : 0 < Qabs (p_data p - p_model p) / x) by (apply div_pos; lra).
    split; [lra|]. split; [intros; lra | discriminate].
  - split; [lra|]. split; [reflexivity | intros _; ring].
Qed.

Lemma badness_zero : forall o p, opts_ok o = true -> scale_ok (p_scale p) = true ->
  (badness o p == 0 <-> beyond o p = false).
Proof.
  intros o p Ho Hs. rewrite badness_terms, beyond_conds.
  rewrite (term_l_ok o p Ho Hs), (term_u_ok o p Ho Hs).
  destruct (term_m_ok o p Ho) as [M0 MZ].
  pose proof (b2q_nonneg (cond_l o p)) as L0. pose proof (b2q_nonneg (cond_u o p)) as U0.
  rewrite !orb_false_iff, <- MZ, <- !b2q_zero. split; [intros H; repeat split; lra | intros [[H1 H2] H3]; lra].
Qed.

Lemma badness_masked_zero : forall o p, opts_ok o = true -> scale_ok (p_scale p) = true ->
  rej_newmask (badness_masked o p) = negb (bad_spec o p).
Proof.
  intros o p Ho Hs. unfold rej_newmask. apply eq_true_iff_eq. rewrite Qeq_bool_iff, negb_true_iff.
  unfold badness_masked, rej_products, bad_spec, eligible. cbv zeta.
  pose proof (badness_zero o p Ho Hs) as BZ.
  destruct (p_in p), (o_sticky o), (p_out p); cbn [b2q negb orb andb];
    try (rewrite <- BZ; split; intros H; [lra | rewrite H; ring]);
    (split; [reflexivity | intros _; ring]).
Qed.

(* ---------------------------------------------------------------- model = specification *)

Lemma list_ext : forall {A} (a b : list A), (forall i, nth_error a i = nth_error b i) -> a = b.
Proof.
  induction a as [|x a IH]; intros [|y b] H; [reflexivity | specialize (H O); discriminate | specialize (H O); discriminate |].
  pose proof (H O) as H0. cbn in H0. f_equal; [congruence|]. apply IH. intros i. apply (H (S i)).
Qed.

Lemma nth_error_combine_opt : forall {A B} (a : list A) (b : list B) i,
  nth_error (combine a b) i =
  match nth_error a i, nth_error b i with Some x, Some y => Some (x, y) | _, _ => None end.
Proof.
  induction a as [|x a IH]; intros [|y b] [|i]; cbn; try reflexivity.
  - destruct (nth_error a i); reflexivity.
  - apply IH.
Qed.

Lemma nth_error_seq0 : forall n i, nth_error (seq 0 n) i = if (i <? n)%nat then Some i else None.
Proof.
  intros. destruct (i <? n)%nat eqn:E.
  - apply Nat.ltb_lt in E. rewrite nth_error_nth' with (d := O) by (rewrite seq_length; lia).
    rewrite seq_nth by lia. reflexivity.
  - apply Nat.ltb_ge in E. apply nth_error_None. rewrite seq_length. lia.
Qed.

Definition pre (o : ropts) (pts : list point) : Prop :=
  opts_ok o = true /\ forall p, In p pts -> scale_ok (p_scale p) = true.

(* what S computes at index i *)
Lemma reject_spec_nth : forall o pts i,
  nth_error (fst (reject_spec o pts)) i =
  option_map (fun p => eligible o p && negb (dil_at (map (bad_spec o) pts) (o_grow o) i)) (nth_error pts i).
Proof.
  intros. unfold reject_spec. cbn [fst]. rewrite nth_error_map, nth_error_combine_opt, nth_error_seq0.
  destruct (nth_error pts i) as [p|] eqn:E.
  - assert (i < length pts)%nat by (apply nth_error_Some; congruence).
    replace (i <? length pts)%nat with true by (symmetry; apply Nat.ltb_lt; assumption). reflexivity.
  - destruct (i <? length pts)%nat; reflexivity.
Qed.

(* the grown mask of the model is the complement of the dilation of the bad points *)
Lemma grown_nth : forall o pts i, (i < length pts)%nat ->
  nth_error (grow_model (o_grow o) (map (fun p => negb (bad_spec o p)) pts)) i =
  Some (negb (dil_at (map (bad_spec o) pts) (o_grow o) i)).
Proof.
  intros o pts i Hi.
  set (nm := map (fun p => negb (bad_spec o p)) pts).
  destruct (grow_model_spec (o_grow o) nm i) as [L R].
  assert (Ln : length nm = length pts) by (unfold nm; apply map_length).
  destruct (nth_error (grow_model (o_grow o) nm) i) as [b|] eqn:E;
    [|apply nth_error_None in E; lia].
  f_equal. apply eq_true_iff_eq. rewrite negb_true_iff. rewrite <- not_true_iff_false, dil_at_spec.
  assert (RJ : rej (grow_model (o_grow o) nm) i <-> b = false) by (rewrite rej_nth_error, E; split; congruence).
  assert (NM : forall k, rej nm k <-> nth_error (map (bad_spec o) pts) k = Some true).
  { intros k. rewrite rej_nth_error. unfold nm. rewrite !nth_error_map.
    destruct (nth_error pts k); cbn; [|split; discriminate].
    destruct (bad_spec o p); cbn; split; congruence. }
  split.
  - intros Hb (j & H1 & H2). subst b. assert (F : true = false); [|discriminate].
    apply RJ, R. split; [lia|]. exists j. split; [apply NM, H2 | lia].
  - intros H. destruct b; [reflexivity|]. exfalso. apply H.
    destruct (proj1 R (proj2 RJ eq_refl)) as (_ & k & H1 & H2). exists k. split; [lia | apply NM, H1].
Qed.

Theorem reject_model_eq_spec : forall o pts, pre o pts -> reject_model o pts = reject_spec o pts.
Proof.
  intros o pts [Ho Hs]. unfold reject_model.
  replace (map (fun p => rej_newmask (badness_masked o p)) pts) with (map (fun p => negb (bad_spec o p)) pts)
    by (apply map_ext_in; intros p Hp; symmetry; apply badness_masked_zero; [exact Ho | apply Hs, Hp]).
  set (final := map _ (combine _ pts)).
  assert (E : final = fst (reject_spec o pts)).
  { apply list_ext. intros i. rewrite reject_spec_nth. unfold final.
    rewrite nth_error_map, nth_error_combine_opt.
    destruct (nth_error pts i) as [p|] eqn:Ep.
    - rewrite grown_nth by (apply nth_error_Some; congruence). cbn [option_map fst snd]. f_equal.
      unfold eligible, rej_final. destruct (dil_at _ _ i), (p_in p), (o_sticky o), (p_out p); reflexivity.
    - destruct (nth_error (grow_model _ _) i); reflexivity. }
  rewrite E. unfold rej_qdone. reflexivity.
Qed.

(* ---------------------------------------------------------------- the property's statement *)

(* residual beyond the limits, as inequalities (square-root free; see sqrtmul_lt_correct / Beyond_sqrt) *)
Definition Beyond (o : ropts) (p : point) : Prop :=
  let d := p_data p - p_model p in
  (exists l, o_lower o = Some l /\
             match p_scale p with Sig s => d < (- l) * s | Ivar iv => d < 0 /\ l * l < d * d * iv end) \/
  (exists u, o_upper o = Some u /\
             match p_scale p with Sig s => u * s < d | Ivar iv => 0 < d /\ u * u < d * d * iv end) \/
  (exists x, o_maxdev o = Some x /\ x < Qabs d).

Lemma sqrtmul_nonpos : forall d iv c, 0 <= c ->
  (sqrtmul_lt d iv (- c) = true <-> d < 0 /\ c * c < d * d * iv).
Proof.
  intros d iv c Hc. unfold sqrtmul_lt.
  replace (Qltb 0 (- c)) with false by (symmetry; apply Qltb_false_iff; lra).
  rewrite andb_true_iff, !Qltb_iff. assert (E : - c * - c == c * c) by ring. rewrite E. tauto.
Qed.

Lemma beyond_iff : forall o p, opts_ok o = true -> (beyond o p = true <-> Beyond o p).
Proof.
  intros o p Ho. destruct (opts_ok_inv o Ho) as (Hl & Hu & _).
  unfold beyond, Beyond. rewrite !orb_true_iff. cbv zeta.
  assert (A : forall P Q R P' Q' R' : Prop, (P <-> P') -> (Q <-> Q') -> (R <-> R') -> ((P \/ Q) \/ R <-> P' \/ Q' \/ R')) by tauto.
  apply A.
  - destruct (o_lower o) as [l|]; [|split; [discriminate | intros (l & F & _); discriminate]].
    specialize (Hl l eq_refl). destruct (p_scale p) as [s|iv].
    + rewrite Qltb_iff. split; [intros H; exists l; tauto | intros (l' & E & H); congruence].
    + rewrite sqrtmul_nonpos by assumption. split; [intros H; exists l; tauto | intros (l' & E & H); congruence].
  - destruct (o_upper o) as [u|]; [|split; [discriminate | intros (u & F & _); discriminate]].
    specialize (Hu u eq_refl). destruct (p_scale p) as [s|iv].
    + rewrite Qltb_iff. split; [intros H; exists u; tauto | intros (u' & E & H); congruence].
    + rewrite sqrtmul_nonpos by assumption.
      assert (E1 : - (p_data p - p_model p) * - (p_data p - p_model p) == (p_data p - p_model p) * (p_data p - p_model p)) by ring.
      rewrite E1. split.
      * intros [H1 H2]. exists u. split; [reflexivity|]. split; [lra | exact H2].
      * intros (u' & E & H1 & H2). replace u with u' by congruence. split; [lra | exact H2].
  - destruct (o_maxdev o) as [x|]; [|split; [discriminate | intros (x & F & _); discriminate]].
    rewrite Qltb_iff. split; [intros H; exists x; tauto | intros (x' & E & H); congruence].
Qed.

(* "in units of 1/sqrt(invvar)": with s = sqrt(iv), the squared conditions are diff*s < -lower, diff*s > upper *)
Lemma Beyond_sqrt : forall d iv s c, 0 <= s -> s * s == iv -> 0 <= c ->
  ((d < 0 /\ c * c < d * d * iv) <-> d * s < - c) /\ ((0 < d /\ c * c < d * d * iv) <-> c < d * s).
Proof.
  intros d iv s c Hs Hiv Hc. split.
  - rewrite <- sqrtmul_nonpos by assumption. apply sqrtmul_lt_correct; assumption.
  - assert (E : d * d * iv == (- d) * (- d) * iv) by ring. rewrite E.
    assert (E2 : 0 < d <-> - d < 0) by (split; intros; lra). rewrite E2.
    rewrite <- sqrtmul_nonpos by assumption. rewrite (sqrtmul_lt_correct (- d) iv (- c) s) by assumption.
    assert (E3 : - d * s == - (d * s)) by ring. rewrite E3. split; intros; lra.
Qed.

Definition Bad (o : ropts) (p : point) : Prop :=
  p_in p = true /\ (o_sticky o = true -> p_out p = true) /\ Beyond o p.

Lemma bad_spec_iff : forall o p, opts_ok o = true -> (bad_spec o p = true <-> Bad o p).
Proof.
  intros o p Ho. unfold bad_spec, Bad, eligible. rewrite <- (beyond_iff o p Ho).
  destruct (p_in p), (o_sticky o), (p_out p), (beyond o p); cbn; split; try tauto; try discriminate;
    try (intros (A & B & C); try discriminate; try (specialize (B eq_refl); discriminate)).
Qed.

(* the mask of the specification, as the property words it *)
Theorem reject_spec_mask : forall o pts i p, opts_ok o = true -> nth_error pts i = Some p ->
  exists b, nth_error (fst (reject_spec o pts)) i = Some b /\
    (b = false <->
       p_in p = false \/ (o_sticky o = true /\ p_out p = false) \/
       exists j q, (i <= j + o_grow o /\ j <= i + o_grow o)%nat /\ nth_error pts j = Some q /\ Bad o q).
Proof.
  intros o pts i p Ho Hp. rewrite reject_spec_nth, Hp. cbn [option_map]. eexists. split; [reflexivity|].
  rewrite andb_false_iff, negb_false_iff, dil_at_spec. unfold eligible.
  assert (D : (exists j, (i <= j + o_grow o /\ j <= i + o_grow o)%nat /\ nth_error (map (bad_spec o) pts) j = Some true) <->
              (exists j q, (i <= j + o_grow o /\ j <= i + o_grow o)%nat /\ nth_error pts j = Some q /\ Bad o q)).
  { split.
    - intros (j & H1 & H2). rewrite nth_error_map in H2. destruct (nth_error pts j) as [q|] eqn:E; [|discriminate].
      exists j, q. split; [exact H1|]. split; [exact E|]. apply bad_spec_iff; [exact Ho|]. cbn in H2. congruence.
    - intros (j & q & H1 & H2 & H3). exists j. split; [exact H1|]. rewrite nth_error_map, H2. cbn. f_equal.
      apply bad_spec_iff; assumption. }
  rewrite D. destruct (p_in p), (o_sticky o), (p_out p); cbn; split; intros H; try tauto;
    try (destruct H as [H|H]; [discriminate | tauto]);
    try (destruct H as [H|[[_ H]|H]]; try discriminate; tauto);
    try (destruct H as [H|[[H _]|H]]; try discriminate; tauto).
Qed.

Theorem reject_model_mask : forall o pts i p, pre o pts -> nth_error pts i = Some p ->
  exists b, nth_error (fst (reject_model o pts)) i = Some b /\
    (b = false <->
       p_in p = false \/ (o_sticky o = true /\ p_out p = false) \/
       exists j q, (i <= j + o_grow o /\ j <= i + o_grow o)%nat /\ nth_error pts j = Some q /\ Bad o q).
Proof.
  intros o pts i p Hpre Hp. rewrite (reject_model_eq_spec o pts Hpre).
  apply reject_spec_mask; [apply Hpre | exact Hp].
Qed.

Lemma reject_spec_length : forall o pts, length (fst (reject_spec o pts)) = length pts.
Proof.
  intros. unfold reject_spec. cbn [fst]. rewrite map_length, combine_length, seq_length. lia.
Qed.

(* ---------------------------------------------------------------- qdone *)

Lemma list_beq_iff : forall a b, list_beq a b = true <-> a = b.
Proof.
  unfold list_beq. induction a as [|x a IH]; intros [|y b]; cbn; try (split; [discriminate|congruence]).
  - split; reflexivity.
  - specialize (IH b). rewrite andb_true_iff in *. rewrite andb_true_iff.
    rewrite Nat.eqb_eq in *. split.
    + intros [L [E F]]. f_equal; [apply eqb_prop, E|]. apply IH. split; [congruence | exact F].
    + intros H. injection H as -> ->. destruct IH as [_ IH]. destruct (IH eq_refl) as [L F].
      split; [congruence|]. split; [apply eqb_reflx | exact F].
Qed.

Theorem qdone_spec : forall o pts,
  snd (reject_spec o pts) = true <-> fst (reject_spec o pts) = map p_out pts.
Proof. intros. unfold reject_spec. cbn [fst snd]. apply list_beq_iff. Qed.

Theorem qdone_model : forall o pts,
  snd (reject_model o pts) = true <-> fst (reject_model o pts) = map p_out pts.
Proof. intros. unfold reject_model, rej_qdone. cbn [fst snd]. apply list_beq_iff. Qed.

(* the precondition is decidable by computation *)
Lemma pre_of_forallb : forall o pts,
  opts_ok o = true -> forallb (fun p => scale_ok (p_scale p)) pts = true -> pre o pts.
Proof.
  intros o pts H1 H2. split; [exact H1|]. intros p Hp. rewrite forallb_forall in H2. apply H2, Hp.
Qed.
