(* Yanny/EnumComments.v -- round 5: comments inside an ENUM typedef block.  With the repair fixes/C02-enum-block-comments.diff
   isenum() removes every comment (hash to end of line) from the block body before splitting it into labels:
   Parse.drop_hash_comments, used by Parse.enum_entry iff the generated flag yanny_enum_strips_comments is true.
   Token-level freedom: a comment standing after hash-free text reads as nothing (its line end stays). *)
From Coq Require Import NArith ZArith List Bool Lia.
Import ListNotations.
From PV Require Import Yanny.Bytes Yanny.BytesFacts Yanny.TokenFacts Yanny.Types Yanny.Parse Yanny.EnumFacts.
Open Scope N_scope.

Lemma drop_app_clean a r : mem HASH a = false -> drop_hash_comments false (a ++ r) = a ++ drop_hash_comments false r.
Proof.
  induction a as [|x a IH]; intros H; [reflexivity|]. apply mem_cons_false in H as [Hx Ha].
  cbn [app drop_hash_comments]. rewrite Hx. f_equal. now apply IH.
Qed.

Lemma drop_in_comment c r : mem NL c = false -> drop_hash_comments true (c ++ NL :: r) = NL :: drop_hash_comments false r.
Proof.
  induction c as [|x c IH]; intros H.
  - cbn [app drop_hash_comments]. now rewrite N.eqb_refl.
  - apply mem_cons_false in H as [Hx Hc]. cbn [app drop_hash_comments]. rewrite Hx. now apply IH.
Qed.

(* hash-free text a, then a comment c up to its line end, then the rest: the comment is gone, the line end stays *)
Theorem enum_comment_dropped a c r : mem HASH a = false -> mem NL c = false ->
  drop_hash_comments false (a ++ HASH :: c ++ NL :: r) = a ++ NL :: drop_hash_comments false r.
Proof.
  intros Ha Hc. rewrite drop_app_clean by exact Ha. f_equal.
  change (drop_hash_comments false (HASH :: c ++ NL :: r)) with (drop_hash_comments true (c ++ NL :: r)).
  now apply drop_in_comment.
Qed.

(* ... so a block body with comments is split into the labels of the body without them (repaired shape) *)
Theorem enum_body_comment_free a c r : mem HASH a = false -> mem NL c = false -> mem HASH r = false ->
  enum_body_of true (a ++ HASH :: c ++ NL :: r) = enum_body_of true (a ++ NL :: r).
Proof.
  intros Ha Hc Hr. unfold enum_body_of. rewrite enum_comment_dropped by auto.
  rewrite drop_app_clean by exact Ha. reflexivity.
Qed.
Print Assumptions enum_comment_dropped.
