(* Shared B-spline model, part 3: iterfit = sort, loop (fit with w*mask; reject beyond lower/upper sigma),
   un-sort.  Executable definitions ONLY (proofs: IterProofs.v).
   Mirrors iterfit() of /repo/pydl/pydlutils/bspline.py with djs_reject(inmask=maskwork, outmask=maskwork,
   invvar=invwork, lower=, upper=) of pydlutils/math.py, in the documented (IDL) loop form
   `while (error != 0 or not qdone) and iiter <= maxiter`. *)
From Coq Require Import QArith Qround Qabs List Bool Arith Lia.
Import ListNotations.
From PV Require Import Lib.WLS BSpline.Eval BSpline.Fit.
Open Scope Q_scope.

Record datum := mkDatum { dx : Q; dy : Q; dw : Q }.
Definition d0 : datum := mkDatum 0 0 0.

(* square-root free form of  diff*sqrt(ivar) > upper  /  diff*sqrt(ivar) < -lower  (upper, lower >= 0) *)
Definition too_high (upper : Q) (diff ivar : Q) : bool :=
  Qltb 0 diff && Qltb (upper * upper) (diff * diff * ivar).
Definition too_low (lower : Q) (diff ivar : Q) : bool :=
  Qltb diff 0 && Qltb (lower * lower) (diff * diff * ivar).

(* one djs_reject pass: a point stays good iff it was good and is within the limits *)
Definition reject1 (lower upper : Q) (d : datum) (yfit : Q) (m : bool) : bool :=
  m && negb (too_low lower (dy d - yfit) (dw d) || too_high upper (dy d - yfit) (dw d)).

Fixpoint reject (lower upper : Q) (ds : list datum) (yfit : list Q) (mask : list bool) : list bool :=
  match ds, yfit, mask with
  | d :: ds', f :: yfit', m :: mask' => reject1 lower upper d f m :: reject lower upper ds' yfit' mask'
  | _, _, _ => []
  end.

Definition mask_eqb (a b : list bool) : bool := all2 Bool.eqb a b.

Definition fit_masked (sv : solver) (gb : list Q) (k : nat) (ds : list datum) (mask : list bool) : option (list Q) :=
  fit_coeff_with sv gb k (map dx ds) (map dy ds) (masked_weights (map dw ds) mask).

(* the loop on sorted data; fuel = maxiter + 1 = the largest number of fits.
   Returns the coefficients of the LAST fit and the mask after the LAST rejection pass.
   None = a fit was not uniquely solvable (outside the model: ill-posed problems are C09's status path). *)
Fixpoint iter_loop (sv : solver) (fuel : nat) (gb : list Q) (k : nat) (lower upper : Q) (ds : list datum) (mask : list bool)
  : option (list Q * list bool) :=
  match fuel with
  | O => None
  | S f =>
      match fit_masked sv gb k ds mask with
      | None => None
      | Some c =>
          let mask' := reject lower upper ds (yfit_of gb k c (map dx ds)) mask in
          if mask_eqb mask' mask || (f =? 0)%nat then Some (c, mask') else iter_loop sv f gb k lower upper ds mask'
      end
  end.

Definition initial_mask (ds : list datum) : list bool := map (fun d => Qltb 0 (dw d)) ds.

(* data in the caller's order, perm = the sorting permutation of the abscissae (numpy argsort);
   gb = the knot vector built from the good points (C08: knots_of_option); result: coefficients and the
   mask in the CALLER's order *)
Definition iterfit_model_with (sv : solver) (maxiter : nat) (lower upper : Q) (gb : list Q) (k : nat)
           (ds : list datum) (perm : list nat) : option (list Q * list bool) :=
  let sorted := apply_perm d0 perm ds in
  match iter_loop sv (S maxiter) gb k lower upper sorted (initial_mask sorted) with
  | None => None
  | Some (c, mw) => Some (c, unsort false perm mw)
  end.

(* the documented procedure with the certified-unique dense solve; fit_fast is the cheap evaluator *)
Definition iterfit_model := iterfit_model_with fit_dense.
Definition iterfit_model_fast := iterfit_model_with fit_fast.

(* the same with the knots computed from the positively weighted points (what iterfit does) *)
Definition good_xs_sorted (ds : list datum) (perm : list nat) : list Q :=
  map dx (filter (fun d => Qltb 0 (dw d)) (apply_perm d0 perm ds)).
Definition iterfit_model_opt (maxiter : nat) (lower upper : Q) (o : bkopt) (bkspread : Q) (k : nat)
           (ds : list datum) (perm : list nat) : option (list Q * list bool) :=
  iterfit_model maxiter lower upper (knots_of_option o (good_xs_sorted ds perm) k bkspread) k ds perm.

(* strict sortedness of the abscissae (NoDup + sorted), boolean *)
Fixpoint strictly_sorted (l : list Q) : bool :=
  match l with
  | a :: ((b :: _) as r) => Qltb a b && strictly_sorted r
  | _ => true
  end.

(* ------------------------------------------------------------------ round 5: the guards of iterfit around the loop.
   `if maskwork.sum() < sset.nord: warn; outmask[xsort] = maskwork; return (sset, outmask)`: with FEWER good points than
   the order no fit is attempted (the coefficients stay zero) and the mask returned is the initial one; with nord or more
   good points -- also with exactly nord of them -- the loop runs. *)
Definition ngood (m : list bool) : nat := length (filter (fun b => b) m).

Inductive iter_outcome :=
| GaveUp (mask : list bool)                  (* too few good points: no fit, mask = (invvar > 0) in the caller's order *)
| Fitted (c : list Q) (mask : list bool)
| NoModel.                                   (* a fit of the loop was not uniquely solvable (C09's status path) *)

Definition iterfit_guarded_with (sv : solver) (maxiter : nat) (lower upper : Q) (gb : list Q) (k : nat)
           (ds : list datum) (perm : list nat) : iter_outcome :=
  let sorted := apply_perm d0 perm ds in
  let m0 := initial_mask sorted in
  if (ngood m0 <? k)%nat then GaveUp (unsort false perm m0)
  else match iter_loop sv (S maxiter) gb k lower upper sorted m0 with
       | None => NoModel
       | Some (c, mw) => Fitted c (unsort false perm mw)
       end.
