"""C04 -- spherematch returns exactly the pairs closer than the match length."""
import math
import os
from fractions import Fraction

from harness import common as C

ID = 'C04'
PROPS_V = 'C04/Props.v'
LEVEL = 'proof'
TRUSTED = [
    'translate/c04.py + translate/pyexpr.py: Python ast -> Gallina for the range ends, RA wrap, validity test, floor-binning expressions and walk tests of chunks.assign/getbounds/get (Generated/Chunks.v; C04_generated_index_arithmetic proves them equal to the model\'s)',
    'translate/c04.py (round 5): the same for chunks.wrapra, rarange, getraminmax, chunks.__init__ (nDec, padding, clamps, pinned bounds, per-slice nRa / padding / embrace / polar clauses), the head of spherematch (chunk size), the pair loop shape and its filter, the guard of assign, the raMargin switch of getbounds (C04_generated_grid_is_reference: equal to the reference pieces of C04/SceneModel.v)',
    'hand-written model C04/Model.v (selection loops, chunks.assign bookkeeping incl. RA wrap arithmetic, pair loop) -- '
    'tied to the code by exact reproduction of (match1, match2, distance12) and of chunkList from recorded getbounds()/get()/argsort data',
    'hand-written C04/SceneModel.v: get_model / scene (tied by exact reproduction of every recorded getbounds and get result), grid model run_grid (tied by comparison with the recorded minSize, raOffset, raMin/raMax, decBounds, nRa, raBounds ends, rotated RA of every point)',
    'harness/impl/c04_impl.py: wraps chunks.getbounds/get and the np.array(...).argsort() call from the harness process to record discrete data; recomputes raMargin and the cosines with the numpy expressions of the source',
    'numpy cos/sin/arcsin (their values enter the grid model and the scene as recorded numbers)',
    'gcirc: the separation table is computed with the implementation\'s own gcirc (its geometric correctness is C18)',
    'numpy argsort returns a sorting permutation (checked per case inside Coq by is_sorting_perm)',
    'translate/c05.py inline_aliases (round 6): a local name bound once per iteration to a pure expression over things the loop never assigns '
    '(i1 = omatch1[s[i]]) is inlined before the maxmatch passes are compiled; the side conditions (bound once, read only after the binding, dead '
    'outside such loops, operands never assigned, no call / slice) are checked syntactically',
    'Coq stdlib ZArith, QArith, Lists, Sorting (discrete theorems closed under the global context); Reals for the spherical geometry (classical axioms, listed by Print Assumptions)',
]
ASSUMPTIONS = [
    'coverage (every pair closer than L shares the cell looked up for the list-1 point) is a HYPOTHESIS of C04_spherematch_spec. Round 5: '
    'C04_coverage_from_margins proves it from scene_ok (decided in Coq on the recorded grid of every run whose grid has <= 250 bound values) and '
    'margins_sound (separation < L puts the pair within the declination margin and, on the circle, within raMargin); margins_sound is proved '
    'over the reals (C04_dec_margin_strict, C04_ra_margin_circ, for L <= 90 deg) and decided per case on the doubles (margins_check); '
    'NOT proved: the floating-point evaluation (binning, comparisons, trig, gcirc), the degrees/radians and Q/R link, and that chunks.__init__ '
    'always builds a grid satisfying scene_ok (C04_ra_margin_le_cell gives the key inequality raMargin <= chunksize/cosDecMin for chunksize >= 4L)',
    'inputs: RA in [0,360) (family `wrapped`: one turn either side, reduced by chunks.wrapra), |Dec| < 90, at least 2 points in list 1, 1 in list 2, '
    'matchlength 1 mas .. 150 deg (family `widecap`: beyond 90 deg), chunksize None or > matchlength',
    'pairs whose separation is within 1e-9 (relative) of the match length are not generated, except the exact-threshold family where '
    'L is set to a separation the implementation itself computed (the statement leaves sep == L open; the checker accepts both) and the `near` family',
    'float32 coordinate arrays (or a float32 matchlength / chunksize scalar): numpy then builds the grid in single precision; the grid model compares with tolerance 1e-5 instead of 1e-9',
    'coordinates are 1-D numpy arrays of any layout / byte order / writeability (family `layout`); plain Python lists are outside (the code uses .size); '
    'sizes: up to 60 x 60 points, family `crowd` up to 300 (thorough 520) partners of one point with maxmatch up to 1000',
]

D2R = math.pi / 180.0


def translate(ctx):
    """regenerate coq/Generated/Chunks.v (index arithmetic of chunks.assign / getbounds / get) from the source under test"""
    from translate import c04 as T
    text, info = T.generate(C.REPO)
    path = os.path.join(C.COQ, 'Generated', 'Chunks.v')
    if text is not None:
        info['changed'] = C.write_if_changed(path, text)
    else:
        import subprocess
        committed = subprocess.run(['git', '-C', C.VERIF, 'show', 'HEAD:coq/Generated/Chunks.v'], stdout=subprocess.PIPE,
                                   stderr=subprocess.DEVNULL, text=True).stdout
        if 'gen_greedy_enabled' in committed and 'gen_wrapra' in committed:     # only a committed file that already has all the pieces the proofs use
            info['restored_committed_file'] = C.restore_generated('coq/Generated/Chunks.v')
        info['note'] = ('source shape not recognised; the committed (else the previous) Generated/Chunks.v is used and the '
                        'correspondence run alone ties the index arithmetic of the model to the code')
    return {'Chunks': info}

# --------------------------------------------------------------------------- geometry helpers (generator only)


def offset_point(ra, dec, dist, bearing):
    """point at great-circle distance `dist` (deg) from (ra, dec) in direction `bearing` (deg, from north)"""
    d = dist * D2R
    b = bearing * D2R
    p1 = dec * D2R
    sp2 = math.sin(p1) * math.cos(d) + math.cos(p1) * math.sin(d) * math.cos(b)
    sp2 = max(-1.0, min(1.0, sp2))
    p2 = math.asin(sp2)
    y = math.sin(b) * math.sin(d) * math.cos(p1)
    x = math.cos(d) - math.sin(p1) * sp2
    l2 = ra * D2R + math.atan2(y, x)
    ra2 = math.fmod(l2 / D2R, 360.0)
    if ra2 < 0:
        ra2 += 360.0
    if ra2 >= 360.0:
        ra2 = 0.0
    dec2 = p2 / D2R
    dec2 = max(-89.999999, min(89.999999, dec2))
    return ra2, dec2


def sphere_point(rng):
    ra = rng.random() * 360.0
    dec = math.asin(2.0 * rng.random() - 1.0) / D2R
    dec = max(-89.9999, min(89.9999, dec))
    return ra, dec


def norm_ra(ra):
    ra = math.fmod(ra, 360.0)
    if ra < 0:
        ra += 360.0
    if ra >= 360.0:
        ra = 0.0
    return ra


def pick_L(rng, lo=1.0 / 3600.0, hi=30.0):
    t = rng.random()
    if t < 0.15:
        return rng.choice([1.0 / 3600.0, 3.0 / 3600.0, 1.0 / 60.0, 0.025, 0.5, 1.0, 5.0, 10.0, 20.0, 30.0])
    return math.exp(rng.uniform(math.log(lo), math.log(hi)))


def pick_chunk(rng, L, small_ok=True):
    t = rng.random()
    if t < 0.25:
        return None
    if t < 0.45:
        return 4.0 * L
    if t < 0.75 or not small_ok:
        return L * rng.choice([4.0, 4.5, 5.0, 6.0, 8.0, 12.0, 20.0, 50.0])
    return L * rng.choice([1.01, 1.2, 2.0, 3.0])


def centre(rng, L, where):
    """centre of a cluster"""
    if where == 'seam':
        j = rng.choice([0, 0, 0, 1, 2, 3, 4, 5])
        ra = norm_ra(360.0 - 60.0 * j + rng.uniform(-2.0, 2.0) * L)
        dec = rng.uniform(-75.0, 75.0)
    elif where == 'pole':
        s = rng.choice([-1.0, 1.0])
        dec = s * (90.0 - min(60.0, abs(rng.uniform(0.0, 3.0)) * L + 1e-7))
        ra = rng.random() * 360.0
    elif where == 'equator':
        ra = rng.random() * 360.0
        dec = rng.uniform(-2.0, 2.0) * L
    else:
        ra, dec = sphere_point(rng)
    return norm_ra(ra), max(-89.9999, min(89.9999, dec))


def gen_points(rng, fam, L):
    """-> ra1, dec1, ra2, dec2"""
    p1, p2 = [], []
    n_cl = rng.randint(1, 4)
    where = {'pairs': 'any', 'seam': 'seam', 'pole': 'pole', 'dups': 'any', 'allsky': 'any',
             'smallchunk': 'any', 'threshold': 'any', 'edges': 'any'}[fam]
    if fam == 'allsky':
        n1 = rng.randint(2, 40)
        n2 = rng.randint(1, 40)
        p1 = [sphere_point(rng) for _ in range(n1)]
        p2 = [sphere_point(rng) for _ in range(n2)]
        for _ in range(rng.randint(0, 6)):
            c = rng.choice(p1)
            p2.append(offset_point(c[0], c[1], L * (1 + rng.choice([-1, 1]) * rng.choice([1e-3, 1e-1])), rng.uniform(0, 360)))
        return p1, p2
    spread = rng.choice([0.5, 2.0, 5.0, 12.0]) * L
    for _ in range(n_cl):
        c = centre(rng, L, where if rng.random() < 0.8 else 'any')
        m = rng.randint(1, 7)
        for _ in range(m):
            a = offset_point(c[0], c[1], min(rng.random() * spread, 80.0), rng.uniform(0, 360))
            p1.append(a)
            t = rng.random()
            if t < 0.75:
                eps = rng.choice([1e-3, 1e-1]) * rng.choice([-1, 1])
                p2.append(offset_point(a[0], a[1], L * (1 + eps), rng.choice([0, 90, 180, 270, rng.uniform(0, 360), rng.uniform(0, 360)])))
            if t > 0.5:
                p2.append(offset_point(a[0], a[1], L * rng.random() * 1.5, rng.uniform(0, 360)))
            if fam == 'dups' and rng.random() < 0.6:
                p2.append(a)
                if rng.random() < 0.4:
                    p2.append(a)
                if rng.random() < 0.3:
                    p1.append(a)
    # some scatter that matches nothing (all-sky for half of the inputs, otherwise near the clusters)
    far = rng.random() < 0.5
    for lst in (p1, p2):
        for _ in range(rng.randint(0, 4)):
            if far:
                lst.append(sphere_point(rng))
            else:
                c = rng.choice(p1)
                lst.append(offset_point(c[0], c[1], min(rng.uniform(2.0, 40.0) * L, 90.0), rng.uniform(0, 360)))
    if len(p1) < 2:
        p1.append(sphere_point(rng))
    if not p2:
        p2.append(sphere_point(rng))
    rng.shuffle(p1)
    rng.shuffle(p2)
    return p1[:60], p2[:60]


FAMILIES = ['pairs', 'seam', 'pole', 'dups', 'allsky', 'smallchunk', 'polebound', 'highdec', 'dtype', 'arc', 'near', 'selfmatch', 'wrapped', 'widecap',
            'wider', 'crowd', 'layout', 'argtype', 'threshold', 'edges', 'convex']


def polebound_case(rng):
    """list 1 reaching towards the north pole such that chunks.__init__'s  decMin + (decMax-decMin)*nDec/nDec  (same double
    arithmetic, mimicked here only to aim the generator) does not return the clamped 90.0 exactly"""
    for _ in range(4000):
        cs = math.exp(rng.uniform(math.log(0.05), math.log(60.0)))
        dmax = 90.0 - rng.random() * 3.0 * cs
        dmin = dmax - rng.random() * 10.0 * cs
        if dmin < -89.0 or dmax >= 90.0:
            continue
        nDec = 3 + int(math.floor((dmax - dmin) / cs))
        decRange = cs * float(nDec)
        decMin = dmin - 0.5 * (decRange - dmax + dmin)
        decMax = decMin + decRange
        if decMin < -90.0 + 3.0 * cs:
            decMin = -90.0
        if decMax > 90.0 - 3.0 * cs:
            decMax = 90.0
        last = decMin + ((decMax - decMin) * float(nDec)) / float(nDec)
        if last > 90.0 and decMax == 90.0:
            break
    L = cs / rng.choice([4.0, 4.0, 5.0, 8.0])
    n1 = rng.randint(2, 8)
    dec1 = [dmin, dmax] + [rng.uniform(dmin, dmax) for _ in range(n1 - 2)]
    c0 = rng.random() * 360.0
    ra1 = [norm_ra(c0 + rng.uniform(-3, 3) * cs) for _ in range(n1)]
    p2 = [offset_point(a, d, L * (1 + rng.choice([-1, 1]) * rng.choice([1e-3, 1e-1])), rng.uniform(0, 360)) for a, d in zip(ra1, dec1)]
    return limit_cost({'fam': 'polebound', 'ra1': ra1, 'dec1': dec1, 'ra2': [p[0] for p in p2], 'dec2': [p[1] for p in p2],
                       'L': L, 'chunksize': cs, 'maxmatch': rng.choice([0, 0, 1, 2])})


def highdec_case(rng):
    """list 1 spread in declination up to close to a pole and all around in RA: many slices with a high-|dec| edge"""
    L = pick_L(rng, 0.2, 12.0)
    s = rng.choice([-1.0, 1.0])
    top = rng.uniform(80.0, 89.9)
    bot = rng.uniform(20.0, top - min(8.0 * L, 30.0))
    n1 = rng.randint(4, 12)
    dec1 = [s * top, s * bot] + [s * rng.uniform(bot, top) for _ in range(n1 - 2)]
    if rng.random() < 0.5:
        ra1 = [rng.random() * 360.0 for _ in range(n1)]
    else:
        c0 = rng.random() * 360.0
        ra1 = [norm_ra(c0 + rng.uniform(-40, 40)) for _ in range(n1)]
    p2 = [offset_point(a, d, L * (1 + rng.choice([-1, 1]) * rng.choice([1e-3, 1e-1])), rng.uniform(0, 360)) for a, d in zip(ra1, dec1)]
    return limit_cost({'fam': 'highdec', 'ra1': ra1, 'dec1': dec1, 'ra2': [p[0] for p in p2], 'dec2': [p[1] for p in p2],
                       'L': L, 'chunksize': rng.choice([None, 4.0 * L, 4.0 * L, 5.0 * L, 7.0 * L]), 'maxmatch': rng.choice([0, 0, 0, 1, 2])})


def convex_variant(rng, case, res):
    """second phase: pairs at the same declination on the poleward edge of a slice, one each side of an RA cell edge,
    separated by L(1-eps): on the sphere their RA difference exceeds the flat-sky estimate L/cos(dec)"""
    rec = res.get('rec')
    if not rec or 'ok' not in res:
        return None
    L = case['L']
    ra1, dec1 = list(case['ra1']), list(case['dec1'])
    ra2, dec2 = list(case['ra2']), list(case['dec2'])
    dlo, dhi = min(dec1), max(dec1)
    cur = [math.fmod(r + rec['raOffset'], 360.0) for r in ra1]
    rlo, rhi = min(cur), max(cur)
    cands = []
    for i in range(rec['nDec']):
        lo, hi = rec['decBounds'][i], rec['decBounds'][i + 1]
        de = hi if abs(hi) > abs(lo) else lo
        if abs(de) >= 90.0 or abs(de) < 30.0 or rec['nRa'][i] < 2:
            continue
        inward = -1.0 if de == hi else 1.0
        dec = de + inward * 1e-7 * max(1.0, abs(hi - lo))
        if not (dlo <= dec <= dhi):
            continue
        for e in rec['raBounds'][i][1:-1]:
            if rlo < e < rhi:
                cands.append((dec, e))
    if not cands:
        return None
    added = 0
    for _ in range(rng.randint(1, 4)):
        dec, e = rng.choice(cands)
        cosd = math.cos(dec * D2R)
        eps = rng.choice([1e-5, 1e-4, 1e-3, 1e-2])
        x = math.sin(L * (1 - eps) * D2R / 2.0) / cosd
        if x >= 1.0:
            continue
        dra = 2.0 * math.asin(x) / D2R
        tiny = 1e-9 * dra
        side = rng.choice([-1.0, 1.0])
        a = (e - side * tiny, dec)             # list 1: just beside the cell edge
        b = (e + side * (dra - tiny), dec)     # list 2: on the other side, L(1-eps) away
        if not (rlo <= a[0] <= rhi) or not (0.0 <= b[0] < 360.0):
            continue
        ra1.append(norm_ra(a[0] - rec['raOffset']))
        dec1.append(dec)
        ra2.append(norm_ra(b[0] - rec['raOffset']))
        dec2.append(dec)
        added += 1
    if not added:
        return None
    c = dict(case)
    c.update({'ra1': ra1[-60:], 'dec1': dec1[-60:], 'ra2': ra2[-60:], 'dec2': dec2[-60:], 'fam': 'convex'})
    return limit_cost(c)


def ring_case(rng):
    """list 1 all around in RA in one declination band, small chunksize, pairs straddling RA 0/360: the RA walk of
    getbounds goes at most one cell beyond the seam"""
    L = rng.choice([2.0, 5.0, 10.0, 20.0])
    cs = L * rng.choice([1.01, 1.01, 1.2, 2.0, 3.0])
    d0 = rng.uniform(-80.0, 80.0)
    n1 = rng.randint(6, 16)
    ra1 = [rng.random() * 360.0 for _ in range(n1)]
    dec1 = [max(-89.9, min(89.9, d0 + rng.uniform(-2, 2) * L)) for _ in range(n1)]
    ra2, dec2 = [], []
    for _ in range(8):
        a = (norm_ra(rng.uniform(-1.5, 1.5) * L / max(math.cos(d0 * D2R), 0.05)), max(-89.9, min(89.9, d0 + rng.uniform(-1, 1) * L)))
        b = offset_point(a[0], a[1], L * (1 - rng.choice([1e-3, 1e-2, 0.1])), rng.choice([90, 270, 80, 100, 260, 280]))
        ra1.append(a[0])
        dec1.append(a[1])
        ra2.append(b[0])
        dec2.append(b[1])
    return limit_cost({'fam': 'smallchunk', 'ra1': ra1, 'dec1': dec1, 'ra2': ra2, 'dec2': dec2, 'L': L, 'chunksize': cs,
                       'maxmatch': rng.choice([0, 0, 1, 2])})


C04_DTYPES = ['int64', 'int32', 'float32', 'float64', 'int16']


def dtype_case(rng):
    """whole-degree coordinates passed as integer / float32 / mixed arrays"""
    L = rng.choice([1.5, 2.5, 1.2, 3.5])
    ra0, dec0 = rng.randint(0, 300), rng.randint(-70, 50)
    p1 = [(ra0 + rng.randint(0, 20), dec0 + rng.randint(0, 15)) for _ in range(rng.randint(2, 12))]
    p2 = []
    for a in p1:
        for _ in range(rng.choice([0, 1, 1, 2])):
            p2.append((a[0] + rng.randint(-3, 3), max(-89, min(89, a[1] + rng.randint(-3, 3)))))
    for _ in range(rng.randint(0, 3)):
        p2.append((rng.randint(0, 359), rng.randint(-89, 89)))
    if not p2:
        p2.append((ra0, dec0))
    p2 = [(x % 360, y) for x, y in p2]
    dt = {k: rng.choice(C04_DTYPES) for k in ('ra1', 'dec1', 'ra2', 'dec2')}
    return limit_cost({'fam': 'dtype', 'ra1': [p[0] for p in p1], 'dec1': [p[1] for p in p1], 'ra2': [p[0] for p in p2],
                       'dec2': [p[1] for p in p2], 'L': L, 'chunksize': rng.choice([None, 4 * L, 10.0]),
                       'maxmatch': rng.choice([0, 0, 1, 2]), 'dtype': dt})


ARC_DECS = [-70.0, -45.0, -20.0, 0.0, 10.0, 30.0, 55.0, 75.0]


def arc_case(rng):
    """a wide arc (or nearly a ring) of list-1 points at one declination that straddles RA 0/360, its start swept over a
    lattice of offsets from each of the six trial seams of chunks.rarange(); partners (list 2) just beyond both ends of the
    arc and next to points inside it; match length from a fraction of a chunk to several degrees"""
    L = rng.choice([0.2, 0.5, 1.0, 2.0, 3.0, 5.0])
    t = rng.random()
    chunk = None if t < 0.35 else (4.0 * L if t < 0.7 else L * rng.choice([5.0, 8.0, 12.0]))
    cs = chunk if chunk is not None else max(4.0 * L, 0.1)
    dec = rng.choice(ARC_DECS) + rng.uniform(-3, 3)
    cosd = math.cos(dec * D2R)
    cw = cs / cosd
    width = rng.choice([20.0, 60.0, 100.0, 150.0, 200.0, 260.0, 320.0, 345.0]) + rng.uniform(-8, 8)
    j = rng.randrange(6)
    off = rng.choice([-2.0, -1.5, -1.0, -0.6, -0.3, -0.1, 0.0, 0.1, 0.3, 0.6, 1.0, 1.5, 2.0]) * cw
    if rng.random() < 0.5:
        start = 360.0 - 60.0 * j + off                     # the arc STARTS near a trial seam
    else:
        start = 360.0 - 60.0 * j + off - width             # the arc ENDS near a trial seam
    n1 = rng.randint(6, 22)
    ras = [start + width * k / (n1 - 1) for k in range(n1)]
    p1 = [(norm_ra(r), dec + rng.uniform(-0.3, 0.3) * L) for r in ras]
    p2 = []
    for end, sgn in ((0, -1.0), (n1 - 1, 1.0)):
        for f in rng.sample([0.3, 0.6, 0.75, 0.9, 0.97, 1.05], 3):
            p2.append((norm_ra(ras[end] + sgn * f * L / cosd), p1[end][1]))
    for _ in range(rng.randint(0, 4)):
        a = rng.choice(p1)
        p2.append(offset_point(a[0], a[1], L * rng.choice([0.5, 0.9, 1.1]), rng.uniform(0, 360)))
    rng.shuffle(p2)
    return limit_cost({'fam': 'arc', 'ra1': [p[0] for p in p1], 'dec1': [p[1] for p in p1], 'ra2': [p[0] for p in p2],
                       'dec2': [p[1] for p in p2], 'L': L, 'chunksize': chunk, 'maxmatch': 0})


def history_cases(rng):
    """a history = several spherematch calls made one after the other in ONE implementation process"""
    def small(fam):
        for _ in range(50):
            c = gen_case(rng, fam)
            if admissible(c) and len(c['ra1']) <= 14 and len(c['ra2']) <= 14:
                return c
        return None
    base = small(rng.choice(['pairs', 'dups', 'seam', 'dtype']))
    if base is None:
        return None
    kind = rng.choice(['same-first-list', 'identical-call-repeated', 'equal-length-first-lists', 'mixed'])
    h = [base]
    for _ in range(rng.randint(2, 3)):
        prev = h[-1]
        c = dict(prev)
        k2 = kind if kind != 'mixed' else rng.choice(['same-first-list', 'identical-call-repeated', 'equal-length-first-lists'])
        if k2 == 'same-first-list':
            # same first list and chunk size, another second list: partners of other points at other distances
            L = prev['L']
            p2 = []
            for a, d in zip(prev['ra1'], prev['dec1']):
                if rng.random() < 0.7:
                    p2.append(offset_point(float(a), float(d), L * rng.choice([0.3, 0.9, 1.1, 0.6]), rng.uniform(0, 360)))
            if not p2:
                p2.append(offset_point(float(prev['ra1'][0]), float(prev['dec1'][0]), L * 0.5, 10.0))
            if prev.get('dtype'):
                p2 = [(int(round(x)) % 360, max(-89, min(89, int(round(y))))) for x, y in p2]
            c['ra2'], c['dec2'] = [p[0] for p in p2], [p[1] for p in p2]
            c['maxmatch'] = rng.choice([0, 0, 1, 2])
        elif k2 == 'equal-length-first-lists':
            o = small(prev['fam'] if prev['fam'] in ('pairs', 'dups', 'seam') else 'pairs')
            if o is None:
                continue
            n = min(len(o['ra1']), len(prev['ra1']))
            if n < 2:
                continue
            c = dict(o)
            c['ra1'], c['dec1'] = o['ra1'][:n], o['dec1'][:n]
            if len(prev['ra1']) > n:
                h[-1] = dict(prev, ra1=prev['ra1'][:n], dec1=prev['dec1'][:n])
            c['chunksize'] = prev['chunksize'] if rng.random() < 0.5 else c['chunksize']
        h.append(c)
    for c in h:
        c['history_kind'] = kind
    return [c for c in h if admissible(c)]


NEAR_DELTAS = [1e-3, 1e-5, 1e-7, 1e-9]


def near_case(rng):
    """pairs whose separation is L(1 + d) for d = +-1e-3 ... +-1e-9, L from milli-arcseconds to degrees; the positions sit
    at small RA / Dec so that the doubles resolve such differences; which side of L a pair is on is decided by the
    implementation's own gcirc on these doubles (exact comparison of the two doubles in the Coq checker)"""
    L = rng.choice([1.0 / 3.6e6, 5.0 / 3.6e6, 1.0 / 3600.0, 1.0 / 60.0, 0.3, 2.0, 10.0])
    p1, p2 = [], []
    ra0, dec0 = rng.uniform(0.1, 1.5), rng.uniform(-0.8, 0.8)
    step = max(3.0 * L, 1e-5)
    for k in range(rng.randint(3, 9)):
        a = (ra0 + k * step * 1.7, dec0 + rng.choice([0.0, 0.4, -0.3]) * step)
        p1.append(a)
        d = rng.choice([-1.0, 1.0]) * rng.choice(NEAR_DELTAS)
        if rng.random() < 0.6:
            p2.append((a[0], a[1] + rng.choice([-1.0, 1.0]) * L * (1.0 + d)))               # along Dec
        else:
            p2.append((a[0] + rng.choice([-1.0, 1.0]) * L * (1.0 + d) / math.cos(a[1] * D2R), a[1]))   # along RA
    rng.shuffle(p2)
    return limit_cost({'fam': 'near', 'ra1': [p[0] for p in p1], 'dec1': [p[1] for p in p1], 'ra2': [norm_ra(p[0]) for p in p2],
                       'dec2': [p[1] for p in p2], 'L': L, 'chunksize': rng.choice([None, None, max(4.0 * L, 0.05), 0.5]),
                       'maxmatch': rng.choice([0, 0, 1])})


def selfmatch_case(rng):
    """calling conventions: the second list IS the first (same objects), an equal copy, a permuted copy; exact duplicates
    inside a list; one list a subset of the other"""
    base = None
    for _ in range(50):
        base = gen_case(rng, rng.choice(['pairs', 'dups', 'seam', 'dtype', 'pairs']))
        if admissible(base) and 2 <= len(base['ra1']) <= 20:
            break
    c = dict(base)
    pts = list(zip(c['ra1'], c['dec1']))
    if rng.random() < 0.5:                    # exact duplicates inside list 1
        pts += [pts[rng.randrange(len(pts))] for _ in range(rng.randint(1, 3))]
        pts = pts[:24]
    if rng.random() < 0.5:                    # close neighbours inside list 1, so that a point has other matches than itself
        L = c['L']
        for a in list(pts)[:4]:
            b = offset_point(float(a[0]), float(a[1]), L * rng.choice([0.3, 0.7, 0.95]), rng.uniform(0, 360))
            if c.get('dtype'):
                b = (int(round(b[0])) % 360, max(-89, min(89, int(round(b[1])))))
            pts.append(b)
        pts = pts[:26]
    c['ra1'], c['dec1'] = [p[0] for p in pts], [p[1] for p in pts]
    kind = rng.choice(['same-object', 'equal-copy', 'permuted-copy', 'subset', 'superset'])
    if c.get('dtype'):
        c['dtype'] = dict(c['dtype'], ra2=c['dtype'].get('ra1', 'float64'), dec2=c['dtype'].get('dec1', 'float64'))
    q = list(pts)
    if kind == 'permuted-copy':
        rng.shuffle(q)
    elif kind == 'subset':
        q = rng.sample(q, max(1, len(q) // 2))
    elif kind == 'superset':
        q = q + [sphere_point(rng) if not c.get('dtype') else (rng.randint(0, 359), rng.randint(-80, 80)) for _ in range(3)]
        rng.shuffle(q)
    c['ra2'], c['dec2'] = [p[0] for p in q], [p[1] for p in q]
    c['second'] = 'same-object' if kind == 'same-object' else 'copy'
    c['fam'] = 'selfmatch'
    c['selfmatch_kind'] = kind
    c['maxmatch'] = rng.choice([0, 0, 1, 2])
    return limit_cost(c)


def wrapped_case(rng):
    """right ascensions given one turn off: RA - 360 (negative) or RA + 360 for a random subset of either list -- the same
    points of the sphere; chunks.wrapra reduces them.  Outside the letter of the property (RA in [0, 360)) but inside what
    the code accepts: the answer must be the one for the reduced coordinates (the separation table is computed by the
    implementation's gcirc on the coordinates as given)"""
    base = None
    for _ in range(50):
        base = gen_case(rng, rng.choice(['pairs', 'seam', 'seam', 'dups', 'arc', 'pole']))
        if admissible(base):
            break
    c = dict(base)
    kind = rng.choice(['negative', 'negative', 'beyond-360', 'mixed'])
    for key in ('ra1', 'ra2'):
        out = []
        for r in c[key]:
            t = rng.random()
            if t < 0.5:
                sh = {'negative': -360.0, 'beyond-360': 360.0, 'mixed': rng.choice([-360.0, 360.0])}[kind]
                out.append(float(r) + sh)
            else:
                out.append(float(r))
        c[key] = out
    c['fam'] = 'wrapped'
    c['wrapped_kind'] = kind
    c['ra_domain'] = 'extended'
    return c


def widecap_case(rng):
    """match lengths beyond 90 degrees (the cap around a point is more than a hemisphere; "any match length" of the
    property): points all over the sky, partners near L and near 180 - L from the antipode"""
    L = rng.uniform(90.5, 150.0)
    n1, n2 = rng.randint(4, 14), rng.randint(4, 14)
    p1 = [sphere_point(rng) for _ in range(n1)]
    p2 = [sphere_point(rng) for _ in range(n2)]
    for _ in range(rng.randint(2, 6)):
        a = rng.choice(p1)
        p2.append(offset_point(a[0], a[1], min(179.0, L * (1 + rng.choice([-1, 1]) * rng.choice([1e-3, 1e-2, 1e-1]))), rng.uniform(0, 360)))
    rng.shuffle(p2)
    return limit_cost({'fam': 'widecap', 'ra1': [p[0] for p in p1], 'dec1': [p[1] for p in p1], 'ra2': [p[0] for p in p2],
                       'dec2': [p[1] for p in p2], 'L': L, 'chunksize': rng.choice([None, None, 4.0 * L, 5.0 * L]),
                       'maxmatch': rng.choice([0, 0, 0, 1])})


# --------------------------------------------------------------------------- round 6 families

def wider_case(rng):
    """list 1 = a compact field, list 2 = a wider catalogue: partners of the field's points interleaved with points above and
    below the declination range of the chunk grid (inside the padding, just beyond it, many chunks beyond) and points beyond
    its right-ascension range: getbounds() raises for the former and assign() must skip exactly those (error path)"""
    L = pick_L(rng, 1.0 / 3600.0, 3.0)
    chunk = pick_chunk(rng, L, small_ok=False)
    cs = chunk if chunk is not None else max(4.0 * L, 0.1)
    c = centre(rng, L, rng.choice(['any', 'any', 'seam', 'equator']))
    c = (c[0], max(-60.0, min(60.0, c[1])))
    spread = rng.choice([0.5, 2.0, 5.0, 12.0]) * L
    p1 = [offset_point(c[0], c[1], rng.random() * spread, rng.uniform(0, 360)) for _ in range(rng.randint(3, 14))]
    dlo, dhi = min(p[1] for p in p1), max(p[1] for p in p1)
    inr = []
    for a in p1:
        if rng.random() < 0.8:
            inr.append(offset_point(a[0], a[1], L * (1 + rng.choice([-1, 1]) * rng.choice([1e-3, 1e-1])), rng.uniform(0, 360)))
        if rng.random() < 0.4:
            inr.append(offset_point(a[0], a[1], L * rng.random(), rng.uniform(0, 360)))
    if not inr:
        inr.append(offset_point(p1[0][0], p1[0][1], 0.5 * L, 45.0))
    out = []
    cosd = max(math.cos(c[1] * D2R), 0.2)
    for _ in range(rng.randint(2, 10)):
        beyond = rng.choice([0.3, 0.9, 1.4, 1.6, 2.5, 4.0, 10.0, 30.0]) * cs
        d = dhi + beyond if rng.random() < 0.5 else dlo - beyond
        out.append((norm_ra(c[0] + rng.uniform(-3, 3) * cs), max(-89.9, min(89.9, d))))
    for _ in range(rng.randint(0, 3)):
        out.append((norm_ra(c[0] + rng.choice([-1.0, 1.0]) * rng.uniform(3.0, 40.0) * cs / cosd), rng.uniform(dlo, dhi)))
    order = rng.choice(['outside-first', 'interleaved', 'shuffled'])
    if order == 'outside-first':
        p2 = out + inr
    elif order == 'interleaved':
        p2 = []
        a, b = list(out), list(inr)
        while a or b:
            if a:
                p2.append(a.pop(0))
            if b:
                p2.append(b.pop(0))
    else:
        p2 = out + inr
        rng.shuffle(p2)
    return limit_cost({'fam': 'wider', 'ra1': [p[0] for p in p1], 'dec1': [p[1] for p in p1], 'ra2': [p[0] for p in p2],
                       'dec2': [p[1] for p in p2], 'L': L, 'chunksize': chunk, 'maxmatch': rng.choice([0, 0, 1, 2]), 'wider_order': order})


CROWD_MAXMATCH = [127, 128, 129, 130, 200, 255, 256, 1000]


def crowd_case(rng, thorough=False):
    """sizes beyond a one-byte counter (class D): a point with more than 127 (thorough: also more than 255) partners within
    the match length and maxmatch around 128 / 256 / far above; the crowd is the first or the second list.  The greedy
    clauses of match_ok decide (no point more than maxmatch times, nothing unsaturated left out)"""
    L = rng.choice([0.05, 0.5, 2.0])
    c = centre(rng, L, 'any')
    c = (c[0], max(-60.0, min(60.0, c[1])))
    # cost in Coq ~ n1 * n2 * (number of returned pairs): the quick tier keeps the small side at 1 (list 2) or 2 (list 1) points
    in1 = rng.random() < 0.5
    if thorough:
        nfew, m = rng.randint(2, 3), rng.choice([130, 180, 260, 300, 400, 520])
    elif in1:
        nfew, m = 1, rng.choice([130, 180, 260, 300])
    else:
        nfew, m = 2, rng.choice([130, 140, 180])
    few = [offset_point(c[0], c[1], 0.1 * L * rng.random(), rng.uniform(0, 360)) for _ in range(nfew)]
    crowd = [offset_point(c[0], c[1], L * rng.uniform(0.0, 0.8), rng.uniform(0, 360)) for _ in range(m)]
    crowd += [offset_point(c[0], c[1], L * rng.uniform(1.15, 1.6), rng.uniform(0, 360)) for _ in range(rng.randint(0, 6))]
    rng.shuffle(crowd)
    mm = rng.choice(CROWD_MAXMATCH)
    if in1:
        p1, p2 = crowd, few[:rng.randint(1, len(few))]
    else:
        p1, p2 = few, crowd
    return {'fam': 'crowd', 'ra1': [p[0] for p in p1], 'dec1': [p[1] for p in p1], 'ra2': [p[0] for p in p2], 'dec2': [p[1] for p in p2],
            'L': L, 'chunksize': rng.choice([None, None, 4.0 * L, 10.0 * L]), 'maxmatch': mm, 'crowd_in': 'list1' if p1 is crowd else 'list2'}


LAYOUTS = ['contig', 'strided', 'reversed', 'col2d', 'fortran-row', 'bigendian', 'readonly']


def layout_case(rng):
    """memory layout of the coordinate arrays (class B): every other element of a buffer, negative stride, a column of a 2-D
    table, a row of a Fortran-ordered table, big-endian, read-only -- the same numbers, so the same answer"""
    base = None
    for _ in range(50):
        base = gen_case(rng, rng.choice(['pairs', 'seam', 'dups', 'pole', 'dtype', 'wider']))
        if admissible(base) and len(base['ra1']) <= 30:
            break
    c = dict(base)
    c['layout'] = {k: rng.choice(LAYOUTS) for k in ('ra1', 'dec1', 'ra2', 'dec2')}
    c['base_fam'] = base['fam']
    c['fam'] = 'layout'
    return c


def argtype_case(rng):
    """scalar arguments in other Python / NumPy types (class E): matchlength as int, numpy float64/float32/int64 scalar or 0-d
    array; chunksize explicit None / int / numpy scalars; maxmatch as numpy integers of any width or bool"""
    kL = rng.choice(['int', 'float64', 'float32', '0-d-float', 'int64', 'float'])
    if kL in ('int', 'int64'):
        L = float(rng.choice([1, 2, 3, 5]))
    elif kL == 'float32':
        L = rng.choice([0.5, 0.25, 2.0, 0.125, 1.5])
    else:
        L = pick_L(rng, 0.01, 10.0)
    p1, p2 = gen_points(rng, rng.choice(['pairs', 'seam', 'dups']), L)
    kc = rng.choice(['none', 'explicit-None', 'int', 'float64', 'float32', 'float', 'int64'])
    if kc in ('none', 'explicit-None'):
        chunk = None
    elif kc in ('int', 'int64'):
        chunk = float(math.ceil(4.0 * L) + rng.choice([0, 1, 5]))
    elif kc == 'float32':
        chunk = 4.0 * L * rng.choice([1.0, 2.0, 4.0]) if kL in ('int', 'int64', 'float32') else float(math.ceil(4.0 * L) + rng.choice([0, 1, 5]))
    else:
        chunk = pick_chunk(rng, L, small_ok=False)
    km = rng.choice(['int', 'int64', 'int32', 'int16', 'int8', 'uint8', 'bool'])
    mm = rng.choice([0, 1]) if km == 'bool' else rng.choice([0, 0, 1, 2, 3])
    at = {'L': kL, 'maxmatch': km}
    if kc != 'none':
        at['chunksize'] = kc
    case = limit_cost({'fam': 'argtype', 'ra1': [p[0] for p in p1], 'dec1': [p[1] for p in p1], 'ra2': [p[0] for p in p2],
                       'dec2': [p[1] for p in p2], 'L': L, 'chunksize': chunk, 'maxmatch': mm, 'argtypes': at})
    # limit_cost may have raised the chunk size: keep it a value the requested scalar type holds exactly
    if case['chunksize'] is not None and kc in ('int', 'int64'):
        case['chunksize'] = float(math.ceil(case['chunksize']))
    elif case['chunksize'] is not None and kc == 'float32':
        import struct
        case['chunksize'] = struct.unpack('f', struct.pack('f', case['chunksize']))[0]
    return case


def partners(rng, ra1, dec1, L):
    p2 = []
    for a, d in zip(ra1, dec1):
        if rng.random() < 0.7:
            p2.append(offset_point(float(a), float(d), L * rng.choice([0.3, 0.9, 1.1, 0.6]), rng.uniform(0, 360)))
    if not p2:
        p2.append(offset_point(float(ra1[0]), float(dec1[0]), L * 0.5, 10.0))
    return p2


def inplace_history(rng):
    """class A (round 6): the caller keeps its coordinate buffers and refills them in place between calls (`ra1[:] = ...`):
    the very same array objects are passed again with other contents, with the same match length and chunk size (what a
    cache would be keyed on) or with others.  Every call is judged on the contents the arrays then have"""
    def small():
        for _ in range(50):
            c = gen_case(rng, rng.choice(['pairs', 'dups', 'seam', 'wider']))
            if admissible(c) and 3 <= len(c['ra1']) <= 14 and len(c['ra2']) <= 14:
                return c
        return None
    base = small()
    if base is None:
        return None
    kind = rng.choice(['inplace-first-list', 'inplace-both-lists', 'inplace-second-list'])
    h = [base]
    for _ in range(rng.randint(1, 3)):
        prev = h[-1]
        c = dict(prev)
        same_params = rng.random() < 0.6
        n1, n2 = len(prev['ra1']), len(prev['ra2'])
        if kind in ('inplace-first-list', 'inplace-both-lists'):
            o = small()
            if o is None or len(o['ra1']) < 2:
                continue
            t = rng.random()
            if t < 0.3:          # the same points in another order
                idx = list(range(n1))
                rng.shuffle(idx)
                c['ra1'], c['dec1'] = [prev['ra1'][i] for i in idx], [prev['dec1'][i] for i in idx]
            elif t < 0.5:        # shifted by a fraction of a chunk (`ra1 += d`)
                d = rng.choice([0.3, 1.0, 2.5]) * eff_chunk(prev) * rng.choice([-1.0, 1.0])
                c['ra1'] = [norm_ra(x + d) for x in prev['ra1']]
                c['dec1'] = [max(-89.9, min(89.9, x + 0.5 * d)) for x in prev['dec1']]
            else:                # another field altogether
                k = min(n1, len(o['ra1']))
                c['ra1'] = (o['ra1'] + o['ra1'])[:n1] if k < n1 else o['ra1'][:n1]
                c['dec1'] = (o['dec1'] + o['dec1'])[:n1] if k < n1 else o['dec1'][:n1]
            if not same_params:
                c['L'], c['chunksize'] = o['L'], o['chunksize']
            p2 = partners(rng, c['ra1'], c['dec1'], c['L'])
            if kind == 'inplace-both-lists':
                p2 = (p2 + p2 + p2 + p2)[:n2] if len(p2) < n2 else p2[:n2]
            c['ra2'], c['dec2'] = [p[0] for p in p2], [p[1] for p in p2]
            c['reuse'] = 'first' if kind == 'inplace-first-list' else 'both'
        else:
            p2 = partners(rng, prev['ra1'], prev['dec1'], prev['L'])
            p2 = (p2 + p2 + p2 + p2)[:n2] if len(p2) < n2 else p2[:n2]
            c['ra2'], c['dec2'] = [p[0] for p in p2], [p[1] for p in p2]
            c['reuse'] = 'second'
        c['maxmatch'] = rng.choice([0, 0, 1, 2])
        for k_ in ('dtype', 'layout', 'second'):
            c.pop(k_, None)
        h.append(limit_cost(c))
    for k_ in ('dtype', 'layout', 'second'):
        h[0].pop(k_, None)
    for c in h:
        c['history_kind'] = kind
    h = [c for c in h if admissible(c)]
    return h if len(h) >= 2 else None


def gen_case(rng, fam):
    if fam == 'wider':
        return wider_case(rng)
    if fam == 'crowd':
        return crowd_case(rng)
    if fam == 'layout':
        return layout_case(rng)
    if fam == 'argtype':
        return argtype_case(rng)
    if fam == 'wrapped':
        return wrapped_case(rng)
    if fam == 'widecap':
        return widecap_case(rng)
    if fam == 'near':
        return near_case(rng)
    if fam == 'selfmatch':
        return selfmatch_case(rng)
    if fam == 'arc':
        return arc_case(rng)
    if fam == 'dtype':
        return dtype_case(rng)
    if fam == 'smallchunk' and rng.random() < 0.3:
        return ring_case(rng)
    if fam == 'polebound':
        return polebound_case(rng)
    if fam == 'highdec':
        return highdec_case(rng)
    if fam == 'allsky':
        L = pick_L(rng, 0.5, 30.0)
    elif fam == 'smallchunk':
        L = rng.choice([5.0, 10.0, 20.0, 20.0, 30.0, pick_L(rng, 1.0, 30.0)])
    else:
        L = pick_L(rng)
    if fam == 'smallchunk':
        p1, p2 = gen_points(rng, rng.choice(['allsky', 'pairs', 'allsky']), L)
        chunk = L * rng.choice([1.01, 1.2, 2.0, 3.0])
        if rng.random() < 0.6:
            # pairs between a point close to a pole and a point in the next slice at a very different RA, near RA 0/360
            for _ in range(rng.randint(2, 6)):
                sgn = rng.choice([-1.0, 1.0])
                b2 = (norm_ra(rng.uniform(-0.3, 0.3) * L / 0.3), sgn * (90.0 - rng.uniform(0.15, 0.7) * L))
                brg = rng.choice([rng.uniform(50, 130), rng.uniform(230, 310)])
                if sgn > 0:
                    brg = 180.0 - brg
                a1 = offset_point(b2[0], b2[1], L * (1 - rng.choice([1e-3, 1e-2, 1e-1])), brg)
                p1.append(a1)
                p2.append(b2)
            p1, p2 = p1[-60:], p2[-60:]
    else:
        p1, p2 = gen_points(rng, fam, L)
        chunk = pick_chunk(rng, L, small_ok=False)
    mm = rng.choice([0, 0, 0, 1, 1, 2, 3])
    return limit_cost({'fam': fam, 'ra1': [p[0] for p in p1], 'dec1': [p[1] for p in p1],
            'ra2': [p[0] for p in p2], 'dec2': [p[1] for p in p2], 'L': L, 'chunksize': chunk, 'maxmatch': mm})


def eff_chunk(case):
    return case['chunksize'] if case['chunksize'] is not None else max(4.0 * case['L'], 0.1)


def est_cells(case, cs):
    """upper estimate of the number of cells chunks.__init__ allocates (it is quadratic in 1/chunksize)"""
    drange = max(case['dec1']) - min(case['dec1'])
    return (3 + drange / cs) * (3 + 360.0 / cs)


def limit_cost(case, max_cells=30000.0, max_pairs=900):
    """the implementation allocates one Python list per cell: keep the grid small by raising chunksize
    (never below what was drawn, so it stays admissible); keep the separation table below max_pairs entries"""
    n1 = len(case['ra1'])
    if n1 > 36:
        case['ra1'], case['dec1'] = case['ra1'][-36:], case['dec1'][-36:]
        n1 = 36
    n2 = max(1, max_pairs // n1)
    if len(case['ra2']) > n2:
        case['ra2'], case['dec2'] = case['ra2'][-n2:], case['dec2'][-n2:]
    cs = eff_chunk(case)
    if est_cells(case, cs) <= max_cells:
        return case
    while est_cells(case, cs) > max_cells:
        cs *= 1.3
    case['chunksize'] = cs
    return case


def edge_variant(rng, case, res):
    """second phase: put pairs across cell edges of the bounds recorded in a first run (list-1 extremes unchanged)"""
    rec = res.get('rec')
    if not rec or 'ok' not in res:
        return None
    L = case['L']
    ra1, dec1 = list(case['ra1']), list(case['dec1'])
    ra2, dec2 = list(case['ra2']), list(case['dec2'])
    dlo, dhi = min(dec1), max(dec1)
    cur = [math.fmod(r + rec['raOffset'], 360.0) for r in ra1]
    rlo, rhi = min(cur), max(cur)
    added = 0
    for _ in range(rng.randint(2, 6)):
        i = rng.randrange(rec['nDec'])
        rb = rec['raBounds'][i]
        t = rng.random()
        if t < 0.5 and len(rb) > 2:
            # across an RA edge inside slice i
            e = rng.choice(rb[1:-1])
            dec = rng.uniform(max(rec['decBounds'][i], dlo), min(rec['decBounds'][i + 1], dhi)) if max(rec['decBounds'][i], dlo) < min(rec['decBounds'][i + 1], dhi) else None
            if dec is None or not (rlo < e < rhi):
                continue
            cosd = max(math.cos(dec * D2R), 1e-6)
            off = L * rng.choice([0.05, 0.3, 0.49]) / cosd
            a = (norm_ra(e - off - rec['raOffset']), dec)
            if not (rlo <= math.fmod(a[0] + rec['raOffset'], 360.0) <= rhi):
                continue
            b = offset_point(a[0], a[1], L * (1 - rng.choice([1e-3, 1e-1])), rng.choice([90.0, 90.0, 60.0, 120.0]))
        else:
            e = rec['decBounds'][rng.randrange(1, rec['nDec'])] if rec['nDec'] > 1 else None
            if e is None or not (dlo < e < dhi):
                continue
            ra = norm_ra(rng.uniform(rlo, rhi) - rec['raOffset'])
            off = L * rng.choice([0.05, 0.3, 0.49])
            a = (ra, e - off)
            if not (dlo <= a[1] <= dhi):
                continue
            b = offset_point(a[0], a[1], L * (1 - rng.choice([1e-3, 1e-1])), rng.choice([0.0, 0.0, 30.0, 330.0]))
        if rng.random() < 0.5:
            a, b = b, a
            if not (dlo <= a[1] <= dhi and rlo <= math.fmod(a[0] + rec['raOffset'], 360.0) <= rhi):
                a, b = b, a
        ra1.append(a[0])
        dec1.append(a[1])
        ra2.append(b[0])
        dec2.append(b[1])
        added += 1
    if not added:
        return None
    c = dict(case)
    c.update({'ra1': ra1[-60:], 'dec1': dec1[-60:], 'ra2': ra2[-60:], 'dec2': dec2[-60:], 'fam': 'edges'})
    return limit_cost(c)


# --------------------------------------------------------------------------- Coq terms

HEADER = '''From Coq Require Import ZArith QArith List. Import ListNotations.
From PV Require Import C04.Model. Close Scope Q_scope. Open Scope Z_scope.'''
HEADER2 = '''From Coq Require Import ZArith QArith List. Import ListNotations.
From PV Require Import C04.Model C04.SceneModel. Close Scope Q_scope. Open Scope Z_scope.'''


def m2e(x, keep=None):
    """x = m * 2**e exactly (keep=None) or truncated towards zero to `keep` significant bits"""
    if x == 0.0:
        return 0, 0
    mant, exp = math.frexp(x)
    m = int(mant * (1 << 53))
    e = exp - 53
    if keep is not None and m.bit_length() > keep:
        sh = m.bit_length() - keep
        m >>= sh
        e += sh
    while m % 2 == 0:
        m //= 2
        e += 1
    assert keep is not None or Fraction(m) * Fraction(2) ** e == Fraction(x)
    return m, e


def qt(x, keep=None):
    return '(q %s %s)' % tuple(C.zlit(v) for v in m2e(x, keep))


def cell_t(d, r):
    return '(%s, %s)' % (C.zlit(d), C.zlit(r))


def rec_term(rec):
    if rec is None or rec.get('perm') is None or rec.get('nRa') is None:
        return 'None'
    bs = []
    for b in rec['bounds']:
        if b is None:
            bs.append('None')
        else:
            bs.append('(Some (%s, %s))' % (C.zlit(b[0]), C.coq_list(['(%s, %s)' % (C.zlit(lo), C.zlit(hi)) for lo, hi in b[1]])))
    cells = [cell_t(d, r) for d, r in rec['cells']]
    chl = ['(%s, %s)' % (cell_t(i, j), C.coq_list([C.zlit(x) for x in m])) for i, j, m in rec.get('chunklist', [])]
    return '(Some (mkrec %s %s %s %s %s))' % (
        C.coq_list([C.zlit(x) for x in rec['nRa']]), C.coq_list(bs), C.coq_list(cells),
        C.coq_list([C.zlit(x) for x in rec['perm']]), C.coq_list(chl))


def case_term(case, res, with_rec=True):
    ok = res['ok']
    out = ['(cn %d %d %s %s)' % ((i, k) + tuple(C.zlit(v) for v in m2e(d)))
           for i, k, d in zip(ok['m1'], ok['m2'], ok['d'])]
    # entries farther than 1.5 L that the implementation did not return are passed truncated to 12 significant bits
    # (a lower bound that is still > 1.4 L): the checker only ever asks of them "is it below L?"
    returned = set(zip(ok['m1'], ok['m2']))
    far = 1.5 * case['L']
    sep = C.coq_list([C.coq_list([qt(x, 12 if (x > far and (i, k) not in returned) else None) for k, x in enumerate(row)])
                      for i, row in enumerate(res['sep'])])
    return '(mkcase %d %s %d %s %s %s)' % (case['maxmatch'], qt(case['L']), len(case['ra2']), sep, C.coq_list(out),
                                            rec_term(res.get('rec')) if with_rec else 'None')


def geom_term(res, max_numbers=250):
    """(geom, recorded getbounds results) for the exact-rational walk model, or None when the grid is too large to ship"""
    rec = res.get('rec') or {}
    if not rec.get('gbargs') or rec.get('bounds') is None or len(rec['gbargs']) != len(rec['bounds']):
        return None
    if len(rec['decBounds']) + sum(len(rb) for rb in rec['raBounds']) > max_numbers:
        return None
    decB = C.coq_list([qt(x) for x in rec['decBounds']])
    raB = C.coq_list([C.coq_list([qt(x) for x in rb]) for rb in rec['raBounds']])
    pts = C.coq_list(['(%s, %s, %s)' % (qt(a[0]), qt(a[1]), qt(a[3])) for a in rec['gbargs']])
    bs = []
    for b in rec['bounds']:
        if b is None:
            bs.append('None')
        else:
            bs.append('(Some (%s, %s))' % (C.zlit(b[0]), C.coq_list(['(%s, %s)' % (C.zlit(lo), C.zlit(hi)) for lo, hi in b[1]])))
    return '(mkgeom %s %s %s %s, %s)' % (decB, raB, qt(rec['gbargs'][0][2]), pts, C.coq_list(bs))


def scene_term(res, max_numbers=250):
    """option scene: the grid and the rotated coordinates of both lists as get()/getbounds() received them (exact rationals
    of the doubles), or None when the grid is too large to ship"""
    rec = res.get('rec') or {}
    if (not rec.get('gbargs') or rec.get('bounds') is None or len(rec['gbargs']) != len(rec['bounds']) or
            not rec.get('getargs') or rec.get('cells') is None or len(rec['getargs']) != len(rec['cells']) or rec.get('perm') is None):
        return '(@None scene)'
    if len(rec['decBounds']) + sum(len(rb) for rb in rec['raBounds']) > max_numbers:
        return '(@None scene)'
    decB = C.coq_list([qt(x) for x in rec['decBounds']])
    raB = C.coq_list([C.coq_list([qt(x) for x in rb]) for rb in rec['raBounds']])
    p1 = C.coq_list(['(%s, %s)' % (qt(a[0]), qt(a[1])) for a in rec['getargs']])
    p2 = C.coq_list(['(%s, %s, %s)' % (qt(a[0]), qt(a[1]), qt(a[3])) for a in rec['gbargs']])
    return '(Some (mkscene %s %s %s %s %s))' % (decB, raB, qt(rec['gbargs'][0][2]), p1, p2)


def grid_term(case, res):
    """gridrec: the inputs and what chunks.__init__ / rarange / spherematch's head decided (None when not recorded)"""
    rec = res.get('rec') or {}
    if rec.get('cos0') is None or rec.get('getargs') is None or rec.get('gbargs') is None or rec.get('raMin') is None:
        return None
    if len(rec['getargs']) != len(case['ra1']) or len(rec['gbargs']) != len(case['ra2']):
        return None
    ql = lambda xs: C.coq_list([qt(float(x)) for x in xs])
    chunk = 'None' if case['chunksize'] is None else '(Some %s)' % qt(float(case['chunksize']))
    ends = C.coq_list(['(%s, %s)' % (qt(rb[0]), qt(rb[-1])) for rb in rec['raBounds']])
    # numpy (NEP 50) keeps single precision when a float32 array meets a Python float: with float32 list-1 coordinates
    # chunks.__init__ / rarange / wrapra work in single precision
    dt = case.get('dtype') or {}
    single = any(dt.get(k) == 'float32' for k in ('ra1', 'dec1', 'ra2', 'dec2')) or 'float32' in (case.get('argtypes') or {}).values()
    tol = 'tol9' if not single else '(1 # 100000)'
    return '(mkgrid %s %s %s %s %s %s %s %s %s %s %s %s %s %s %s %s %s)' % (
        ql(case['ra1']), ql(case['dec1']), ql(case['ra2']), chunk, qt(float(case['L'])), qt(rec['cos0']), ql(rec['cos']),
        qt(rec['minSize']), qt(rec['raOffset']), qt(rec['raMin']), qt(rec['raMax']), ql(rec['decBounds']),
        C.coq_list([C.zlit(x) for x in rec['nRa']]), ends, ql([a[0] for a in rec['getargs']]), ql([a[0] for a in rec['gbargs']]), tol)


# --------------------------------------------------------------------------- diagnosis (uncertified; for messages and signatures only)

def diagnose(case, res):
    L = case['L']
    sep = res['sep']
    ok = res['ok']
    out = set(zip(ok['m1'], ok['m2']))
    below = set((i, k) for i, row in enumerate(sep) for k, s in enumerate(row) if s < L)
    d = {}
    if case['maxmatch'] == 0:
        d['missing'] = sorted(below - out)
    d['extra'] = sorted(p for p in out if sep[p[0]][p[1]] > L)
    d['wrong_distance'] = [(i, k) for i, k, x in zip(ok['m1'], ok['m2'], ok['d']) if 0 <= i < len(sep) and 0 <= k < len(sep[0]) and sep[i][k] != x]
    d['unsorted'] = any(a > b for a, b in zip(ok['d'], ok['d'][1:]))
    d['dup'] = len(out) != len(ok['m1'])
    if case['maxmatch'] > 0:
        d['not_in_candidates'] = sorted(out - below)[:5]
        k = case['maxmatch']
        sel = list(zip(ok['m1'], ok['m2'], ok['d']))
        un = []
        for (i, j) in sorted(below - out):
            u1 = sum(1 for a, b, x in sel if a == i and x <= sep[i][j])
            u2 = sum(1 for a, b, x in sel if b == j and x <= sep[i][j])
            if u1 < k and u2 < k:
                un.append((i, j))
        # left out although neither endpoint is used k times by no-farther pairs: either the pair never was a candidate
        # (its list-2 point is not in the cell looked up for the list-1 point: a coverage failure) or the selection is wrong
        rec0 = res.get('rec') or {}
        chl = {(a, b): m for a, b, m in rec0.get('chunklist', [])}
        cells = rec0.get('cells') or []
        noncand = [(i, j) for (i, j) in un if i < len(cells) and j not in chl.get(tuple(cells[i]), [])]
        d['missing'] = noncand if (noncand or not cells) else []
        d['greedy_left_out_unsaturated'] = [p_ for p_ in un if p_ not in noncand]
        d['overused'] = [i for i in set(ok['m1']) if ok['m1'].count(i) > k] + [j for j in set(ok['m2']) if ok['m2'].count(j) > k]
    rec = res.get('rec') or {}
    dropped = [k for k, b in enumerate(rec.get('bounds') or []) if b is None]
    d['list2_points_dropped_by_getbounds'] = dropped
    return d


def chunk_class(case):
    cs = case['chunksize']
    if cs is None:
        return 'chunksize=default'
    return 'chunksize>=4L' if cs >= 4.0 * case['L'] else 'chunksize<4L'


def sig_class(case):
    cs = case['chunksize']
    if case['L'] > 90.0:
        return 'matchlength>90deg'
    return 'chunksize>=4L' if (cs is None or cs >= 4.0 * case['L']) else 'chunksize<4L'


def near_threshold(case, res):
    L = case['L']
    for row in res['sep']:
        for s in row:
            if s != L and abs(s - L) <= (1e-4 if case.get('dtype') else 1e-9) * L:
                return True
    return False


def admissible(case):
    return (len(case['ra1']) >= 2 and len(case['ra2']) >= 1 and
            (case['chunksize'] is None or case['chunksize'] > case['L']) and
            all((-360.0 <= r < 720.0) if case.get('ra_domain') == 'extended' else (0.0 <= r < 360.0) for r in case['ra1'] + case['ra2']) and
            all(abs(d) < 90.0 for d in case['dec1'] + case['dec2']))


def screen_batch(cases, timeout=1500):
    if not cases:
        return []
    nb = min(C.NPROC, len(cases))
    batches = [cases[i::nb] for i in range(nb)]
    outs = C.run_impl_parallel('c04_impl.py', [{'mode': 'screen', 'cases': bt} for bt in batches], timeout=timeout)
    sus = []
    for bi, o in enumerate(outs):
        sus += [bi + k * nb for k in o['suspicious']]
    return sorted(sus)


def run_histories(hists, timeout=1500):
    if not hists:
        return []
    nb = min(C.NPROC, len(hists))
    batches = [hists[i::nb] for i in range(nb)]
    outs = C.run_impl_parallel('c04_impl.py', [{'mode': 'history', 'histories': bt} for bt in batches], timeout=timeout)
    res = [None] * len(hists)
    for bi, o in enumerate(outs):
        for k, r in enumerate(o['histories']):
            res[bi + k * nb] = r
    return res


def check_histories(ctx, cc_header):
    """multi-call histories inside one implementation process: every result, as the caller holds it after the LAST call of
    the history, must satisfy match_ok for its own call; caller-owned inputs must be unchanged"""
    rng = ctx.rng
    hists = [h for h in (history_cases(rng) for _ in range(ctx.n(12, 200))) if h and len(h) >= 2]
    hists += [h for h in (inplace_history(rng) for _ in range(ctx.n(12, 250))) if h and len(h) >= 2]
    hres = run_histories(hists)
    terms, where = [], []
    for hi, (h, rs) in enumerate(zip(hists, hres)):
        for ci, (c, r) in enumerate(zip(h, rs)):
            if not r.get('inputs_unchanged', True):
                ctx.violation('C04:history:inputs-modified', 'spherematch modified a caller-owned coordinate array (call %d of a history)' % ci,
                              {'kind': 'failing-input', 'history': h, 'call_index': ci}, True)
            if 'ok' not in r:
                ctx.violation('C04:history:raise:%s' % r.get('err'),
                              'call %d of a %d-call history (%s) raised %s (%s); the same call made alone is checked by the ordinary families' % (
                                  ci, len(h), c.get('history_kind'), r.get('err'), r.get('msg', '')[:60]),
                              {'kind': 'failing-input', 'history': h, 'call_index': ci, 'impl_result': {k: v for k, v in r.items() if k != 'sep'}}, True)
                continue
            if near_threshold(c, r):
                continue
            terms.append(case_term(c, r, with_rec=False))
            where.append((hi, ci))
    cc = C.CoqCases(ctx.work, cc_header, 'run_cases', shard=max(4, len(terms) // (2 * C.NPROC) + 1))
    verdicts = cc.run(terms, tag='hist') if terms else []
    bad = 0
    seen = set()
    for (hi, ci), v in zip(where, verdicts):
        if v == 0:
            continue
        bad += 1
        h, r = hists[hi], hres[hi][ci]
        overwritten = r.get('immediate') != r.get('ok')
        sig = 'C04:history:%s' % ('result-overwritten-by-later-call' if overwritten else (
            'stale-state-for-refilled-arrays' if r.get('reused') else 'result-depends-on-earlier-calls'))
        if sig in seen:
            continue
        seen.add(sig)
        ctx.violation(sig, 'call %d of a %d-call history (%s) in one process: the result the caller holds after the last call is rejected by '
                           'match_ok (%s)' % (ci, len(h), h[ci].get('history_kind'),
                                              'it was correct when returned and changed afterwards' if overwritten else 'already wrong when returned'),
                      {'kind': 'failing-input', 'history': h, 'call_index': ci, 'held_result': r.get('ok'), 'result_when_returned': r.get('immediate'),
                       'diagnosis': diagnose(h[ci], r), 'verdict': v,
                       'meaning': 'every call of the history is an admissible input on its own; match_ok (C04_match_ok_iff) is evaluated in Coq on '
                                  'the arrays the caller holds after the last call against the brute-force table of that call'}, True)
    ctx.coverage['histories'] = {'histories': len(hists), 'calls_checked_in_coq': len(terms), 'rejected': bad,
                                 'calls_on_refilled_array_objects': sum(1 for rs in hres for r in rs if r.get('reused')),
                                 'kinds': sorted(set(h[0].get('history_kind') for h in hists))}


def run_batch(cases):
    nb = min(C.NPROC, max(1, len(cases)))
    batches = [cases[i::nb] for i in range(nb)]
    outs = C.run_impl_parallel('c04_impl.py', batches, timeout=1500)
    results = [None] * len(cases)
    for bi, o in enumerate(outs):
        for k, r in enumerate(o['results']):
            results[bi + k * nb] = r
    return results, outs[0]


def correspond(ctx, proof_ok=True):
    ok, log = C.coq_make(['C04/Model.vo', 'C04/SceneModel.vo'])
    if not ok:
        raise RuntimeError('C04/Model.v / C04/SceneModel.v do not build:\n' + log[-2000:])
    rng = ctx.rng
    n_per = ctx.n(32, 700)
    # development aid: VERIF_FAMILIES=crowd,history restricts the run to the named families ('arc-screen', 'history',
    # 'edges', 'convex', 'threshold' name the derived phases); unset (the normal case) = everything
    only = set(x for x in os.environ.get('VERIF_FAMILIES', '').split(',') if x)
    want = lambda f: not only or f in only      # noqa: E731
    if only:
        ctx.coverage['families_restricted_to'] = sorted(only)
    cases = []
    for fam in FAMILIES:
        if fam in ('edges', 'threshold', 'convex') or not want(fam):
            continue
        for _ in range({'smallchunk': ctx.n(60, 1200), 'polebound': ctx.n(8, 100), 'dtype': ctx.n(16, 300), 'arc': ctx.n(12, 300), 'near': ctx.n(16, 300), 'selfmatch': ctx.n(20, 300), 'wrapped': ctx.n(24, 400), 'widecap': ctx.n(24, 300),
                        'wider': ctx.n(12, 300), 'crowd': ctx.n(4, 60), 'layout': ctx.n(16, 400), 'argtype': ctx.n(14, 300)}.get(fam, n_per)):
            c = gen_case(rng, fam) if fam != 'crowd' else crowd_case(rng, ctx.thorough)
            if admissible(c):
                cases.append(c)
    # arcs straddling RA 0/360, screened in volume by an uncertified brute-force comparison inside the implementation
    # process; every suspicious case goes through the full recorded run and the Coq evaluation like any other case
    arcs = [c for c in (arc_case(rng) for _ in range(ctx.n(3000, 60000) if want('arc-screen') else 0)) if admissible(c)]
    arc_sus = screen_batch(arcs)
    cases += [arcs[k] for k in arc_sus[:8]]
    ctx.coverage['screened'] = {'arc_cases': len(arcs), 'arc_suspicious': len(arc_sus),
                                'rule': 'screening = real spherematch call (maxmatch=0) whose pair set is compared, uncertified, with '
                                        'the brute-force pair set inside the implementation process'}
    results, info = run_batch(cases)
    ctx.coverage['pydl_file'] = info['pydl_file']
    ctx.coverage['ramargin_test_in_source'] = info.get('ramargin_test')
    # second phase: edge placements and exact-threshold cases derived from the first runs
    extra = []
    for c, r in zip(cases, results):
        if c['fam'] in ('pairs', 'seam', 'allsky', 'pole') and len(extra) < ctx.n(50, 1000) and want('edges'):
            e = edge_variant(rng, c, r)
            if e is not None and admissible(e):
                extra.append(e)
    ncv = 0
    for c, r in zip(cases, results):
        if c['fam'] in ('highdec', 'allsky', 'pole', 'polebound') and ncv < ctx.n(40, 800) and want('convex'):
            e = convex_variant(rng, c, r)
            if e is not None and admissible(e):
                extra.append(e)
                ncv += 1
    nthr = 0
    for c, r in zip(cases, results):
        if nthr >= ctx.n(16, 200) or not want('threshold'):
            break
        if c['fam'] in ('pairs', 'dups') and 'ok' in r:
            vals = sorted(set(s for row in r['sep'] for s in row if 0.2 * c['L'] < s < 5 * c['L']))
            if vals:
                t = dict(c)
                t['L'] = rng.choice(vals)
                t['fam'] = 'threshold'
                if t['chunksize'] is not None:
                    t['chunksize'] = max(t['chunksize'], 4.0 * t['L'])
                extra.append(t)
                nthr += 1
    r2, _ = run_batch(extra)
    cases += extra
    results += r2

    terms, idx = [], []
    skipped = 0
    dist = {}
    for n, (c, r) in enumerate(zip(cases, results)):
        key = '%s:%s:mm%d:%s' % (c['fam'], chunk_class(c), c['maxmatch'], 'ok' if 'ok' in r else r.get('err'))
        dist[key] = dist.get(key, 0) + 1
        if 'ok' not in r:
            msg = r.get('msg', '')
            cls = 'cosDecMin' if 'cosDecMin' in msg else (msg.split(' ')[0][:24] if msg else '')
            ctx.violation('C04:raise:%s:%s' % (r.get('err'), cls),
                          'spherematch raised %s (%s) on an admissible input (family %s, %s)' % (r.get('err'), msg[:80], c['fam'], chunk_class(c)),
                          {'kind': 'failing-input', 'call': c, 'impl_result': {k: v for k, v in r.items() if k != 'sep'},
                           'meaning': 'the property promises a match list for every admissible input; the call raised instead'}, True)
            continue
        if c['fam'] not in ('threshold', 'near') and near_threshold(c, r):
            skipped += 1
            continue
        terms.append('(%s, %s)' % (case_term(c, r), scene_term(r)))
        idx.append(n)
    size = [len(t) for t in terms]
    cc = C.CoqCases(ctx.work, HEADER2, 'run_fulls', shard=max(4, len(terms) // (3 * C.NPROC) + 1))
    # the `crowd` cases cost 5-40 s of Coq each: they are evaluated one per shard, started before (and running alongside) the others
    heavy = [k for k, n in enumerate(idx) if cases[n]['fam'] == 'crowd']
    light = [k for k in range(len(terms)) if cases[idx[k]]['fam'] != 'crowd']
    from concurrent.futures import ThreadPoolExecutor
    cch = C.CoqCases(ctx.work, HEADER2, 'run_fulls', shard=1)
    with ThreadPoolExecutor(max_workers=1) as ex:
        fut = ex.submit(cch.run, [terms[k] for k in heavy], 'heavy') if heavy else None
        lv = cc.run([terms[k] for k in light]) if light else []
        hv = fut.result() if fut else []
    full = [None] * len(terms)
    for k, v in zip(light, lv):
        full[k] = v
    for k, v in zip(heavy, hv):
        full[k] = v
    verdicts = [v & 3 for v in full]
    scene_bits = [v >> 2 for v in full]
    ctx.coverage['coq_eval_s'] = round(cc.coq_seconds, 1)
    nrec = sum(1 for n in idx if (results[n].get('rec') or {}).get('perm') is not None)
    npairs = sum(len(results[n]['ok']['m1']) for n in idx)
    ctx.coverage.update({
        'evaluations': len(terms),
        'distinct_nontrivial': len(set(terms)),
        'rule': 'one evaluation = one spherematch call whose output is (a) judged by the certified checker match_ok in Coq against the '
                'full brute-force separation table (implementation\'s own gcirc, exact rationals) and (b) reproduced exactly, together with '
                'chunkList, by the Coq model from the recorded getbounds()/get()/argsort data; raised calls are counted as violations, not evaluations',
        'cases_by_family_chunk_maxmatch_outcome': dist,
        'with_recorded_internals': nrec,
        'returned_pairs_total': npairs,
        'skipped_near_threshold': skipped,
        'largest_case_chars': max(size) if size else 0,
        'samples': [dict(cases[n], impl={k: v for k, v in results[n].items() if k not in ('sep', 'rec')}) for n in idx[:3]],
    })
    # the scene of every case whose grid is small enough to ship (<= 250 bound values): the exact-rational models of
    # getbounds / get against the recorded results, the decided side conditions scene_ok of C04_coverage_from_margins and
    # the per-case decision margins_check of what is left of the geometry
    with_scene = [k for k, t in enumerate(terms) if 'mkscene' in t]
    npts = sum(len(results[idx[k]]['rec']['bounds']) for k in with_scene)
    nget = sum(len(results[idx[k]]['rec']['cells']) for k in with_scene)
    bitcount = {b: sum(1 for k in with_scene if scene_bits[k] & b) for b in (1, 2, 4, 8, 16)}
    ctx.coverage['getbounds_walk_model'] = {
        'cases': len(with_scene), 'getbounds_calls_compared': npts, 'get_calls_compared': nget,
        'disagreements_getbounds': bitcount[1], 'disagreements_get': bitcount[2],
        'rule': 'scene_bounds / scene_cell (getbounds_model, get_model: cell_index, dec_down/dec_up, ra_down/ra_up on exact rationals of '
                'the recorded bounds, rotated coordinates and raMargin) must return the recorded getbounds results (None where it raised) '
                'and the recorded get results; cases with more than 250 bound values are not shipped'}
    ctx.coverage['coverage_certified'] = {
        'cases_with_scene': len(with_scene), 'scene_sharp_false': bitcount[4], 'margins_check_false': bitcount[8],
        'scene_ok_false_only_conservative_part': bitcount[16],
        'not_certified_by_family': {f: sum(1 for k in with_scene if scene_bits[k] and cases[idx[k]]['fam'] == f)
                                    for f in sorted(set(cases[idx[k]]['fam'] for k in with_scene if scene_bits[k]))},
        'certified': sum(1 for k in with_scene if scene_bits[k] == 0),
        'rule': 'certified = scene_bounds and scene cells equal the recorded ones, scene_ok = true and margins_check = true, all evaluated '
                'in Coq: by C04_coverage_from_margins + C04_margins_check_sound `coverage` HOLDS for the recorded getbounds/get data of this '
                'call (the data model_agrees reproduces the output from), so C04_spherematch_spec applies to it without hypothesis'}
    seen_scene = set()
    for k in with_scene:
        sb = scene_bits[k]
        if not sb:
            continue
        n = idx[k]
        c, r = cases[n], results[n]
        if sb & 3:
            sig = 'C04:model-mismatch:getbounds-walk' if sb & 1 else 'C04:model-mismatch:get'
            if sig not in seen_scene:
                seen_scene.add(sig)
                ctx.violation(sig, 'the exact-rational model of %s differs from the recorded results (family %s)' % (
                                  'the getbounds walks' if sb & 1 else 'chunks.get', c['fam']),
                              {'kind': 'broken-correspondence', 'item': 'C04.Model.getbounds_model / C04.SceneModel.get_model (dec_down/dec_up/ra_down/ra_up/cell_index)',
                               'call': c, 'recorded_bounds': r['rec']['bounds'], 'gbargs': r['rec']['gbargs'], 'recorded_cells': r['rec']['cells'],
                               'getargs': r['rec']['getargs'], 'scene_bits': sb,
                               'note': 'either the source of getbounds/get changed, or a double-precision evaluation landed on the other side '
                                       'of a comparison than the exact one'}, False)
        if sb & 4:
            sig = 'C04:grid-malformed:%s' % sig_class(c)
            if sig not in seen_scene:
                seen_scene.add(sig)
                ctx.violation(sig, 'scene_sharp = false: the grid this call built is not well formed (family %s, L=%g, chunksize=%s): non-monotone '
                                   'or empty bounds, a list-1 point outside the bounds of the cell get() computes for it, or a rotated right ascension '
                                   'outside [0, 360)' % (c['fam'], c['L'], c['chunksize']),
                              {'kind': 'broken-correspondence', 'item': 'C04.SceneModel.scene_sharp (part of the hypothesis scene_ok of C04_coverage_from_margins)', 'call': c,
                               'nRa': r['rec']['nRa'], 'decBounds': r['rec']['decBounds'], 'raOffset': r['rec']['raOffset'], 'scene_bits': sb,
                               'note': 'no pair is known to be lost on this input (that would be reported with a failing input by match_ok); '
                                       'the proof of coverage does not apply to this grid'}, False)
        if sb & 8 and c['fam'] not in ('near', 'threshold'):
            # (the near / threshold families put pairs within rounding of L: there gcirc and the margins may disagree)
            sig = 'C04:margins:%s' % sig_class(c)
            if sig not in seen_scene:
                seen_scene.add(sig)
                ctx.violation(sig, 'margins_check = false: a pair whose separation (gcirc) is below the match length is not within the declination '
                                   'margin / the RA margin on the circle that getbounds used for the list-2 point (family %s)' % c['fam'],
                              {'kind': 'broken-correspondence', 'item': 'C04.SceneModel.margins_sound (C04_dec_margin_strict / C04_ra_margin_circ)', 'call': c,
                               'gbargs': r['rec']['gbargs'], 'getargs': r['rec']['getargs'], 'scene_bits': sb}, False)
    # what decides the grid (chunk size, rarange/raOffset, wrapra, nDec/decBounds, per-slice nRa/raBounds with the embrace and
    # polar clauses): the exact-rational model of C04/SceneModel.v (reference pieces = the generated ones) against the recorded values
    gterms, gidx = [], []
    per_fam = {}
    for n in idx:
        # a bounded sample per family (the terms are long: every coordinate is a 53-bit literal)
        if per_fam.get(cases[n]['fam'], 0) >= ctx.n(8, 150):
            continue
        t = grid_term(cases[n], results[n])
        if t is not None:
            gterms.append(t)
            gidx.append(n)
            per_fam[cases[n]['fam']] = per_fam.get(cases[n]['fam'], 0) + 1
    gcc = C.CoqCases(ctx.work, HEADER2, 'run_grids', shard=max(4, len(gterms) // (2 * C.NPROC) + 1))
    gv = gcc.run(gterms, tag='grid') if gterms else []
    GBITS = {1: 'chunksize', 2: 'raOffset', 4: 'raMin-raMax', 8: 'nDec-decBounds', 16: 'nRa-raBounds', 32: 'wrapra-currRa'}
    undecided = sum(1 for v in gv if v & 64)
    ctx.coverage['grid_model'] = {
        'cases': len(gterms), 'disagreements': sum(1 for v in gv if v & 63 and not v & 64), 'near_threshold_undecided': undecided,
        'slices_compared': sum(len(results[n]['rec']['nRa']) for n in gidx),
        'rule': 'eff_chunksize, rarange_model (raOffset compared exactly), getraminmax_model, init_decBounds, init_slice per declination '
                'slice (nRa exactly, raBounds ends to 1e-9) and ref_currRa (wrapra) of every point of both lists, evaluated in exact rationals '
                'on the doubles of the call, against what the implementation computed; cos() values are taken from the implementation; a case '
                'in which an exact floor argument or comparison lies within 1e-9 of its threshold is undecided'}
    for n, v in zip(gidx, gv):
        if v & 63 and not v & 64:
            what = '+'.join(nm for b_, nm in GBITS.items() if v & b_)
            ctx.violation('C04:model-mismatch:grid:%s' % what,
                          'the exact-rational model of what decides the grid (C04/SceneModel.v) differs from the implementation in: %s '
                          '(family %s, L=%g, chunksize=%s)' % (what, cases[n]['fam'], cases[n]['L'], cases[n]['chunksize']),
                          {'kind': 'broken-correspondence', 'item': 'C04.SceneModel.run_grid (%s)' % what, 'call': cases[n], 'verdict': v,
                           'recorded': {k: results[n]['rec'].get(k) for k in ('minSize', 'raOffset', 'raMin', 'raMax', 'nDec', 'nRa', 'decBounds', 'cos0')}},
                          False)
            break
    if want('history'):
        check_histories(ctx, HEADER)
    seen = set()
    for n, v in zip(idx, verdicts):
        if v == 0:
            continue
        c, r = cases[n], results[n]
        dg = diagnose(c, r)
        if v & 2:
            what = 'missing-pair' if dg.get('missing') else ('extra-pair' if dg['extra'] else (
                'wrong-distance' if dg['wrong_distance'] else ('unsorted' if dg['unsorted'] else ('duplicate' if dg['dup'] else (
                    'point-used-more-than-maxmatch-times' if dg.get('overused') else 'greedy-rule')))))
            sig = 'C04:%s:%s:property' % (what, sig_class(c))
            if sig in seen:
                continue
            seen.add(sig)
            ctx.violation(sig, 'spherematch output rejected by match_ok (%s; family %s, L=%g, chunksize=%s, maxmatch=%d)' % (
                what, c['fam'], c['L'], c['chunksize'], c['maxmatch']),
                {'kind': 'failing-input', 'call': c, 'impl_result': {k: x for k, x in r.items() if k != 'sep'},
                 'diagnosis': dg, 'verdict': v,
                 'meaning': 'verdict bit 2: C04.Model.match_ok (certified by C04_match_ok_iff) rejects the returned triple lists against the '
                            'brute-force separation table; bit 1: the Coq model fed with the recorded getbounds/get/argsort data does not reproduce the output'},
                True)
        else:
            sig = 'C04:model-mismatch:%s:%s' % (c['fam'] if c['fam'] == 'threshold' else 'any', sig_class(c))
            if sig in seen:
                continue
            seen.add(sig)
            ctx.violation(sig, 'Coq model (assign_model/candidates/greedy on recorded data) does not reproduce spherematch output or chunkList '
                               '(family %s); the checker accepts the output' % c['fam'],
                          {'kind': 'broken-correspondence', 'item': 'C04.Model.spherematch_model / assign_model', 'call': c,
                           'impl_result': {k: x for k, x in r.items() if k != 'sep'}, 'verdict': v}, False)


def replay(ctx, rep):
    if rep.get('history'):
        h = rep['history']
        rs = C.run_impl('c04_impl.py', {'mode': 'history', 'histories': [h]})['histories'][0]
        for ci, (c, r) in enumerate(zip(h, rs)):
            print('call %d: L=%r chunksize=%r maxmatch=%r n1=%d n2=%d' % (ci, c['L'], c['chunksize'], c['maxmatch'], len(c['ra1']), len(c['ra2'])))
            print('   when returned  :', r.get('immediate', r.get('err')))
            print('   after last call:', r.get('ok'))
            if 'ok' in r:
                print('   diagnosis of the held result:', {k: v for k, v in diagnose(c, r).items() if v})
        return 0
    c = rep.get('call')
    if not c:
        print('replay file has no call (kind=%s, item=%s)' % (rep.get('kind'), rep.get('item')))
        return 2
    out = C.run_impl('c04_impl.py', [c])['results'][0]
    print('call    : spherematch(ra1, dec1, ra2, dec2, %r, chunksize=%r, maxmatch=%r) with' % (c['L'], c['chunksize'], c['maxmatch']))
    for k in ('ra1', 'dec1', 'ra2', 'dec2'):
        print('  %s = %r' % (k, c[k]))
    if 'ok' not in out:
        print('impl    : raised %s: %s' % (out.get('err'), out.get('msg')))
        return 0
    print('impl    :', out['ok'])
    print('diagnosis (brute force with the implementation\'s gcirc):', diagnose(c, out))
    cc = C.CoqCases(ctx.work, HEADER2, 'run_fulls', shard=1)
    print('coq verdict (0 ok, +1 model differs, +2 match_ok rejects; scene: +4 getbounds model, +8 get model, +16 grid malformed, '
          '+32 margins_check fails, +64 coverage not certified by scene_ok):', cc.run(['(%s, %s)' % (case_term(c, out), scene_term(out))]))
    return 0
