(* C18 -- specification side (hand-written, independent of Generated/): spherical geometry over R.
   Definitions only. *)
From Coq Require Import Reals ZArith QArith.
Open Scope R_scope.

Definition V3 := (R * R * R)%type.

Definition dot (p q : V3) : R :=
  let '(a, b, c) := p in let '(d, e, f) := q in a * d + b * e + c * f.

(* unit vector of declination d, right ascension a (radians) *)
Definition vec (d a : R) : V3 := (cos d * cos a, cos d * sin a, sin d).

(* haversine of the separation of (d1,a1) and (d2,a2) *)
Definition hav (d1 a1 d2 a2 : R) : R :=
  sin ((d2 - d1) / 2) * sin ((d2 - d1) / 2) + cos d1 * cos d2 * (sin ((a2 - a1) / 2) * sin ((a2 - a1) / 2)).

(* great-circle distance in radians, haversine form and the independent vector (dot product) form *)
Definition gcirc_rad (a1 d1 a2 d2 : R) : R := 2 * asin (sqrt (hav d1 a1 d2 a2)).
Definition gcirc_vec (a1 d1 a2 d2 : R) : R := acos (dot (vec d1 a1) (vec d2 a2)).

(* form that the Interval tactic can evaluate (no asin there) *)
Definition atan_form (h : R) : R := 2 * atan (sqrt h / sqrt (1 - h)).

Definition deg (x : R) : R := x * PI / 180.                 (* degrees -> radians *)
Definition arcsec_of_rad (x : R) : R := x * 180 / PI * 3600. (* radians -> arcseconds *)

(* documented unit conventions of gcirc: 0 radians; 1 RA in hours, Dec in degrees, result in arcsec;
   2 degrees, result in arcsec *)
Definition gcirc_S (units : Z) (ra1 dec1 ra2 dec2 : R) : R :=
  match units with
  | 0%Z => gcirc_rad ra1 dec1 ra2 dec2
  | 1%Z => arcsec_of_rad (gcirc_rad (deg (15 * ra1)) (deg dec1) (deg (15 * ra2)) (deg dec2))
  | 2%Z => arcsec_of_rad (gcirc_rad (deg ra1) (deg dec1) (deg ra2) (deg dec2))
  | _ => 0
  end.

(* the haversine and the two unit vectors in terms of the caller's arguments, per unit convention *)
Definition hav_S (units : Z) (ra1 dec1 ra2 dec2 : R) : R :=
  match units with
  | 0%Z => hav dec1 ra1 dec2 ra2
  | 1%Z => hav (deg dec1) (deg (15 * ra1)) (deg dec2) (deg (15 * ra2))
  | 2%Z => hav (deg dec1) (deg ra1) (deg dec2) (deg ra2)
  | _ => 0
  end.
Definition pt_S (units : Z) (ra dec : R) : V3 :=
  match units with
  | 0%Z => vec dec ra
  | 1%Z => vec (deg dec) (deg (15 * ra))
  | 2%Z => vec (deg dec) (deg ra)
  | _ => vec 0 0
  end.

(* rotation by the angle i about the x axis (the node direction) *)
Definition rotx (i : R) (v : V3) : V3 :=
  let '(x, y, z) := v in (x, y * cos i - z * sin i, y * sin i + z * cos i).

(* (mu,nu) -> equatorial and back, as rigid rotations of unit vectors in the frame whose x axis is the node *)
Definition munu_to_radec_S (mu nu incl node : R) : V3 := rotx incl (vec nu (mu - node)).
Definition radec_to_munu_S (ra dec incl node : R) : V3 := rotx (- incl) (vec dec (ra - node)).

(* normal of the great circle nu = 0 of inclination i (node frame) *)
Definition gc_normal (i : R) : V3 := (0, - sin i, cos i).

(* documented SDSS survey geometry: stripe n is centred on eta = 2.5 n - 57.5 (southern stripes, n > 46, minus 180),
   and its great circle is inclined by eta + 32.5 degrees *)
Definition incl_doc (stripe : Z) : Q :=
  (if (stripe <=? 46)%Z then (5 # 2) * inject_Z stripe - (115 # 2) + (65 # 2)
   else (5 # 2) * inject_Z stripe - (115 # 2) - (180 # 1) + (65 # 2))%Q.

(* two-argument arctangent, as numpy defines it away from the origin *)
Definition atan2 (y x : R) : R :=
  if Rlt_dec 0 x then atan (y / x)
  else if Rlt_dec x 0 then (if Rle_dec 0 y then atan (y / x) + PI else atan (y / x) - PI)
  else if Rlt_dec 0 y then PI / 2 else if Rlt_dec y 0 then - (PI / 2) else 0.

(* Mangle conventions (degrees): azimuth phi, polar angle theta (latitude = false) or latitude 90 - theta *)
Definition angles_to_x_S (latitude : bool) (phi theta : R) : V3 :=
  if latitude then vec (deg theta) (deg phi)
  else (cos (deg phi) * sin (deg theta), sin (deg phi) * sin (deg theta), cos (deg theta)).

(* componentwise closeness of two vectors (used by the enclosure cases) *)
Definition vdist_le (v w : V3) (tol : R) : Prop :=
  let '(a, b, c) := v in let '(d, e, f) := w in Rabs (a - d) <= tol /\ Rabs (b - e) <= tol /\ Rabs (c - f) <= tol.

(* ---- round 5: branch logic around the formulas ---- *)

(* documented eta of a stripe (survey latitude of its centre): 2.5 n - 57.5, southern stripes (n > 46) minus 180 *)
Definition eta_doc (stripe : Z) : Q :=
  (if (stripe <=? 46)%Z then (5 # 2) * inject_Z stripe - (115 # 2)
   else (5 # 2) * inject_Z stripe - (115 # 2) - (180 # 1))%Q.

(* a longitude reduced to [0, 2 PI): what astropy's Longitude (wrap_angle = 360 deg) does to mu and RA *)
Definition wrap_turn (x : R) : R := x - 2 * PI * IZR (Int_part (x / (2 * PI))).

(* what numpy needs for x_to_angles to return a finite polar angle: a non-zero divisor and an arccos argument in [-1, 1]
   (over R, Coq's division by zero and acos outside [-1, 1] are total, so the model alone cannot show a NaN) *)
Definition x_to_angles_defined (x0 x1 x2 : R) : Prop :=
  let r := x0 * x0 + x1 * x1 + x2 * x2 in r <> 0 /\ -1 <= x2 / r <= 1.
