(* C06, storage types: the packing expressions evaluated in NumPy's fixed-width arithmetic (Lib/NumpyInt.v) on
   array arguments of ANY integer type, using the typed expressions the translator extracts
   (objid_texpr, specobjid_texpr, mjd_array_texpr keep the astype casts that the Z-valued forms erase).
   Definitions only -- proofs are in C06/TypedProofs.v. *)
From Coq Require Import ZArith List Bool.
Import ListNotations.
From PV Require Import Lib.Bits Lib.NumpyInt Generated.SdssIds C06.Model.
Open Scope Z_scope.

(* outcome of packing one row given as (storage type, value) pairs *)
Inductive trow :=
| TOk (t : ity) (id : Z)
| TValueError
| TOtherError     (* OverflowError: a literal does not fit the array's type *)
| TSkip.          (* mixed operand types: outside the typed model *)

Definition of_tres (r : tres) : trow :=
  match r with TVal t z => TOk t z | TOverflow => TOtherError | TUnmodelled => TSkip end.

(* sdss_objid, all seven arguments arrays: range checks on the values (exact comparisons), then the expression *)
Definition objid_typed_row (env : list (ity * Z)) : trow :=
  if checks_ok objid_checks (map snd env) then of_tres (teval env objid_texpr) else TValueError.

Definition set_nth {A} (i : nat) (x : A) (l : list A) : list A := firstn i l ++ x :: skipn (S i) l.

(* sdss_specobjid, all arguments arrays: the MJD conversion first (in the array's own type unless the source
   casts), then the range checks on the converted values, then the expression *)
Definition specobjid_typed_row (env : list (ity * Z)) : trow :=
  match teval env mjd_array_texpr with
  | TVal t m =>
      let env' := set_nth 2 (t, m) env in
      if checks_ok specobjid_checks (map snd env') then of_tres (teval env' specobjid_texpr) else TValueError
  | TOverflow => TOtherError
  | TUnmodelled => TSkip
  end.

Definition intervals (n : nat) (checks : list (nat * Z * Z)) : list (Z * Z) :=
  map (fun i => match find (fun c => Nat.eqb (fst (fst c)) i) checks with
                | Some (_, lo, hi) => (lo, hi) | None => (1, 0) end) (seq 0 n).

(* ---- correspondence cases: one row, every argument a 1-element array of the given type ---- *)
Inductive tcase :=
| CTObjid (ts : list ity) (vs : list Z) (expect : res)
| CTSpec (ts : list ity) (vs : list Z) (expect : res).   (* vs: plate fiber TRUE-mjd run2d line index *)

Definition res_of_trow (r : trow) : option res :=
  match r with TOk _ id => Some (Ok [id]) | TValueError => Some ValueError | TOtherError => Some OtherError
             | TSkip => None end.

(* verdict: +1 typed model differs from the implementation; +2 the implementation contradicts the documented
   behaviour for these VALUES (whatever their storage type): layout when in range, ValueError otherwise *)
Definition run_tcase (c : tcase) : Z :=
  match c with
  | CTObjid ts vs expect =>
      (match res_of_trow (objid_typed_row (combine ts vs)) with
       | Some m => if eqb_res m expect then 0 else 1 | None => 0 end)
      + (if objid_doc_ranges vs then (if eqb_res expect (Ok [pack objid_table vs]) then 0 else 2)
         else (if eqb_res expect ValueError then 0 else 2))
  | CTSpec ts vs expect =>
      (match res_of_trow (specobjid_typed_row (combine ts vs)) with
       | Some m => if eqb_res m expect then 0 else 1 | None => 0 end)
      + (match vs with
         | [p; f; m; r; l; i] =>
             if specobjid_doc_ranges [p; f; m - 50000; r; l; i]
             then (if eqb_res expect (Ok [pack specobjid_table [p; f; m - 50000; r; l + i]]) then 0 else 2)
             else (if eqb_res expect ValueError then 0 else 2)
         | _ => 0 end)
  end.

Definition run_tcases (cs : list tcase) : list Z := map run_tcase cs.
