#!/usr/bin/env python3
"""Per-property status table (from registry, Props.v, evidence) for DESIGN.md."""
import json, os, re, sys
HERE = os.path.dirname(os.path.dirname(os.path.abspath(__file__)))
sys.path.insert(0, HERE)
from harness.registry import CHECKS
rows = []
for pid in sorted(CHECKS):
    low = pid.lower()
    props = os.path.join(HERE, 'coq', pid, 'Props.v')
    nthm = len(re.findall(r'^\s*Theorem\s', open(props).read(), re.M)) if os.path.exists(props) else 0
    shared = {'c02': 'c01.py', 'c09': 'c08.py', 'c10': 'c08.py'}
    tr = 'yes' if os.path.exists(os.path.join(HERE, 'translate', low + '.py')) else ('yes (shares translate/%s)' % shared[low] if low in shared else 'no')
    evp = os.path.join(HERE, 'evidence', pid + '.json')
    ax, ev, wall, known = '?', '?', '?', ''
    if os.path.exists(evp):
        e = json.load(open(evp))
        c = e['coverage']
        a = [x for x in c.get('axioms_reported', []) if x != 'Axioms' and not re.match(r'^(Uint63|PrimInt63|Coq\.Numbers\.Cyclic|Sint63|PrimFloat)', x)]
        prim = len([x for x in c.get('axioms_reported', []) if x != 'Axioms']) - len(a)
        ax = 'closed' if not c.get('axioms_reported') else ', '.join(sorted(set(x.split('.')[-1] for x in a))) + (' (+%d primitive-int specs via Interval)' % prim if prim else '')
        ev = str(c.get('evaluations'))
        wall = '%ds' % e['wall_s']
        known = ', '.join(c.get('known_findings_hit', []))
    vfiles = 0
    vlines = 0
    for d in (pid,):
        dd = os.path.join(HERE, 'coq', d)
        for f in os.listdir(dd):
            if f.endswith('.v'):
                vfiles += 1
                vlines += sum(1 for _ in open(os.path.join(dd, f)))
    rows.append('| %s | %d | %s | %s | %s | %s | %s |' % (pid, nthm, tr, ax, ev, wall, '%d files / %d lines' % (vfiles, vlines)))
print('| id | theorems in Props.v | translator | axioms (Print Assumptions, last run) | evaluations (last quick run) | wall | coq/Cxx |\n|---|---|---|---|---|---|---|')
print('\n'.join(rows))
