(* C05 -- spheregroup partitions points into friends-of-friends components.
   Property theorems only; each is closed by `exact` and followed by Print Assumptions.
   R n link a b  :=  a < n /\ b < n /\ link a b = true      (the linking relation of the n points)
   E n link      :=  clos_refl_sym_trans nat (R n link)      (chains of links) *)
From Coq Require Import ZArith List Bool Arith Relations.
Import ListNotations.
From PV Require Import C05.Model C05.Proofs.

(* soundness and completeness of the oracle `components`: same label <-> joined by a chain of links;
   labels are exactly 0..ngroups-1; groups are numbered in order of their first member *)
Theorem C05_components_spec : forall n link,
  (forall i, i < n -> nth_error (components n link) i = Some (label n link i)) /\
  (forall i j, i < n -> j < n -> (label n link i = label n link j <-> clos_refl_sym_trans nat (R n link) i j)) /\
  (forall i, i < n -> label n link i < ngroups n link) /\
  (forall g, g < ngroups n link -> exists i, i < n /\ label n link i = g) /\
  (forall i j, i < n -> j < n -> label n link i < label n link j ->
     exists i', i' < j /\ label n link i' = label n link i).
Proof.
  exact (fun n link => conj (components_nth n link) (conj (label_same_iff n link) (conj (label_range n link)
          (conj (label_onto n link) (label_order n link))))).
Qed.
Print Assumptions C05_components_spec.

(* the three list arrays describe the partition given by any labelling lab:
   multiplicity = size, first = least member (or -1), following next from first visits the members
   increasingly, each exactly once, and ends at -1 (the walk has fuel n+1 and at most n members);
   entries beyond the last group are 0 and -1 *)
Theorem C05_lists_spec : forall n lab,
  (forall g, g < n ->
     nth_error (fst (fst (lists_of n lab))) g = Some (mult_of n lab g) /\
     nth_error (snd (fst (lists_of n lab))) g = Some (first_of n lab g) /\
     nth_error (snd (lists_of n lab)) g = Some (next_of n lab g)) /\
  (forall g i, In i (members n lab g) <-> (i < n /\ lab i = g)) /\
  (forall g, mult_of n lab g = Z.of_nat (length (members n lab g))) /\
  (forall g, match members n lab g with
             | [] => first_of n lab g = (-1)%Z
             | i :: _ => first_of n lab g = Z.of_nat i /\ forall j, j < n -> lab j = g -> i <= j
             end) /\
  (forall g, walk (S n) (next_of n lab) (first_of n lab g) = members n lab g) /\
  (forall ng g, (forall i, i < n -> lab i < ng) -> ng <= g ->
     mult_of n lab g = 0%Z /\ first_of n lab g = (-1)%Z).
Proof.
  exact (fun n lab => conj (lists_of_nth n lab) (conj (members_spec n lab) (conj (mult_size n lab)
          (conj (first_least n lab) (conj (walk_members n lab) (beyond_groups n lab)))))).
Qed.
Print Assumptions C05_lists_spec.

(* non-vacuity *)
Example C05_example :
  spec_output 5 (fun i j => Nat.eqb i j || (Nat.eqb i 1 && Nat.eqb j 4) || (Nat.eqb i 3 && Nat.eqb j 0)) =
  ([0; 1; 2; 0; 1]%Z, ([2; 2; 1; 0; 0]%Z, [0; 1; 2; -1; -1]%Z, [3; 4; -1; -1; -1]%Z)).
Proof. vm_compute. reflexivity. Qed.
