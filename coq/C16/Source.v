(* C16 -- the integer expressions extracted from spec1d.py (Generated/Readspec.v, rewritten on every run by
   translate/c16.py) are the ones the hand-written model C16/Model.v uses.  These lemmas hold or fail with the source. *)
From Coq Require Import ZArith List Bool Arith Lia ZifyBool.
Import ListNotations.
From PV Require Import Generated.Readspec C16.Model.
Open Scope Z_scope.

Ltac split_ifs :=
  repeat match goal with
         | |- context [if ?c then _ else _] => let E := fresh "E" in destruct c eqn:E
         end.

(* ---- plate-MJD keys *)
Lemma src_key p m : gen_key p m = key p m.
Proof. reflexivity. Qed.
Lemma src_key_plate k : gen_key_plate k = key_plate k.
Proof. reflexivity. Qed.
Lemma src_key_mjd k : gen_key_mjd k = key_mjd k.
Proof. reflexivity. Qed.

(* ---- row selection: data[thisfiber-1] for images / plug-map, photoPlate and spZbest *)
Lemma src_rows fiber :
  gen_img_row fiber = fiber - 1 /\ gen_photo_row fiber = fiber - 1 /\ gen_z_row (gen_zbest_fiber fiber) = fiber - 1.
Proof. unfold gen_img_row, gen_photo_row, gen_z_row, gen_zbest_fiber. repeat split; lia. Qed.

(* the model's row1 is "index with the extracted expression, refuse a negative index" *)
Lemma src_row1 rows fiber :
  row1 rows fiber = if gen_img_row fiber <? 0 then None else nth_error rows (Z.to_nat (gen_img_row fiber)).
Proof.
  unfold row1. destruct (src_rows fiber) as [-> _].
  destruct (fiber <? 1) eqn:E1; destruct (fiber - 1 <? 0) eqn:E2; try reflexivity; lia.
Qed.

(* ---- spec_append: offsets, width, and the two slice assignments *)
Lemma src_nadd s : Z.of_nat (nadd1_of s) = gen_sa_nadd1 s /\ Z.of_nat (nadd2_of s) = gen_sa_nadd2 s.
Proof. unfold nadd1_of, nadd2_of, gen_sa_nadd1, gen_sa_nadd2. split; split_ifs; lia. Qed.

Lemma src_maxpix (a b : img) s :
  Z.of_nat (Nat.max (width a + nadd1_of s) (width b + nadd2_of s)) =
  gen_sa_maxpix (Z.of_nat (width a)) (Z.of_nat (width b)) s.
Proof.
  destruct (src_nadd s) as [H1 H2].
  assert (gen_sa_maxpix (Z.of_nat (width a)) (Z.of_nat (width b)) s =
          Z.max (Z.of_nat (width a) + gen_sa_nadd1 s) (Z.of_nat (width b) + gen_sa_nadd2 s)) as -> by reflexivity.
  lia.
Qed.

(* spec3[0:nrows1, nadd1:nadd1+npix1] = spec1 ; spec3[nrows1:nrows1+nrows2, nadd2:nadd2+npix2] = spec2 ;
   spec3 has nrows1+nrows2 rows: exactly the blocks the model's  map (place nadd1 maxpix) a ++ map (place nadd2 maxpix) b  fills *)
Lemma src_blocks n1 n2 w1 w2 s :
  gen_sa_block1 n1 n2 w1 w2 s = (0, n1, gen_sa_nadd1 s, gen_sa_nadd1 s + w1) /\
  gen_sa_block2 n1 n2 w1 w2 s = (n1, n1 + n2, gen_sa_nadd2 s, gen_sa_nadd2 s + w2) /\
  gen_sa_nrows n1 n2 = n1 + n2.
Proof. repeat split. Qed.

(* ---- znum: the row of spZall that the source reads is (fiber-1)*nper + znum - 1 (0-based), the model's row *)
Lemma src_znum_row fiber nper znum : gen_z_row (gen_znum_fiber fiber nper znum) = (fiber - 1) * nper + znum - 1.
Proof. unfold gen_z_row, gen_znum_fiber. lia. Qed.

Lemma src_zall_row c znum f fiber :
  ext1 (WZall c znum) f fiber =
  let i := gen_z_row (gen_znum_fiber fiber (f_nper f) znum) in
  if i <? 0 then None else nth_error (nth c (f_zall f) []) (Z.to_nat i).
Proof.
  cbv zeta. rewrite src_znum_row. cbn [ext1]. unfold row1.
  replace ((fiber - 1) * f_nper f + znum - 1 <? 0) with ((fiber - 1) * f_nper f + znum <? 1) by lia.
  reflexivity.
Qed.

(* ---- number_of_fibers: threshold and fibre count *)
Lemma src_nfiber : gen_nfiber_boss_mjd = boss_first_mjd /\ gen_nfiber_sdss = sdss_nfiber.
Proof. split; reflexivity. Qed.

(* ---- format strings and environment variable names *)
Definition name_SPECTRO_REDUX : list Z := [83; 80; 69; 67; 84; 82; 79; 95; 82; 69; 68; 85; 88].
Definition name_BOSS_SPECTRO_REDUX : list Z := [66; 79; 83; 83; 95; 83; 80; 69; 67; 84; 82; 79; 95; 82; 69; 68; 85; 88].

Lemma src_formats :
  gen_dir_plate_width = plate_width /\ gen_pmjd_plate_width = plate_width /\ gen_pmjd_mjd_width = mjd_width /\
  gen_pmjd_sep = [dash] /\
  (gen_pre_spplate, gen_suf_spplate) = (pre_spplate, dot_fits) /\
  (gen_pre_spzbest, gen_suf_spzbest) = (pre_spzbest, dot_fits) /\
  (gen_pre_spzall, gen_suf_spzall) = (pre_spzall, dot_fits) /\
  (gen_pre_photoplate, gen_suf_photoplate) = (pre_photoplate, dot_fits) /\
  gen_env_int_run2d = name_SPECTRO_REDUX /\ gen_env_other_run2d = name_BOSS_SPECTRO_REDUX.
Proof. repeat split. Qed.

(* the file name of the model, spelled with the extracted pieces *)
Lemma src_file_name plate mjd :
  file_name pre_spplate plate mjd =
  gen_pre_spplate ++ (fmt gen_pmjd_plate_width plate ++ gen_pmjd_sep ++ fmt gen_pmjd_mjd_width mjd) ++ gen_suf_spplate.
Proof. reflexivity. Qed.
