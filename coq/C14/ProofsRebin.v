(* C14 proofs, part 3: rebin. *)
From Coq Require Import ZArith QArith Qround Qabs List Bool Lia Lqa ZifyBool.
Import ListNotations.
From PV Require Import Generated.Rebin C14.Model C14.Proofs.
Open Scope Z_scope.
Ltac Zify.zify_post_hook ::= Z.to_euclidean_division_equations.

(* ------------------------------------------------------------------ exact subscript arithmetic *)

Lemma Qfloor_ratio a b : 0 < b -> Qfloor (inject_Z a / inject_Z b) = a / b.
Proof.
  intros Hb. unfold Qfloor, Qdiv, Qmult, Qinv, inject_Z. destruct b as [|b|b]; try lia.
  cbn [Qnum Qden]. rewrite Z.mul_1_r. rewrite Pos.mul_1_l. reflexivity.
Qed.

Lemma scaled_index_eq d0 d i : 0 < d -> (inject_Z d0 / inject_Z d * inject_Z i == inject_Z (i * d0) / inject_Z d)%Q.
Proof.
  intros Hd. rewrite inject_Z_mult. field. intro H.
  unfold Qeq, inject_Z in H. cbn [Qnum Qden] in H. lia.
Qed.

Lemma Qfloor_scaled d0 d i : 0 < d -> Qfloor (inject_Z d0 / inject_Z d * inject_Z i) = (i * d0) / d.
Proof.
  intros Hd. rewrite (Qfloor_comp _ _ (scaled_index_eq d0 d i Hd)). apply Qfloor_ratio. exact Hd.
Qed.

Lemma scaled_frac d0 d i : 0 < d ->
  (inject_Z d0 / inject_Z d * inject_Z i - inject_Z ((i * d0) / d) == ((i * d0) mod d) # Z.to_pos d)%Q.
Proof.
  intros Hd. rewrite (scaled_index_eq d0 d i Hd).
  set (a := i * d0). assert (E : a = d * (a / d) + a mod d) by (apply Z.div_mod; lia).
  rewrite Qmake_Qdiv. rewrite Z2Pos.id by exact Hd.
  rewrite E at 1. rewrite inject_Z_plus, inject_Z_mult. field. intro H.
  unfold Qeq, inject_Z in H. cbn [Qnum Qden] in H. lia.
Qed.

Lemma scaled_lt d0 d i : 0 < d -> 
  Qlt_bool (inject_Z d0 / inject_Z d * inject_Z i) (inject_Z (d0 - 1)) = ((i * d0) / d <? d0 - 1).
Proof.
  intros Hd. unfold Qlt_bool. 
  destruct ((i * d0) / d <? d0 - 1) eqn:E.
  - apply negb_true_iff. destruct (Qle_bool _ _) eqn:L; [|reflexivity]. exfalso.
    apply Qle_bool_iff in L. apply Qfloor_resp_le in L. rewrite Qfloor_scaled, Qfloor_Z in L by assumption. lia.
  - apply negb_false_iff. apply Qle_bool_iff.
    apply Qle_trans with (inject_Z ((i * d0) / d)).
    + rewrite <- Zle_Qle. lia.
    + rewrite <- (Qfloor_scaled d0 d i Hd). apply Qfloor_le.
Qed.

Lemma ratio_frac a d : 0 < d -> (inject_Z a / inject_Z d - inject_Z (a / d) == (a mod d) # Z.to_pos d)%Q.
Proof.
  intros Hd. assert (E : a = d * (a / d) + a mod d) by (apply Z.div_mod; lia).
  rewrite Qmake_Qdiv. rewrite Z2Pos.id by exact Hd.
  rewrite E at 1. rewrite inject_Z_plus, inject_Z_mult. field. intro H.
  unfold Qeq, inject_Z in H. cbn [Qnum Qden] in H. lia.
Qed.

Lemma ratio_lt a d b : 0 < d -> Qlt_bool (inject_Z a / inject_Z d) (inject_Z b) = (a / d <? b).
Proof.
  intros Hd. unfold Qlt_bool.
  destruct (a / d <? b) eqn:E.
  - apply negb_true_iff. destruct (Qle_bool _ _) eqn:L; [|reflexivity]. exfalso.
    apply Qle_bool_iff in L. apply Qfloor_resp_le in L. rewrite Qfloor_ratio, Qfloor_Z in L by assumption. lia.
  - apply negb_false_iff. apply Qle_bool_iff.
    apply Qle_trans with (inject_Z (a / d)).
    + rewrite <- Zle_Qle. lia.
    + rewrite <- (Qfloor_ratio a d Hd). apply Qfloor_le.
Qed.

(* a proper fraction has 0 <= numerator < denominator, also after reduction to lowest terms *)
Lemma frac_range (q : Q) : (0 <= q)%Q -> (q < 1)%Q -> 0 <= Qnum q < Zpos (Qden q).
Proof. unfold Qle, Qlt. cbn [Qnum Qden]. lia. Qed.

Lemma Qred_mod_range r d : 0 < d -> 0 <= r < d ->
  0 <= Qnum (Qred (r # Z.to_pos d)) < Zpos (Qden (Qred (r # Z.to_pos d))).
Proof.
  intros Hd Hr. apply frac_range; rewrite Qred_correct; unfold Qle, Qlt; cbn [Qnum Qden];
    rewrite ?Z2Pos.id by exact Hd; lia.
Qed.

(* ------------------------------------------------------------------ the integer path of the expanding branch *)

Lemma Qfloor_make n (m : positive) : Qfloor (n # m) = n / Zpos m.
Proof. reflexivity. Qed.

(* GENERATED integer interpolation (num = lo*m + (i % m)*(hi-lo); q = |num| // m, negated when num < 0)
   = truncation toward zero of the exact interpolant lo + (i/m)(hi - lo), for 0 <= i < m *)
Theorem int_path_is_truncation (t a b : Q) : 0 <= Qnum t < Zpos (Qden t) ->
  expand_int_path t a b = lin (ops_elem DInt) t a b.
Proof.
  intros Ht. unfold expand_int_path. cbn [lin ops_elem]. f_equal.
  unfold rebin_expand_int_num, rebin_expand_int_q, rebin_expand_int_negate.
  destruct t as [r m]. cbn [Qnum Qden] in *.
  set (lo := Qfloor a). set (hi := Qfloor b).
  rewrite Z.mod_small by lia.
  set (num := lo * Zpos m + r * (hi - lo)).
  assert (X : (inject_Z lo + (r # m) * (inject_Z hi - inject_Z lo) == num # m)%Q).
  { unfold Qeq, Qminus, Qopp, inject_Z. cbn [Qplus Qmult Qnum Qden]. subst num.
    rewrite ?Pos2Z.inj_mul. ring. }
  unfold Qtrunc.
  assert (S0 : Qle_bool 0 (inject_Z lo + (r # m) * (inject_Z hi - inject_Z lo)) = (0 <=? num)).
  { destruct (0 <=? num) eqn:E.
    - apply Qle_bool_iff. rewrite X. unfold Qle. cbn [Qnum Qden]. lia.
    - destruct (Qle_bool _ _) eqn:L; [|reflexivity]. apply Qle_bool_iff in L. rewrite X in L.
      unfold Qle in L. cbn [Qnum Qden] in L. lia. }
  rewrite S0. destruct (num <? 0) eqn:N.
  - replace (0 <=? num) with false by lia.
    unfold Qceiling. rewrite (Qfloor_comp _ _ (Qopp_comp _ _ X)).
    change (- (num # m))%Q with ((- num) # m). rewrite Qfloor_make.
    replace (Z.abs num) with (- num) by lia. lia.
  - replace (0 <=? num) with true by lia.
    rewrite (Qfloor_comp _ _ X), Qfloor_make. replace (Z.abs num) with num by lia. reflexivity.
Qed.

(* agreement of two element-operation records on proper-fraction weights *)
Definition ops_agree {T} (oM oS : ops T) : Prop :=
  (forall t a b, 0 <= Qnum t < Zpos (Qden t) -> lin oM t a b = lin oS t a b) /\
  (forall l f, avg oM l f = avg oS l f) /\ dfl oM = dfl oS.

Lemma ops_gen_agree k : ops_agree (ops_gen k) (ops_elem k).
Proof.
  destruct k; repeat split; try reflexivity. intros t a b Ht. apply (int_path_is_truncation t a b Ht).
Qed.

Lemma ops_lift_agree {T} (oM oS : ops T) : ops_agree oM oS -> ops_agree (ops_lift oM) (ops_lift oS).
Proof.
  intros [Hl [Ha Hd]]. repeat split.
  - intros t a b Ht. cbn [lin ops_lift]. apply map_ext. intros p. apply Hl. exact Ht.
  - intros l f. cbn [avg ops_lift]. destruct l as [|v r]; [reflexivity|].
    apply map_ext. intros j. rewrite Ha, Hd. reflexivity.
Qed.

(* ------------------------------------------------------------------ one axis: M = S *)

Section AxisProofs.
  Variable T : Type.
  Variable o : ops T.

  Lemma getT_nth (xs : list T) j : 0 <= j -> getT o xs j = nth (Z.to_nat j) xs (dfl o).
  Proof. intros H. unfold getT. destruct (j <? 0) eqn:E; [lia|reflexivity]. Qed.

  Lemma pyslice_getT (xs : list T) a b : 0 <= a <= b -> b <= lenZ xs ->
    pyslice xs a b = map (fun u => getT o xs (a + Z.of_nat u)) (seq 0 (Z.to_nat (b - a))).
  Proof.
    intros H1 H2. unfold pyslice, slice_norm, lenZ in *.
    destruct (a <? 0) eqn:Ea; [lia|]. destruct (b <? 0) eqn:Eb; [lia|].
    rewrite !Z.min_l by lia.
    rewrite (firstn_skipn_nth (dfl o)) by lia.
    apply map_ext. intros k. rewrite getT_nth by lia. f_equal. lia.
  Qed.

  Lemma map_getT_id (xs : list T) : map (fun t => getT o xs (Z.of_nat t)) (seq 0 (length xs)) = xs.
  Proof.
    transitivity (firstn (length xs) xs); [|apply firstn_all]. rewrite (firstn_nth (dfl o)) by lia.
    apply map_ext. intros k. rewrite getT_nth by lia. f_equal. lia.
  Qed.

  (* the transliteration over the GENERATED expressions (integer subscript, exact p, `p < bound`, neighbour
     subscripts, loop bounds, Python slices; element rules oM that agree with o on proper-fraction weights)
     computes exactly the integer-subscript specification, for every array and every new extent *)
  Theorem rebin_axis_refines_spec (oM : ops T) sample (xs : list T) d : ops_agree oM o ->
    rebin_axis oM sample xs d = rebin_axis_spec o sample xs d.
  Proof.
    intros [Hl [Ha Hd0]].
    assert (G : forall j, getT oM xs j = getT o xs j) by (intros j; unfold getT; rewrite Hd0; reflexivity).
    unfold rebin_axis, rebin_axis_spec.
    unfold rebin_is_expand, rebin_is_keep, rebin_shrink_f, rebin_shrink_pick, rebin_shrink_lo, rebin_shrink_hi,
      rebin_expand_count, rebin_expand_fp, rebin_expand_p_num, rebin_expand_p_den, rebin_expand_lo, rebin_expand_hi,
      rebin_expand_interp_bound, rebin_keep_count, rebin_keep_src, rebin_shrink_count.
    destruct (lenZ xs <? d) eqn:E1.
    - replace (d >? lenZ xs) with true by lia.
      assert (Hd : 0 < d) by (unfold lenZ in *; lia).
      apply map_seq_ext. intros k Hk. cbv zeta.
      rewrite ratio_lt by exact Hd. rewrite !G.
      destruct sample; [reflexivity|].
      destruct (Z.of_nat k * lenZ xs / d <? lenZ xs - 1); [|reflexivity].
      assert (W : Qred (inject_Z (Z.of_nat k * lenZ xs) / inject_Z d - inject_Z (Z.of_nat k * lenZ xs / d))
                  = Qred ((Z.of_nat k * lenZ xs) mod d # Z.to_pos d)).
      { apply Qred_complete. apply ratio_frac. exact Hd. }
      rewrite W. apply Hl. apply Qred_mod_range; [exact Hd|]. apply Z.mod_pos_bound. exact Hd.
    - replace (d >? lenZ xs) with false by lia.
      destruct (lenZ xs =? d) eqn:E2.
      + replace (d =? lenZ xs) with true by lia.
        replace (Z.to_nat d) with (length xs) by (unfold lenZ in E2; lia).
        rewrite <- (map_getT_id xs) at 2. apply map_ext. intros t. apply G.
      + replace (d =? lenZ xs) with false by lia.
        apply map_seq_ext. intros k Hk. cbv zeta.
        assert (Hd : 0 < d) by lia.
        set (f := lenZ xs / d). set (i := Z.of_nat k).
        destruct sample; [rewrite G; f_equal; lia|].
        assert (F0 : 0 <= f) by (subst f; apply Z.div_pos; unfold lenZ; lia).
        assert (F1 : f * (i + 1) <= f * d) by (apply Z.mul_le_mono_nonneg_l; lia).
        assert (F2 : f * d <= lenZ xs) by (subst f; rewrite Z.mul_comm; apply Z.mul_div_le; lia).
        assert (F3 : 0 <= f * i) by (apply Z.mul_nonneg_nonneg; lia).
        rewrite Ha. rewrite pyslice_getT by lia.
        replace (f * (i + 1) - f * i) with f by lia.
        f_equal. apply map_ext. intros u. f_equal. lia.
  Qed.

  (* ---- rebin_shape (one axis) ---- *)
  Theorem rebin_axis_spec_length sample (xs : list T) d : 0 <= d ->
    length (rebin_axis_spec o sample xs d) = Z.to_nat d.
  Proof.
    intros Hd. unfold rebin_axis_spec.
    destruct (lenZ xs <? d); [rewrite map_length, seq_length; reflexivity|].
    destruct (lenZ xs =? d) eqn:E; [unfold lenZ in E; lia|].
    rewrite map_length, seq_length; reflexivity.
  Qed.

  (* ---- rebin_sample_picks ---- *)
  Theorem rebin_axis_sample_expand (xs : list T) m k :
    xs <> [] -> 1 < m -> (k < length xs * Z.to_nat m)%nat ->
    nth_error (rebin_axis_spec o true xs (lenZ xs * m)) k = nth_error xs (k / Z.to_nat m).
  Proof.
    intros Hne Hm Hk. unfold rebin_axis_spec.
    assert (L : 0 < lenZ xs) by (unfold lenZ; destruct xs; [congruence|cbn; lia]).
    assert (E1 : (lenZ xs <? lenZ xs * m) = true) by nia. rewrite E1.
    rewrite nth_error_map_seq by (unfold lenZ; nia). cbv zeta.
    assert (J : Z.of_nat k * lenZ xs / (lenZ xs * m) = Z.of_nat (k / Z.to_nat m)).
    { rewrite (Z.mul_comm (Z.of_nat k)). rewrite Z.div_mul_cancel_l by lia.
      rewrite Nat2Z.inj_div. rewrite Z2Nat.id by lia. reflexivity. }
    rewrite J. rewrite getT_nth by lia. rewrite Nat2Z.id. symmetry. apply nth_error_nth'.
    apply Nat.div_lt_upper_bound; lia.
  Qed.

  Theorem rebin_axis_sample_shrink (xs : list T) d k :
    0 < d -> d < lenZ xs -> lenZ xs mod d = 0 -> (k < Z.to_nat d)%nat ->
    nth_error (rebin_axis_spec o true xs d) k = nth_error xs (k * Z.to_nat (lenZ xs / d)).
  Proof.
    intros Hd Hlt Hdiv Hk. unfold rebin_axis_spec.
    assert (E1 : (lenZ xs <? d) = false) by lia. assert (E2 : (lenZ xs =? d) = false) by lia. rewrite E1, E2.
    rewrite nth_error_map_seq by exact Hk. cbv zeta.
    set (f := lenZ xs / d). assert (F : lenZ xs = d * f) by (subst f; apply Z_div_exact_full_2; lia).
    assert (F0 : 0 < f) by nia.
    rewrite getT_nth by nia. symmetry.
    replace (Z.to_nat (Z.of_nat k * f)) with (k * Z.to_nat f)%nat by nia.
    apply nth_error_nth'. unfold lenZ in *. nia.
  Qed.
End AxisProofs.

(* ------------------------------------------------------------------ float / integer element rules *)

Lemma getT_elem k xs j : getT (ops_elem k) xs j = getQ xs j.
Proof. destruct k; reflexivity. Qed.

Lemma inject_Z_nonzero f : f <> 0 -> ~ inject_Z f == 0%Q.
Proof. intros H E. unfold Qeq, inject_Z in E. cbn [Qnum Qden] in E. lia. Qed.

(* rebin_shrink_is_block_mean, floating dtypes: out[k] * f = sum of the k-th block of f samples *)
Theorem rebin_shrink_is_block_mean xs d k :
  0 < d -> d < lenZ xs -> lenZ xs mod d = 0 -> (k < Z.to_nat d)%nat ->
  let f := lenZ xs / d in
  exists v, nth_error (rebin_axis_spec (ops_elem DFloat) false xs d) k = Some v /\
            v * inject_Z f == sumQ (window xs (Z.of_nat k * f) (Z.to_nat f)).
Proof.
  intros Hd Hlt Hdiv Hk f. unfold rebin_axis_spec.
  assert (E1 : (lenZ xs <? d) = false) by lia. assert (E2 : (lenZ xs =? d) = false) by lia. rewrite E1, E2.
  rewrite nth_error_map_seq by exact Hk. cbv zeta. fold f.
  eexists. split; [reflexivity|]. cbn [avg ops_elem]. unfold window.
  assert (F : lenZ xs = d * f) by (subst f; apply Z_div_exact_full_2; lia).
  match goal with |- (_ / ?b * ?c == ?d)%Q => change (d / b * c == d)%Q end.
  field. apply inject_Z_nonzero. nia.
Qed.

(* integer dtypes: out[k] is the floor of the block mean *)
Theorem rebin_shrink_int_is_floor_mean xs d k :
  0 < d -> d < lenZ xs -> lenZ xs mod d = 0 -> (k < Z.to_nat d)%nat ->
  let f := lenZ xs / d in
  let mean := (sumQ (window xs (Z.of_nat k * f) (Z.to_nat f)) / inject_Z f)%Q in
  exists z, nth_error (rebin_axis_spec (ops_elem DInt) false xs d) k = Some (inject_Z z) /\
            (inject_Z z <= mean)%Q /\ (mean < inject_Z (z + 1))%Q.
Proof.
  intros Hd Hlt Hdiv Hk f mean. unfold rebin_axis_spec.
  assert (E1 : (lenZ xs <? d) = false) by lia. assert (E2 : (lenZ xs =? d) = false) by lia. rewrite E1, E2.
  rewrite nth_error_map_seq by exact Hk. cbv zeta. fold f.
  exists (Qfloor mean). split; [reflexivity|]. split; [apply Qfloor_le|apply Qlt_floor].
Qed.

Lemma expand_subscripts n m i : 0 < n -> 0 < m ->
  (i * n) / (n * m) = i / m /\ (i * n) mod (n * m) = n * (i mod m).
Proof.
  intros Hn Hm. split.
  - rewrite (Z.mul_comm i). apply Z.div_mul_cancel_l; lia.
  - rewrite (Z.mul_comm i). apply Z.mul_mod_distr_l; lia.
Qed.

Lemma expand_fraction n m r : 0 < n -> 0 < m -> Qred ((n * r) # Z.to_pos (n * m)) == r # Z.to_pos m.
Proof.
  intros Hn Hm. rewrite Qred_correct. unfold Qeq. cbn [Qnum Qden].
  rewrite !Z2Pos.id by nia. ring.
Qed.

(* rebin_expand_is_clamped_interp, floating dtypes, new extent n*m: with j = k/m and r = k mod m,
   out[k] = xs[j] + (r/m)(xs[j+1] - xs[j]) while j < n-1, and the last sample xs[n-1] afterwards
   (no extrapolation) *)
Theorem rebin_expand_is_clamped_interp xs m k :
  xs <> [] -> 1 < m -> (k < length xs * Z.to_nat m)%nat ->
  let n := lenZ xs in
  let j := Z.of_nat k / m in
  let r := Z.of_nat k mod m in
  0 <= j <= n - 1 /\
  exists v, nth_error (rebin_axis_spec (ops_elem DFloat) false xs (n * m)) k = Some v /\
            v == (if j <? n - 1 then getQ xs j + (r # Z.to_pos m) * (getQ xs (j + 1) - getQ xs j)
                  else getQ xs (n - 1)).
Proof.
  intros Hne Hm Hk n j r.
  assert (L : 0 < n) by (subst n; unfold lenZ; destruct xs; [congruence|cbn; lia]).
  assert (Hj : 0 <= j <= n - 1).
  { subst j. split; [apply Z.div_pos; lia|]. 
    assert (Z.of_nat k / m < n); [|lia]. apply Z.div_lt_upper_bound; [lia|]. subst n. unfold lenZ. nia. }
  split; [exact Hj|]. unfold rebin_axis_spec. fold n.
  assert (E1 : (n <? n * m) = true) by nia. rewrite E1.
  rewrite nth_error_map_seq by (subst n; unfold lenZ; nia). cbv zeta.
  destruct (expand_subscripts n m (Z.of_nat k) L ltac:(lia)) as [Ej Er]. rewrite Ej, Er. fold j. fold r.
  rewrite !getT_elem.
  eexists. split; [reflexivity|].
  destruct (j <? n - 1) eqn:E.
  - cbn [lin ops_elem]. rewrite expand_fraction by lia. reflexivity.
  - replace j with (n - 1) by lia. reflexivity.
Qed.

(* integer dtypes: the same interpolant, truncated toward zero on store *)
Theorem rebin_expand_int_truncates xs m k :
  xs <> [] -> 1 < m -> (k < length xs * Z.to_nat m)%nat ->
  let n := lenZ xs in
  let j := Z.of_nat k / m in
  let r := Z.of_nat k mod m in
  exists v, nth_error (rebin_axis_spec (ops_elem DInt) false xs (n * m)) k = Some v /\
            v = (if j <? n - 1
                 then lin (ops_elem DInt) (Qred ((n * r) # Z.to_pos (n * m))) (getQ xs j) (getQ xs (j + 1))
                 else getQ xs j).
Proof.
  intros Hne Hm Hk n j r.
  assert (L : 0 < n) by (subst n; unfold lenZ; destruct xs; [congruence|cbn; lia]).
  unfold rebin_axis_spec. fold n.
  assert (E1 : (n <? n * m) = true) by nia. rewrite E1.
  rewrite nth_error_map_seq by (subst n; unfold lenZ; nia). cbv zeta.
  destruct (expand_subscripts n m (Z.of_nat k) L ltac:(lia)) as [Ej Er]. rewrite Ej, Er. fold j. fold r.
  rewrite !getT_elem. eexists. split; reflexivity.
Qed.

(* ------------------------------------------------------------------ 1-D / 2-D / 3-D wrappers *)

(* the GENERATED shape tests (rank test + per-axis `%` tests) are the documented rule *)
Lemma axis_rejects_eq a b :
  negb (rebin_axis_rejects a b) = (if a <? b then b mod a =? 0 else if a =? b then true else a mod b =? 0).
Proof.
  unfold rebin_axis_rejects. destruct (a <? b) eqn:E1.
  - replace (b >? a) with true by lia. apply negb_involutive.
  - replace (b >? a) with false by lia. destruct (a =? b) eqn:E2.
    + replace (b =? a) with true by lia. reflexivity.
    + replace (b =? a) with false by lia. apply negb_involutive.
Qed.

Theorem dims_ok_gen_eq d0 : forall d, dims_ok_gen d0 d = dims_ok d0 d.
Proof.
  unfold dims_ok_gen, rebin_rank_rejects.
  induction d0 as [|a r0 IH]; intros [|b r]; cbn [dims_ok combine forallb]; try reflexivity.
  rewrite <- IH. cbn [fst snd]. rewrite axis_rejects_eq.
  replace (lenZ (a :: r0) =? lenZ (b :: r)) with (lenZ r0 =? lenZ r) by (unfold lenZ; cbn [length]; lia).
  rewrite !negb_involutive.
  destruct (lenZ r0 =? lenZ r); cbn [andb]; [reflexivity|]. rewrite andb_false_r. reflexivity.
Qed.

Theorem rebin1_refines k s x d : rebin1 k s x d = rebin1_spec k s x d.
Proof.
  unfold rebin1, rebin1_spec, rebin1_with. rewrite dims_ok_gen_eq. destruct (dims_ok (shape1 x) d); [|reflexivity].
  destruct d as [|a [|b r]]; try reflexivity.
  rewrite (rebin_axis_refines_spec Q (ops_elem k) (ops_gen k)) by apply ops_gen_agree. reflexivity.
Qed.

Theorem rebin2_refines k s x d : rebin2 k s x d = rebin2_spec k s x d.
Proof.
  unfold rebin2, rebin2_spec, rebin2_with. rewrite dims_ok_gen_eq. destruct (dims_ok (shape2 x) d); [|reflexivity].
  destruct d as [|a [|b [|c r]]]; try reflexivity.
  rewrite (rebin_axis_refines_spec _ (ops_lift (ops_elem k)) (ops_lift (ops_gen k)))
    by apply ops_lift_agree, ops_gen_agree.
  f_equal. apply map_ext. intros row. apply rebin_axis_refines_spec, ops_gen_agree.
Qed.

Theorem rebin3_refines k s x d : rebin3 k s x d = rebin3_spec k s x d.
Proof.
  unfold rebin3, rebin3_spec, rebin3_with. rewrite dims_ok_gen_eq. destruct (dims_ok (shape3 x) d); [|reflexivity].
  destruct d as [|a [|b [|c [|e r]]]]; try reflexivity.
  rewrite (rebin_axis_refines_spec _ (ops_lift (ops_lift (ops_elem k))) (ops_lift (ops_lift (ops_gen k))))
    by apply ops_lift_agree, ops_lift_agree, ops_gen_agree.
  f_equal. rewrite !map_map. apply map_ext. intros plane.
  rewrite (rebin_axis_refines_spec _ (ops_lift (ops_elem k)) (ops_lift (ops_gen k)))
    by apply ops_lift_agree, ops_gen_agree.
  apply map_ext. intros row. apply rebin_axis_refines_spec, ops_gen_agree.
Qed.

(* ---- rebin_rejects_nonintegral / rank change ---- *)

Definition factor_ok (a b : Z) : Prop := (a < b /\ b mod a = 0) \/ a = b \/ (b < a /\ a mod b = 0).

Lemma dims_ok_iff d0 : forall d, dims_ok d0 d = true <-> Forall2 factor_ok d0 d.
Proof.
  induction d0 as [|a r0 IH]; intros [|b r]; cbn [dims_ok]; split; intros H; try discriminate; try constructor;
    try solve [inversion H].
  - apply andb_true_iff in H. destruct H as [H _]. unfold factor_ok.
    destruct (a <? b) eqn:E1; [left; lia|]. destruct (a =? b) eqn:E2; [right; left; lia|]. right; right; lia.
  - apply IH. apply andb_true_iff in H. apply H.
  - inversion H; subst. apply andb_true_iff. split; [|apply IH; assumption].
    unfold factor_ok in *. destruct (a <? b) eqn:E1; [lia|]. destruct (a =? b) eqn:E2; [reflexivity|]. lia.
Qed.

Lemma Forall2_length {A B} (R : A -> B -> Prop) l1 l2 : Forall2 R l1 l2 -> length l1 = length l2.
Proof. induction 1; cbn; congruence. Qed.

Lemma dims_ok_length d0 d : dims_ok d0 d = true -> length d0 = length d.
Proof. intros H. apply dims_ok_iff in H. eapply Forall2_length; eauto. Qed.

Theorem rebin1_rejects k s x d : rebin1 k s x d = RValueError <-> ~ Forall2 factor_ok (shape1 x) d.
Proof.
  rewrite <- dims_ok_iff. unfold rebin1, rebin1_with. rewrite dims_ok_gen_eq. destruct (dims_ok (shape1 x) d) eqn:E.
  - pose proof (dims_ok_length _ _ E) as L. destruct d as [|a [|b r]]; try discriminate L.
    split; [discriminate|congruence].
  - split; [congruence|reflexivity].
Qed.

Theorem rebin2_rejects k s x d : rebin2 k s x d = RValueError <-> ~ Forall2 factor_ok (shape2 x) d.
Proof.
  rewrite <- dims_ok_iff. unfold rebin2, rebin2_with. rewrite dims_ok_gen_eq. destruct (dims_ok (shape2 x) d) eqn:E.
  - pose proof (dims_ok_length _ _ E) as L. destruct d as [|a [|b [|c r]]]; try discriminate L.
    split; [discriminate|congruence].
  - split; [congruence|reflexivity].
Qed.

Theorem rebin3_rejects k s x d : rebin3 k s x d = RValueError <-> ~ Forall2 factor_ok (shape3 x) d.
Proof.
  rewrite <- dims_ok_iff. unfold rebin3, rebin3_with. rewrite dims_ok_gen_eq. destruct (dims_ok (shape3 x) d) eqn:E.
  - pose proof (dims_ok_length _ _ E) as L. destruct d as [|a [|b [|c [|e r]]]]; try discriminate L.
    split; [discriminate|congruence].
  - split; [congruence|reflexivity].
Qed.

(* rank change in particular *)
Theorem rebin_rejects_rank_change k s :
  (forall x d, length d <> 1%nat -> rebin1 k s x d = RValueError) /\
  (forall x d, length d <> 2%nat -> rebin2 k s x d = RValueError) /\
  (forall x d, length d <> 3%nat -> rebin3 k s x d = RValueError).
Proof.
  repeat split; intros x d H.
  - apply rebin1_rejects. intros F. apply Forall2_length in F. cbn in F. congruence.
  - apply rebin2_rejects. intros F. apply Forall2_length in F. cbn in F. congruence.
  - apply rebin3_rejects. intros F. apply Forall2_length in F. cbn in F. congruence.
Qed.

(* ---- rebin_shape ---- *)

Theorem rebin1_shape k s x a y : 0 <= a -> rebin1 k s x [a] = R1 y -> lenZ y = a.
Proof.
  intros Ha. rewrite rebin1_refines. unfold rebin1_spec, rebin1_with.
  destruct (dims_ok (shape1 x) [a]); [|discriminate]. intros E. inversion E; subst.
  unfold lenZ. rewrite rebin_axis_spec_length by lia. lia.
Qed.

Theorem rebin2_shape k s x a b y : 0 <= a -> 0 <= b -> rebin2 k s x [a; b] = R2 y ->
  lenZ y = a /\ Forall (fun row => lenZ row = b) y.
Proof.
  intros Ha Hb. rewrite rebin2_refines. unfold rebin2_spec, rebin2_with.
  destruct (dims_ok (shape2 x) [a; b]); [|discriminate]. intros E. inversion E; subst. split.
  - unfold lenZ. rewrite map_length, rebin_axis_spec_length by lia. lia.
  - apply Forall_forall. intros row Hr. apply in_map_iff in Hr. destruct Hr as [r0 [<- _]].
    unfold lenZ. rewrite rebin_axis_spec_length by lia. lia.
Qed.

Theorem rebin3_shape k s x a b c y : 0 <= a -> 0 <= b -> 0 <= c -> rebin3 k s x [a; b; c] = R3 y ->
  lenZ y = a /\ Forall (fun plane => lenZ plane = b /\ Forall (fun row => lenZ row = c) plane) y.
Proof.
  intros Ha Hb Hc. rewrite rebin3_refines. unfold rebin3_spec, rebin3_with.
  destruct (dims_ok (shape3 x) [a; b; c]); [|discriminate]. intros E. inversion E; subst. split.
  - unfold lenZ. rewrite !map_length, rebin_axis_spec_length by lia. lia.
  - apply Forall_forall. intros plane Hp. apply in_map_iff in Hp. destruct Hp as [p0 [<- Hp0]].
    apply in_map_iff in Hp0. destruct Hp0 as [p1 [<- _]]. split.
    + unfold lenZ. rewrite map_length, rebin_axis_spec_length by lia. lia.
    + apply Forall_forall. intros row Hr. apply in_map_iff in Hr. destruct Hr as [r0 [<- _]].
      unfold lenZ. rewrite rebin_axis_spec_length by lia. lia.
Qed.

(* ------------------------------------------------------------------ the integer path exactly as written *)

Lemma lin_int_weight_comp t t' a b : (t == t')%Q -> lin (ops_elem DInt) t a b = lin (ops_elem DInt) t' a b.
Proof.
  intros E. cbn [lin ops_elem]. f_equal. unfold Qtrunc.
  set (a' := inject_Z (Qfloor a)). set (b' := inject_Z (Qfloor b)).
  assert (X : (a' + t * (b' - a') == a' + t' * (b' - a'))%Q) by (rewrite E; reflexivity).
  assert (B : Qle_bool 0 (a' + t * (b' - a')) = Qle_bool 0 (a' + t' * (b' - a'))).
  { destruct (Qle_bool 0 (a' + t' * (b' - a'))) eqn:L.
    - apply Qle_bool_iff. rewrite X. apply Qle_bool_iff. exact L.
    - destruct (Qle_bool 0 (a' + t * (b' - a'))) eqn:L2; [|reflexivity].
      apply Qle_bool_iff in L2. rewrite X in L2. apply Qle_bool_iff in L2. congruence. }
  rewrite B. unfold Qceiling. rewrite (Qfloor_comp _ _ X), (Qfloor_comp _ _ (Qopp_comp _ _ X)). reflexivity.
Qed.

(* In rebin.py the integer path is evaluated at (i, m) with m = d[k]//d0[k] (GENERATED rebin_expand_m) and the
   raw loop counter i; M evaluates the same GENERATED formula at the weight p - fp in lowest terms.  For every
   admissible extent d = d0*mm the two are the same number. *)
Theorem int_path_as_written d0 mm i a b : 0 < d0 -> 0 < mm -> 0 <= i ->
  let d := d0 * mm in
  let m := rebin_expand_m d0 d in
  let w := Qred (inject_Z (rebin_expand_p_num d0 d i) / inject_Z (rebin_expand_p_den d0 d i)
                 - inject_Z (rebin_expand_fp d0 d i)) in
  expand_int_path (i # Z.to_pos m) a b = expand_int_path w a b.
Proof.
  intros H0 Hm Hi d m w.
  assert (Em : m = mm) by (subst m d; unfold rebin_expand_m; rewrite Z.mul_comm; apply Z.div_mul; lia).
  assert (Hd : 0 < d) by (subst d; nia).
  assert (L : expand_int_path (i # Z.to_pos m) a b = expand_int_path ((i mod m) # Z.to_pos m) a b).
  { unfold expand_int_path, rebin_expand_int_num. cbn [Qnum Qden]. rewrite Z2Pos.id by lia.
    rewrite Z.mod_mod by lia. reflexivity. }
  rewrite L.
  rewrite int_path_is_truncation by (cbn [Qnum Qden]; rewrite Z2Pos.id by lia; apply Z.mod_pos_bound; lia).
  assert (W : (w == (i mod m) # Z.to_pos m)%Q).
  { subst w. rewrite Qred_correct. unfold rebin_expand_p_num, rebin_expand_p_den, rebin_expand_fp.
    rewrite (ratio_frac (i * d0) d Hd). subst d.
    destruct (expand_subscripts d0 mm i H0 Hm) as [_ Er]. rewrite Er. rewrite Em.
    unfold Qeq. cbn [Qnum Qden]. rewrite !Z2Pos.id by nia. ring. }
  rewrite int_path_is_truncation.
  - apply lin_int_weight_comp. symmetry. exact W.
  - subst w. unfold rebin_expand_p_num, rebin_expand_p_den, rebin_expand_fp.
    rewrite (Qred_complete _ _ (ratio_frac (i * d0) d Hd)).
    apply Qred_mod_range; [exact Hd|apply Z.mod_pos_bound; exact Hd].
Qed.
