(* Yanny/EnumFacts.v -- an enum typedef written by dtype_to_struct is read back as its name and labels. *)
From Coq Require Import NArith ZArith List Bool Lia.
Import ListNotations.
From PV Require Import Yanny.Bytes Yanny.BytesFacts Yanny.Types Yanny.Parse Yanny.Render
  Yanny.TokenFacts Yanny.RowFacts Yanny.TypeFacts Yanny.DocFacts Yanny.LayoutFacts Yanny.ScanFacts Yanny.StructFacts.
Open Scope N_scope.

Definition eline (n : bytes) : bytes := S_INDENT ++ n ++ [COMMA].
Fixpoint elines (labels : list bytes) : list bytes :=
  match labels with
  | [] => []
  | [n] => [S_INDENT ++ n]
  | n :: l => eline n :: elines l
  end.

Lemma elines_snoc init ln : elines (init ++ [ln]) = map eline init ++ [S_INDENT ++ ln].
Proof.
  induction init as [|n init IH]; [reflexivity|]. cbn [app map]. rewrite <- IH.
  destruct (init ++ [ln]) eqn:E; [destruct init; discriminate|reflexivity].
Qed.

Lemma strip_commas_line n : forallb is_word n = true -> n <> [] -> strip_commas (eline n) = S_INDENT ++ n.
Proof.
  intros Hw Hn. unfold strip_commas, eline. cbv zeta.
  match goal with |- context [rev (?g (rev (?g ?x)))] => set (f := g) end.
  assert (F1 : f (S_INDENT ++ n ++ [COMMA]) = S_INDENT ++ n ++ [COMMA]) by reflexivity.
  rewrite F1. rewrite app_assoc, rev_app_distr. cbn [rev app]. cbn [f]. change (COMMA =? COMMA) with true. cbv iota.
  assert (F2 : f (rev (S_INDENT ++ n)) = rev (S_INDENT ++ n)).
  { rewrite rev_app_distr. destruct (rev n) as [|x t] eqn:E.
    - apply (f_equal (@rev N)) in E. rewrite rev_involutive in E. cbn in E. congruence.
    - cbn [app]. assert (In x n) by (apply in_rev; rewrite E; now left).
      rewrite forallb_forall in Hw. specialize (Hw x H). cbn [f]. now rewrite (word_not x COMMA Hw eq_refl). }
  rewrite F2. now rewrite rev_involutive.
Qed.

Definition enum_text (labels : list bytes) (name : bytes) : bytes := td_text KW_ENUM (NL :: unlines (elines labels)) name.

Lemma render_enum_text e : enum_ok e = true -> render_enum e = enum_text (e_labels e) (upper (e_tname e)).
Proof.
  intros He. destruct (enum_ok_parts e He) as [_ [_ [Hne Hl]]].
  destruct (exists_last Hne) as [init [ln E]]. unfold render_enum. rewrite E.
  assert (Hln : forallb is_word ln = true /\ ln <> []).
  { rewrite E in Hl. rewrite forallb_app in Hl. apply andb_true_iff in Hl as [_ Hl]. cbn [forallb] in Hl.
    apply andb_true_iff in Hl as [Hl _]. destruct (ident_word _ Hl). auto. }
  destruct Hln as [Hw Hn].
  rewrite map_app. cbn [map].
  match goal with |- context [rev (S_TYPEDEF_ENUM :: ?m ++ [?l])] =>
    change (rev (S_TYPEDEF_ENUM :: m ++ [l])) with (rev ((S_TYPEDEF_ENUM :: map eline init) ++ [eline ln])) end.
  rewrite rev_app_distr. cbn [rev app].
  rewrite strip_commas_line by auto.
  rewrite rev_app_distr, rev_involutive. cbn [rev app].
  cbn [app]. rewrite <- elines_snoc.
  rewrite join_nl_lines. reflexivity.
Qed.

(* ---- reading the labels back ---- *)
Fixpoint stext (labels : list bytes) : bytes :=
  match labels with
  | [] => []
  | [n] => n
  | n :: l => n ++ [COMMA] ++ [NL] ++ S_INDENT ++ stext l
  end.

Lemma unlines_elines labels : labels <> [] -> unlines (elines labels) = S_INDENT ++ stext labels ++ [NL].
Proof.
  induction labels as [|n l IH]; [congruence|]. intros _. destruct l as [|m l].
  - unfold unlines. cbn [elines map concat stext]. now rewrite app_nil_r, <- app_assoc.
  - change (elines (n :: m :: l)) with (eline n :: elines (m :: l)).
    change (stext (n :: m :: l)) with (n ++ [COMMA] ++ [NL] ++ S_INDENT ++ stext (m :: l)).
    change (unlines (eline n :: elines (m :: l))) with ((eline n ++ [NL]) ++ unlines (elines (m :: l))).
    rewrite IH by discriminate. unfold eline. rewrite <- !app_assoc. reflexivity.
Qed.

Lemma sc_word n : forall sk cur s, forallb is_word n = true -> (sk = true -> cur = []) ->
  split_commas sk cur (n ++ s) = match n with [] => split_commas sk cur s | _ => split_commas false (rev n ++ cur) s end.
Proof.
  induction n as [|x n IH]; intros sk cur s Hw Hsk; [reflexivity|].
  cbn [forallb] in Hw. apply andb_true_iff in Hw as [Hx Hn]. cbn [app split_commas].
  rewrite (word_not_ws x Hx). rewrite andb_false_r. rewrite (word_not x COMMA Hx eq_refl).
  rewrite IH by (auto; discriminate). destruct n; cbn [rev app]; [reflexivity|]. now rewrite <- !app_assoc.
Qed.

Lemma sc_skip w : forall s, all_ws w = true -> split_commas true [] (w ++ s) = split_commas true [] s.
Proof.
  induction w as [|c w IH]; intros s H; [reflexivity|]. cbn [all_ws forallb] in H. apply andb_true_iff in H as [Hc Hw].
  cbn [app split_commas]. rewrite Hc. cbn [andb]. now apply IH.
Qed.

Lemma split_commas_stext labels : forallb (fun n => forallb is_word n && negb (beq n [])) labels = true -> labels <> [] ->
  forall sk, split_commas sk [] (stext labels) = labels.
Proof.
  induction labels as [|n l IH]; [congruence|]. intros H _ sk. cbn [forallb] in H. apply andb_true_iff in H as [Hn Hl].
  apply andb_true_iff in Hn as [Hw Hne]. apply negb_true_iff in Hne. apply beq_neq in Hne.
  destruct l as [|m l].
  - cbn [stext]. rewrite <- (app_nil_r n) at 1. rewrite sc_word by (auto; intros _; reflexivity).
    destruct n; [congruence|]. cbn [split_commas]. now rewrite app_nil_r, rev_involutive.
  - cbn [stext]. rewrite sc_word by (auto; intros _; reflexivity). destruct n as [|x n]; [congruence|].
    cbn [app split_commas]. change (is_ws COMMA) with false. rewrite andb_false_r. change (COMMA =? COMMA) with true. cbv iota.
    rewrite app_nil_r, rev_involutive. f_equal.
    change (NL :: S_INDENT ++ stext (m :: l)) with ((NL :: S_INDENT) ++ stext (m :: l)).
    rewrite sc_skip by reflexivity. apply IH; auto. discriminate.
Qed.

Lemma stext_head labels : forallb (fun n => forallb is_word n && negb (beq n [])) labels = true -> head_not_ws (stext labels).
Proof.
  destruct labels as [|n l]; [reflexivity|]. cbn [forallb]. intros H. apply andb_true_iff in H as [Hn _].
  apply andb_true_iff in Hn as [Hw Hne]. apply negb_true_iff in Hne. apply beq_neq in Hne.
  destruct n as [|x n]; [congruence|]. cbn [forallb] in Hw. apply andb_true_iff in Hw as [Hx _].
  destruct l; cbn [stext app head_not_ws]; now apply word_not_ws.
Qed.

Lemma stext_nonempty labels : forallb (fun n => forallb is_word n && negb (beq n [])) labels = true -> labels <> [] -> stext labels <> [].
Proof.
  destruct labels as [|n l]; [congruence|]. cbn [forallb]. intros H _. apply andb_true_iff in H as [Hn _].
  apply andb_true_iff in Hn as [_ Hne]. apply negb_true_iff in Hne. apply beq_neq in Hne.
  destruct n as [|x n]; [congruence|]. destruct l; cbn [stext app]; discriminate.
Qed.

Lemma stext_last labels : forallb (fun n => forallb is_word n && negb (beq n [])) labels = true -> labels <> [] -> last_not_ws (stext labels).
Proof.
  induction labels as [|n l IH]; [congruence|]. cbn [forallb]. intros H _. apply andb_true_iff in H as [Hn Hl].
  apply andb_true_iff in Hn as [Hw Hne]. apply negb_true_iff in Hne. apply beq_neq in Hne.
  destruct l as [|m l].
  - cbn [stext]. unfold last_not_ws. destruct (rev n) as [|x t] eqn:E; auto.
    assert (In x n) by (apply in_rev; rewrite E; now left). rewrite forallb_forall in Hw. apply word_not_ws. auto.
  - change (stext (n :: m :: l)) with (n ++ [COMMA; NL] ++ S_INDENT ++ stext (m :: l)).
    assert (Hs : stext (m :: l) <> []) by (apply stext_nonempty; auto; discriminate).
    apply last_not_ws_app_r; [discriminate|]. apply last_not_ws_app_r.
    + unfold S_INDENT. cbn [app]. discriminate.
    + apply last_not_ws_app_r; [exact Hs|]. apply IH; auto. discriminate.
Qed.

Definition labels_ok (labels : list bytes) : bool := forallb (fun n => forallb is_word n && negb (beq n [])) labels.

Lemma idents_labels_ok labels : forallb ident labels = true -> labels_ok labels = true.
Proof.
  unfold labels_ok. apply forallb_impl. intros n Hn. destruct (ident_word _ Hn) as [A B]. rewrite B. cbn [andb].
  apply negb_true_iff. now apply beq_neq.
Qed.

Lemma stext_chars labels : labels_ok labels = true ->
  forallb (fun x => is_word x || (x =? COMMA) || (x =? NL) || (x =? SP)) (stext labels) = true.
Proof.
  induction labels as [|n l IH]; [reflexivity|]. unfold labels_ok in *. cbn [forallb]. intros H. apply andb_true_iff in H as [Hn Hl].
  apply andb_true_iff in Hn as [Hw _].
  assert (A : forallb (fun x => is_word x || (x =? COMMA) || (x =? NL) || (x =? SP)) n = true).
  { eapply forallb_impl; [|exact Hw]. intros x ->. reflexivity. }
  destruct l as [|m l]; [exact A|].
  change (stext (n :: m :: l)) with (n ++ [COMMA] ++ [NL] ++ S_INDENT ++ stext (m :: l)).
  rewrite !forallb_app, A, IH by auto. reflexivity.
Qed.

(* a body without hash is read alike by both shapes of isenum() *)
Lemma drop_hash_comments_id s : mem HASH s = false -> drop_hash_comments false s = s.
Proof.
  induction s as [|c s IH]; intros H; [reflexivity|]. unfold mem in H. cbn [existsb] in H. apply orb_false_iff in H as [Hc Hs].
  cbn [drop_hash_comments]. rewrite N.eqb_sym in Hc. rewrite Hc. f_equal. now apply IH.
Qed.
Lemma enum_body_of_id strips s : mem HASH s = false -> enum_body_of strips s = s.
Proof. intros H. unfold enum_body_of. destruct strips; [now apply drop_hash_comments_id|reflexivity]. Qed.

Theorem enum_entry_rendered labels name : labels_ok labels = true -> labels <> [] -> name <> [] -> forallb is_word name = true ->
  enum_entry (enum_text labels name) = Some (name, labels).
Proof.
  intros Hl Hne Hn Hw. unfold enum_entry, enum_entry_g, enum_text.
  pose proof (match_typedef_text KW_ENUM (NL :: unlines (elines labels)) name [] (or_intror eq_refl)) as M.
  rewrite app_nil_r in M. rewrite M; auto; [|discriminate|].
  - f_equal. f_equal. rewrite unlines_elines by auto.
    rewrite enum_body_of_id.
    2:{ change (NL :: S_INDENT ++ stext labels ++ [NL]) with ((NL :: S_INDENT) ++ stext labels ++ [NL]).
        rewrite !mem_app. cbn [mem existsb]. change (HASH =? NL) with false. cbn [orb]. rewrite orb_false_r.
        apply mem_false_forallb. eapply forallb_impl; [|apply (stext_chars labels Hl)].
        intros x Hx. apply negb_true_iff. apply N.eqb_neq. intros ->. discriminate. }
    unfold strip.
    replace (NL :: S_INDENT ++ stext labels ++ [NL]) with ((NL :: S_INDENT ++ stext labels) ++ [NL])
      by (cbn [app]; now rewrite <- app_assoc).
    rewrite rstrip_app_ws by reflexivity. rewrite rstrip_id.
    + change (NL :: S_INDENT ++ stext labels) with ((NL :: S_INDENT) ++ stext labels).
      rewrite lstrip_ws_app_id; [|reflexivity|now apply stext_head]. now apply split_commas_stext.
    + change (NL :: S_INDENT ++ stext labels) with ((NL :: S_INDENT) ++ stext labels).
      apply last_not_ws_app_r; [|now apply stext_last]. destruct labels as [|n l]; [congruence|].
      unfold labels_ok in Hl. cbn [forallb] in Hl. apply andb_true_iff in Hl as [Hn1 _]. apply andb_true_iff in Hn1 as [_ Hn1].
      apply negb_true_iff in Hn1. apply beq_neq in Hn1. destruct l; cbn [stext]; destruct n; try congruence; discriminate.
  - rewrite unlines_elines by auto.
    change (NL :: S_INDENT ++ stext labels ++ [NL]) with ((NL :: S_INDENT) ++ stext labels ++ [NL]).
    rewrite !mem_app. cbn [mem existsb]. change (RBRACE =? NL) with false. cbn [orb]. rewrite orb_false_r.
    apply mem_false_forallb. eapply forallb_impl; [|apply (stext_chars labels Hl)].
    intros x Hx. apply negb_true_iff. apply N.eqb_neq. intros ->. discriminate.
Qed.
