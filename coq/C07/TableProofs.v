(* C07 proofs, round 5: the loaded dictionary for ANY rows (ill-formed files included), and what happens outside the
   domain of the property (a label defined twice in a group; two labels on one bit). *)
From Coq Require Import ZArith List Bool Lia Sorting.Sorted.
Import ListNotations.
From PV Require Import C07.Model C07.Dict C07.Group C07.Proofs.
Open Scope Z_scope.

(* ------------------------------------------------------------------ keys of the dictionary *)

Lemma dset_keys {V} k (v : V) d :
  map fst (dset k v d) = if has k d then map fst d else map fst d ++ [k].
Proof.
  unfold has. induction d as [|[k' v'] d IH]; cbn [dset dget map fst app]; [reflexivity|].
  destruct (str_eqb k k') eqn:E; cbn [map fst]; [reflexivity|].
  rewrite IH. destruct (dget k d); reflexivity.
Qed.

Lemma dset_keys_NoDup {V} k (v : V) d : NoDup (map fst d) -> NoDup (map fst (dset k v d)).
Proof.
  intros H. rewrite dset_keys. destruct (has k d) eqn:E; [exact H|].
  assert (~ In k (map fst d)) as Hn by (intros Hin; apply has_true in Hin; congruence).
  clear E. induction (map fst d) as [|a l IH]; cbn [app].
  - constructor; [intros []|constructor].
  - inversion H as [|? ? Ha Hl]; subst. constructor.
    + intros Hin. apply in_app_or in Hin. destruct Hin as [Hin|[Hin|[]]]; [exact (Ha Hin)|]. apply Hn. left. symmetry. exact Hin.
    + apply IH; [exact Hl|]. intros Hin. apply Hn. right. exact Hin.
Qed.

Lemma dset_keys_In {V} k (v : V) d x : In x (map fst (dset k v d)) -> x = k \/ In x (map fst d).
Proof.
  rewrite dset_keys. destruct (has k d); [auto|]. intros H. apply in_app_or in H. destruct H as [H|[H|[]]]; auto.
Qed.

Definition keys_ok (m : table) : Prop := NoDup (map fst m) /\ (forall K, In K (map fst m) -> upper K = K).

Lemma add_row_keys m r : keys_ok m -> keys_ok (add_row true m r).
Proof.
  intros [H1 H2]. rewrite add_row_unfold.
  destruct (dget (rflag r) m); (split; [apply dset_keys_NoDup; exact H1|]);
    intros K HK; apply dset_keys_In in HK; destruct HK as [->|HK]; auto; apply upper_idem.
Qed.

Lemma load_rows_keys rows : forall m, keys_ok m -> keys_ok (fold_left (add_row true) rows m).
Proof. induction rows as [|r rows IH]; intros m H; cbn [fold_left]; [exact H|]. apply IH, add_row_keys, H. Qed.

Lemma add_alias_keys m a m' : keys_ok m -> add_alias true (Some m) a = Some m' -> keys_ok m'.
Proof.
  intros [H1 H2]. destruct a as [f al]. cbn [add_alias norm]. destruct (dget (upper f) m); [|discriminate].
  intros E. injection E as <-. split; [apply dset_keys_NoDup; exact H1|].
  intros K HK. apply dset_keys_In in HK. destruct HK as [->|HK]; auto. apply upper_idem.
Qed.

Lemma alias_fold_keys al : forall m m', keys_ok m -> fold_left (add_alias true) al (Some m) = Some m' -> keys_ok m'.
Proof.
  induction al as [|a al IH]; intros m m' H E; cbn [fold_left] in E.
  - injection E as <-. exact H.
  - destruct (add_alias true (Some m) a) as [m1|] eqn:E1.
    + apply (IH m1 m'); [apply (add_alias_keys m a m1 H E1)|exact E].
    + exfalso. clear -E. induction al as [|x al IH]; cbn [fold_left] in E; [discriminate|]. apply IH. exact E.
Qed.

(* ANY file that loads: the keys are pairwise distinct and upper-case *)
Theorem load_keys rows aliases m : load true rows aliases = Some m -> keys_ok m.
Proof.
  unfold load. apply alias_fold_keys. unfold load_rows. apply load_rows_keys. split; [constructor|intros K []].
Qed.

(* ------------------------------------------------------------------ a label defined more than once: the last row wins *)

(* the bit of the LAST row that defines label L in group G (both modulo case) *)
Definition last_bit (rows : list row) (G L : str) : option Z :=
  option_map rbit (find (fun r => str_eqb (rflag r) G && str_eqb (rlabel r) L) (rev rows)).

Definition cell (m : table) (G L : str) : option Z := match dget G m with Some d => dget L d | None => None end.

Lemma cell_add_row m r G L :
  cell (add_row true m r) G L = if str_eqb (rflag r) G && str_eqb (rlabel r) L then Some (rbit r) else cell m G L.
Proof.
  unfold cell. rewrite add_row_unfold.
  destruct (str_eqb (rflag r) G) eqn:EG; cbn [andb].
  - apply str_eqb_eq in EG. subst G.
    destruct (dget (rflag r) m) as [d|] eqn:Ed; rewrite dget_dset_same.
    + destruct (str_eqb (rlabel r) L) eqn:EL.
      * apply str_eqb_eq in EL. subst L. apply dget_dset_same.
      * apply str_eqb_neq in EL. apply dget_dset_other. congruence.
    + cbn [dget]. rewrite (str_eqb_sym L). destruct (str_eqb (rlabel r) L); reflexivity.
  - apply str_eqb_neq in EG.
    destruct (dget (rflag r) m); rewrite dget_dset_other by congruence; reflexivity.
Qed.

(* ANY rows, well-formed or not: every cell of the dictionary holds the bit of the last row defining it *)
Theorem load_rows_last_wins rows G L : cell (load_rows true rows) G L = last_bit rows G L.
Proof.
  unfold load_rows. induction rows as [|r rows IH] using rev_ind.
  - reflexivity.
  - rewrite fold_left_app. cbn [fold_left]. rewrite cell_add_row. unfold last_bit. rewrite rev_app_distr. cbn [rev app find].
    destruct (str_eqb (rflag r) G && str_eqb (rlabel r) L); [reflexivity|]. exact IH.
Qed.

(* ------------------------------------------------------------------ two labels on one bit: the first one answers *)

Lemma filter_single (p : Z -> bool) l x : NoDup l -> In x l -> (forall y, In y l -> p y = true <-> y = x) -> filter p l = [x].
Proof.
  induction l as [|a l IH]; intros Hnd Hin Hp; [destruct Hin|].
  inversion Hnd as [|? ? Hna Hnd']; subst. cbn [filter].
  destruct (p a) eqn:Ea.
  - assert (a = x) by (apply Hp; [left; reflexivity|exact Ea]). subst a. f_equal.
    assert (forall y, In y l -> p y = false) as Hf.
    { intros y Hy. destruct (p y) eqn:Ey; [|reflexivity]. exfalso. apply Hna.
      assert (y = x) by (apply Hp; [right; exact Hy|exact Ey]). subst y. exact Hy. }
    clear -Hf. induction l as [|b l IH]; [reflexivity|]. cbn [filter]. rewrite (Hf b) by (left; reflexivity).
    apply IH. intros y Hy. apply Hf. right. exact Hy.
  - destruct Hin as [->|Hin].
    + exfalso. assert (p x = true) by (apply Hp; [left; reflexivity|reflexivity]). congruence.
    + apply IH; [exact Hnd'|exact Hin|]. intros y Hy. apply Hp. right. exact Hy.
Qed.

Lemma sorted_lt_NoDup l : StronglySorted Z.lt l -> NoDup l.
Proof.
  induction 1 as [|a l Hs IH Hall]; constructor; [|exact IH].
  intros Hin. rewrite Forall_forall in Hall. specialize (Hall a Hin). lia.
Qed.

Lemma set_bits_pow2 b : 0 <= b < 64 -> set_bits (2 ^ b) = [b].
Proof.
  intros Hb. unfold set_bits. apply filter_single.
  - apply sorted_lt_NoDup, zseq_sorted.
  - apply zseq_In. lia.
  - intros y Hy. apply zseq_In in Hy. rewrite Z.pow2_bits_eqb by lia. split; intros H.
    + apply Z.eqb_eq in H. congruence.
    + subst y. apply Z.eqb_refl.
Qed.

(* ANY dictionary: a single bit names the FIRST label (in dictionary order) that carries it, or nothing *)
Theorem single_bit_first_label (m : table) g d b : dget (upper g) m = Some d -> 0 <= b < 64 ->
  flagname m g (2 ^ b) = RNames (match first_with_bit b d with Some l => [l] | None => [] end).
Proof.
  intros Hd Hb. unfold flagname.
  assert (in_u64 (2 ^ b) = true) as ->.
  { apply in_u64_range. split; [apply Z.pow_nonneg; lia|apply Z.pow_lt_mono_r; lia]. }
  rewrite Hd, set_bits_pow2 by exact Hb. cbn [flagname_loop app]. destruct (first_with_bit b d); reflexivity.
Qed.

(* so with two labels on one bit, names -> value -> names does NOT give the second label back: outside the domain
   (`one label per bit`) the round trip fails, whatever the rest of the file *)
Theorem two_labels_one_bit_not_identity (m : table) g d l1 l2 b :
  dget (upper g) m = Some d -> 0 <= b < 64 ->
  first_with_bit b d = Some l1 -> dget (upper l2) d = Some b -> l1 <> upper l2 ->
  model_call m (KNVN g [l2]) = RNames [l1] /\ model_call m (KNVN g [l2]) <> RNames [upper l2].
Proof.
  intros Hd Hb H1 H2 Hne.
  assert (model_call m (KNVN g [l2]) = RNames [l1]) as E.
  { cbn [model_call]. unfold flagval. rewrite Hd. cbn [map flagval_loop]. rewrite H2.
    destruct (b <? 0) eqn:Eb; [lia|].
    replace ((0 + 2 ^ b mod two64) mod two64) with (2 ^ b).
    - rewrite (single_bit_first_label m g d b Hd Hb), H1. reflexivity.
    - rewrite Z.add_0_l, Z.mod_mod by (unfold two64; lia). symmetry. apply Z.mod_small.
      split; [apply Z.pow_nonneg; lia|unfold two64; apply Z.pow_lt_mono_r; lia]. }
  split; [exact E|]. rewrite E. intros X. injection X as X. contradiction.
Qed.

(* ------------------------------------------------------------------ the dictionary of a well-formed file satisfies S *)

Lemma wf_aliases_new al : forall names, wf_aliases names al = true -> forall f a, In (f, a) al -> ~ In (upper a) names.
Proof.
  induction al as [|[f0 a0] al IH]; intros names Hwf f a Hin; [destruct Hin|].
  cbn [wf_aliases] in Hwf. rewrite !andb_true_iff in Hwf. destruct Hwf as [[_ Hnew] Hrest].
  destruct Hin as [E|Hin].
  - injection E as <- <-. apply mem_notIn. apply negb_true_iff. exact Hnew.
  - intros Hn. apply (IH _ Hrest f a Hin). right. exact Hn.
Qed.

Lemma NoDup_nodupb (l : list str) : NoDup l -> nodupb str_eqb l = true.
Proof.
  induction 1 as [|x l Hx Hnd IH]; [reflexivity|]. cbn [nodupb]. rewrite IH, andb_true_r. apply negb_true_iff.
  destruct (existsb (str_eqb x) l) eqn:E; [|reflexivity]. exfalso. apply existsb_exists in E. destruct E as (y & Hy & Ey).
  apply str_eqb_eq in Ey. subst y. exact (Hx Hy).
Qed.

Lemma group_eqb_refl (d : group) : list_eqb fb_eqb d d = true.
Proof.
  induction d as [|x d IH]; [reflexivity|]. cbn [list_eqb]. rewrite IH, andb_true_r. apply fb_eqb_eq. reflexivity.
Qed.

Theorem loaded_table_ok rows aliases m :
  wf_file rows aliases = true -> load true rows aliases = Some m -> spec_table_ok rows aliases m = true.
Proof.
  intros Hwf Hload.
  destruct (load_spec rows aliases Hwf) as (m' & Hl & Hget & Hal). rewrite Hload in Hl. injection Hl as <-.
  destruct (load_keys rows aliases m Hload) as [Hnd Hup].
  assert (forall r, In r rows -> known rows aliases (fst (fst r)) = true) as Hkn.
  { intros r Hr. rewrite known_gknown. unfold wf_file in Hwf. rewrite andb_true_iff in Hwf. destruct Hwf as [_ Hwa].
    rewrite target_not_alias.
    - apply In_rflag_gknown. apply (in_map rflag) in Hr. exact Hr.
    - intros f a Hin E. apply (wf_aliases_new aliases _ Hwa f a Hin). rewrite E. apply (in_map rflag) in Hr. exact Hr. }
  unfold spec_table_ok. rewrite !andb_true_iff. repeat split.
  - apply forallb_forall. intros [K d] Hin. cbn [fst snd].
    assert (upper K = K) as HK by (apply Hup; apply (in_map fst) in Hin; exact Hin).
    pose proof (NoDup_dget K d m Hnd Hin) as Hd. pose proof (Hget K) as HgK. rewrite HK, Hd in HgK.
    destruct (known rows aliases K); [|discriminate]. injection HgK as ->. cbn [andb].
    unfold group_same. replace (up_group (defs rows aliases K)) with (defs rows aliases K); [apply group_eqb_refl|].
    unfold up_group. rewrite <- (map_id (defs rows aliases K)) at 1. apply map_ext_in. intros [l b] Hlb.
    rewrite defs_gdefs in Hlb. rewrite (gdefs_upper _ _ _ Hlb). reflexivity.
  - apply forallb_forall. intros r Hr. unfold has_ci. apply existsb_exists.
    pose proof (Hget (fst (fst r))) as Hg. rewrite (Hkn r Hr) in Hg. apply dget_In in Hg.
    eexists. split; [exact Hg|]. cbn [fst]. rewrite upper_idem. apply str_eqb_refl.
  - apply forallb_forall. intros [f a] Hin. cbn [snd]. unfold has_ci. apply existsb_exists.
    destruct (Hal f a Hin) as [E Hk]. pose proof (Hget f) as Hg. rewrite Hk in Hg. rewrite <- E in Hg. apply dget_In in Hg.
    eexists. split; [exact Hg|]. cbn [fst]. rewrite upper_idem. apply str_eqb_refl.
  - replace (map (fun kv : str * group => upper (fst kv)) m) with (map fst m); [apply NoDup_nodupb; exact Hnd|].
    apply map_ext_in. intros kv Hin. symmetry. apply Hup. apply (in_map fst) in Hin. exact Hin.
Qed.

(* ------------------------------------------------------------------ file level *)
From PV Require Import Yanny.Bytes Yanny.Types Yanny.Parse C07.FileModel C07.FileProofs.

Theorem file_loaded_table_ok b r rows aliases m :
  parse_raw b = Some r -> file_tables r = Some (rows, aliases) -> wf_file rows aliases = true ->
  from_file true b = Some m -> spec_table_ok rows aliases m = true.
Proof.
  intros Hp Ht Hwf Hf. apply loaded_table_ok; [exact Hwf|]. rewrite <- (from_file_load true b r rows aliases Hp Ht). exact Hf.
Qed.

(* the raw reader keeps a scalar cell of a non-numeric column WHOLE, whatever the declared type text says about a
   width: the token becomes the cell (a name longer than `char flag[20]` is not cut) *)
Theorem raw_cell_kept_whole (name typ value data value' : bytes) (cols : tcols) :
  all_ws value = false -> get_token value = Some (data, value') -> classify typ = KOther -> isarray typ = false ->
  parse_cells ((name, Some typ) :: cols) value = option_map (cons (Sc (STok data))) (parse_cells cols value').
Proof.
  intros Hws Ht Hc Ha. cbn [parse_cells]. rewrite Hws, Ht, Hc, Ha. cbn [conv1 option_map].
  destruct (parse_cells cols value'); reflexivity.
Qed.
