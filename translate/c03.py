"""C03 extractor: the control skeleton of yanny.write() and yanny.append() -> coq/Generated/YannyOps.v.

Every statement of the two methods is translated, in source order, into the small statement language of
coq/C03/SkelLang.v (guards, string expressions, assignments to locals and to self.filename / self._contents, raise,
warn, open-and-write, self._parse(), the loops over self.pairs() / datatable.keys() / self.tables()).  The per-row
loop (`for k in range(...)`: protect(), braces for arrays, one line per row) is carried as its normalised source text
(`ast.unparse`): the model's Render.render_row is the transliteration of exactly that text (literal identity, like the
regexes of translate/c01.py).

coq/C03/Skel.v interprets the generated skeletons (SkelSem.run_write / run_append) and proves that the interpretation
IS Model.do_write / Model.do_append; Props.v has the obligations.  Moving `self.filename = newfile` above the existence
check, testing `in self` instead of `in self.tables()`, dropping the re-parse, writing the marker outside the
`len(contents) > 0` branch ... changes the generated term and breaks the obligation (besides the correspondence run).

Fail-closed: a statement or expression outside the recognised forms becomes SOpaque / XOpaque / GOpaque (carrying its
source text), which the reference skeleton does not contain; a missing method makes the source unrecognised.
"""
import ast
import os


class Unrecognised(Exception):
    pass


def coq_str(s):
    out = []
    for ch in s:
        if ch == '\n':
            out.append('\n')
        elif ord(ch) > 126 or ord(ch) < 32:
            raise Unrecognised('non-printable character in literal %r' % s)
        elif ch == '"':
            out.append('""')
        else:
            out.append(ch)
    return '"' + ''.join(out) + '"'


def src(node):
    return ast.unparse(node)


def is_self_attr(n, name=None):
    return isinstance(n, ast.Attribute) and isinstance(n.value, ast.Name) and n.value.id == 'self' and (name is None or n.attr == name)


def is_call(n, func_src):
    return isinstance(n, ast.Call) and src(n.func) == func_src


def const_str(n):
    return isinstance(n, ast.Constant) and isinstance(n.value, str)


# ------------------------------------------------------------------------------------------------ expressions
def X(n):
    if const_str(n):
        return 'XLit %s' % coq_str(n.value)
    if isinstance(n, ast.Name):
        return 'XLocal %s' % coq_str(n.id)
    if is_self_attr(n) and n.attr in ('filename', '_contents'):
        return 'XSelf %s' % coq_str(n.attr)
    if isinstance(n, ast.BinOp) and isinstance(n.op, ast.Add):
        return 'XCat (%s) (%s)' % (X(n.left), X(n.right))
    # "fmt".format(a, b)
    if isinstance(n, ast.Call) and isinstance(n.func, ast.Attribute) and n.func.attr == 'format' and const_str(n.func.value) \
            and not n.keywords:
        return 'XFmt %s [%s]' % (coq_str(n.func.value.value), '; '.join(X(a) for a in n.args))
    # datetime.datetime.utcnow().strftime(fmt)
    if isinstance(n, ast.Call) and isinstance(n.func, ast.Attribute) and n.func.attr == 'strftime' \
            and src(n.func.value) in ('datetime.datetime.utcnow()', 'datetime.datetime.now(datetime.UTC)',
                                      'datetime.datetime.now(datetime.timezone.utc)') \
            and len(n.args) == 1 and const_str(n.args[0]):
        return 'XNow %s' % coq_str(n.args[0].value)
    # sep.join(X)
    if isinstance(n, ast.Call) and isinstance(n.func, ast.Attribute) and n.func.attr == 'join' and const_str(n.func.value) \
            and len(n.args) == 1:
        return 'XJoin %s (%s)' % (coq_str(n.func.value.value), X(n.args[0]))
    # [fmt.format(c) for c in X]
    if isinstance(n, ast.ListComp) and len(n.generators) == 1 and not n.generators[0].ifs \
            and isinstance(n.generators[0].target, ast.Name):
        v = n.generators[0].target.id
        e = n.elt
        if isinstance(e, ast.Call) and isinstance(e.func, ast.Attribute) and e.func.attr == 'format' and const_str(e.func.value) \
                and len(e.args) == 1 and isinstance(e.args[0], ast.Name) and e.args[0].id == v:
            return 'XMapFmt %s (%s)' % (coq_str(e.func.value.value), X(n.generators[0].iter))
    # self._symbols['enum']
    if isinstance(n, ast.Subscript) and is_self_attr(n.value, '_symbols') and const_str(n.slice):
        return 'XSymbols %s' % coq_str(n.slice.value)
    # self[key] / datatable[key]
    if isinstance(n, ast.Subscript) and isinstance(n.value, ast.Name):
        if n.value.id == 'self':
            return 'XSelfItem (%s)' % X(n.slice)
        return 'XItem %s (%s)' % (coq_str(n.value.id), X(n.slice))
    # x.upper() / x.lower()
    if isinstance(n, ast.Call) and isinstance(n.func, ast.Attribute) and n.func.attr in ('upper', 'lower') and not n.args:
        return '%s (%s)' % ('XUpper' if n.func.attr == 'upper' else 'XLower', X(n.func.value))
    return 'XOpaque %s' % coq_str(src(n))


def container(n):
    if is_call(n, 'self.tables') and not n.args:
        return 'CSelfTables'
    if isinstance(n, ast.Name):
        return 'CName %s' % coq_str(n.id)
    return 'COpaque %s' % coq_str(src(n))


def len_cmp(n):
    """len(X) > 0 / len(X) == 0 -> (X, '>0' | '==0')"""
    if isinstance(n, ast.Compare) and len(n.ops) == 1 and is_call(n.left, 'len') and len(n.left.args) == 1 \
            and isinstance(n.comparators[0], ast.Constant) and n.comparators[0].value == 0:
        if isinstance(n.ops[0], ast.Gt):
            return n.left.args[0], '>0'
        if isinstance(n.ops[0], ast.Eq):
            return n.left.args[0], '==0'
    return None


def G(n):
    if isinstance(n, ast.Compare) and len(n.ops) == 1 and isinstance(n.ops[0], ast.Is) and isinstance(n.left, ast.Name) \
            and isinstance(n.comparators[0], ast.Constant) and n.comparators[0].value is None:
        return 'GIsNone %s' % coq_str(n.left.id)
    lc = len_cmp(n)
    if lc is not None:
        return '%s (%s)' % ('GLenPos' if lc[1] == '>0' else 'GLenZero', X(lc[0]))
    if is_call(n, 'os.access') and len(n.args) == 2 and src(n.args[1]) in ('os.F_OK', 'os.W_OK', 'os.R_OK'):
        return 'GAccess (%s) %s' % (X(n.args[0]), coq_str(src(n.args[1])[3:]))
    if isinstance(n, ast.UnaryOp) and isinstance(n.op, ast.Not):
        return 'GNot (%s)' % G(n.operand)
    if isinstance(n, ast.BoolOp) and len(n.values) == 2:
        return '%s (%s) (%s)' % ('GOr' if isinstance(n.op, ast.Or) else 'GAnd', G(n.values[0]), G(n.values[1]))
    if isinstance(n, ast.Compare) and len(n.ops) == 1 and isinstance(n.ops[0], ast.Eq):
        return 'GEq (%s) (%s)' % (X(n.left), X(n.comparators[0]))
    if isinstance(n, ast.Compare) and len(n.ops) == 1 and isinstance(n.ops[0], ast.In):
        return 'GIn (%s) (%s)' % (X(n.left), container(n.comparators[0]))
    if is_call(n, 'isinstance') and len(n.args) == 2 and isinstance(n.args[0], ast.Name):
        return 'GIsInstance %s %s' % (coq_str(n.args[0].id), coq_str(src(n.args[1])))
    if isinstance(n, ast.Call) and isinstance(n.func, ast.Attribute) and n.func.attr in ('endswith', 'startswith') \
            and len(n.args) == 1 and const_str(n.args[0]):
        return '%s (%s) %s' % ('GEndsWith' if n.func.attr == 'endswith' else 'GStartsWith', X(n.func.value), coq_str(n.args[0].value))
    return 'GOpaque %s' % coq_str(src(n))


# ------------------------------------------------------------------------------------------------ statements
def is_docstring(s):
    return isinstance(s, ast.Expr) and const_str(s.value)


def iterator(n):
    if is_call(n, 'self.pairs') and not n.args:
        return 'ISelfPairs'
    if is_call(n, 'self.tables') and not n.args:
        return 'ISelfTables'
    if isinstance(n, ast.Call) and isinstance(n.func, ast.Attribute) and n.func.attr == 'keys' and isinstance(n.func.value, ast.Name) \
            and not n.args:
        return 'IDictKeys %s' % coq_str(n.func.value.id)
    return 'IOpaque %s' % coq_str(src(n))


def S(s):
    if isinstance(s, ast.If):
        return 'SIf (%s) %s %s' % (G(s.test), block(s.body), block(s.orelse))
    if isinstance(s, ast.Raise) and s.exc is not None:
        e = s.exc.func if isinstance(s.exc, ast.Call) else s.exc
        return 'SRaise %s' % coq_str(src(e))
    if isinstance(s, ast.Return) and s.value is None:
        return 'SReturn'
    if isinstance(s, ast.Continue):
        return 'SContinue'
    if isinstance(s, ast.Assign) and len(s.targets) == 1:
        t = s.targets[0]
        if isinstance(t, ast.Name):
            return 'SAssign %s (%s)' % (coq_str(t.id), X(s.value))
        if is_self_attr(t):
            return 'SSetSelf %s (%s)' % (coq_str(t.attr), X(s.value))
    if isinstance(s, ast.AugAssign) and isinstance(s.op, ast.Add):
        t = s.target
        if isinstance(t, ast.Name):
            return 'SAug %s (%s)' % (coq_str(t.id), X(s.value))
        if is_self_attr(t):
            return 'SAugSelf %s (%s)' % (coq_str(t.attr), X(s.value))
    # with open(path, mode) as f: f.write(data)
    if isinstance(s, ast.With) and len(s.items) == 1 and is_call(s.items[0].context_expr, 'open') \
            and len(s.items[0].context_expr.args) == 2 and const_str(s.items[0].context_expr.args[1]) \
            and not s.items[0].context_expr.keywords \
            and isinstance(s.items[0].optional_vars, ast.Name) and len(s.body) == 1 and isinstance(s.body[0], ast.Expr):
        f = s.items[0].optional_vars.id
        c = s.body[0].value
        if is_call(c, f + '.write') and len(c.args) == 1:
            a = s.items[0].context_expr.args
            return 'SOpenWrite (%s) %s (%s)' % (X(a[0]), coq_str(a[1].value), X(c.args[0]))
    if isinstance(s, ast.Expr) and is_call(s.value, 'self._parse') and not s.value.args:
        return 'SParse'
    if isinstance(s, ast.Expr) and is_call(s.value, 'warnings.warn') and len(s.value.args) == 2:
        return 'SWarn %s' % coq_str(src(s.value.args[1]))
    if isinstance(s, ast.For) and not s.orelse and isinstance(s.target, ast.Name):
        # the per-row loop: by its source text
        if is_call(s.iter, 'range'):
            return 'SRows %s' % coq_str(src(s))
        return 'SFor %s (%s) %s' % (coq_str(s.target.id), iterator(s.iter), block(s.body))
    return 'SOpaque %s' % coq_str(src(s))


def block(stmts):
    return '[%s]' % ';\n   '.join(S(s) for s in stmts if not is_docstring(s))


def method_args(fn):
    a = fn.args
    names = [x.arg for x in a.args]
    defaults = [None] * (len(names) - len(a.defaults)) + [src(d) for d in a.defaults]
    return [(n, d) for n, d in zip(names, defaults)]


def generate(repo):
    info = {'recognised': True, 'detail': []}
    try:
        text = open(os.path.join(repo, 'pydl/pydlutils/yanny.py')).read()
        tree = ast.parse(text)
        cls = [n for n in tree.body if isinstance(n, ast.ClassDef) and n.name == 'yanny']
        if not cls:
            raise Unrecognised('class yanny not found')
        fns = {n.name: n for n in cls[0].body if isinstance(n, ast.FunctionDef)}
        for m in ('write', 'append'):
            if m not in fns:
                raise Unrecognised('method yanny.%s not found' % m)
        out = ['(* GENERATED by translate/c03.py from pydl/pydlutils/yanny.py (yanny.write, yanny.append) -- do not edit *)',
               'From Coq Require Import List String.', 'Import ListNotations.', 'From PV Require Import C03.SkelLang.',
               'Open Scope string_scope.', '']
        for m in ('write', 'append'):
            args = method_args(fns[m])
            out.append('(* def %s(%s) *)' % (m, ', '.join(n if d is None else '%s=%s' % (n, d) for n, d in args)))
            out.append('Definition %s_args : list (string * option string) := [%s].' % (
                m, '; '.join('(%s, %s)' % (coq_str(n), 'None' if d is None else 'Some %s' % coq_str(d)) for n, d in args)))
            out.append('Definition %s_skel : list st :=\n  %s.\n' % (m, block(fns[m].body)))
            info['%s_statements' % m] = sum(1 for _ in ast.walk(fns[m]) if isinstance(_, ast.stmt)) - 1
        body = '\n'.join(out) + '\n'
        info['opaque'] = body.count('Opaque ')
        return body, info
    except (Unrecognised, SyntaxError, OSError) as e:
        info['recognised'] = False
        info['detail'].append('%s: %s' % (type(e).__name__, e))
        return None, info


if __name__ == '__main__':
    import sys
    t, i = generate(sys.argv[1] if len(sys.argv) > 1 else '/repo')
    print(i)
    print(t)
