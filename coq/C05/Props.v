(* C05 -- spheregroup partitions points into friends-of-friends components.
   Property theorems only; each is closed by `exact` and followed by Print Assumptions.
   R n link a b  :=  a < n /\ b < n /\ link a b = true      (the linking relation of the n points)
   E n link      :=  clos_refl_sym_trans nat (R n link)      (chains of links) *)
From Coq Require Import ZArith List Bool Arith Relations.
Import ListNotations.
From PV Require Import C05.Model C05.Proofs.

(* soundness and completeness of the oracle `components`: same label <-> joined by a chain of links;
   labels are exactly 0..ngroups-1; groups are numbered in order of their first member *)
Theorem C05_components_spec : forall n link,
  (forall i, i < n -> nth_error (components n link) i = Some (label n link i)) /\
  (forall i j, i < n -> j < n -> (label n link i = label n link j <-> clos_refl_sym_trans nat (R n link) i j)) /\
  (forall i, i < n -> label n link i < ngroups n link) /\
  (forall g, g < ngroups n link -> exists i, i < n /\ label n link i = g) /\
  (forall i j, i < n -> j < n -> label n link i < label n link j ->
     exists i', i' < j /\ label n link i' = label n link i).
Proof.
  exact (fun n link => conj (components_nth n link) (conj (label_same_iff n link) (conj (label_range n link)
          (conj (label_onto n link) (label_order n link))))).
Qed.
Print Assumptions C05_components_spec.

(* the three list arrays describe the partition given by any labelling lab:
   multiplicity = size, first = least member (or -1), following next from first visits the members
   increasingly, each exactly once, and ends at -1 (the walk has fuel n+1 and at most n members);
   entries beyond the last group are 0 and -1 *)
Theorem C05_lists_spec : forall n lab,
  (forall g, g < n ->
     nth_error (fst (fst (lists_of n lab))) g = Some (mult_of n lab g) /\
     nth_error (snd (fst (lists_of n lab))) g = Some (first_of n lab g) /\
     nth_error (snd (lists_of n lab)) g = Some (next_of n lab g)) /\
  (forall g i, In i (members n lab g) <-> (i < n /\ lab i = g)) /\
  (forall g, mult_of n lab g = Z.of_nat (length (members n lab g))) /\
  (forall g, match members n lab g with
             | [] => first_of n lab g = (-1)%Z
             | i :: _ => first_of n lab g = Z.of_nat i /\ forall j, j < n -> lab j = g -> i <= j
             end) /\
  (forall g, walk (S n) (next_of n lab) (first_of n lab g) = members n lab g) /\
  (forall ng g, (forall i, i < n -> lab i < ng) -> ng <= g ->
     mult_of n lab g = 0%Z /\ first_of n lab g = (-1)%Z).
Proof.
  exact (fun n lab => conj (lists_of_nth n lab) (conj (members_spec n lab) (conj (mult_size n lab)
          (conj (first_least n lab) (conj (walk_members n lab) (beyond_groups n lab)))))).
Qed.
Print Assumptions C05_lists_spec.

(* non-vacuity *)
Example C05_example :
  spec_output 5 (fun i j => Nat.eqb i j || (Nat.eqb i 1 && Nat.eqb j 4) || (Nat.eqb i 3 && Nat.eqb j 0)) =
  ([0; 1; 2; 0; 1]%Z, ([2; 2; 1; 0; 0]%Z, [0; 1; 2; -1; -1]%Z, [3; 4; -1; -1; -1]%Z)).
Proof. vm_compute. reflexivity. Qed.

(* ---------------------------------------------------------------- algorithmic models (C05/Model.v, C05/Algo.v) *)
From PV Require Import C05.Renumber C05.Tail C05.Algo C05.Merge C05.MergeRel C05.FofTail C05.Spec.

(* the tail of spheregroup() (renumbering in order of appearance, list rebuild, multiplicities): for ANY
   labelling lab0 given with arrays that agree with its true lists, and any group count that is large enough,
   it returns the canonical renumbering of lab0 and lists_of it *)
Theorem C05_renumber_refines : forall n lab0 ing0 f0 nx0 K,
  (forall i, i < n -> ing0 i = Z.of_nat (lab0 i)) ->
  (forall g, f0 g = first_of n lab0 g) ->
  (forall i, i < n -> nx0 i = next_of n lab0 i) ->
  length (filter (isfirst n lab0) (seq 0 n)) <= K ->
  renumber_model n ing0 f0 nx0 K
  = (map (fun i => Z.of_nat (canon n lab0 i)) (seq 0 n), lists_of n (canon n lab0)).
Proof. exact renumber_refines_gen. Qed.
Print Assumptions C05_renumber_refines.

(* ... and if lab0 is constant exactly on the friends-of-friends classes, that is the specification's output *)
Theorem C05_spheregroup_tail_spec : forall n link lab0,
  (forall i j, i < n -> j < n -> (lab0 i = lab0 j <-> clos_refl_sym_trans nat (R n link) i j)) ->
  renumber_model n (fun i => Z.of_nat (lab0 i)) (first_of n lab0) (next_of n lab0) (ngroups n link)
  = spec_output n link.
Proof. exact spheregroup_tail_spec. Qed.
Print Assumptions C05_spheregroup_tail_spec.

(* the fuel lemma: under  map[g] <= g  every chase ends within g steps at a root not above g *)
Theorem C05_chase_terminates : forall mp, dec mp -> forall fuel c, c <= fuel ->
  mp (chase fuel mp c) = chase fuel mp c /\ chase fuel mp c <= c.
Proof. exact chase_terminates. Qed.
Print Assumptions C05_chase_terminates.

(* path compression towards a root m: the class of c joins the class of m, no other root changes,
   map[g] <= g is preserved *)
Theorem C05_compress_rep : forall fuel mp c m, dec mp -> mp m = m -> m <= rep mp c -> c <= fuel ->
  let mp' := compress (S fuel) mp c m in
  dec mp' /\ mp' m = m /\
  (forall y, rep mp' y = if Nat.eqb (rep mp y) (rep mp c) then m else rep mp y) /\
  (forall x, c < x -> mp' x = mp x).
Proof. exact compress_rep. Qed.
Print Assumptions C05_compress_rep.

(* merge_refines: after the mapGroups loop over the provisional groups pgs (in creation order):
   nMapGroups = number of groups; map[g] <= g, map = identity above, group numbers below nMapGroups;
   exactly the covered points carry a group number; and two points have provisional groups with the same
   root  <->  they are joined by a chain of provisional groups sharing points *)
Theorem C05_merge_refines : forall pgs,
  let st := merge_model pgs in
  m_n st = length pgs /\
  (dec (m_map st) /\ (forall x, m_n st <= x -> m_map st x = x) /\ (forall p e, m_in st p = Some e -> e < m_n st)) /\
  (forall p, covered pgs p <-> m_in st p <> None) /\
  (forall p q e e', m_in st p = Some e -> m_in st q = Some e' ->
     (rep (m_map st) e = rep (m_map st) e' <-> clos_refl_sym_trans nat (share pgs) p q)).
Proof. exact merge_refines. Qed.
Print Assumptions C05_merge_refines.

(* the tail of chunks.friendsoffriends(): flattening, inGroup, lists, multiplicities, nGroups *)
Theorem C05_fof_refines : forall n pgs st, Inv pgs st -> (forall p, p < n -> covered pgs p) ->
  fof_tail_model n st =
    (map (fun p => Z.of_nat (fof_lab st p)) (seq 0 n),
     fst (fst (lists_of n (fof_lab st))), snd (fst (lists_of n (fof_lab st))), snd (lists_of n (fof_lab st)),
     Z.of_nat (nroots (m_map st) (m_n st))) /\
  (forall p q, p < n -> q < n -> (fof_lab st p = fof_lab st q <-> clos_refl_sym_trans nat (share pgs) p q)).
Proof. exact fof_refines. Qed.
Print Assumptions C05_fof_refines.

(* the property, CONDITIONAL on the geometric hypothesis pair_coverage (every linked pair lies together in
   some cell list) and on groups_ok (what the per-cell class groups must deliver; tied by correspondence
   only -- groups_refines is not proved) *)
Theorem C05_spheregroup_spec_partial : forall n link cells pgs,
  (forall i, i < n -> link i i = true) ->
  pair_coverage n link cells ->
  groups_ok n link cells pgs ->
  spheregroup_model n pgs = spec_output n link.
Proof. exact spheregroup_spec. Qed.
Print Assumptions C05_spheregroup_spec_partial.

Example C05_example_model :
  spheregroup_model 5 [[0; 3]; [1]; [2]; [4; 1]; [3]] =
  ([0; 1; 2; 0; 1]%Z, ([2; 2; 1; 0; 0]%Z, [0; 1; 2; -1; -1]%Z, [3; 4; -1; -1; -1]%Z)).
Proof. vm_compute. reflexivity. Qed.

(* ---------------------------------------------------------------- the per-cell algorithm and the end-to-end theorem *)
From PV Require Import C05.Groups C05.Full.

(* class groups: before its final renumbering, two positions of the cell carry the same label exactly when a
   chain of links inside the cell joins them (for a symmetric, reflexive link) *)
Theorem C05_groups_labels : forall m lnk,
  (forall a b, a < m -> b < m -> lnk a b = lnk b a) -> (forall a, a < m -> lnk a a = true) ->
  forall a b, a < m -> b < m ->
  (labz (g_in (gfinal m lnk)) a = labz (g_in (gfinal m lnk)) b <-> clos_refl_sym_trans nat (R m lnk) a b).
Proof. exact gfinal_labels. Qed.
Print Assumptions C05_groups_labels.

(* groups_refines: run on every cell, class groups delivers groups_ok *)
Theorem C05_groups_refines : forall n link cells,
  (forall a b, a < n -> b < n -> link a b = link b a) -> (forall a, a < n -> link a a = true) ->
  (forall c a, In c cells -> In a c -> a < n) ->
  groups_ok n link cells (all_pgs link cells).
Proof. exact groups_refines. Qed.
Print Assumptions C05_groups_refines.

(* THE PROPERTY, conditional on the geometric hypothesis pair_coverage only (link symmetric and reflexive,
   cell lists contain valid indices): the complete model -- per-cell groups, mapGroups merge, friendsoffriends
   tail, spheregroup tail -- returns (components, lists_of) *)
Theorem C05_spheregroup_spec : forall n link cells,
  (forall a b, a < n -> b < n -> link a b = link b a) -> (forall a, a < n -> link a a = true) ->
  (forall c a, In c cells -> In a c -> a < n) ->
  pair_coverage n link cells ->
  spheregroup_full n link cells = spec_output n link.
Proof. exact spheregroup_full_spec. Qed.
Print Assumptions C05_spheregroup_spec.

Example C05_example_full :
  let link := fun i j => Nat.eqb i j || (Nat.eqb i 1 && Nat.eqb j 4) || (Nat.eqb i 4 && Nat.eqb j 1)
                         || (Nat.eqb i 3 && Nat.eqb j 0) || (Nat.eqb i 0 && Nat.eqb j 3) in
  spheregroup_full 5 link [[0; 3; 2]; [1; 4]; [4; 3]] = spec_output 5 link.
Proof. vm_compute. reflexivity. Qed.


(* ================================================================== the source's own statements (round 3) *)
From Coq Require Import String.
From PV Require Import C05.Imp C05.GenRef Generated.Groups C05.GenProofs.
Open Scope string_scope.

(* every statement / loop header / fill value extracted from class groups, chunks.friendsoffriends and the tail of
   spheregroup() on this run (Generated/Groups.v) is, syntactically, the reference transliteration C05/GenRef.v *)
Theorem C05_generated_is_reference :
  groups_recognised = true /\
  gen_fof_groups_from = ref_fof_groups_from /\
  gen_fof_groups_to = ref_fof_groups_to /\
  gen_fof_groups_step = ref_fof_groups_step /\
  gen_fof_min_init = ref_fof_min_init /\
  gen_fof_walk_continue = ref_fof_walk_continue /\
  gen_fof_pass1_body = ref_fof_pass1_body /\
  gen_fof_is_new = ref_fof_is_new /\
  gen_fof_new_root = ref_fof_new_root /\
  gen_fof_link_root = ref_fof_link_root /\
  gen_fof_pass2_body = ref_fof_pass2_body /\
  gen_fof_flat_from = ref_fof_flat_from /\
  gen_fof_flat_to = ref_fof_flat_to /\
  gen_fof_flat_step = ref_fof_flat_step /\
  gen_fof_flat_body = ref_fof_flat_body /\
  gen_fof_mapin_from = ref_fof_mapin_from /\
  gen_fof_mapin_to = ref_fof_mapin_to /\
  gen_fof_mapin_step = ref_fof_mapin_step /\
  gen_fof_mapin_body = ref_fof_mapin_body /\
  gen_fof_build_from = ref_fof_build_from /\
  gen_fof_build_to = ref_fof_build_to /\
  gen_fof_build_step = ref_fof_build_step /\
  gen_fof_build_body = ref_fof_build_body /\
  gen_fof_mult_from = ref_fof_mult_from /\
  gen_fof_mult_to = ref_fof_mult_to /\
  gen_fof_mult_step = ref_fof_mult_step /\
  gen_fof_mult_body = ref_fof_mult_body /\
  gen_fof_fill_inGroup = ref_fof_fill_inGroup /\
  gen_fof_fill_mapGroups = ref_fof_fill_mapGroups /\
  gen_fof_fill_firstGroup = ref_fof_fill_firstGroup /\
  gen_fof_fill_nextGroup = ref_fof_fill_nextGroup /\
  gen_fof_fill_multGroup = ref_fof_fill_multGroup /\
  gen_groups_main_from = ref_groups_main_from /\
  gen_groups_main_to = ref_groups_main_to /\
  gen_groups_main_step = ref_groups_main_step /\
  gen_groups_partner_from = ref_groups_partner_from /\
  gen_groups_partner_to = ref_groups_partner_to /\
  gen_groups_partner_step = ref_groups_partner_step /\
  gen_groups_link = ref_groups_link /\
  gen_groups_partner_body = ref_groups_partner_body /\
  gen_groups_min_init = ref_groups_min_init /\
  gen_groups_relabel_from = ref_groups_relabel_from /\
  gen_groups_relabel_to = ref_groups_relabel_to /\
  gen_groups_relabel_step = ref_groups_relabel_step /\
  gen_groups_relabel_body = ref_groups_relabel_body /\
  gen_groups_newgroup = ref_groups_newgroup /\
  gen_groups_reset_from = ref_groups_reset_from /\
  gen_groups_reset_to = ref_groups_reset_to /\
  gen_groups_reset_step = ref_groups_reset_step /\
  gen_groups_reset_body = ref_groups_reset_body /\
  gen_groups_rebuild_from = ref_groups_rebuild_from /\
  gen_groups_rebuild_to = ref_groups_rebuild_to /\
  gen_groups_rebuild_step = ref_groups_rebuild_step /\
  gen_groups_rebuild_body = ref_groups_rebuild_body /\
  gen_groups_renum_from = ref_groups_renum_from /\
  gen_groups_renum_to = ref_groups_renum_to /\
  gen_groups_renum_step = ref_groups_renum_step /\
  gen_groups_renum_body = ref_groups_renum_body /\
  gen_groups_build_from = ref_groups_build_from /\
  gen_groups_build_to = ref_groups_build_to /\
  gen_groups_build_step = ref_groups_build_step /\
  gen_groups_build_body = ref_groups_build_body /\
  gen_groups_mult_from = ref_groups_mult_from /\
  gen_groups_mult_to = ref_groups_mult_to /\
  gen_groups_mult_step = ref_groups_mult_step /\
  gen_groups_mult_body = ref_groups_mult_body /\
  gen_groups_fill_firstGroup = ref_groups_fill_firstGroup /\
  gen_groups_fill_nextGroup = ref_groups_fill_nextGroup /\
  gen_groups_refill_firstGroup = ref_groups_refill_firstGroup /\
  gen_sg_renum_from = ref_sg_renum_from /\
  gen_sg_renum_to = ref_sg_renum_to /\
  gen_sg_renum_step = ref_sg_renum_step /\
  gen_sg_renum_body = ref_sg_renum_body /\
  gen_sg_build_from = ref_sg_build_from /\
  gen_sg_build_to = ref_sg_build_to /\
  gen_sg_build_step = ref_sg_build_step /\
  gen_sg_build_body = ref_sg_build_body /\
  gen_sg_mult_from = ref_sg_mult_from /\
  gen_sg_mult_to = ref_sg_mult_to /\
  gen_sg_mult_step = ref_sg_mult_step /\
  gen_sg_mult_body = ref_sg_mult_body /\
  gen_sg_refill_firstgroup = ref_sg_refill_firstgroup /\
  gen_sg_refill_multgroup = ref_sg_refill_multgroup.
Proof. exact generated_is_reference. Qed.
Print Assumptions C05_generated_is_reference.

(* the reference chase / compression loops are the functions the merge proofs are about *)
Theorem C05_reference_loops_are_model :
  (forall fuel mp c, zchase fuel (lift mp) (Z.of_nat c) = Z.of_nat (chase fuel mp c)) /\
  (forall fuel mp mz c m, (forall x, (0 <= x)%Z -> mz x = lift mp x) ->
     forall x, (0 <= x)%Z -> zcompress fuel mz (Z.of_nat c) (Z.of_nat m) x = lift (compress (S fuel) mp c m) x).
Proof. exact (conj zchase_is_chase zcompress_is_compress). Qed.
Print Assumptions C05_reference_loops_are_model.

(* first member walk of friendsoffriends: chase to the root and take the MINIMUM, or number the point *)
Theorem C05_ref_fof_pass1_spec : forall fuel s,
  let p := rd s "cell" (sv s "l") in
  let s' := ref_fof_pass1_body fuel s in
  sv s' "l" = rd s "cg_next" (sv s "l") /\
  (forall x, rd s' "mapGroups" x = rd s "mapGroups" x) /\
  (rd s "inGroup" p <> (-1)%Z ->
     sv s' "minEarly" = Z.min (sv s "minEarly") (zchase fuel (rd s "mapGroups") (rd s "inGroup" p)) /\
     (forall x, rd s' "inGroup" x = rd s "inGroup" x)) /\
  (rd s "inGroup" p = (-1)%Z ->
     sv s' "minEarly" = sv s "minEarly" /\ (forall x, rd s' "inGroup" x = zupd (rd s "inGroup") p (sv s "nMapGroups") x)).
Proof. exact ref_fof_pass1_spec. Qed.
Print Assumptions C05_ref_fof_pass1_spec.

(* second member walk: the full path-compression loop towards minEarly *)
Theorem C05_ref_fof_pass2_spec : forall fuel s,
  let p := rd s "cell" (sv s "l") in
  let s' := ref_fof_pass2_body fuel s in
  sv s' "l" = rd s "cg_next" (sv s "l") /\
  sv s' "minEarly" = sv s "minEarly" /\
  (forall x, rd s' "inGroup" x = rd s "inGroup" x) /\
  (forall x, rd s' "mapGroups" x = zcompress fuel (rd s "mapGroups") (rd s "inGroup" p) (sv s "minEarly") x).
Proof. exact ref_fof_pass2_spec. Qed.
Print Assumptions C05_ref_fof_pass2_spec.

(* flattening pass, list building (next before first), loop bounds and directions, fill values, small steps *)
Theorem C05_ref_tail_specs :
  (forall s, rd s "mapGroups" (sv s "i") <> (-1)%Z ->
     (rd s "mapGroups" (sv s "i") = sv s "i" ->
        (forall x, rd (ref_fof_flat_body s) "mapGroups" x = zupd (rd s "mapGroups") (sv s "i") (sv s "nGroups") x) /\
        sv (ref_fof_flat_body s) "nGroups" = (sv s "nGroups" + 1)%Z) /\
     (rd s "mapGroups" (sv s "i") <> sv s "i" ->
        (forall x, rd (ref_fof_flat_body s) "mapGroups" x =
                   zupd (rd s "mapGroups") (sv s "i") (rd s "mapGroups" (rd s "mapGroups" (sv s "i"))) x) /\
        sv (ref_fof_flat_body s) "nGroups" = sv s "nGroups")) /\
  (forall s x, rd (ref_sg_build_body s) "nextgroup" x = zupd (rd s "nextgroup") (sv s "i") (rd s "firstgroup" (rd s "ingroup" (sv s "i"))) x /\
               rd (ref_sg_build_body s) "firstgroup" x = zupd (rd s "firstgroup") (rd s "ingroup" (sv s "i")) (sv s "i") x) /\
  (forall s, ref_groups_partner_from s = 0%Z /\ ref_groups_partner_to s = sv s "nTargets" /\ ref_groups_partner_step s = 1%Z /\
             ref_sg_renum_from s = 0%Z /\ ref_sg_renum_to s = sv s "npoints" /\ ref_sg_renum_step s = 1%Z /\
             ref_fof_flat_from s = 0%Z /\ ref_fof_flat_to s = sv s "nMapGroups" /\ ref_fof_flat_step s = 1%Z /\
             ref_sg_build_from s = (sv s "npoints" - 1)%Z /\ ref_sg_build_to s = (-1)%Z /\ ref_sg_build_step s = (-1)%Z) /\
  (forall s, sv (ref_groups_partner_body s) "minGroup" = Z.min (sv s "minGroup") (rd s "inGroup" (sv s "j"))).
Proof.
  exact (conj (fun s H => ref_fof_flat_spec s H)
        (conj (fun s x => proj2 (proj2 (proj2 ref_build_spec)) s x)
        (conj (fun s => match ref_headers s with
                        | conj _ (conj (conj f1 (conj f2 f3)) (conj _ (conj _ (conj _ (conj _ (conj (conj p1 (conj p2 p3)) (conj _ (conj _ (conj _
                            (conj _ (conj _ (conj _ (conj (conj r1 (conj r2 r3)) (conj (conj b1 (conj b2 b3)) _)))))))))))))) =>
                            conj p1 (conj p2 (conj p3 (conj r1 (conj r2 (conj r3 (conj f1 (conj f2 (conj f3 (conj b1 (conj b2 b3))))))))))
                        end)
              (fun s => proj1 (proj1 (ref_small_steps s)))))).
Qed.
Print Assumptions C05_ref_tail_specs.


(* ================================================================== round 5: the link relation, certified *)
(* The link relation the specification is evaluated on is no longer the implementation's own gcirc: C05/Sky.v computes it
   from the coordinates the caller passed (exact rationals, degrees) by interval arithmetic (library Interval, 150 bits).
     cossep p q  = sin d1 sin d2 + cos d1 cos d2 cos (a1 - a2)      cosine of the angular separation (reals, radians via PI/180)
     LhiR, LloR  = rad(L) (1 +- rel) +- abs                        a band around the linking List.length (rel 1e-9, abs 1e-13 rad
                                                                    in the harness; inside it the implementation's bit is kept) *)
From Coq Require Import Reals QArith.
From PV Require Import C05.Sky C05.SkyProofs C05.Coverage.
Close Scope string_scope. Close Scope Q_scope. Close Scope R_scope. Close Scope Z_scope. Open Scope nat_scope.

(* every `true' of the certified link relation is a separation of at most Lhi, every `false' (i <> j) one above Llo;
   the relation is symmetric and reflexive by construction; the bit-mask rows handed to the oracle read back as it *)
Theorem C05_sky_link_certified : forall pts L rel abs impl,
  (sky_ok pts L rel abs impl = true ->
   forall i j p q, nth_error pts i = Some p -> nth_error pts j = Some q ->
     (sky_link pts L rel abs impl i j = true -> (cos (LhiR L rel abs) <= cossep p q)%R) /\
     (i <> j -> sky_link pts L rel abs impl i j = false -> (cossep p q < cos (LloR L rel abs))%R)) /\
  (forall i j, sky_link pts L rel abs impl i j = sky_link pts L rel abs impl j i) /\
  (forall i, sky_link pts L rel abs impl i i = true) /\
  (forall i j, i < List.length pts -> j < List.length pts ->
     link_of (sky_rows pts L rel abs impl) i j = sky_link pts L rel abs impl i j).
Proof.
  exact (fun pts L rel abs impl => conj (sky_link_certified pts L rel abs impl)
          (conj (sky_link_sym pts L rel abs impl) (conj (sky_link_refl pts L rel abs impl) (sky_rows_link pts L rel abs impl)))).
Qed.
Print Assumptions C05_sky_link_certified.

(* reading of the two inequalities: cossep is a cosine, and for 0 <= t <= PI  "separation <= t"  is  cos t <= cossep *)
Theorem C05_cossep_is_separation : forall p q t,
  (-1 <= cossep p q <= 1)%R /\ ((0 <= t <= PI)%R -> (acos (cossep p q) <= t <-> cos t <= cossep p q)%R) /\
  cossep p q = cossep q p /\ cossep p p = 1%R.
Proof.
  exact (fun p q t => conj (cossep_bound p q) (conj (fun Ht => acos_le_iff (cossep p q) t (cossep_bound p q) Ht)
          (conj (cossep_sym p q) (cossep_refl p)))).
Qed.
Print Assumptions C05_cossep_is_separation.

(* the end-to-end theorem for the certified link relation: symmetry and reflexivity are no longer hypotheses *)
Theorem C05_spheregroup_sky_spec : forall pts L rel abs impl cells,
  (forall c a, In c cells -> In a c -> a < List.length pts) ->
  pair_coverage (List.length pts) (sky_link pts L rel abs impl) cells ->
  spheregroup_full (List.length pts) (sky_link pts L rel abs impl) cells = spec_output (List.length pts) (sky_link pts L rel abs impl).
Proof. exact spheregroup_sky_spec. Qed.
Print Assumptions C05_spheregroup_sky_spec.

Example C05_example_sky :     (* RA 359.9, 0.05, 10, 360, -0.1 degrees; linking length 0.2: four positions around the seam link *)
  let pts := [((3599, 10), (0, 1)); ((1, 20), (0, 1)); ((10, 1), (0, 1)); ((360, 1), (1, 10)); ((-1, 10), (1, 10))]%Z in
  let impl := fun _ _ : nat => false in
  sky_ok pts (1, 5)%Z (1, 1000000000)%Z (1, 10000000000000)%Z impl = true /\
  sky_rows pts (1, 5)%Z (1, 1000000000)%Z (1, 10000000000000)%Z impl = [27; 27; 4; 27; 27]%Z.
Proof. vm_compute. split; reflexivity. Qed.

(* ================================================================== round 5: what is behind pair_coverage *)
(* pair_coverage follows from two facts about chunks.assign (lists built in index order, one list per cell, the non-empty
   ones visited): every point is entered in the cell that contains it, and for a linked pair the cell containing one
   point is among the cells the other point is entered in (either way round) *)
Theorem C05_pair_coverage_reduction : forall (cellid : Type) (ceqb : cellid -> cellid -> bool),
  (forall a b, ceqb a b = true <-> a = b) ->
  forall n link cells_of home ids,
  home_assigned cellid n cells_of home ids -> margin_coverage cellid n link cells_of home ->
  pair_coverage n link (assign_lists cellid ceqb n cells_of ids) /\
  (forall c a, In c (assign_lists cellid ceqb n cells_of ids) -> In a c -> a < n) /\
  ((forall a b, a < n -> b < n -> link a b = link b a) -> (forall a, a < n -> link a a = true) ->
   spheregroup_full n link (assign_lists cellid ceqb n cells_of ids) = spec_output n link).
Proof.
  exact (fun cellid ceqb Hc n link cells_of home ids Hh Hm =>
    conj (pair_coverage_of_margin cellid ceqb Hc n link cells_of home ids Hh Hm)
      (conj (assign_lists_valid cellid ceqb Hc n link cells_of home ids)
            (fun Hs Hr => spheregroup_margin_spec cellid ceqb Hc n link cells_of home ids Hs Hr Hh Hm))).
Qed.
Print Assumptions C05_pair_coverage_reduction.

(* the two facts in exact arithmetic away from the 0/360 seam, from C04's model of getbounds / fill_cells: if the exact
   walks succeed for every point, every point lies in a cell of the grid, and for every linked pair the declination and
   right-ascension differences are below marginSize and raMargin of one of the two points (what C04_dec_margin_covers and
   C04_ra_margin_covers give over the reals), then margin_coverage and home_assigned hold *)
Theorem C05_margin_coverage_exact_nowrap : forall n link decB raB ra dec m mg b hs hr,
  C04.Bounds.mono decB (List.length decB - 1) ->
  (forall s, s < List.length decB - 1 -> C04.Bounds.mono (nth s raB []) (List.length (nth s raB []) - 1)) ->
  (forall i, i < n -> C04.Model.getbounds_model decB raB (ra i) (dec i) m (mg i) = Some (b i)) ->
  (forall i, i < n -> in_home decB raB ra dec hs hr i) ->
  (forall i j, i < n -> j < n -> link i j = true -> within_margins ra dec m mg i j \/ within_margins ra dec m mg j i) ->
  margin_coverage C04.Model.cell n link (cells_of_exact raB b) (home_exact hs hr) /\
  (forall ids, (forall i, i < n -> In (home_exact hs hr i) ids) ->
     (forall i, i < n -> (0 < m)%Q /\ (0 < mg i)%Q) ->
     home_assigned C04.Model.cell n (cells_of_exact raB b) (home_exact hs hr) ids).
Proof.
  exact (fun n link decB raB ra dec m mg b hs hr H1 H2 H3 H4 H5 =>
    conj (margin_coverage_exact_nowrap n link decB raB ra dec m mg b hs hr H1 H2 H3 H4 H5)
         (home_assigned_exact_nowrap n decB raB ra dec m mg b hs hr H1 H2 H3 H4)).
Qed.
Print Assumptions C05_margin_coverage_exact_nowrap.

Example C05_example_coverage :     (* three points in a row, two cells: the lists assign builds, and the end-to-end equation *)
  let link := fun i j => Nat.eqb i j || (Nat.eqb i 0 && Nat.eqb j 1) || (Nat.eqb i 1 && Nat.eqb j 0)
                         || (Nat.eqb i 1 && Nat.eqb j 2) || (Nat.eqb i 2 && Nat.eqb j 1) in
  let cells_of := fun i => match i with 0 => [0] | 1 => [0; 1] | _ => [1] end in
  assign_lists nat Nat.eqb 3 cells_of [0; 1; 2] = [[0; 1]; [1; 2]] /\
  spheregroup_full 3 link (assign_lists nat Nat.eqb 3 cells_of [0; 1; 2]) = spec_output 3 link.
Proof. vm_compute. split; reflexivity. Qed.

Example C05_example_exact_cells :  (* C04's getbounds model on a 3 x 3 grid: a point near a corner is entered in four cells *)
  option_map (C04.Model.fill_cells (C04.Bounds.nRa_of_bounds [[0;2;4;6];[0;2;4;6];[0;2;4;6]]%Q))
    (C04.Model.getbounds_model [-3; -1; 1; 3]%Q [[0;2;4;6];[0;2;4;6];[0;2;4;6]]%Q (19#10) (9#10) (1#2) (1#2))
  = Some [(1, 0); (1, 1); (2, 0); (2, 1)]%Z.
Proof. vm_compute. reflexivity. Qed.

(* ================================================================== round 5: the route to the separation routine *)
(* groups.sphereradec, chunks.chunkfriendsoffriends and the head of spheregroup() (single-point guard, chunk-size rule, the
   chunks / assign / friendsoffriends calls and their arguments), regenerated from the source on every run as normalised
   source text, are the reference text of C05/GenRef.v: the separation is gcirc(ra1, dec1, ra2, dec2, units=0) on
   deg2rad(vstack((ra, dec))), compared with deg2rad(linkSep); the margin handed to chunks.assign is the linking length *)
Open Scope string_scope.
Theorem C05_route_is_reference :
  gen_route_sphereradec_args = ref_route_sphereradec_args /\ gen_route_sphereradec = ref_route_sphereradec /\
  gen_route_chunkfof_args = ref_route_chunkfof_args /\ gen_route_chunkfof = ref_route_chunkfof /\
  gen_route_spheregroup_args = ref_route_spheregroup_args /\ gen_route_spheregroup_defaults = ref_route_spheregroup_defaults /\
  gen_route_spheregroup_head = ref_route_spheregroup_head.
Proof.
  exact (conj eq_refl (conj eq_refl (conj eq_refl (conj eq_refl (conj eq_refl (conj eq_refl eq_refl)))))).
Qed.
Print Assumptions C05_route_is_reference.
Close Scope string_scope.

(* the real-number reading of the routine sphereradec calls -- goddard.astro.gcirc, extracted on every run into
   Generated/Groups.v (module GcircSrc; extractor translate/c18.py gen_gcirc) -- with units = 0, applied to the radians
   of two positions, is the arc cosine of cossep: `gcirc(...) <= t`  is  `cos t <= cossep`  for 0 <= t <= PI, which is the
   comparison the certified link relation decides *)
From PV Require Import C05.SkyRoute.
Theorem C05_link_routine_is_separation : forall p q t,
  GcircSrc.gcirc_gen 0 (radR (ratR (fst p))) (radR (ratR (snd p))) (radR (ratR (fst q))) (radR (ratR (snd q)))
    = acos (cossep p q) /\
  ((0 <= t <= PI)%R ->
   (GcircSrc.gcirc_gen 0 (radR (ratR (fst p))) (radR (ratR (snd p))) (radR (ratR (fst q))) (radR (ratR (snd q))) <= t
    <-> cos t <= cossep p q)%R).
Proof. exact link_routine_is_separation. Qed.
Print Assumptions C05_link_routine_is_separation.
