(* Yanny/EnumLayout.v -- layouts INSIDE an enum typedef block that the enum scanner reads as the enum
   (TypedefLayout.etd_reads): any blank run (blanks, tabs, newlines) before the first label, after every comma and after the
   last label; labels separated by commas (no blank BEFORE a comma: the reader would keep it in the label).
   The text around the braces is fixed: typedef enum {body} NAME;  and NAME is the type word of the struct declarations. *)
From Coq Require Import NArith ZArith List Bool Lia.
Import ListNotations.
From PV Require Import Yanny.Bytes Yanny.BytesFacts Yanny.Types Yanny.Parse Yanny.Render
  Yanny.TokenFacts Yanny.RowFacts Yanny.TypeFacts Yanny.DocFacts Yanny.LayoutFacts Yanny.ScanFacts Yanny.StructFacts
  Yanny.EnumFacts Yanny.DtypeFacts Yanny.FileFacts Yanny.RoundTrip Yanny.TypedefLayout Yanny.StructLayout.
Open Scope N_scope.

(* labels with the blank run after each comma *)
Fixpoint gtext (labels : list bytes) (gaps : list bytes) : bytes :=
  match labels, gaps with
  | [], _ => []
  | [n], _ => n
  | n :: l, g :: gs => n ++ [COMMA] ++ g ++ gtext l gs
  | n :: l, [] => n ++ [COMMA] ++ gtext l []
  end.
Definition ebody (lead : bytes) (labels gaps : list bytes) (trail : bytes) : bytes := lead ++ gtext labels gaps ++ trail.

Lemma gtext_cons2 n m l gaps : gtext (n :: m :: l) gaps = n ++ [COMMA] ++ hd [] gaps ++ gtext (m :: l) (tl gaps).
Proof. destruct gaps; reflexivity. Qed.

Lemma split_commas_gtext labels : labels_ok labels = true -> labels <> [] -> forall gaps, forallb all_ws gaps = true ->
  forall sk, split_commas sk [] (gtext labels gaps) = labels.
Proof.
  unfold labels_ok. induction labels as [|n l IH]; [congruence|]. intros H _ gaps Hg sk. cbn [forallb] in H. apply andb_true_iff in H as [Hn Hl].
  apply andb_true_iff in Hn as [Hw Hne]. apply negb_true_iff in Hne. apply beq_neq in Hne.
  destruct l as [|m l].
  - cbn [gtext]. rewrite <- (app_nil_r n) at 1. rewrite sc_word by (auto; intros _; reflexivity).
    destruct n; [congruence|]. cbn [split_commas]. now rewrite app_nil_r, rev_involutive.
  - rewrite gtext_cons2. rewrite sc_word by (auto; intros _; reflexivity). destruct n as [|x n]; [congruence|].
    cbn [app split_commas]. change (is_ws COMMA) with false. rewrite andb_false_r. change (COMMA =? COMMA) with true. cbv iota.
    rewrite app_nil_r, rev_involutive. f_equal.
    assert (Hh : all_ws (hd [] gaps) = true) by (destruct gaps; [reflexivity|]; cbn [forallb] in Hg; now apply andb_true_iff in Hg as [Hg _]).
    assert (Ht : forallb all_ws (tl gaps) = true) by (destruct gaps; [reflexivity|]; cbn [forallb] in Hg; now apply andb_true_iff in Hg as [_ Hg]).
    rewrite sc_skip by auto. apply IH; auto. discriminate.
Qed.

Lemma gtext_head labels gaps : labels_ok labels = true -> head_not_ws (gtext labels gaps).
Proof.
  unfold labels_ok. destruct labels as [|n l]; [reflexivity|]. cbn [forallb]. intros H. apply andb_true_iff in H as [Hn _].
  apply andb_true_iff in Hn as [Hw Hne]. apply negb_true_iff in Hne. apply beq_neq in Hne.
  destruct n as [|x n]; [congruence|]. cbn [forallb] in Hw. apply andb_true_iff in Hw as [Hx _].
  destruct l; [|rewrite gtext_cons2]; cbn [gtext app head_not_ws]; now apply word_not_ws.
Qed.

Lemma gtext_nonempty labels gaps : labels_ok labels = true -> labels <> [] -> gtext labels gaps <> [].
Proof.
  unfold labels_ok. destruct labels as [|n l]; [congruence|]. cbn [forallb]. intros H _. apply andb_true_iff in H as [Hn _].
  apply andb_true_iff in Hn as [_ Hne]. apply negb_true_iff in Hne. apply beq_neq in Hne.
  destruct n as [|x n]; [congruence|]. destruct l; [|rewrite gtext_cons2]; cbn [gtext app]; discriminate.
Qed.

Lemma gtext_last labels : labels_ok labels = true -> labels <> [] -> forall gaps, last_not_ws (gtext labels gaps).
Proof.
  unfold labels_ok. induction labels as [|n l IH]; [congruence|]. cbn [forallb]. intros H _ gaps. apply andb_true_iff in H as [Hn Hl].
  apply andb_true_iff in Hn as [Hw Hne]. apply negb_true_iff in Hne. apply beq_neq in Hne.
  destruct l as [|m l].
  - cbn [gtext]. unfold last_not_ws. destruct (rev n) as [|x t] eqn:E; auto.
    assert (In x n) by (apply in_rev; rewrite E; now left). rewrite forallb_forall in Hw. apply word_not_ws. auto.
  - rewrite gtext_cons2.
    assert (Hs : gtext (m :: l) (tl gaps) <> []) by (apply gtext_nonempty; auto; discriminate).
    apply last_not_ws_app_r; [destruct (hd [] gaps); discriminate|]. apply last_not_ws_app_r; [destruct (hd [] gaps); [exact Hs|discriminate]|].
    apply last_not_ws_app_r; [exact Hs|]. apply IH; auto. discriminate.
Qed.

Definition ech (x : N) : bool := is_word x || (x =? COMMA) || wsch x.
Lemma ech_gtext labels : labels_ok labels = true -> forall gaps, forallb (forallb wsch) gaps = true -> forallb ech (gtext labels gaps) = true.
Proof.
  unfold labels_ok. induction labels as [|n l IH]; intros H gaps Hg; [reflexivity|]. cbn [forallb] in H. apply andb_true_iff in H as [Hn Hl].
  apply andb_true_iff in Hn as [Hw _].
  assert (Wn : forallb ech n = true) by (eapply forallb_impl; [|exact Hw]; intros x Hx; unfold ech; now rewrite Hx).
  destruct l as [|m l]; [exact Wn|]. rewrite gtext_cons2. rewrite !forallb_app. rewrite Wn. cbn [forallb].
  assert (Hh : forallb wsch (hd [] gaps) = true) by (destruct gaps; [reflexivity|]; cbn [forallb] in Hg; now apply andb_true_iff in Hg as [Hg _]).
  assert (Ht : forallb (forallb wsch) (tl gaps) = true) by (destruct gaps; [reflexivity|]; cbn [forallb] in Hg; now apply andb_true_iff in Hg as [_ Hg]).
  rewrite (forallb_impl wsch ech (hd [] gaps)) by (auto; intros x Hx; unfold ech; rewrite Hx; now rewrite orb_true_r).
  change (ech COMMA) with true. cbn [andb]. now apply IH.
Qed.

Lemma ech_facts x : ech x = true -> textch x = true /\ (x =? RBRACE) = false /\ (x =? BSL) = false.
Proof.
  unfold ech, wsch, textch. intros H. repeat split.
  - nclass; intuition lia.
  - apply N.eqb_neq. intros ->. discriminate.
  - apply N.eqb_neq. intros ->. discriminate.
Qed.

Theorem ebody_etd_reads e lead gaps trail :
  enum_ok e = true -> forallb wsch lead = true -> forallb (forallb wsch) gaps = true -> forallb wsch trail = true ->
  no_td (ebody lead (e_labels e) gaps trail) = true ->
  etd_reads e (ebody lead (e_labels e) gaps trail) (upper (e_tname e)).
Proof.
  intros He Hl Hg Ht Tb. destruct (enum_ok_parts e He) as [_ [Hn [Hne Hlab]]]. destruct (ident_word _ Hn) as [Hn1 Hn2].
  pose proof (idents_labels_ok _ Hlab) as Hlo.
  set (name := upper (e_tname e)). set (body := ebody lead (e_labels e) gaps trail) in *.
  assert (Nw : forallb is_word name = true) by (now apply upper_word).
  assert (Nne : name <> []) by (subst name; destruct (e_tname e); [congruence|discriminate]).
  assert (B : forallb ech body = true).
  { subst body. unfold ebody. rewrite !forallb_app. rewrite (ech_gtext _ Hlo gaps Hg).
    rewrite (forallb_impl wsch ech lead) by (auto; intros x Hx; unfold ech; rewrite Hx; now rewrite orb_true_r).
    rewrite (forallb_impl wsch ech trail) by (auto; intros x Hx; unfold ech; rewrite Hx; now rewrite orb_true_r). reflexivity. }
  assert (Bt : forallb textch body = true) by (eapply forallb_impl; [|exact B]; intros x Hx; now destruct (ech_facts x Hx)).
  assert (Br : mem RBRACE body = false).
  { apply mem_false_forallb. eapply forallb_impl; [|exact B]. intros x Hx. destruct (ech_facts x Hx) as [_ [E _]]. now rewrite E. }
  assert (Bb : mem BSL body = false).
  { apply mem_false_forallb. eapply forallb_impl; [|exact B]. intros x Hx. destruct (ech_facts x Hx) as [_ [_ E]]. now rewrite E. }
  assert (Bne : body <> []).
  { subst body. unfold ebody. pose proof (gtext_nonempty (e_labels e) gaps Hlo Hne) as G. destruct lead; [|discriminate].
    cbn [app]. destruct (gtext (e_labels e) gaps); [congruence|discriminate]. }
  assert (Nt : forallb textch name = true) by (eapply forallb_impl; [|exact Nw]; intros x Hx; unfold textch; nclass).
  assert (Nb : mem BSL name = false) by (now apply (word_mem BSL)).
  split; [split; [|split]|].
  - cbn [item_ok seg_ok]. repeat split; auto. subst name. apply no_td_word_upper.
  - cbn [item_text]. unfold td_text. rewrite !forallb_app. rewrite Bt, Nt. reflexivity.
  - cbn [item_text]. apply cont_okb_nobsl. unfold td_text. rewrite !mem_app. rewrite Bb, Nb. reflexivity.
  - unfold enum_entry, enum_entry_g.
    pose proof (match_typedef_text KW_ENUM body name [] (or_intror eq_refl) Bne Br Nne Nw) as M. rewrite app_nil_r in M. rewrite M.
    rewrite enum_body_of_id.
    2:{ apply mem_false_forallb. eapply forallb_impl; [|exact B]. intros x Hx. apply negb_true_iff, N.eqb_neq. intros ->. discriminate. }
    f_equal. f_equal. subst body. unfold ebody, strip.
    replace (lead ++ gtext (e_labels e) gaps ++ trail) with ((lead ++ gtext (e_labels e) gaps) ++ trail) by (now rewrite <- app_assoc).
    rewrite rstrip_app_ws by (now apply wsch_all_ws). rewrite rstrip_id.
    + rewrite lstrip_ws_app_id; [|now apply wsch_all_ws|now apply gtext_head]. apply split_commas_gtext; auto.
      eapply forallb_impl; [|exact Hg]. intros g. apply wsch_all_ws.
    + apply last_not_ws_app_r; [now apply gtext_nonempty|now apply gtext_last].
Qed.

(* the writer's own enum typedef is one of them *)
Theorem canonical_etd_reads e : enum_ok e = true -> etd_reads e (fst (enum_td e)) (snd (enum_td e)).
Proof.
  intros He. split; [now apply enum_good|]. destruct (enum_ok_parts e He) as [_ [Hn [Hne Hl]]]. destruct (ident_word _ Hn) as [Hn1 Hn2].
  cbn [enum_td fst snd]. change (td_text KW_ENUM (NL :: unlines (elines (e_labels e))) (upper (e_tname e)))
    with (enum_text (e_labels e) (upper (e_tname e))).
  apply enum_entry_rendered; auto.
  - now apply idents_labels_ok.
  - destruct (e_tname e); [congruence|discriminate].
  - now apply upper_word.
Qed.
