(* C17 -- djs_reject called with BOTH sigma and invvar (or with neither): which scaling applies.
   The documentation says "If both sigma and invvar are set, invvar will be ignored"; the property speaks of limits
   "in units of the supplied sigma or 1/sqrt(invvar)".  M (reject_model2) selects the scaling of every limit branch by
   the tests GENERATED from the source; S (reject_spec2) by the documented rule. *)
From Coq Require Import ZArith QArith Qabs List Bool Lia.
Import ListNotations.
From PV Require Import C17.Model C17.ProofsReject.
From PV Require Import Generated.Reject.
Open Scope Q_scope.

(* obligations on the generated selectors: the source tests `sigma is not None` in both limit blocks and estimates a
   sigma exactly when neither keyword is given.  A source that keys the choice on invvar makes these fail. *)
Lemma gen_lower_use_sigma : forall sg ivg, rej_lower_use_sigma sg ivg = sg.
Proof. reflexivity. Qed.
Lemma gen_upper_use_sigma : forall sg ivg, rej_upper_use_sigma sg ivg = sg.
Proof. reflexivity. Qed.
Lemma gen_estimates_sigma : forall sg ivg, rej_estimates_sigma sg ivg = negb sg && negb ivg.
Proof. intros [|] [|]; reflexivity. Qed.

Lemma badness2_same : forall o p sc, badness2 o p sc sc = badness o (with_scale p sc).
Proof. reflexivity. Qed.

Lemma badness2_no_limits : forall o p a b c d, o_lower o = None -> o_upper o = None ->
  badness2 o p a b = badness2 o p c d.
Proof. intros o p a b c d Hl Hu. unfold badness2, lower_term, upper_term. rewrite Hl, Hu. reflexivity. Qed.

Lemma badness2_resolve : forall o sg ivg q, call2_ok o sg ivg = true ->
  badness2 o (q_pt q) (pick_scale (rej_lower_use_sigma (sigma_set sg ivg) ivg) q)
                      (pick_scale (rej_upper_use_sigma (sigma_set sg ivg) ivg) q)
  = badness o (resolve sg q).
Proof.
  intros o sg ivg q H. rewrite gen_lower_use_sigma, gen_upper_use_sigma.
  unfold sigma_set. rewrite gen_estimates_sigma. unfold resolve. rewrite <- badness2_same.
  destruct sg; [reflexivity|]. destruct ivg; [reflexivity|].
  unfold call2_ok in H. cbn [orb] in H.
  destruct (o_lower o) eqn:Hl; [discriminate|]. destruct (o_upper o) eqn:Hu; [discriminate|].
  apply badness2_no_limits; assumption.
Qed.

Lemma combine_map_r : forall {A B C} (f : B -> C) (a : list A) (b : list B),
  combine a (map f b) = map (fun t => (fst t, f (snd t))) (combine a b).
Proof.
  intros A B C f a. induction a as [|x a IH]; intros [|y b]; cbn; try reflexivity. now rewrite IH.
Qed.

(* M with the generated selectors = the one-scale model on the points resolved by the documented rule *)
Theorem reject_model2_resolve : forall o sg ivg qs, call2_ok o sg ivg = true ->
  reject_model2 o sg ivg qs = reject_model o (map (resolve sg) qs).
Proof.
  intros o sg ivg qs H. unfold reject_model2, reject_model.
  assert (NM : map (fun q => rej_newmask (rej_products
                 (badness2 o (q_pt q) (pick_scale (rej_lower_use_sigma (sigma_set sg ivg) ivg) q)
                                      (pick_scale (rej_upper_use_sigma (sigma_set sg ivg) ivg) q))
                 (p_in (q_pt q)) (p_out (q_pt q)) (o_sticky o))) qs
               = map (fun p => rej_newmask (badness_masked o p)) (map (resolve sg) qs)).
  { rewrite map_map. apply map_ext. intros q. unfold badness_masked.
    rewrite (badness2_resolve o sg ivg q H). reflexivity. }
  rewrite NM. rewrite combine_map_r, !map_map. reflexivity.
Qed.

(* M = S for calls with any combination of the two keywords (neither: only with the absolute limit) *)
Theorem reject_model2_eq_spec2 : forall o sg ivg qs, call2_ok o sg ivg = true -> pre o (map (resolve sg) qs) ->
  reject_model2 o sg ivg qs = reject_spec2 o sg ivg qs.
Proof.
  intros o sg ivg qs H P. rewrite (reject_model2_resolve o sg ivg qs H). unfold reject_spec2.
  apply reject_model_eq_spec, P.
Qed.

(* sigma supplied: the answer is the one for the supplied sigma, whether or not invvar is supplied too and whatever
   it holds ("invvar will be ignored") *)
Theorem reject_sigma_wins : forall o ivg ivg' qs qs',
  map (fun q => (q_pt q, q_sigma q)) qs = map (fun q => (q_pt q, q_sigma q)) qs' ->
  reject_model2 o true ivg qs = reject_model2 o true ivg' qs'.
Proof.
  intros o ivg ivg' qs qs' E. rewrite !reject_model2_resolve by reflexivity. f_equal.
  assert (R : forall l, map (resolve true) l = map (fun t => with_scale (fst t) (Sig (snd t))) (map (fun q => (q_pt q, q_sigma q)) l)).
  { intros l. rewrite map_map. apply map_ext. reflexivity. }
  rewrite !R, E. reflexivity.
Qed.

(* only invvar supplied: units of 1/sqrt(invvar) *)
Theorem reject_invvar_alone : forall o qs,
  reject_model2 o false true qs = reject_model o (map (fun q => with_scale (q_pt q) (Ivar (q_invvar q))) qs).
Proof. intros o qs. rewrite reject_model2_resolve by reflexivity. reflexivity. Qed.
